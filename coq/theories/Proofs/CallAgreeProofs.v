(** * The environment agreement assumed by [return_expression_simulation] holds at every call whose arguments and
    globals are numeric values of the declared types: reference-semantics frame [[]; params := values] over the globals,
    VM frame with the same values by position and the same globals by name. *)
From Coq Require Import String ZArith List Bool PrimFloat Arith Lia.
From NSL Require Import Base.Types Base.Syntax Spec.Overload Model.PyNum Model.IR Model.VM Model.TypesBin Model.Elab Model.Lower Spec.RefSem
                        Proofs.OpsAgree Proofs.LowerExprProofs Proofs.ElabExprProofs Proofs.ReturnExprProofs.
Import ListNotations.

Fixpoint go_idx (x : string) (l : list string) (k : nat) : varname :=
  match l with [] => VName x | y :: r => if String.eqb x y then VIndex k else go_idx x r (S k) end.
Lemma arg_idx_go args x : arg_idx args x = go_idx x args 0.
Proof. unfold arg_idx. generalize 0. induction args as [|a l IH]; intros k; cbn; [reflexivity|]. destruct (String.eqb x a); [reflexivity|apply IH]. Qed.

Lemma existsb_false_notin x l : ~ In x l -> existsb (String.eqb x) l = false.
Proof. induction l as [|y l IH]; cbn; intros H; [reflexivity|]. destruct (String.eqb_spec x y); [exfalso; apply H; left; congruence|]. apply IH. intro; apply H; right; assumption. Qed.
Lemma existsb_true_in x l : In x l -> existsb (String.eqb x) l = true.
Proof. induction l as [|y l IH]; cbn; intros H; [destruct H|]. destruct H as [->|H]; [rewrite String.eqb_refl; reflexivity|]. rewrite IH by assumption. apply orb_true_r. Qed.

Lemma params_agree x : forall (params : list (ty * string)) (ws : list rval) k0 p,
  Forall2 (fun p w => has_ty w (fst p)) params ws ->
  find (fun q => String.eqb (fst q) x) (map (fun a => (snd a, fst a)) params) = Some p ->
  exists w k, find (fun q => String.eqb (fst q) x) (combine (map snd params) (map SV ws)) = Some (fst p, SV w) /\ has_ty w (snd p) /\
              go_idx x (map snd params) k0 = VIndex (k0 + k) /\ nth_error (map v_of ws) k = Some (v_of w) /\ In x (map snd params).
Proof.
  induction params as [|[t y] params IH]; intros ws k0 p Hf Hfind; [discriminate|].
  inversion Hf as [|? w0 ? ws' Hw Hrest]; subst. cbn in *. rewrite (String.eqb_sym x y).
  destruct (String.eqb_spec y x) as [->|Hne].
  - inversion Hfind; subst. exists w0, 0. cbn. rewrite Nat.add_0_r. repeat split; auto.
  - destruct (IH ws' (S k0) p Hrest Hfind) as (w & k & H1 & H2 & H3 & H4 & H5). exists w, (S k). cbn. repeat split; auto.
    rewrite H3. f_equal. lia.
Qed.

Lemma find_none_combine x : forall (names : list string) (vals : list sto),
  ~ In x names -> find (fun q : string * sto => String.eqb (fst q) x) (combine names vals) = None.
Proof.
  induction names as [|y names IH]; intros vals H; [reflexivity|]. destruct vals as [|v vals]; [reflexivity|]. cbn.
  destruct (String.eqb_spec y x); [exfalso; apply H; left; assumption|]. apply IH. intro; apply H; right; assumption.
Qed.
Lemma find_none_swap x : forall (params : list (ty * string)),
  find (fun q => String.eqb (fst q) x) (map (fun a => (snd a, fst a)) params) = None -> ~ In x (map snd params).
Proof.
  induction params as [|[t y] params IH]; cbn; intros H; [intros []|]. destruct (String.eqb_spec y x); [discriminate|].
  intros [E|E]; [congruence|]. exact (IH H E).
Qed.

Section Call.
  Variable M : module.
  Variable fn : func.
  Variable ws : list rval.
  Variable g : RefSem.frame.
  Variable vs : vmstate.
  Variable regs0 : list (nat * val).
  Hypothesis Hargs : Forall2 (fun p w => has_ty w (fst p)) (f_args fn) ws.
  Hypothesis Hdistinct : forall x, In x (map snd (f_args fn)) -> ~ In x (glnames M).
  (** every declared global holds a number of its type, the same in both states *)
  Hypothesis Hglobals : forall x p, find (fun q => String.eqb (fst q) x) (genvl M) = Some p ->
    num_ty (snd p) /\ exists w, find (fun q => String.eqb (fst q) x) g = Some (fst p, SV w) /\ has_ty w (snd p) /\ slookup x (globals vs) = Some (v_of w).

  Definition call_state : RefSem.state := {| locals := [[]; combine (map snd (f_args fn)) (map SV ws)]; globs := g |}.
  Definition call_frame : VM.frame := {| regs := regs0; vars := []; fargs := map v_of ws |}.

  Lemma has_ty_num w t : has_ty w t -> num_ty t.
  Proof. destruct w; cbn; intros ->; [left|right]; reflexivity. Qed.

  Lemma find_genvl_in x p : find (fun q => String.eqb (fst q) x) (genvl M) = Some p -> In x (glnames M).
  Proof.
    unfold genvl, glnames. induction (m_globals M) as [|[t y] l IH]; cbn; [discriminate|]. destruct (String.eqb_spec y x); [intros _; left; assumption|].
    intros H. right. apply IH. exact H.
  Qed.

  Theorem call_agreement : forall x t, tlookup (fenv M fn) x = Some t ->
    num_ty t /\ exists w, var_get call_state x = RefSem.ROk (SV w) /\ has_ty w t /\ var_val (glnames M) (argnames fn) [] call_frame vs x = Ok (v_of w).
  Proof.
    intros x t H. unfold fenv in H. cbn [tlookup find] in H.
    destruct (find (fun p => String.eqb (fst p) x) (map (fun a => (snd a, fst a)) (f_args fn))) as [p|] eqn:Ea.
    - inversion H; subst t; clear H. destruct (params_agree x (f_args fn) ws 0 p Hargs Ea) as (w & k & H1 & H2 & H3 & H4 & H5).
      split; [apply (has_ty_num _ _ H2)|]. exists w. split; [|split; [exact H2|]].
      + unfold var_get, call_state. cbn [locals frames_get find]. rewrite H1. reflexivity.
      + unfold var_val. rewrite (existsb_false_notin x (glnames M) (Hdistinct x H5)). unfold argnames. rewrite (existsb_true_in x _ H5).
        rewrite arg_idx_go, H3. cbn [call_frame fargs Nat.add]. rewrite H4. reflexivity.
    - destruct (find (fun p => String.eqb (fst p) x) (genvl M)) as [p|] eqn:Eg; [|discriminate]. inversion H; subst t; clear H.
      destruct (Hglobals x p Eg) as (Hn & w & Hg & Hw & Hs). split; [exact Hn|]. exists w. split; [|split; [exact Hw|]].
      + unfold var_get, call_state. cbn [locals globs frames_get find]. rewrite (find_none_combine x _ _ (find_none_swap x _ Ea)). rewrite Hg. reflexivity.
      + unfold var_val. rewrite (existsb_true_in x _ (find_genvl_in x p Eg)). rewrite Hs. reflexivity.
  Qed.
End Call.

(** ** the function-level statement: body execution in the reference semantics against [run] on the compiled function *)
Lemma exec_list_cons M fu s r st :
  exec_list M (S fu) (s :: r) st = (rdo p <- exec M fu s st; let '(fl, st1) := p in match fl with ONormal => exec_list M fu r st1 | _ => RefSem.ROk (fl, st1) end).
Proof. reflexivity. Qed.
Lemma exec_ret M fu e st : exec M (S fu) (SRet (Some e)) st = (rdo p <- eval M fu e st; let '(v, st1) := p in RefSem.ROk (OReturn v, st1)).
Proof. reflexivity. Qed.

Lemma exec_list_return M e : forall fuel st fl st',
  exec_list M fuel [SRet (Some e)] st = RefSem.ROk (fl, st') -> exists fu s, eval M fu e st = RefSem.ROk (s, st') /\ fl = OReturn s.
Proof.
  intros fuel st fl st' H. destruct fuel as [|f1]; [discriminate|]. rewrite exec_list_cons in H. destruct f1 as [|fu]; [discriminate|].
  rewrite exec_ret in H. destruct (eval M fu e st) as [[s st1]| | |] eqn:E; cbn [rbind] in H; try discriminate.
  inversion H; subst. exists fu, s. auto.
Qed.

Theorem return_function_simulation :
  forall (M : module) (fn : func) (e : expr) (tf : tfunc) (F : ifunc) (te : texpr),
    f_body fn = [SRet (Some e)] -> spure e = true ->
    elab_func (genv_of M) (genvl M) fn = EOk tf -> lower_func (m_structs M) (glnames M) tf = LOk F ->
    elab (genv_of M) COn (fenv M fn) e = EOk te -> tok te = true ->
    lits_exact (tflits te) -> (forall f, In f (tflits te) -> PrimFloat.eqb f f = true) ->
    forall (P : program) (ws : list rval) (g : RefSem.frame) (vs : vmstate),
      Forall2 (fun p w => has_ty w (fst p)) (f_args fn) ws ->
      (forall x, In x (map snd (f_args fn)) -> ~ In x (glnames M)) ->
      (forall x p, find (fun q => String.eqb (fst q) x) (genvl M) = Some p ->
         num_ty (snd p) /\ exists w, find (fun q => String.eqb (fst q) x) g = Some (fst p, SV w) /\ has_ty w (snd p) /\ slookup x (globals vs) = Some (v_of w)) ->
      forall fuel fl st', exec_list M fuel (f_body fn) (call_state fn ws g) = RefSem.ROk (fl, st') ->
        st' = call_state fn ws g /\
        exists v, fl = OReturn (SV v) /\ exists n, forall fuel', n <= fuel' -> run fuel' P F 0 (call_frame ws (init_regs F)) vs = Done (v_of v) vs.
Proof.
  intros M fn e tf F te Hbody Hpure Helab Hlower Hte Hk Hlit Hnan P ws g vs Hargs Hdist Hglob fuel fl st' Hex.
  rewrite Hbody in Hex. apply exec_list_return in Hex as (fu & s & Hev & ->).
  pose proof (call_agreement M fn ws g vs (init_regs F) Hargs Hdist Hglob) as Hagree.
  destruct (return_expression_simulation M fn e Hbody Hpure tf Helab F Hlower te Hte Hk Hlit Hnan P (map v_of ws) vs (call_state fn ws g) Hagree fu s st' Hev)
    as (-> & v & -> & n & Hrun).
  split; [reflexivity|]. exists v. split; [reflexivity|]. exists n. exact Hrun.
Qed.
