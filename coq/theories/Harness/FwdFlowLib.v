(** Boolean test of the hypotheses of [forwarding_preserves_functions] (C02, any control flow), evaluated by the check on
    the real compiler's IR; [fwdflow_sound] turns a positive answer into the theorem's conclusion. *)
From Coq Require Import String ZArith List Bool PrimFloat Arith.
From NSL Require Import Model.PyNum Model.IR Model.VM Model.WfIR Model.Lower Model.Opt Proofs.ForwardProofs Proofs.ForwardFlowProofs Harness.FwdLib.
Import ListNotations.

Definition local_ops_b (F : ifunc) : bool :=
  forallb (fun b => forallb (fun i => forallb (fun o => implb (memn o (instr_refs F)) (memn o (brefs b))) (operands (i_body i)) &&
                                      forallb (fun t => negb (memn t (instr_refs F))) (brtargets (i_body i))) (b_code b)) (fn_blocks F).

Definition flow_hyps_b (F : ifunc) : bool :=
  nodupb (instr_refs F) && forallb (fun b => operands_earlier_b (b_code b) && scopes_agree_b None (b_code b)) (fn_blocks F) && local_ops_b F.

Lemma flow_hyps_b_sound F : flow_hyps_b F = true -> flow_hyps F.
Proof.
  unfold flow_hyps_b, local_ops_b. intros H. apply andb_prop in H as [H Hl]. apply andb_prop in H as [Hnd Hb].
  rewrite forallb_forall in Hb, Hl. constructor.
  - apply nodupb_NoDup. exact Hnd.
  - intros b Hin. specialize (Hb b Hin). apply andb_prop in Hb as [H1 _]. apply operands_earlier_sound. exact H1.
  - intros b Hin. specialize (Hb b Hin). apply andb_prop in Hb as [_ H2]. apply scopes_agree_sound. exact H2.
  - intros b i o Hin Hi Ho Hr. specialize (Hl b Hin). rewrite forallb_forall in Hl. specialize (Hl i Hi). apply andb_prop in Hl as [H1 _].
    rewrite forallb_forall in H1. specialize (H1 o Ho). apply memn_in in Hr. rewrite Hr in H1. cbn in H1. apply memn_in. exact H1.
  - intros b i t Hin Hi Ht X. specialize (Hl b Hin). rewrite forallb_forall in Hl. specialize (Hl i Hi). apply andb_prop in Hl as [_ H2].
    rewrite forallb_forall in H2. specialize (H2 t Ht). apply negb_true_iff in H2. apply memn_in in X. congruence.
Qed.

Theorem fwdflow_sound (P : program) (F : ifunc) : flow_hyps_b F = true ->
  forall fuel fr vs w vs1, run fuel P F 0 fr vs = Done w vs1 -> exists fuel', run fuel' P (opt_load_after_store F) 0 fr vs = Done w vs1.
Proof. intros H. apply forwarding_preserves_functions. apply flow_hyps_b_sound. exact H. Qed.

(** for the evidence: 1000000 * functions + 10000 * inside the fragment + 100 * those among them with several blocks
    + those in which the pass forwards something *)
Definition fwdflow_case (P : program) : Z :=
  match (fix go (l : list ifunc) : option (list ifunc) :=
           match l with [] => Some [] | f :: r => match opt_const_casts f, go r with OOk f', Some r' => Some (f' :: r') | _, _ => None end end) (p_funcs P) with
  | Some fs =>
      let inside := filter flow_hyps_b fs in
      let multi := filter (fun F => Nat.ltb 1 (length (fn_blocks F))) inside in
      let active := filter (fun F => existsb (fun b => negb (Nat.eqb (length (las_scan None (b_code b) [])) 0)) (fn_blocks F)) inside in
      (Z.of_nat (length (p_funcs P)) * 1000000 + Z.of_nat (length inside) * 10000 + Z.of_nat (length multi) * 100 + Z.of_nat (length active))%Z
  | None => 0%Z
  end.
