"""T9: regenerate the location arithmetic of nsl/ast/__init__.py, nsl/parser.py (__GetLocation and the
token index every action takes its span from) and the shape of nsl/passes/UpdateLocations.py."""
import ast, sys
from common import TranslatorAbort
from translate.pyx import Ex, abort, find_def, strip_doc, is_call, read_source, zlit

EXPECT_UPDATE = """obj.AcceptVisitor(self)
locations = []
if not obj.GetLocation().IsUnknown:
    locations.append(obj.GetLocation())
def GetLocation(c, ctx=None):
    location = c.GetLocation()
    if not location.IsUnknown:
        locations.append(location)
obj.ForEachChild(GetLocation)
if locations:
    obj.SetLocation(ast.Location.Merge(*locations))"""


def src(stmts):
    return "\n".join(ast.unparse(s) for s in stmts)


def gen_source_mapping(tree):
    f = find_def(tree, "__init__", "SourceMapping")
    body = strip_doc(f.body)
    got = [ast.unparse(s) for s in body[:3]]
    if got != ["self.__sourceName = sourceName", "self.__lineOffsets = []", "currentOffset = 0"] or len(body) != 4:
        abort("SourceMapping.__init__: prologue changed: %r" % got, f)
    loop = body[3]
    if not (isinstance(loop, ast.For) and isinstance(loop.target, ast.Name) and not loop.orelse and len(loop.body) == 2
            and is_call(loop.iter, "source.split", 1) and isinstance(loop.iter.args[0], ast.Constant)
            and isinstance(loop.iter.args[0].value, str) and len(loop.iter.args[0].value) == 1):
        abort("SourceMapping.__init__: loop over source.split(<one char>) expected", loop)
    sep = ord(loop.iter.args[0].value)
    lv = loop.target.id
    s0, s1 = loop.body
    if ast.unparse(s0) != "self.__lineOffsets.append(currentOffset)":
        abort("SourceMapping.__init__: append shape", s0)
    if not (isinstance(s1, ast.AugAssign) and isinstance(s1.op, ast.Add) and ast.unparse(s1.target) == "currentOffset"):
        abort("SourceMapping.__init__: offset increment shape", s1)
    ex = Ex({"len(%s)" % lv: "(Z.of_nat (length l))", "currentOffset": "cur"})
    incr = ex.z(s1.value)
    out = """Fixpoint offsets (cur : Z) (lines : list (list Z)) : list Z :=
  match lines with
  | [] => []
  | l :: ls => cur :: offsets (Z.add cur %s) ls
  end.
Definition line_offsets (s : list Z) : list Z := offsets 0 (split_on %d s).
""" % (incr, sep)
    f = find_def(tree, "GetLineFromOffset", "SourceMapping")
    body = strip_doc(f.body)
    if len(body) != 1 or not isinstance(body[0], ast.Return):
        abort("GetLineFromOffset shape", f)
    ex = Ex({"bisect.bisect_right(self.__lineOffsets, offset)": "(bisect_right (line_offsets s) off)"})
    out += "Definition line_from_offset (s : list Z) (off : Z) : Z := %s.\n" % ex.z(body[0].value)
    f = find_def(tree, "GetLineStartOffset", "SourceMapping")
    if src(strip_doc(f.body)) != "return self.__lineOffsets[line]":
        abort("GetLineStartOffset shape", f)
    return out


def gen_location(tree):
    for name, idx in (("GetBegin", 0), ("GetEnd", 1)):
        f = find_def(tree, name, "Location")
        if src(strip_doc(f.body)) != "return self.__span[%d]" % idx:
            abort("Location.%s shape" % name, f)
    f = find_def(tree, "IsUnknown", "Location")
    if src(strip_doc(f.body)) != "return self.__span == (-1, -1)":
        abort("Location.IsUnknown shape", f)
    f = find_def(tree, "__str__", "Location")
    body = strip_doc(f.body)
    if len(body) != 2 or src(body[:1]) != "if self.IsUnknown:\n    return '<unknown>'":
        abort("Location.__str__: unknown case", f)
    top = body[1]
    if not (isinstance(top, ast.If) and ast.unparse(top.test) == "self.__sourceMapping" and len(top.body) == 3
            and src(top.orelse) == "return '[{},{})'.format(self.GetBegin(), self.GetEnd())"):
        abort("Location.__str__: mapping branch shape", top)
    if src(top.body[:2]) != ("startLine = self.__sourceMapping.GetLineFromOffset(self.GetBegin())\n"
                              "endLine = self.__sourceMapping.GetLineFromOffset(self.GetEnd())"):
        abort("Location.__str__: line lookups", top)
    sel = top.body[2]
    if not (isinstance(sel, ast.If) and ast.unparse(sel.test) == "startLine == endLine"):
        abort("Location.__str__: same-line test", sel)
    env = {"startLine": "startLine", "endLine": "endLine", "startOffset": "startOffset", "endOffset": "endOffset",
           "self.GetBegin()": "b", "self.GetEnd()": "e"}
    ex = Ex(env)

    def fmt(stmts, expect_assign, fmtstr, n):
        if src(stmts[:-1]) != expect_assign:
            abort("Location.__str__: offset lookups changed", stmts[0])
        r = stmts[-1]
        if not (isinstance(r, ast.Return) and isinstance(r.value, ast.Call) and isinstance(r.value.func, ast.Attribute)
                and r.value.func.attr == "format" and isinstance(r.value.func.value, ast.Constant)
                and r.value.func.value.value == fmtstr and len(r.value.args) == n):
            abort("Location.__str__: format string/arity changed (expected %r)" % fmtstr, r)
        return [ex.z(a) for a in r.value.args]
    a1 = fmt(sel.body, "startOffset = self.__sourceMapping.GetLineStartOffset(startLine)", "{}:{}-{}", 3)
    a2 = fmt(sel.orelse, "startOffset = self.__sourceMapping.GetLineStartOffset(startLine)\n"
                         "endOffset = self.__sourceMapping.GetLineStartOffset(endLine)", "{}:{}-{}:{}", 4)
    out = """Definition loc_str (s : list Z) (b e : Z) : loc_fields :=
  if (b =? -1) && (e =? -1) then LUnknown else
  let startLine := line_from_offset s b in
  let endLine := line_from_offset s e in
  if startLine =? endLine then
    match line_start_offset s startLine with
    | Some startOffset => LSingle %s %s %s
    | None => LError
    end
  else
    match line_start_offset s startLine, line_start_offset s endLine with
    | Some startOffset, Some endOffset => LMulti %s %s %s %s
    | _, _ => LError
    end.
""" % tuple(a1 + a2)
    # Merge
    f = find_def(tree, "Merge", "Location")
    body = [s for s in strip_doc(f.body) if not isinstance(s, ast.Assert)]
    if len(body) != 4 or src(body[:2]) != "result = args[0].__span\nmapping = args[0].__sourceMapping" \
            or src(body[3:]) != "return cls(result, mapping)":
        abort("Location.Merge: frame changed", f)
    loop = body[2]
    if not (isinstance(loop, ast.For) and ast.unparse(loop.iter) == "args[1:]" and ast.unparse(loop.target) == "arg"):
        abort("Location.Merge: loop shape", loop)
    lb = [s for s in loop.body if not isinstance(s, ast.Assert)]
    if len(lb) != 3 or ast.unparse(lb[2]) != "result = (start, end)":
        abort("Location.Merge: loop body shape", loop)
    exm = Ex({"result[0]": "(fst acc)", "result[1]": "(snd acc)", "arg.GetBegin()": "(fst a)", "arg.GetEnd()": "(snd a)"})
    vals = {}
    for s in lb[:2]:
        if not (isinstance(s, ast.Assign) and isinstance(s.targets[0], ast.Name) and s.targets[0].id in ("start", "end")):
            abort("Location.Merge: assignments", s)
        vals[s.targets[0].id] = exm.z(s.value)
    if set(vals) != {"start", "end"}:
        abort("Location.Merge: start/end", loop)
    out += """Definition merge2 (acc a : Z * Z) : Z * Z := (%s, %s).
Definition merge (first : Z * Z) (rest : list (Z * Z)) : Z * Z := fold_left merge2 rest first.
""" % (vals["start"], vals["end"])
    return out


def gen_parser(repo):
    tree, _ = read_source(repo, "nsl/parser.py")
    f = find_def(tree, "_NslParser__GetLocation", "NslParser") if False else find_def(tree, "__GetLocation", "NslParser")
    body = strip_doc(f.body)
    if len(body) != 1 or not isinstance(body[0], ast.Return) or not is_call(body[0].value, "ast.Location", 2):
        abort("NslParser.__GetLocation shape", f)
    tup = body[0].value.args[0]
    if not (isinstance(tup, ast.Tuple) and len(tup.elts) == 2 and ast.unparse(body[0].value.args[1]) == "self.__sourceMapping"):
        abort("NslParser.__GetLocation span tuple", f)
    ex = Ex({"p.lexpos(which)": "pos", "len(p[which])": "len"})
    out = "Definition token_span (pos len : Z) : Z * Z := (%s, %s).\n" % (ex.z(tup.elts[0]), ex.z(tup.elts[1]))
    # which token each action takes a location from
    cls = [n for n in tree.body if isinstance(n, ast.ClassDef) and n.name == "NslParser"][0]
    rows = []
    for fn in cls.body:
        if isinstance(fn, ast.FunctionDef) and fn.name.startswith("p_"):
            ks = []
            for n in ast.walk(fn):
                if isinstance(n, ast.Call) and ast.unparse(n.func) == "self.__GetLocation":
                    if len(n.args) != 2 or ast.unparse(n.args[0]) != "p" or not isinstance(n.args[1], ast.Constant):
                        abort("__GetLocation call with a non-literal token index", n)
                    ks.append(n.args[1].value)
            if ks:
                doc = ast.get_docstring(fn)
                if not doc or ":" not in doc:
                    abort("action %s has no grammar docstring" % fn.name, fn)
                alts = [a.split() for a in doc.split(":", 1)[1].split("|")]
                toks = []
                for k in sorted(set(ks)):
                    names = set()
                    for a in alts:
                        if k - 1 >= len(a):
                            abort("token index %d beyond production in %s" % (k, fn.name), fn)
                        names.add(a[k - 1])
                    if len(names) != 1:
                        abort("token index %d names different symbols in the alternatives of %s" % (k, fn.name), fn)
                    toks.append((k, names.pop()))
                rows.append((fn.name, toks))
    out += "Definition location_tokens : list (string * list (Z * string)) :=\n  [" + ";\n   ".join(
        '("%s"%%string, [%s])' % (n, "; ".join('(%d, "%s"%%string)' % kt for kt in ks)) for n, ks in rows) + "].\n"
    return out


def check_update_locations(repo):
    tree, _ = read_source(repo, "nsl/passes/UpdateLocations.py")
    f = find_def(tree, "v_Generic", "UpdateLocationsVisitor")
    got = src(strip_doc(f.body))
    if got != EXPECT_UPDATE:
        abort("UpdateLocationsVisitor.v_Generic changed shape")


def generate(repo):
    tree, _ = read_source(repo, "nsl/ast/__init__.py")
    check_update_locations(repo)
    parts = ["""(* GENERATED by harness/translate/t_srcloc.py from nsl/ast/__init__.py, nsl/parser.py -- do not edit *)
From Coq Require Import String ZArith List Bool.
From NSL Require Import Model.SrcLoc.
Import ListNotations.
Open Scope Z_scope.
(* split_on, bisect_right, line_start_offset (list indexing) and the shape of __str__ are the model's;
   the arithmetic below is translated from the source text *)
"""]
    parts.append(gen_source_mapping(tree))
    parts.append("""Definition line_start_offset (s : list Z) (line : Z) : option Z :=
  if line <? 0 then None else nth_error (line_offsets s) (Z.to_nat line).
""")
    parts.append(gen_location(tree))
    parts.append(gen_parser(repo))
    return "\n".join(parts)


if __name__ == "__main__":
    sys.stdout.write(generate(sys.argv[1]))
