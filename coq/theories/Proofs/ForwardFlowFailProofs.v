(** * C02: load-after-store forwarding preserves failures too.  Under the hypotheses of [forwarding_preserves_functions],
    whenever the original function ends -- with a value, or with an error of the VM (missing key, type error, division by
    zero, index error ...) -- the optimised function ends in the same way: the same value and state, or the same error. *)
From Coq Require Import String ZArith List Bool PrimFloat Arith Lia.
From NSL Require Import Model.PyNum Model.IR Model.VM Model.WfIR Model.Lower Model.Opt Proofs.WfIRProofs Proofs.OptProofs Proofs.ForwardProofs Proofs.ForwardFlowProofs.
Import ListNotations.

Definition final (o : outcome) : Prop := match o with Done _ _ | Fail _ => True | _ => False end.

Lemma run_mono_final P : forall fuel F pc fr vs out, run fuel P F pc fr vs = out -> final out -> forall fuel', fuel <= fuel' -> run fuel' P F pc fr vs = out.
Proof.
  induction fuel as [|fu IH]; intros F pc fr vs out H Hf fuel' Hle; [subst out; destruct Hf|].
  destruct fuel' as [|fu']; [lia|]. assert (Hle' : fu <= fu') by lia. cbn [run] in *.
  destruct (nth_error (flat_code F) pc) as [i|]; [|exact H].
  destruct (step F pc fr vs i) as [pc1 fr' vs'|? ?|fn vs0 dst|?|]; try exact H.
  - apply (IH _ _ _ _ _ H Hf _ Hle').
  - destruct (find_func P fn) as [G|]; [|exact H].
    destruct (run fu P G 0 {| regs := init_regs G; vars := []; fargs := vs0 |} vs) as [v st'|e| |] eqn:Ec.
    + rewrite (IH _ _ _ _ _ Ec Logic.I _ Hle'). apply (IH _ _ _ _ _ H Hf _ Hle').
    + rewrite (IH _ _ _ _ _ Ec Logic.I _ Hle'). exact H.
    + subst out. destruct Hf.
    + subst out. destruct Hf.
Qed.

(** an instruction that stays fails in the optimised function exactly as in the original *)
Lemma step_subst_fail F F' pc pc' m D fo fp vs i e :
  Inv m D fo fp -> is_branch i = false ->
  (forall o, In o (operands (i_body i)) -> readable m D o) ->
  step F pc fo vs i = StFail e -> step F' pc' fp vs (subst_instr m i) = StFail e.
Proof.
  intros I Hb Hops H. unfold is_branch in Hb. unfold step in *. cbn [subst_instr i_body i_ref i_ty].
  destruct (i_body i) as [sc vn|sc vn src|k arr idx|arr idx src|k arr idx src|o mem|o mem src|a b ix|o a b|pred t f|rv|fn args|name|src|vals|opc] eqn:Eb;
    cbn [subst_body]; try discriminate; cbn [operands opt_list] in Hops;
    repeat match goal with |- context [rget fp (subst_ref m ?o)] => rewrite (rget_subst m D fo fp o I) by (apply Hops; cbn; auto) end;
    rewrite ?(inv_vars _ _ _ _ I), ?(inv_fargs _ _ _ _ I), ?(map_res_subst m D fo fp I _ Hops);
    try (destruct rv; cbn [option_map]; repeat match goal with |- context [rget fp (subst_ref m ?o)] => rewrite (rget_subst m D fo fp o I) by (apply Hops; cbn; auto) end);
    repeat match type of H with
           | context [lift ?x _] => destruct x eqn:?; cbn [lift] in *; try discriminate; try exact H
           | context [match ?x with _ => _ end] => destruct x eqn:?; cbn [rset fargs vars regs] in *; rewrite ?(inv_vars _ _ _ _ I), ?(inv_fargs _ _ _ _ I) in *; try discriminate; try exact H
           end.
  all: try discriminate; try exact H.
Qed.

(** a load the pass removes never fails: the store before it has just written the variable *)
Lemma fwd_load_steps F D prev m i r src pc fo vs :
  Suf D prev m (i :: r) -> forwardable prev i = Some src -> prev_ok F D prev m (i :: r) fo vs ->
  exists fo', step F pc fo vs i = StNext (S pc) fo' vs.
Proof.
  intros HS Efw Hprev. destruct (su_sc _ _ _ _ HS) as [Hsci _].
  unfold forwardable in Efw. destruct (i_body i) as [sc v| | | | | | | | | | | | | | | ] eqn:Eb; try discriminate.
  destruct prev as [p|]; [|discriminate]. destruct (i_body p) as [|sc' v' src'| | | | | | | | | | | | | | ] eqn:Ep; try discriminate.
  destruct (var_eqb v' v) eqn:Ev; [|discriminate]. inversion Efw; subst src'. clear Efw.
  specialize (Hsci eq_refl). subst sc'. apply var_eqb_eq in Ev. subst v'.
  destruct (Hprev p sc v src eq_refl Ep) as ((pc0 & fo0 & vs0 & Hst) & Hsrc1 & Hsrc2 & Hsrc3).
  destruct (step_store_src _ _ _ _ _ _ _ _ _ _ _ Ep Hst) as (w & Hw0 & _).
  destruct (load_after_store_delivers_stored F pc0 fo0 vs0 sc v src w p i (S pc0) fo vs Ep Eb Hw0 Hst) as (fr2 & Hl & _).
  unfold step in *. rewrite Eb in *. destruct sc, v as [x|n]; try discriminate.
  - destruct (slookup x (globals vs)); [|discriminate]. eexists; reflexivity.
  - destruct (nth_error (fargs fo) n); [|discriminate]. eexists; reflexivity.
  - destruct (slookup x (vars fo)); [|discriminate]. eexists; reflexivity.
Qed.

Lemma bol_none (t : nat) (bs : list block) (f : block -> block) : (forall b, b_ref (f b) = b_ref b) ->
  block_offset_last bs t = None -> block_offset_last (map f bs) t = None.
Proof.
  intros Hf. unfold block_offset_last.
  assert (G : forall bs a a' (found found' : option nat), (found = None <-> found' = None) ->
    ((fix go (bs : list block) (acc : nat) (found : option nat) : option nat :=
        match bs with [] => found | b :: r => go r (acc + length (b_code b)) (if Nat.eqb (b_ref b) t then Some acc else found) end) bs a found = None <->
     (fix go (bs : list block) (acc : nat) (found : option nat) : option nat :=
        match bs with [] => found | b :: r => go r (acc + length (b_code b)) (if Nat.eqb (b_ref b) t then Some acc else found) end) (map f bs) a' found' = None)).
  { clear bs. induction bs as [|x r IH]; intros a a' found found' Hff; cbn [map]; [exact Hff|]. rewrite Hf. apply IH.
    destruct (Nat.eqb (b_ref x) t); [split; discriminate|exact Hff]. }
  intros H. apply (G bs 0 0 None None); [tauto|exact H].
Qed.

Section SimF.
  Variable P : program.
  Variable F F' : ifunc.
  Variable D : list nat.
  Hypothesis HF' : fn_blocks F' = map opt_block (fn_blocks F).
  Hypothesis Hall : forall b, In b (fn_blocks F) -> Suf D None [] (b_code b).
  Hypothesis HDk : forall b, In b (fn_blocks F) -> forall k, In k (keys (las_map None (b_code b) [])) -> In k D.

  Definition simf_at (fuel : nat) : Prop :=
    forall pre r post pre' prev m fo fp vs out,
      flat_code F = pre ++ r ++ flat_map b_code post ->
      flat_code F' = pre' ++ las_code prev r m ++ flat_map b_code (map opt_block post) ->
      Suf D prev m r -> incl post (fn_blocks F) -> (forall k, In k (keys (las_map prev r m)) -> In k D) ->
      Inv m D fo fp -> prev_ok F D prev m r fo vs ->
      run fuel P F (length pre) fo vs = out -> final out -> exists fuel', run fuel' P F' (length pre') fp vs = out.

  Lemma bol_none' tb : block_offset_last (fn_blocks F) tb = None -> block_offset_last (fn_blocks F') tb = None.
  Proof. intros H. rewrite HF'. apply bol_none; [intros b; reflexivity|exact H]. Qed.

  Lemma jump_simf fu : simf_at fu -> forall tb off m fo fp vs out,
    block_offset_last (fn_blocks F) tb = Some off -> Inv m D fo fp -> (forall k, In k (keys m) -> In k D) ->
    run fu P F off fo vs = out -> final out ->
    exists off', block_offset_last (fn_blocks F') tb = Some off' /\ exists fuel', run fuel' P F' off' fp vs = out.
  Proof.
    intros IH tb off m fo fp vs out Hoff I Hk Hrun Hfin.
    destruct (bol_split tb _ _ Hoff) as (B1 & b & B2 & Hbs & Hb & -> & Hn).
    exists (length (flat_map b_code (map opt_block B1))). split.
    - rewrite HF', Hbs, map_app. cbn [map]. apply bol_app; [exact Hb|]. intros x Hx. apply in_map_iff in Hx as (y & <- & Hy). exact (Hn y Hy).
    - assert (Hin : In b (fn_blocks F)) by (rewrite Hbs; apply in_or_app; right; left; reflexivity).
      apply (IH (flat_map b_code B1) (b_code b) B2 (flat_map b_code (map opt_block B1)) None [] fo fp vs out); try assumption.
      + unfold flat_code. rewrite Hbs. rewrite flat_map_app. reflexivity.
      + unfold flat_code. rewrite HF', Hbs, map_app. cbn [map]. rewrite flat_map_app. cbn [flat_map]. rewrite (opt_code D b (Hall b Hin)). reflexivity.
      + apply Hall. exact Hin.
      + intros x Hx. rewrite Hbs. apply in_or_app. right. right. exact Hx.
      + apply HDk. exact Hin.
      + apply (Inv_reset m); assumption.
      + intros p sc v src Hp. discriminate.
  Qed.

  (** how the optimised branch instruction steps, given how the original one does *)
  Lemma branch_rel pc pc' m fo fp vs i pred t f :
    i_body i = IBranch pred t f -> Inv m D fo fp -> (forall o, In o (operands (IBranch pred t f)) -> readable m D o) ->
    (forall x, In x (brtargets (IBranch pred t f)) -> subst_ref m x = x) ->
    match step F pc fo vs i with
    | StNext off fr1 vs1 => fr1 = fo /\ vs1 = vs /\ exists tb, block_offset_last (fn_blocks F) tb = Some off /\
                            step F' pc' fp vs (subst_instr m i) = match block_offset_last (fn_blocks F') tb with Some off' => StNext off' fp vs | None => StFail (EKey KBlock) end
    | StFail e => step F' pc' fp vs (subst_instr m i) = StFail e
    | StUnmodelled => True
    | _ => False
    end.
  Proof.
    intros Eb I Hread Hbt. unfold step. cbn [subst_instr i_body]. rewrite Eb. cbn [subst_body]. cbn [operands opt_list] in Hread.
    destruct pred as [pr|]; cbn [option_map].
    - rewrite (rget_subst m D fo fp pr I) by (apply Hread; left; reflexivity).
      destruct (rget fo pr) as [pv|e|]; cbn [lift]; [|reflexivity|exact Logic.I].
      destruct t as [tb|]; cbn [option_map]; [|reflexivity]. destruct f as [fb|]; cbn [option_map]; [|reflexivity].
      rewrite (Hbt tb) by (left; reflexivity). rewrite (Hbt fb) by (right; left; reflexivity).
      destruct (truthy (hp vs) pv) as [c|e|]; cbn [lift]; [|reflexivity|exact Logic.I].
      destruct (block_offset_last (fn_blocks F) (if c then tb else fb)) as [off|] eqn:Hoff.
      + split; [reflexivity|]. split; [reflexivity|]. exists (if c then tb else fb). split; [exact Hoff|reflexivity].
      + rewrite (bol_none' _ Hoff). reflexivity.
    - destruct t as [tb|]; cbn [option_map]; [|reflexivity]. rewrite (Hbt tb) by (left; reflexivity).
      destruct (block_offset_last (fn_blocks F) tb) as [off|] eqn:Hoff.
      + split; [reflexivity|]. split; [reflexivity|]. exists tb. split; [exact Hoff|reflexivity].
      + rewrite (bol_none' _ Hoff). reflexivity.
  Qed.

  Lemma simf_step fuel : (forall fu, fu < fuel -> simf_at fu) ->
    forall pre i r post pre' prev m fo fp vs out,
      flat_code F = pre ++ (i :: r) ++ flat_map b_code post ->
      flat_code F' = pre' ++ las_code prev (i :: r) m ++ flat_map b_code (map opt_block post) ->
      Suf D prev m (i :: r) -> incl post (fn_blocks F) -> (forall k, In k (keys (las_map prev (i :: r) m)) -> In k D) ->
      Inv m D fo fp -> prev_ok F D prev m (i :: r) fo vs ->
      run fuel P F (length pre) fo vs = out -> final out -> exists fuel', run fuel' P F' (length pre') fp vs = out.
  Proof.
    intros IH pre i r post pre' prev m fo fp vs out Hc Hc' HS Hpost Hfin I Hprev Hrun Hfo.
    destruct fuel as [|fu]; [subst out; destruct Hfo|]. cbn [run] in Hrun.
    assert (En : nth_error (flat_code F) (length pre) = Some i) by (rewrite Hc; apply nth_error_mid').
    rewrite En in Hrun.
    assert (Hc1 : flat_code F = (pre ++ [i]) ++ r ++ flat_map b_code post) by (rewrite Hc, <- app_assoc; reflexivity).
    assert (Hl1 : length (pre ++ [i]) = S (length pre)) by (rewrite app_length; cbn; lia).
    cbn [las_code las_map] in Hc', Hfin.
    destruct (forwardable prev i) as [src|] eqn:Efw.
    - (* a removed load *)
      destruct (fwd_load_steps F D prev m i r src (length pre) fo vs HS Efw Hprev) as [fo' Es]. rewrite Es in Hrun.
      destruct (suf_fwd F D prev m i r src (length pre) fo fp vs fo' vs HS Efw I Hprev Es) as (HS' & I' & _ & Hprev').
      rewrite <- Hl1 in Hrun.
      apply (IH fu (Nat.lt_succ_diag_r fu) (pre ++ [i]) r post pre' (Some i) _ fo' fp vs out Hc1 Hc' HS' Hpost Hfin I' Hprev' Hrun Hfo).
    - (* an instruction that stays *)
      destruct (suf_kept D prev m i r HS Efw) as (HS' & Hk & Ht). pose proof (suf_read D prev m i r HS) as Hread.
      assert (En' : nth_error (flat_code F') (length pre') = Some (subst_instr m i)) by (rewrite Hc'; apply nth_error_mid').
      assert (Hc1' : flat_code F' = (pre' ++ [subst_instr m i]) ++ las_code (Some i) r m ++ flat_map b_code (map opt_block post)) by (rewrite Hc', <- app_assoc; reflexivity).
      assert (Hl1' : length (pre' ++ [subst_instr m i]) = S (length pre')) by (rewrite app_length; cbn; lia).
      assert (Hkm : forall k, In k (keys m) -> In k D) by (apply (keys_m_D D (Some i) r m Hfin)).
      destruct (plain i) eqn:Hpl.
      + pose proof (plain_step_cases F (length pre) fo vs i Hpl) as Hcase.
        assert (Hnb : is_branch i = false) by (unfold plain in Hpl; unfold is_branch; destruct (i_body i); try reflexivity; discriminate).
        destruct (step F (length pre) fo vs i) as [pc1 fo' vs'|v st|fn a d|e|] eqn:Es; try contradiction.
        * subst pc1. destruct (step_subst F F' (length pre) (length pre') m D fo fp vs i fo' vs' I Hnb Hk Ht Hread Es) as (fp' & Es' & I').
          rewrite <- Hl1 in Hrun.
          destruct (IH fu (Nat.lt_succ_diag_r fu) (pre ++ [i]) r post (pre' ++ [subst_instr m i]) (Some i) m fo' fp' vs' out Hc1 Hc1' HS' Hpost Hfin I'
                      (prev_ok_kept F D m i r (length pre) fo vs fo' vs' Hread (su_ops _ _ _ _ HS) Es) Hrun Hfo) as [fuel' Hr'].
          exists (S fuel'). cbn [run]. rewrite En', Es', <- Hl1'. exact Hr'.
        * exists 1. cbn [run]. rewrite En', (step_subst_fail F F' (length pre) (length pre') m D fo fp vs i e I Hnb Hread Es). exact Hrun.
        * subst out. destruct Hfo.
      + unfold plain in Hpl. destruct (i_body i) as [| | | | | | | | |pred t f|rv|fn args| | | |] eqn:Eb; try discriminate.
        * (* branch *)
          assert (Hbt : forall x, In x (brtargets (IBranch pred t f)) -> subst_ref m x = x).
          { intros x Hx. apply subst_ref_notin. rewrite <- Eb in Hx. apply (su_bt _ _ _ _ HS i x (or_introl eq_refl) Hx). }
          pose proof (branch_rel (length pre) (length pre') m fo fp vs i pred t f Eb I Hread Hbt) as Hrel.
          destruct (step F (length pre) fo vs i) as [off fr1 vs1|v st|fn a d|e|] eqn:Es; try contradiction.
          -- destruct Hrel as (-> & -> & tb & Hoff & Es').
             destruct (jump_simf fu (IH fu (Nat.lt_succ_diag_r fu)) tb off m fo fp vs out Hoff I Hkm Hrun Hfo) as (off' & Ho' & fuel' & Hr').
             exists (S fuel'). cbn [run]. rewrite En', Es', Ho'. exact Hr'.
          -- exists 1. cbn [run]. rewrite En', Hrel. exact Hrun.
          -- subst out. destruct Hfo.
        * (* return *)
          unfold step in Hrun. rewrite Eb in Hrun. exists 1. cbn [run]. rewrite En'. unfold step. cbn [subst_instr i_body]. rewrite Eb. cbn [subst_body].
          destruct rv as [r0|]; cbn [option_map].
          -- rewrite (rget_subst m D fo fp r0 I) by (apply Hread; rewrite ?Eb; left; reflexivity). destruct (rget fo r0); cbn [lift] in *; exact Hrun.
          -- exact Hrun.
        * (* call *)
          unfold step in Hrun. rewrite Eb in Hrun.
          assert (Ea' : map_res (fun rv => match rv with VInt r0 => rget fp (Z.to_nat r0) | _ => Unmodelled end) (map (fun r0 => VInt (Z.of_nat r0)) (map (subst_ref m) args)) =
                        map_res (fun rv => match rv with VInt r0 => rget fo (Z.to_nat r0) | _ => Unmodelled end) (map (fun r0 => VInt (Z.of_nat r0)) args)).
          { apply (map_res_subst m D fo fp I args). intros r0 Hr0. apply Hread. rewrite ?Eb. exact Hr0. }
          destruct (map_res (fun rv => match rv with VInt r0 => rget fo (Z.to_nat r0) | _ => Unmodelled end) (map (fun r0 => VInt (Z.of_nat r0)) args)) as [avs|e|] eqn:Ea; cbn [lift] in Hrun.
          2: { exists 1. cbn [run]. rewrite En'. unfold step. cbn [subst_instr i_body i_ref]. rewrite Eb. cbn [subst_body]. rewrite Ea'. cbn [lift]. exact Hrun. }
          2: { subst out. destruct Hfo. }
          destruct (find_func P fn) as [G|] eqn:EG.
          2: { exists 1. cbn [run]. rewrite En'. unfold step. cbn [subst_instr i_body i_ref]. rewrite Eb. cbn [subst_body]. rewrite Ea'. cbn [lift]. rewrite EG. exact Hrun. }
          destruct (run fu P G 0 {| regs := init_regs G; vars := []; fargs := avs |} vs) as [v st'|e| |] eqn:Ecall.
          -- rewrite <- Hl1 in Hrun.
             assert (I' : Inv m D (rset fo (i_ref i) v) (rset fp (i_ref i) v)) by (apply Inv_rset; assumption).
             destruct (IH fu (Nat.lt_succ_diag_r fu) (pre ++ [i]) r post (pre' ++ [subst_instr m i]) (Some i) m _ _ st' out Hc1 Hc1' HS' Hpost Hfin I') with (2 := Hrun) as [fuel' Hr']; [|exact Hfo|].
             { intros p sc v0 src0 Hp Hb. inversion Hp; subst p. rewrite Eb in Hb. discriminate. }
             exists (S (Nat.max fu fuel')). cbn [run]. rewrite En'. unfold step. cbn [subst_instr i_body i_ref]. rewrite Eb. cbn [subst_body]. rewrite Ea'. cbn [lift]. rewrite EG.
             rewrite (run_mono_final P _ _ _ _ _ _ Ecall Logic.I (Nat.max fu fuel') (Nat.le_max_l _ _)). rewrite <- Hl1'.
             apply (run_mono_final P _ _ _ _ _ _ Hr' Hfo (Nat.max fu fuel') (Nat.le_max_r _ _)).
          -- exists (S fu). cbn [run]. rewrite En'. unfold step. cbn [subst_instr i_body i_ref]. rewrite Eb. cbn [subst_body]. rewrite Ea'. cbn [lift]. rewrite EG, Ecall. exact Hrun.
          -- subst out. destruct Hfo.
          -- subst out. destruct Hfo.
  Qed.

  Theorem simf_all : forall fuel, simf_at fuel.
  Proof.
    induction fuel as [fuel IH] using lt_wf_ind.
    intros pre r post pre' prev m fo fp vs out Hc Hc' HS Hpost Hfin I Hprev Hrun Hfo.
    destruct r as [|i r]; [|apply (simf_step fuel IH pre i r post pre' prev m fo fp vs out); assumption].
    cbn [las_code app] in Hc, Hc'. clear HS Hprev.
    assert (Hkm : forall k, In k (keys m) -> In k D) by exact Hfin. clear Hfin.
    revert m I Hkm. induction post as [|b post IHp]; intros m I Hkm.
    - cbn [flat_map map] in Hc, Hc'. destruct fuel as [|fu]; [subst out; destruct Hfo|]. cbn [run] in Hrun.
      assert (En : nth_error (flat_code F) (length pre) = None) by (rewrite Hc; apply nth_error_end). rewrite En in Hrun.
      exists 1. cbn [run]. assert (En' : nth_error (flat_code F') (length pre') = None) by (rewrite Hc'; apply nth_error_end). rewrite En'. exact Hrun.
    - cbn [flat_map map] in Hc, Hc'. assert (Hin : In b (fn_blocks F)) by (apply Hpost; left; reflexivity).
      rewrite (opt_code D b (Hall b Hin)) in Hc'.
      assert (Hpost' : incl post (fn_blocks F)) by (intros x Hx; apply Hpost; right; exact Hx).
      destruct (b_code b) as [|i r] eqn:Ecode.
      + cbn [las_code app] in Hc, Hc'. apply (IHp Hc Hc' Hpost' m I Hkm).
      + apply (simf_step fuel IH pre i r post pre' None [] fo fp vs out Hc Hc'); try assumption.
        * rewrite <- Ecode. apply Hall. exact Hin.
        * rewrite <- Ecode. apply HDk. exact Hin.
        * apply (Inv_reset m); assumption.
        * intros p sc v src Hp. discriminate.
  Qed.
End SimF.

Theorem forwarding_preserves_outcomes : forall (P : program) (F : ifunc), flow_hyps F ->
  forall fuel fr vs out, run fuel P F 0 fr vs = out -> final out -> exists fuel', run fuel' P (opt_load_after_store F) 0 fr vs = out.
Proof.
  intros P F H fuel fr vs out Hrun Hfo.
  apply (simf_all P F (opt_load_after_store F) (Dset F) (flow_opt_blocks F H) (flow_blk_ok F H)
           (fun b Hb k Hk => flat_in (fun b0 => keys (las_map None (b_code b0) [])) (fn_blocks F) b k Hb Hk)
           fuel [] [] (fn_blocks F) [] None [] fr fr vs out); try assumption.
  - reflexivity.
  - unfold flat_code. rewrite (flow_opt_blocks F H). reflexivity.
  - apply Suf_nil.
  - intros x Hx. exact Hx.
  - intros k [].
  - constructor; [reflexivity|reflexivity|reflexivity|intros r []].
  - intros p sc v src Hp. discriminate.
Qed.
