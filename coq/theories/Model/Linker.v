(** * Model of LinearIR.Linker (AddModule, Link) over modules reduced to what linking looks at: the keys of the
    function and global tables (with an opaque payload identifying the definition) and the import set. *)
From Coq Require Import String List Bool Arith.
Import ListNotations.

Definition table := list (string * nat).
Record lmodule := { lm_funcs : table; lm_globals : table; lm_imports : list string }.
Record lstate := { ls_funcs : table; ls_globals : table; ls_pending : list string; ls_loaded : list string }.

Definition has_key (k : string) (t : table) : bool := existsb (fun kv => String.eqb k (fst kv)) t.
Definition mem (x : string) (l : list string) : bool := existsb (String.eqb x) l.

(** `for k, v in d.items(): assert k not in table; table[k] = v` -- None = AssertionError *)
Fixpoint add_entries (acc new : table) : option table :=
  match new with
  | [] => Some acc
  | (k, v) :: r => if has_key k acc then None else add_entries (acc ++ [(k, v)]) r
  end.

(** pendingImports.update(imports): a set, kept as a list without repetition *)
Fixpoint set_union (s : list string) (xs : list string) : list string :=
  match xs with [] => s | x :: r => if mem x s then set_union s r else set_union (s ++ [x]) r end.

Definition add_module (st : lstate) (m : lmodule) : option lstate :=
  match add_entries (ls_funcs st) (lm_funcs m) with
  | None => None
  | Some fs =>
      match add_entries (ls_globals st) (lm_globals m) with
      | None => None
      | Some gs => Some {| ls_funcs := fs; ls_globals := gs; ls_pending := set_union (ls_pending st) (lm_imports m); ls_loaded := ls_loaded st |}
      end
  end.

(** min(self.__pendingImports): strings compare by code point *)
Fixpoint min_str (l : list string) : option string :=
  match l with
  | [] => None
  | x :: r => match min_str r with None => Some x | Some y => Some (if String.leb x y then x else y) end
  end.
Definition remove_str (x : string) (l : list string) : list string := filter (fun y => negb (String.eqb x y)) l.

Inductive link_res := LinkFuel | LinkFail | LinkOk (st : lstate).

(** Link: while pending: take the smallest name; skip it if loaded; otherwise load it (a missing module fails) and
    add it.  [ls_loaded] is kept in load order (most recent first): it is also the trace of loader calls. *)
Fixpoint link (fuel : nat) (loader : string -> option lmodule) (st : lstate) : link_res :=
  match fuel with
  | O => LinkFuel
  | S fu =>
      match min_str (ls_pending st) with
      | None => LinkOk st
      | Some x =>
          let st1 := {| ls_funcs := ls_funcs st; ls_globals := ls_globals st; ls_pending := remove_str x (ls_pending st); ls_loaded := ls_loaded st |} in
          if mem x (ls_loaded st) then link fu loader st1
          else match loader x with
               | None => LinkFail
               | Some m =>
                   match add_module {| ls_funcs := ls_funcs st1; ls_globals := ls_globals st1; ls_pending := ls_pending st1; ls_loaded := x :: ls_loaded st |} m with
                   | None => LinkFail
                   | Some st2 => link fu loader st2
                   end
               end
      end
  end.

Definition init_state : lstate := {| ls_funcs := []; ls_globals := []; ls_pending := []; ls_loaded := [] |}.
Fixpoint add_all (st : lstate) (ms : list lmodule) : option lstate :=
  match ms with [] => Some st | m :: r => match add_module st m with Some st1 => add_all st1 r | None => None end end.

Definition link_modules (fuel : nat) (loader : string -> option lmodule) (ms : list lmodule) : link_res :=
  match add_all init_state ms with None => LinkFail | Some st => link fuel loader st end.
