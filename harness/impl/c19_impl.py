"""Implementation side of the C19 correspondence: runs nsl.WebAssembly on the jobs."""
import sys, json, io
import nsl.WebAssembly as W

def run(job):
    k = job["k"]
    try:
        if k == "u":
            return {"bytes": list(W.PackInteger(job["v"]))}
        if k == "s":
            return {"bytes": list(W.PackSignedInteger(job["v"]))}
        if k == "str":
            b = io.BytesIO(); W.WriteString(b, job["s"]); return {"bytes": list(b.getvalue())}
        if k == "instr":
            b = io.BytesIO(); W.Instruction(job["opcode"], tuple(job["args"])).WriteTo(b); return {"bytes": list(b.getvalue())}
        if k == "module":
            m = W.Module()
            for (params, results) in job["types"]:
                m.AddFunctionType(W.FunctionType([W.ValueType[p] for p in params], [W.ValueType[r] for r in results]))
            for t in job["funcs"]:
                m.AddFunction(t)
            for (idx, name) in job["exports"]:
                m.AddExport(W.Export(idx, name))
            for c in job["codes"]:
                code = W.Code()
                for (ty, n) in c["locals"]:
                    code.AddLocal(W.Local(W.ValueType[ty], n))
                for (opc, args) in c["instrs"]:
                    code.AddInstruction(W.Instruction(opc, tuple(args) if args else None))
                m.AddCode(code)
            if job.get("table"):
                m.AddTable(W.Table(0))
            b = io.BytesIO(); m.WriteTo(b); return {"bytes": list(b.getvalue())}
    except BaseException as e:
        return {"error": type(e).__name__ + ": " + str(e)[:200]}
    return {"error": "unknown job"}

jobs = json.load(open(sys.argv[1]))
json.dump([run(j) for j in jobs], open(sys.argv[2], "w"))
