(** Non-vacuity of [loop_function_simulation]: a function with a while loop whose body holds a conditional and a compound assignment. *)
From Coq Require Import String ZArith List Bool PrimFloat.
From NSL Require Import Base.Types Base.Syntax Model.PyNum Model.IR Model.VM Model.Elab Model.Lower Spec.RefSem Proofs.OpsAgree
                        Proofs.LowerExprProofs Proofs.ElabExprProofs Proofs.ReturnExprProofs Proofs.CallAgreeProofs
                        Proofs.LowerStmtProofs Proofs.ElabStmtProofs Proofs.StraightLineProofs Proofs.FlowLowerProofs Proofs.FlowFuncProofs
                        Proofs.FlowElabProofs Proofs.FlowTableProofs Proofs.FlowSimProofs Proofs.LoopLowerProofs Proofs.LoopElabProofs Proofs.LoopSimProofs
                        Harness.FragLib Harness.FragLib2 Harness.FlowLib Harness.FlowLib2 Harness.LoopLib.
Import ListNotations.
Local Open Scope string_scope.

(** int g;
    export function f(int n, float b) -> float {
      float acc = b * 0.5; int i = 0;
      while (i < n) { acc += i; if (g) { g = g - 1; } i = i + 1; }
      return acc + g; } *)
Definition lp_body : list stmt :=
  [ SDecl tfloat "acc" (Some (EBin OMul (EVar "b") (EFloat 0.5)));
    SDecl tint "i" (Some (EInt 0));
    SWhile (EBin OLt (EVar "i") (EVar "n"))
           (Some (SBlock [ SExpr (EAssign AAddEq (EVar "acc") (EVar "i"));
                           SIf (EVar "g") (SBlock [SExpr (EAssign AAssign (EVar "g") (EBin OSub (EVar "g") (EInt 1)))]) None;
                           SExpr (EAssign AAssign (EVar "i") (EBin OAdd (EVar "i") (EInt 1))) ])) ].
Definition lp_e : expr := EBin OAdd (EVar "acc") (EVar "g").
Definition lp_fn : func := {| f_name := "f"; f_export := true; f_args := [(tint, "n"); (tfloat, "b")]; f_ret := tfloat; f_body := lp_body ++ [SRet (Some lp_e)] |}.
Definition lp_M : module := {| m_structs := []; m_globals := [(tint, "g")]; m_funcs := [lp_fn] |}.

Example lp_in_fragment : loopsrc_in_fragment lp_M lp_fn = true.
Proof. vm_compute. reflexivity. Qed.

Definition lp_static := Eval vm_compute in straight_static lp_M lp_fn.
Definition lp_F : ifunc := match lp_static with Some (_, _, _, F, _, _) => F | None => {| fn_name := ""; fn_args := []; fn_ret := ITVoid; fn_consts := []; fn_blocks := [] |} end.
Definition lp_tl : list tstmt := match lp_static with Some (_, _, _, _, tl, _) => tl | None => [] end.
Definition lp_te : texpr := match lp_static with Some (_, _, _, _, _, te) => te | None => XInt 0 end.
Definition lp_tf : tfunc := match lp_static with Some (_, _, tf, _, _, _) => tf | None => {| tf_name := ""; tf_args := []; tf_ret := TVoid; tf_body := [] |} end.

Example lp_lits_exact : lits_exact (flat_map tflits (flat_map (wtopexprs flow_depth) lp_tl ++ [lp_te])).
Proof. intros f f' Hf Hf' _. vm_compute in Hf, Hf'. destruct Hf as [<-|[]]; destruct Hf' as [<-|[]]; reflexivity. Qed.

Definition lp_ws : list rval := [RInt 4; RFloat 3%float].
Definition lp_g : RefSem.frame := [("g", SV (RInt 2))].
Definition lp_vs : vmstate := {| globals := [("g", VInt 2)]; hp := [] |}.

Example lp_conclusion : forall P,
  exists v vs', fst (match exec_list lp_M 30 (f_body lp_fn) (call_state lp_fn lp_ws lp_g) with RefSem.ROk p => p | _ => (ONormal, call_state lp_fn lp_ws lp_g) end) = OReturn (SV v) /\
                exists n, forall fuel', n <= fuel' -> run fuel' P lp_F 0 (call_frame lp_ws (init_regs lp_F)) lp_vs = Done (v_of v) vs'.
Proof.
  intros P.
  destruct (exec_list lp_M 30 (f_body lp_fn) (call_state lp_fn lp_ws lp_g)) as [[fl st']| | |] eqn:E; try (vm_compute in E; discriminate).
  assert (Hnan : forall q, In q (flat_map tflits (flat_map (wtopexprs flow_depth) lp_tl ++ [lp_te])) -> PrimFloat.eqb q q = true).
  { apply forallb_forall. vm_compute. reflexivity. }
  destruct (loop_function_simulation lp_M lp_fn flow_depth lp_body lp_e lp_tf lp_F eq_refl eq_refl eq_refl eq_refl eq_refl lp_tl lp_te eq_refl eq_refl eq_refl lp_lits_exact Hnan)
    with (P := P) (ws := lp_ws) (g := lp_g) (vs := lp_vs) (fuel := 30) (fl := fl) (st' := st') as (v & vs' & -> & Hrun & _).
  - repeat constructor; cbn; auto.
  - cbn; tauto.
  - repeat constructor.
  - intros x Hx Hg. cbn in Hx, Hg. destruct Hg as [Hg|[]]. subst x. destruct Hx as [Hx|[Hx|[]]]; inversion Hx.
  - intros x p H. unfold genvl in H. cbn [lp_M m_globals map find fst snd] in H. destruct (String.eqb_spec "g" x) as [<-|Hne]; [|discriminate]. inversion H; subst p. cbn.
    split; [left; reflexivity|]. exists (RInt 2). repeat split; reflexivity.
  - exact E.
  - exists v, vs'. split; [reflexivity|exact Hrun].
Qed.

(** both sides evaluated: acc = 1.5 + 0 + 1 + 2 + 3 = 7.5, g goes 2 -> 0, result 7.5 *)
Example lp_values :
  (match exec_list lp_M 30 (f_body lp_fn) (call_state lp_fn lp_ws lp_g) with RefSem.ROk (OReturn (SV (RFloat x)), _) => Some x | _ => None end) = Some 7.5%float /\
  run 200 {| p_funcs := [lp_F]; p_globals := ["g"] |} lp_F 0 (call_frame lp_ws (init_regs lp_F)) lp_vs = Done (VFloat 7.5%float) {| globals := [("g", VInt 0)]; hp := [] |}.
Proof. repeat split; vm_compute; reflexivity. Qed.
