(** * C01, loops: the lowering of [while (c) body] is correct (typed AST to IR), for loops at the top level of a function whose
    body is made of assignments, blocks and nested conditionals (no break / continue, no declarations inside). *)
From Coq Require Import String ZArith List Bool PrimFloat Arith Lia.
From NSL Require Import Base.Types Base.Syntax Model.PyNum Model.IR Model.VM Model.WfIR Model.Elab Model.Lower Model.Opt
                        Proofs.WfIRProofs Proofs.OptProofs Proofs.LowerExprProofs Proofs.ForwardProofs Proofs.LowerStmtProofs Proofs.CallAgreeProofs
                        Proofs.LowerWfProofs Proofs.LowerAllocProofs Proofs.FlowLowerProofs Proofs.FlowFuncProofs.
Import ListNotations.

(** ** no break / continue placeholders in the code: [patch] changes nothing *)
Definition plain_t (t : ltarget) : Prop := match t with LBreak _ | LCont _ => False | _ => True end.
Definition nobc_code (code : list linstr) : Prop := forall r p t f, In (LBr r p t f) code -> plain_t t /\ plain_t f.
Definition nobc (st : lstate) : Prop := nobc_code (lcode st).

Lemma nobc_app a b : nobc_code a -> nobc_code b -> nobc_code (a ++ b).
Proof. intros Ha Hb r p t f H. apply in_app_or in H as [H|H]; [apply (Ha r p t f H)|apply (Hb r p t f H)]. Qed.
Lemma nobc_app_l a b : nobc_code (a ++ b) -> nobc_code a.
Proof. intros H r p t f Hi. apply (H r p t f). apply in_or_app. left. exact Hi. Qed.
Lemma nobc_LI is : nobc_code (map LI is).
Proof. intros r p t f H. apply in_map_iff in H as (j & Hj & _). discriminate. Qed.
Lemma nobc_upd ref t f code : nobc_code code -> (match t with Some x => plain_t x | None => True end) -> (match f with Some x => plain_t x | None => True end) ->
  nobc_code (map (upd_targets ref t f) code).
Proof.
  intros H Ht Hf r p t1 f1 Hi. apply in_map_iff in Hi as (i & E & Hi). destruct i as [j|r0 p0 t0 f0]; cbn in E; [discriminate|].
  destruct (H r0 p0 t0 f0 Hi) as [H1 H2]. destruct (Nat.eqb r0 ref); inversion E; subst; [|auto].
  split; [destruct t; assumption|destruct f; assumption].
Qed.

Lemma patch_target_plain d b c t : plain_t t -> patch_target d b c t = t.
Proof. destruct t; cbn; intros H; try reflexivity; destruct H. Qed.
Lemma patch_lcode st d b c : lcode (patch st d b c) = map (fun i => match i with LBr r p t f => LBr r p (patch_target d b c t) (patch_target d b c f) | _ => i end) (lcode st).
Proof. unfold lcode, patch. cbn [l_blocks]. induction (l_blocks st) as [|x bs IH]; cbn; [reflexivity|]. rewrite map_app, IH. reflexivity. Qed.
Lemma patch_blocks_id st d b c : nobc st -> l_blocks (patch st d b c) = l_blocks st.
Proof.
  unfold nobc, nobc_code, lcode, patch. cbn [l_blocks]. intros H. induction (l_blocks st) as [|x bs IH]; cbn; [reflexivity|].
  rewrite IH by (intros r p t f Hi; apply (H r p t f); cbn; apply in_or_app; right; exact Hi). f_equal.
  destruct x as [xr xc]. cbn. f_equal.
  assert (Hx : forall r p t f, In (LBr r p t f) xc -> plain_t t /\ plain_t f) by (intros r p t f Hi; apply (H r p t f); cbn; apply in_or_app; left; exact Hi).
  clear -Hx. induction xc as [|i xc IHx]; cbn; [reflexivity|]. rewrite IHx by (intros r p t f Hi; apply (Hx r p t f); right; exact Hi).
  destruct i as [j|r p t f]; [reflexivity|]. destruct (Hx r p t f (or_introl eq_refl)) as [H1 H2]. rewrite !patch_target_plain by assumption. reflexivity.
Qed.
Lemma patch_id st d b c : nobc st -> patch st d b c = st.
Proof. intros H. pose proof (patch_blocks_id st d b c H) as E. unfold patch in *. cbn [l_blocks] in E. rewrite E. destruct st; reflexivity. Qed.

Lemma set_depth_lcode st d : lcode (set_depth st d) = lcode st.
Proof. reflexivity. Qed.
Lemma fok_set_depth st d : fok st -> fok (set_depth st d).
Proof. intros A. destruct A as [A1 A2 A3 A4 A5 A6]. constructor; try assumption. destruct A1. constructor; assumption. Qed.

Section NoBC.
  Variable structs : list sdef.
  Variable gl args : list string.
  Notation lowers := (lower_stmt structs gl args).

  Lemma nobc_set_targets st ref t f : nobc st -> (match t with Some x => plain_t x | None => True end) -> (match f with Some x => plain_t x | None => True end) ->
    nobc (set_targets st ref t f).
  Proof. unfold nobc. rewrite set_targets_lcode. apply nobc_upd. Qed.

  Lemma nobc_b : forall n s st st', bstmt n s = true -> fok st -> nobc st -> lowers s st = LOk st' -> nobc st'.
  Proof.
    induction n as [|n IHn]; intros s st st' Hs A N H; [discriminate|].
    destruct s as [| e | l | | c t f | | | | |]; cbn [bstmt] in Hs; try discriminate.
    - destruct e as [| | | | |lhs e'| | | | |]; try discriminate. destruct lhs as [| |x ty| | | | | | | |]; try discriminate. destruct ty as [[c0| |]| | |]; try discriminate.
      destruct (lower_simple_correct structs gl args (TExpr (XAssign (XVar x (TPrim (PScalar c0))) e')) st st' Hs (fo_linv _ A) H) as (_ & _ & _ & is & Hcode & _).
      unfold nobc. rewrite Hcode. apply nobc_app; [exact N|apply nobc_LI].
    - rewrite lower_block in H. revert st A N H. induction l as [|s0 r IHl]; intros st A N H.
      + cbn in H. inversion H; subst. exact N.
      + cbn [forallb] in Hs. apply andb_prop in Hs as [Hs1 Hs2]. cbn [lower_body lbind] in H.
        destruct (lowers s0 st) as [stm| |] eqn:Em; cbn [lbind] in H; try discriminate.
        destruct (bres_all structs gl args n s0 st stm Hs1 A Em) as (Am & _).
        apply (IHl Hs2 stm Am (IHn s0 st stm Hs1 A N Em) H).
    - apply andb_prop in Hs as [Hs Hf]. apply andb_prop in Hs as [Hpc Hbt]. cbn [lower_stmt lbind] in H.
      destruct (lower_expr structs gl args c st) as [[cv st1]| |] eqn:Ec; cbn [lbind] in H; try discriminate.
      destruct (emit_branch st1 (Some cv) LNone LNone) as [st2 br] eqn:Eb.
      destruct (create_block st2) as [st3 tb] eqn:Etb.
      destruct (lowers t st3) as [st4| |] eqn:Et; cbn [lbind] in H; try discriminate.
      destruct (cond_facts structs gl args c st cv st1 Hpc A Ec) as (A1 & _ & _ & _ & _ & isc & nbc & Hcode1 & _).
      destruct (emit_branch_fok _ _ _ _ _ _ Eb A1) as (A2 & _ & Hcode2 & _).
      destruct (fok_block _ _ _ Etb A2) as (A3 & _ & Hcode3 & _).
      assert (N3 : nobc st3).
      { unfold nobc. rewrite Hcode3, Hcode2, Hcode1. apply nobc_app; [apply nobc_app; [exact N|apply nobc_LI]|].
        intros r p t0 f0 [E|[]]. inversion E; subst. split; exact Logic.I. }
      pose proof (IHn t st3 st4 Hbt A3 N3 Et) as N4.
      destruct (bres_all structs gl args n t st3 st4 Hbt A3 Et) as (A4 & _).
      pose proof (nobc_set_targets st4 br (Some (LRef tb)) None N4 Logic.I Logic.I) as N5.
      destruct (fok_targets st4 br (Some (LRef tb)) None A4) as (A5 & _).
      destruct f as [f'|].
      + destruct (emit_branch (set_targets st4 br (Some (LRef tb)) None) None (LRef tb) LNone) as [st6 ex] eqn:Eex.
        destruct (create_block st6) as [st7 fb] eqn:Efb.
        destruct (lowers f' st7) as [st8| |] eqn:Ef; cbn [lbind] in H; try discriminate.
        destruct (create_block (set_targets st8 br None (Some (LRef fb)))) as [st10 bb] eqn:Ebb. inversion H; subst st'; clear H.
        destruct (emit_branch_fok _ _ _ _ _ _ Eex A5) as (A6 & _ & Hcode6 & _).
        destruct (fok_block _ _ _ Efb A6) as (A7 & _ & Hcode7 & _).
        assert (N7 : nobc st7).
        { unfold nobc. rewrite Hcode7, Hcode6. apply nobc_app; [exact N5|]. intros r p t0 f0 [E|[]]. inversion E; subst. split; exact Logic.I. }
        pose proof (IHn f' st7 st8 Hf A7 N7 Ef) as N8.
        destruct (bres_all structs gl args n f' st7 st8 Hf A7 Ef) as (A8 & _).
        pose proof (nobc_set_targets st8 br None (Some (LRef fb)) N8 Logic.I Logic.I) as N9.
        destruct (fok_targets st8 br None (Some (LRef fb)) A8) as (A9 & _).
        destruct (fok_block _ _ _ Ebb A9) as (A10 & _ & Hcode10 & _).
        apply nobc_set_targets; [|exact Logic.I|exact Logic.I]. unfold nobc. rewrite Hcode10. exact N9.
      + destruct (create_block (set_targets st4 br (Some (LRef tb)) None)) as [st6 bb] eqn:Ebb. inversion H; subst st'; clear H.
        destruct (fok_block _ _ _ Ebb A5) as (A6 & _ & Hcode6 & _).
        apply nobc_set_targets; [|exact Logic.I|exact Logic.I]. unfold nobc. rewrite Hcode6. exact N5.
  Qed.
End NoBC.

Lemma nth_error_mid2 {A} (a : list A) x b y c : nth_error (a ++ x :: b ++ y :: c) (length a + 1 + length b) = Some y.
Proof.
  replace (a ++ x :: b ++ y :: c) with ((a ++ x :: b) ++ y :: c) by (rewrite <- app_assoc; reflexivity).
  replace (length a + 1 + length b) with (length (a ++ x :: b)) by (rewrite app_length; cbn; lia). apply nth_error_mid.
Qed.

Section While.
  Variable structs : list sdef.
  Variable gl args : list string.
  Notation lowers := (lower_stmt structs gl args).

  (** at most [k] evaluations of the condition; the body is a b-statement of depth [n] *)
  Fixpoint wloop (n k : nat) (cs : list (nat * irty * cval)) (locals : list string) (c : texpr) (b : tstmt) (V : list (string * val)) (A : list val) (vs : vmstate)
    : option (list (string * val) * list val * vmstate) :=
    match k with
    | O => None
    | S k' =>
        match teval structs gl args cs locals (mkfr V A) vs c with
        | Ok w => match truthy (hp vs) w with
                  | Ok true => match bexec structs gl args n cs locals b V A vs with Some (V1, A1, vs1) => wloop n k' cs locals c b V1 A1 vs1 | None => None end
                  | Ok false => Some (V, A, vs)
                  | _ => None
                  end
        | _ => None
        end
    end.
  Definition wspec (n k : nat) (c : texpr) (b : tstmt) cs (locals : list string) V A vs : option (list string * list (string * val) * list val * vmstate) :=
    match wloop n k cs locals c b V A vs with Some (V', A', vs') => Some (locals, V', A', vs') | None => None end.

  Lemma tres_while n k c b st st' :
    tpure c = true -> bstmt n b = true -> fok st -> nobc st -> lowers (TWhile c (Some b)) st = LOk st' ->
    tres args st st' (wspec n k c b) /\ nobc st'.
  Proof.
    intros Hpc Hbb A N H. cbn [lower_stmt lbind] in H.
    destruct (create_block st) as [st1 startb] eqn:Esb.
    destruct (lower_expr structs gl args c st1) as [[cv st2]| |] eqn:Ec; cbn [lbind] in H; try discriminate.
    destruct (emit_branch st2 (Some cv) LNone LNone) as [st3 br] eqn:Eb.
    destruct (create_block st3) as [st4 bodyb] eqn:Ebb.
    destruct (lowers b (set_depth st4 (S (l_depth st3)))) as [st5| |] eqn:Et; cbn [lbind] in H; try discriminate.
    destruct (emit_branch (set_depth st5 (l_depth st3)) None (LRef startb) LNone) as [st7 jb] eqn:Ejb.
    destruct (create_block st7) as [st8 endb] eqn:Eeb. inversion H; subst st'; clear H.
    set (st9 := set_targets st8 br (Some (LRef bodyb)) (Some (LRef endb))) in *.
    destruct (fok_block _ _ _ Esb A) as (A1 & _ & Hcode1 & Hbo1 & Hsb & Hn1 & _ & Hc1 & Hl1).
    destruct (cond_facts structs gl args c st1 cv st2 Hpc A1 Ec) as (A2 & Hl2 & Hn2 & Hcv & (nc2 & Hc2 & Hg2) & isc & nbc & Hcode2 & Hbo2 & Hr2 & Hb2 & Hsemc).
    destruct (emit_branch_fok _ _ _ _ _ _ Eb A2) as (A3 & (nb3 & Hbo3 & Hb3 & _ & _) & Hcode3 & Hc3 & Hl3 & _ & Hbr).
    destruct (fok_block _ _ _ Ebb A3) as (A4 & _ & Hcode4 & Hbo4 & Hbob & Hn4 & _ & Hc4 & Hl4).
    pose proof (fok_set_depth st4 (S (l_depth st3)) A4) as A4'.
    destruct (bres_all structs gl args n b _ st5 Hbb A4' Et) as (A5 & Hl5 & Hn5 & (nc5 & Hc5 & Hg5) & newb & nbb & Hcode5 & Hbo5 & Hr5 & Hb5 & Hsemb).
    change (lcode (set_depth st4 (S (l_depth st3)))) with (lcode st4) in *. change (boffs (set_depth st4 (S (l_depth st3)))) with (boffs st4) in *.
    change (l_next (set_depth st4 (S (l_depth st3)))) with (l_next st4) in *. change (l_consts (set_depth st4 (S (l_depth st3)))) with (l_consts st4) in *.
    change (l_locals (set_depth st4 (S (l_depth st3)))) with (l_locals st4) in *.
    pose proof (fok_set_depth st5 (l_depth st3) A5) as A6.
    destruct (emit_branch_fok _ _ _ _ _ _ Ejb A6) as (A7 & (nb7 & Hbo7 & Hb7 & _ & _) & Hcode7 & Hc7 & Hl7 & _ & Hjb).
    change (lcode (set_depth st5 (l_depth st3))) with (lcode st5) in *. change (boffs (set_depth st5 (l_depth st3))) with (boffs st5) in *.
    change (l_next (set_depth st5 (l_depth st3))) with (l_next st5) in *. change (l_consts (set_depth st5 (l_depth st3))) with (l_consts st5) in *.
    change (l_locals (set_depth st5 (l_depth st3))) with (l_locals st5) in *.
    destruct (fok_block _ _ _ Eeb A7) as (A8 & _ & Hcode8 & Hbo8 & Heb & Hn8 & _ & Hc8 & Hl8).
    destruct (fok_targets st8 br (Some (LRef bodyb)) (Some (LRef endb)) A8) as (A9 & _ & Hbo9). fold st9 in A9, Hbo9.
    (* no placeholders: the patch is the identity *)
    assert (N4 : nobc (set_depth st4 (S (l_depth st3)))).
    { unfold nobc. change (lcode (set_depth st4 (S (l_depth st3)))) with (lcode st4). rewrite Hcode4, Hcode3, Hcode2, Hcode1. apply nobc_app; [apply nobc_app; [exact N|apply nobc_LI]|].
      intros r p t0 f0 [E|[]]. inversion E; subst. split; exact Logic.I. }
    pose proof (nobc_b structs gl args n b _ st5 Hbb A4' N4 Et) as N5.
    assert (N8 : nobc st8).
    { unfold nobc. rewrite Hcode8, Hcode7. apply nobc_app; [exact N5|]. intros r p t0 f0 [E|[]]. inversion E; subst. split; exact Logic.I. }
    pose proof (nobc_set_targets st8 br (Some (LRef bodyb)) (Some (LRef endb)) N8 Logic.I Logic.I) as N9. fold st9 in N9.
    rewrite (patch_id st9 _ _ _ N9). split; [|exact N9].
    (* the code *)
    set (BR0 := LBr br (Some cv) LNone LNone) in *. set (JB := LBr jb None (LRef startb) LNone) in *.
    assert (Hlc8 : lcode st8 = (lcode st ++ map LI isc) ++ [BR0] ++ (newb ++ [JB])) by (rewrite Hcode8, Hcode7, Hcode5, Hcode4, Hcode3, Hcode2, Hcode1, <- !app_assoc; reflexivity).
    assert (Hpre_ne : forall i, In i (lcode st ++ map LI isc) -> lref i <> br).
    { intros i Hi. apply in_app_or in Hi as [Hi|Hi]; [pose proof (irefs_bound _ A i Hi); lia|]. apply in_map_iff in Hi as (j & <- & Hj). cbn. specialize (Hr2 j Hj). lia. }
    assert (Hpost_ne : forall i, In i (newb ++ [JB]) -> lref i <> br).
    { intros i Hi. apply in_app_or in Hi as [Hi|[<-|[]]]; [specialize (Hr5 i Hi); lia|cbn; lia]. }
    set (BR := LBr br (Some cv) (LRef bodyb) (LRef endb)) in *.
    assert (Hlc9 : lcode st9 = lcode st ++ map LI isc ++ [BR] ++ newb ++ [JB]).
    { unfold st9. rewrite set_targets_lcode, Hlc8. unfold BR0. rewrite (upd_layout br (Some cv) LNone LNone (Some (LRef bodyb)) (Some (LRef endb)) _ _ Hpre_ne Hpost_ne). rewrite <- !app_assoc. reflexivity. }
    set (new := map LI isc ++ [BR] ++ newb ++ [JB]).
    set (nb := [(startb, length (lcode st))] ++ nbc ++ nb3 ++ [(bodyb, length (lcode st3))] ++ nbb ++ nb7 ++ [(endb, length (lcode st7))]).
    assert (Hbo : boffs st9 = boffs st ++ nb) by (unfold nb; rewrite Hbo9, Hbo8, Hbo7, Hbo5, Hbo4, Hbo3, Hbo2, Hbo1, <- !app_assoc; reflexivity).
    assert (HL1 : length (lcode st1) = length (lcode st)) by (rewrite Hcode1; reflexivity).
    assert (HL2 : length (lcode st2) = length (lcode st) + length isc) by (rewrite Hcode2, app_length, map_length, HL1; reflexivity).
    assert (HL3 : length (lcode st3) = length (lcode st) + length isc + 1) by (rewrite Hcode3, app_length, HL2; cbn; lia).
    assert (HL4 : length (lcode st4) = length (lcode st3)) by (rewrite Hcode4; reflexivity).
    assert (HL5 : length (lcode st5) = length (lcode st) + length isc + 1 + length newb) by (rewrite Hcode5, app_length, Hcode4, HL3; reflexivity).
    assert (HL7 : length (lcode st7) = length (lcode st) + length isc + 1 + length newb + 1) by (rewrite Hcode7, app_length, HL5; cbn; lia).
    assert (HLnew : length new = length isc + 1 + length newb + 1) by (unfold new; rewrite !app_length, map_length; cbn; lia).
    assert (HL9 : length (lcode st9) = length (lcode st) + length new) by (rewrite Hlc9; fold new; apply app_length).
    assert (Hnx9 : l_next st9 = l_next st8) by reflexivity.
    split; [exact A9|]. split; [lia|].
    split; [exists (nc2 ++ nc5); split; [unfold st9; cbn; rewrite Hc8, Hc7, Hc5, Hc4, Hc3, Hc2, Hc1, app_assoc; reflexivity|
                                          intros c0 Hc0; apply in_app_or in Hc0 as [Hc0|Hc0]; [specialize (Hg2 c0 Hc0); lia|specialize (Hg5 c0 Hc0); lia]]|].
    exists new, nb. split; [rewrite Hlc9; reflexivity|]. split; [exact Hbo|].
    split.
    { intros i Hi. unfold new in Hi. rewrite !in_app_iff in Hi. cbn [In] in Hi. destruct Hi as [Hi|[[Hi|[]]|[Hi|[Hi|[]]]]].
      - apply in_map_iff in Hi as (j & <- & Hj). cbn. specialize (Hr2 j Hj). lia.
      - subst i. cbn. lia.
      - specialize (Hr5 i Hi). lia.
      - subst i. cbn. lia. }
    split.
    { intros e He. unfold nb in He. rewrite HL9.
      apply in_app_or in He as [He|He]; [destruct He as [<-|[]]; cbn [fst snd]; lia|].
      apply in_app_or in He as [He|He]; [destruct (Hb2 e He); lia|].
      apply in_app_or in He as [He|He]; [destruct (Hb3 e He); lia|].
      apply in_app_or in He as [He|He]; [destruct He as [<-|[]]; cbn [fst snd]; lia|].
      apply in_app_or in He as [He|He]; [destruct (Hb5 e He); lia|].
      apply in_app_or in He as [He|He]; [destruct (Hb7 e He); lia|].
      destruct He as [<-|[]]. cbn [fst snd]. lia. }
    (* the execution: induction on the number of evaluations of the condition *)
    intros F pre post fr vs cs locals' V' A' vs' Hflat Hlen Hoff [more Hcs] Hregs Hdisj Hex.
    assert (Hloc : l_locals st9 = l_locals st) by (unfold st9; cbn; congruence).
    unfold wspec in Hex. destruct (wloop n k cs (l_locals st) c b (vars fr) (fargs fr) vs) as [[[V1 A1'] vs1]|] eqn:Ew; [|discriminate]. inversion Hex; subst locals' V1 A1' vs1; clear Hex.
    split; [exact Hloc|].
    assert (Hflat' : flat_code F = (pre ++ map (finish_instr args) (map LI isc)) ++ finish_instr args BR :: map (finish_instr args) newb ++ finish_instr args JB :: post).
    { rewrite Hflat. unfold new. rewrite !map_app. cbn [map]. rewrite <- ?app_assoc. cbn [app]. rewrite <- ?app_assoc. cbn [app]. reflexivity. }
    assert (HnBR : nth_error (flat_code F) (length pre + length isc) = Some (finish_instr args BR)).
    { rewrite Hflat'. replace (length pre + length isc) with (length (pre ++ map (finish_instr args) (map LI isc))) by (rewrite app_length, !map_length; reflexivity). apply nth_error_mid. }
    assert (HnJB : nth_error (flat_code F) (length pre + length isc + 1 + length newb) = Some (finish_instr args JB)).
    { rewrite Hflat'. replace (length pre + length isc + 1 + length newb) with (length (pre ++ map (finish_instr args) (map LI isc)) + 1 + length (map (finish_instr args) newb)) by (rewrite app_length, !map_length; reflexivity).
      apply nth_error_mid2. }
    assert (Hoffsb : block_offset_last (fn_blocks F) startb = Some (length pre)).
    { assert (Hin : In (startb, length (lcode st)) nb) by (unfold nb; left; reflexivity). pose proof (Hoff _ Hin) as X. cbn [fst snd] in X. rewrite X, Hlen. reflexivity. }
    assert (Hoffbb : block_offset_last (fn_blocks F) bodyb = Some (length pre + length isc + 1)).
    { assert (Hin : In (bodyb, length (lcode st3)) nb) by (unfold nb; rewrite !in_app_iff; cbn [In]; right; right; right; left; left; reflexivity).
      pose proof (Hoff _ Hin) as X. cbn [fst snd] in X. rewrite X, HL3, Hlen. reflexivity. }
    assert (Hoffeb : block_offset_last (fn_blocks F) endb = Some (length pre + length new)).
    { assert (Hin : In (endb, length (lcode st7)) nb) by (unfold nb; rewrite !in_app_iff; cbn [In]; right; right; right; right; right; right; left; reflexivity).
      pose proof (Hoff _ Hin) as X. cbn [fst snd] in X. rewrite X, HL7, HLnew, Hlen. f_equal. lia. }
    assert (Hcs2 : exists more2, cs = l_consts st2 ++ more2).
    { exists (nc5 ++ more). rewrite Hcs. unfold st9. cbn. rewrite Hc8, Hc7, Hc5, Hc4, Hc3, <- app_assoc. reflexivity. }
    assert (Hcs5 : exists more5, cs = l_consts st5 ++ more5) by (exists more; rewrite Hcs; unfold st9; cbn; rewrite Hc8, Hc7; reflexivity).
    clear Hcs.
    revert fr vs Hregs Ew. induction k as [|k IHk]; intros fr vs Hregs Ew; [discriminate|]. cbn [wloop] in Ew.
    destruct (teval structs gl args cs (l_locals st) (mkfr (vars fr) (fargs fr)) vs c) as [w| |] eqn:Etw; try discriminate.
    destruct (Hsemc F (length pre) fr vs cs w Hcs2 Hregs) as (frc & Hrunc & Hgc & Hvc & Hac & Hfc).
    { intros c0 i Hc0 Hi. apply (Hdisj c0 (LI i) Hc0). unfold new. apply in_or_app. left. apply in_map. exact Hi. }
    { rewrite Hl1. rewrite <- Etw. apply teval_frame; reflexivity. }
    assert (Hj1 : jruns F (length pre) fr vs (length pre + length isc) frc vs).
    { replace (length isc) with (length (map (finish_instr args) (map LI isc))) by (rewrite !map_length; reflexivity).
      apply (sruns_jruns F _ pre (finish_instr args BR :: map (finish_instr args) newb ++ finish_instr args JB :: post)); [rewrite Hflat', <- app_assoc; reflexivity|apply runs_sruns; exact Hrunc]. }
    assert (Hregsc : forall c0, In c0 cs -> rlookup (cref c0) (regs frc) = Some (const_val (snd c0))).
    { intros c0 Hc0. rewrite Hfc; [apply Hregs; exact Hc0|]. intros i Hi E. apply (Hdisj c0 (LI i) Hc0); [unfold new; apply in_or_app; left; apply in_map; exact Hi|cbn; congruence]. }
    destruct (truthy (hp vs) w) as [[|]| |] eqn:Etr; try discriminate.
    - (* one more iteration *)
      destruct (bexec structs gl args n cs (l_locals st) b (vars fr) (fargs fr) vs) as [[[Vb Ab] vsb]|] eqn:Exb; [|discriminate].
      assert (HstepBR : step F (length pre + length isc) frc vs (finish_instr args BR) = StNext (length pre + length isc + 1) frc vs).
      { unfold BR. rewrite finish_br. unfold step. cbn [i_body tgt]. rewrite Hgc. cbn [lift]. rewrite Etr. cbn [lift]. rewrite Hoffbb. reflexivity. }
      destruct (Hsemb F (pre ++ map (finish_instr args) (map LI isc) ++ [finish_instr args BR]) (finish_instr args JB :: post) frc vs cs Vb Ab vsb) as (frb & Hjb' & Hvb & Hab & Hfb).
      { rewrite Hflat'. rewrite <- !app_assoc. reflexivity. }
      { rewrite !app_length, !map_length. cbn [length]. transitivity (length (lcode st4)); [rewrite HL4, HL3; lia|reflexivity]. }
      { intros e He. apply Hoff. unfold nb. rewrite !in_app_iff. cbn [In]. right. right. right. right. left. exact He. }
      { exact Hcs5. }
      { exact Hregsc. }
      { intros c0 i Hc0 Hi. apply Hdisj; [exact Hc0|]. unfold new. rewrite !in_app_iff. cbn [In]. tauto. }
      { change (l_locals (set_depth st4 (S (l_depth st3)))) with (l_locals st4). rewrite Hl4, Hl3, Hl2, Hl1, Hvc, Hac. exact Exb. }
      assert (HstepJB : step F (length pre + length isc + 1 + length newb) frb vsb (finish_instr args JB) = StNext (length pre) frb vsb).
      { unfold JB. rewrite finish_br. unfold step. cbn [i_body tgt]. rewrite Hoffsb. reflexivity. }
      assert (Hregsb : forall c0, In c0 cs -> rlookup (cref c0) (regs frb) = Some (const_val (snd c0))).
      { intros c0 Hc0. rewrite Hfb; [apply Hregsc; exact Hc0|]. intros i Hi E. apply (Hdisj c0 i Hc0); [unfold new; rewrite !in_app_iff; cbn [In]; tauto|congruence]. }
      destruct (IHk frb vsb Hregsb) as (fr' & Hj' & Hv' & Ha' & Hf').
      { rewrite Hvb, Hab. exact Ew. }
      exists fr'. split; [|split; [exact Hv'|split; [exact Ha'|]]].
      + eapply jruns_trans; [exact Hj1|]. eapply jruns_trans; [apply (jruns_branch F _ frc vs _ _ HnBR HstepBR)|].
        rewrite !app_length, !map_length in Hjb'. cbn [length] in Hjb'.
        replace (length pre + (length isc + 1)) with (length pre + length isc + 1) in Hjb' by lia.
        eapply jruns_trans; [exact Hjb'|]. eapply jruns_trans; [apply (jruns_branch F _ frb vsb _ _ HnJB HstepJB)|exact Hj'].
      + intros q Hq. rewrite Hf' by exact Hq. rewrite Hfb by (intros i Hi; apply Hq; unfold new; rewrite !in_app_iff; cbn [In]; tauto).
        apply Hfc. intros i Hi. apply (Hq (LI i)). unfold new. apply in_or_app. left. apply in_map. exact Hi.
    - (* the condition fails: leave the loop *)
      inversion Ew; subst V' A' vs'; clear Ew.
      assert (HstepBR : step F (length pre + length isc) frc vs (finish_instr args BR) = StNext (length pre + length new) frc vs).
      { unfold BR. rewrite finish_br. unfold step. cbn [i_body tgt]. rewrite Hgc. cbn [lift]. rewrite Etr. cbn [lift]. rewrite Hoffeb. reflexivity. }
      exists frc. split; [|split; [exact Hvc|split; [exact Hac|]]].
      + eapply jruns_trans; [exact Hj1|]. apply (jruns_branch F _ frc vs _ _ HnBR HstepBR).
      + intros q Hq. apply Hfc. intros i Hi. apply (Hq (LI i)). unfold new. apply in_or_app. left. apply in_map. exact Hi.
  Qed.
End While.

(** ** [do body while (c)]: the body runs first, then the condition decides whether to jump back to the start block *)
Section Do.
  Variable structs : list sdef.
  Variable gl args : list string.
  Notation lowers := (lower_stmt structs gl args).

  Lemma lower_do_unfold b c st :
    lowers (TDo b c) st =
    (let '(st1, startb) := create_block st in
     ldo st2 <- lowers (TBlock b) (set_depth st1 (S (l_depth st1)));
     let '(st4, condb) := create_block (set_depth st2 (l_depth st1)) in
     ldo p <- lower_expr structs gl args c st4; let '(cv, st5) := p in
     let '(st6, br) := emit_branch st5 (Some cv) (LRef startb) LNone in
     let '(st7, endb) := create_block st6 in
     LOk (patch (set_targets st7 br None (Some (LRef endb))) (l_depth st1) endb condb)).
  Proof. cbn [lower_stmt]. destruct (create_block st) as [st1 startb]. reflexivity. Qed.

  (** at most [k] executions of the body; the body is a list of b-statements of depth [n] *)
  Fixpoint dloop (n k : nat) (cs : list (nat * irty * cval)) (locals : list string) (b : list tstmt) (c : texpr) (V : list (string * val)) (A : list val) (vs : vmstate)
    : option (list (string * val) * list val * vmstate) :=
    match k with
    | O => None
    | S k' =>
        match bexec structs gl args (S n) cs locals (TBlock b) V A vs with
        | Some (V1, A1, vs1) =>
            match teval structs gl args cs locals (mkfr V1 A1) vs1 c with
            | Ok w => match truthy (hp vs1) w with
                      | Ok true => dloop n k' cs locals b c V1 A1 vs1
                      | Ok false => Some (V1, A1, vs1)
                      | _ => None
                      end
            | _ => None
            end
        | None => None
        end
    end.
  Definition dspec (n k : nat) (b : list tstmt) (c : texpr) cs (locals : list string) V A vs : option (list string * list (string * val) * list val * vmstate) :=
    match dloop n k cs locals b c V A vs with Some (V', A', vs') => Some (locals, V', A', vs') | None => None end.

  Lemma tres_do n k b c st st' :
    tpure c = true -> forallb (bstmt n) b = true -> fok st -> nobc st -> lowers (TDo b c) st = LOk st' ->
    tres args st st' (dspec n k b c) /\ nobc st'.
  Proof.
    intros Hpc Hbb A N H. rewrite lower_do_unfold in H.
    destruct (create_block st) as [st1 startb] eqn:Esb.
    destruct (lowers (TBlock b) (set_depth st1 (S (l_depth st1)))) as [st2| |] eqn:Et; cbn [lbind] in H; try discriminate.
    destruct (create_block (set_depth st2 (l_depth st1))) as [st4 condb] eqn:Ecb.
    destruct (lower_expr structs gl args c st4) as [[cv st5]| |] eqn:Ec; cbn [lbind] in H; try discriminate.
    destruct (emit_branch st5 (Some cv) (LRef startb) LNone) as [st6 br] eqn:Eb.
    destruct (create_block st6) as [st7 endb] eqn:Eeb. inversion H; subst st'; clear H.
    set (st8 := set_targets st7 br None (Some (LRef endb))) in *.
    assert (Hbb' : bstmt (S n) (TBlock b) = true) by exact Hbb.
    destruct (fok_block _ _ _ Esb A) as (A1 & _ & Hcode1 & Hbo1 & Hsb & Hn1 & _ & Hc1 & Hl1).
    pose proof (fok_set_depth st1 (S (l_depth st1)) A1) as A1'.
    destruct (bres_all structs gl args (S n) (TBlock b) _ st2 Hbb' A1' Et) as (A2 & Hl2 & Hn2 & (nc2 & Hc2 & Hg2) & newb & nbb & Hcode2 & Hbo2 & Hr2 & Hb2 & Hsemb).
    change (lcode (set_depth st1 (S (l_depth st1)))) with (lcode st1) in *. change (boffs (set_depth st1 (S (l_depth st1)))) with (boffs st1) in *.
    change (l_next (set_depth st1 (S (l_depth st1)))) with (l_next st1) in *. change (l_consts (set_depth st1 (S (l_depth st1)))) with (l_consts st1) in *.
    change (l_locals (set_depth st1 (S (l_depth st1)))) with (l_locals st1) in *.
    pose proof (fok_set_depth st2 (l_depth st1) A2) as A3.
    destruct (fok_block _ _ _ Ecb A3) as (A4 & _ & Hcode4 & Hbo4 & Hcb & Hn4 & _ & Hc4 & Hl4).
    change (lcode (set_depth st2 (l_depth st1))) with (lcode st2) in *. change (boffs (set_depth st2 (l_depth st1))) with (boffs st2) in *.
    change (l_next (set_depth st2 (l_depth st1))) with (l_next st2) in *. change (l_consts (set_depth st2 (l_depth st1))) with (l_consts st2) in *.
    change (l_locals (set_depth st2 (l_depth st1))) with (l_locals st2) in *.
    destruct (cond_facts structs gl args c st4 cv st5 Hpc A4 Ec) as (A5 & Hl5 & Hn5 & Hcv & (nc5 & Hc5 & Hg5) & isc & nbc & Hcode5 & Hbo5 & Hr5 & Hb5 & Hsemc).
    destruct (emit_branch_fok _ _ _ _ _ _ Eb A5) as (A6 & (nb6 & Hbo6 & Hb6 & _ & _) & Hcode6 & Hc6 & Hl6 & _ & Hbr).
    destruct (fok_block _ _ _ Eeb A6) as (A7 & _ & Hcode7 & Hbo7 & Heb & Hn7 & _ & Hc7 & Hl7).
    destruct (fok_targets st7 br None (Some (LRef endb)) A7) as (A8 & _ & Hbo8). fold st8 in A8, Hbo8.
    (* no placeholders: the patch is the identity *)
    assert (N1 : nobc (set_depth st1 (S (l_depth st1)))) by (unfold nobc; change (lcode (set_depth st1 (S (l_depth st1)))) with (lcode st1); rewrite Hcode1; exact N).
    pose proof (nobc_b structs gl args (S n) (TBlock b) _ st2 Hbb' A1' N1 Et) as N2.
    assert (N7 : nobc st7).
    { unfold nobc. rewrite Hcode7, Hcode6, Hcode5, Hcode4. apply nobc_app; [apply nobc_app; [exact N2|apply nobc_LI]|].
      intros r p t0 f0 [E|[]]. inversion E; subst. split; exact Logic.I. }
    pose proof (nobc_set_targets st7 br None (Some (LRef endb)) N7 Logic.I Logic.I) as N8. fold st8 in N8.
    rewrite (patch_id st8 _ _ _ N8). split; [|exact N8].
    (* the code *)
    set (BR0 := LBr br (Some cv) (LRef startb) LNone) in *.
    assert (Hlc7 : lcode st7 = (lcode st ++ newb ++ map LI isc) ++ [BR0] ++ []) by (rewrite Hcode7, Hcode6, Hcode5, Hcode4, Hcode2, Hcode1, <- !app_assoc; reflexivity).
    assert (Hpre_ne : forall i, In i (lcode st ++ newb ++ map LI isc) -> lref i <> br).
    { intros i Hi. apply in_app_or in Hi as [Hi|Hi]; [pose proof (irefs_bound _ A i Hi); lia|].
      apply in_app_or in Hi as [Hi|Hi]; [specialize (Hr2 i Hi); lia|]. apply in_map_iff in Hi as (j & <- & Hj). cbn. specialize (Hr5 j Hj). lia. }
    set (BR := LBr br (Some cv) (LRef startb) (LRef endb)) in *.
    assert (Hlc8 : lcode st8 = lcode st ++ newb ++ map LI isc ++ [BR]).
    { unfold st8. rewrite set_targets_lcode, Hlc7. unfold BR0. rewrite (upd_layout br (Some cv) (LRef startb) LNone None (Some (LRef endb)) _ [] Hpre_ne (fun i (Hi : In i []) => match Hi with end)).
      rewrite <- !app_assoc. reflexivity. }
    set (new := newb ++ map LI isc ++ [BR]).
    set (nb := [(startb, length (lcode st))] ++ nbb ++ [(condb, length (lcode st2))] ++ nbc ++ nb6 ++ [(endb, length (lcode st6))]).
    assert (Hbo : boffs st8 = boffs st ++ nb) by (unfold nb; rewrite Hbo8, Hbo7, Hbo6, Hbo5, Hbo4, Hbo2, Hbo1, <- !app_assoc; reflexivity).
    assert (HL1 : length (lcode st1) = length (lcode st)) by (rewrite Hcode1; reflexivity).
    assert (HL2 : length (lcode st2) = length (lcode st) + length newb) by (rewrite Hcode2, app_length, HL1; reflexivity).
    assert (HL4 : length (lcode st4) = length (lcode st2)) by (rewrite Hcode4; reflexivity).
    assert (HL5 : length (lcode st5) = length (lcode st) + length newb + length isc) by (rewrite Hcode5, app_length, map_length, HL4, HL2; reflexivity).
    assert (HL6 : length (lcode st6) = length (lcode st) + length newb + length isc + 1) by (rewrite Hcode6, app_length, HL5; cbn; lia).
    assert (HLnew : length new = length newb + length isc + 1) by (unfold new; rewrite !app_length, map_length; cbn; lia).
    assert (HL8 : length (lcode st8) = length (lcode st) + length new) by (rewrite Hlc8; fold new; apply app_length).
    assert (Hnx8 : l_next st8 = l_next st7) by reflexivity.
    split; [exact A8|]. split; [lia|].
    split; [exists (nc2 ++ nc5); split; [unfold st8; cbn; rewrite Hc7, Hc6, Hc5, Hc4, Hc2, Hc1, app_assoc; reflexivity|
                                          intros c0 Hc0; apply in_app_or in Hc0 as [Hc0|Hc0]; [specialize (Hg2 c0 Hc0); lia|specialize (Hg5 c0 Hc0); lia]]|].
    exists new, nb. split; [rewrite Hlc8; reflexivity|]. split; [exact Hbo|].
    split.
    { intros i Hi. unfold new in Hi. rewrite !in_app_iff in Hi. cbn [In] in Hi. destruct Hi as [Hi|[Hi|[Hi|[]]]].
      - specialize (Hr2 i Hi). lia.
      - apply in_map_iff in Hi as (j & <- & Hj). cbn. specialize (Hr5 j Hj). lia.
      - subst i. cbn. lia. }
    split.
    { intros e He. unfold nb in He. rewrite HL8.
      apply in_app_or in He as [He|He]; [destruct He as [<-|[]]; cbn [fst snd]; lia|].
      apply in_app_or in He as [He|He]; [destruct (Hb2 e He); lia|].
      apply in_app_or in He as [He|He]; [destruct He as [<-|[]]; cbn [fst snd]; lia|].
      apply in_app_or in He as [He|He]; [destruct (Hb5 e He); lia|].
      apply in_app_or in He as [He|He]; [destruct (Hb6 e He); lia|].
      destruct He as [<-|[]]. cbn [fst snd]. lia. }
    (* the execution: induction on the number of executions of the body *)
    intros F pre post fr vs cs locals' V' A' vs' Hflat Hlen Hoff [more Hcs] Hregs Hdisj Hex.
    assert (Hloc : l_locals st8 = l_locals st) by (unfold st8; cbn; congruence).
    unfold dspec in Hex. destruct (dloop n k cs (l_locals st) b c (vars fr) (fargs fr) vs) as [[[V1 A1q] vs1]|] eqn:Ew; [|discriminate]. inversion Hex; subst locals' V1 A1q vs1; clear Hex.
    split; [exact Hloc|].
    assert (Hflat' : flat_code F = (pre ++ map (finish_instr args) newb ++ map (finish_instr args) (map LI isc)) ++ finish_instr args BR :: post).
    { rewrite Hflat. unfold new. rewrite !map_app. cbn [map]. rewrite <- ?app_assoc. cbn [app]. reflexivity. }
    assert (HnBR : nth_error (flat_code F) (length pre + length newb + length isc) = Some (finish_instr args BR)).
    { rewrite Hflat'. replace (length pre + length newb + length isc) with (length (pre ++ map (finish_instr args) newb ++ map (finish_instr args) (map LI isc))) by (rewrite !app_length, !map_length; lia). apply nth_error_mid. }
    assert (Hoffsb : block_offset_last (fn_blocks F) startb = Some (length pre)).
    { assert (Hin : In (startb, length (lcode st)) nb) by (unfold nb; left; reflexivity). pose proof (Hoff _ Hin) as X. cbn [fst snd] in X. rewrite X, Hlen. reflexivity. }
    assert (Hoffeb : block_offset_last (fn_blocks F) endb = Some (length pre + length new)).
    { assert (Hin : In (endb, length (lcode st6)) nb) by (unfold nb; rewrite !in_app_iff; cbn [In]; right; right; right; right; right; left; reflexivity).
      pose proof (Hoff _ Hin) as X. cbn [fst snd] in X. rewrite X, HL6, HLnew, Hlen. f_equal. lia. }
    assert (Hcs2 : exists more2, cs = l_consts st2 ++ more2).
    { exists (nc5 ++ more). rewrite Hcs. unfold st8. cbn. rewrite Hc7, Hc6, Hc5, Hc4, <- app_assoc. reflexivity. }
    assert (Hcs5 : exists more5, cs = l_consts st5 ++ more5) by (exists more; rewrite Hcs; unfold st8; cbn; rewrite Hc7, Hc6; reflexivity).
    clear Hcs.
    revert fr vs Hregs Ew. induction k as [|k IHk]; intros fr vs Hregs Ew; [discriminate|]. cbn [dloop] in Ew.
    destruct (bexec structs gl args (S n) cs (l_locals st) (TBlock b) (vars fr) (fargs fr) vs) as [[[Vb Ab] vsb]|] eqn:Exb; [|discriminate].
    destruct (Hsemb F pre (map (finish_instr args) (map LI isc) ++ finish_instr args BR :: post) fr vs cs Vb Ab vsb) as (frb & Hjb & Hvb & Hab & Hfb).
    { rewrite Hflat'. rewrite <- !app_assoc. reflexivity. }
    { change (length pre = length (lcode st1)). rewrite HL1. exact Hlen. }
    { intros e He. apply Hoff. unfold nb. rewrite !in_app_iff. cbn [In]. right. left. exact He. }
    { exact Hcs2. }
    { exact Hregs. }
    { intros c0 i Hc0 Hi. apply Hdisj; [exact Hc0|]. unfold new. rewrite !in_app_iff. tauto. }
    { change (l_locals (set_depth st1 (S (l_depth st1)))) with (l_locals st1). rewrite Hl1. exact Exb. }
    assert (Hregsb : forall c0, In c0 cs -> rlookup (cref c0) (regs frb) = Some (const_val (snd c0))).
    { intros c0 Hc0. rewrite Hfb; [apply Hregs; exact Hc0|]. intros i Hi E. apply (Hdisj c0 i Hc0); [unfold new; rewrite !in_app_iff; tauto|congruence]. }
    destruct (teval structs gl args cs (l_locals st) (mkfr Vb Ab) vsb c) as [w| |] eqn:Etw; try discriminate.
    destruct (Hsemc F (length pre + length newb) frb vsb cs w Hcs5 Hregsb) as (frc & Hrunc & Hgc & Hvc & Hac & Hfc).
    { intros c0 i Hc0 Hi. apply (Hdisj c0 (LI i) Hc0). unfold new. rewrite !in_app_iff. right. left. apply in_map. exact Hi. }
    { rewrite Hl4, Hl2, Hl1. rewrite <- Etw. apply teval_frame; [exact Hvb|exact Hab]. }
    assert (Hj1 : jruns F (length pre + length newb) frb vsb (length pre + length newb + length isc) frc vsb).
    { replace (length isc) with (length (map (finish_instr args) (map LI isc))) by (rewrite !map_length; reflexivity).
      replace (length pre + length newb) with (length (pre ++ map (finish_instr args) newb)) by (rewrite app_length, map_length; reflexivity).
      apply (sruns_jruns F _ (pre ++ map (finish_instr args) newb) (finish_instr args BR :: post)); [rewrite Hflat', <- !app_assoc; reflexivity|].
      apply runs_sruns. rewrite app_length, map_length. exact Hrunc. }
    assert (Hregsc : forall c0, In c0 cs -> rlookup (cref c0) (regs frc) = Some (const_val (snd c0))).
    { intros c0 Hc0. rewrite Hfc; [apply Hregsb; exact Hc0|]. intros i Hi E. apply (Hdisj c0 (LI i) Hc0); [unfold new; rewrite !in_app_iff; right; left; apply in_map; exact Hi|cbn; congruence]. }
    destruct (truthy (hp vsb) w) as [[|]| |] eqn:Etr; try discriminate.
    - (* once more: jump back to the start block *)
      assert (HstepBR : step F (length pre + length newb + length isc) frc vsb (finish_instr args BR) = StNext (length pre) frc vsb).
      { unfold BR. rewrite finish_br. unfold step. cbn [i_body tgt]. rewrite Hgc. cbn [lift]. rewrite Etr. cbn [lift]. rewrite Hoffsb. reflexivity. }
      destruct (IHk frc vsb Hregsc) as (fr' & Hj' & Hv' & Ha' & Hf').
      { rewrite Hvc, Hac, Hvb, Hab. exact Ew. }
      exists fr'. split; [|split; [exact Hv'|split; [exact Ha'|]]].
      + eapply jruns_trans; [exact Hjb|]. eapply jruns_trans; [exact Hj1|]. eapply jruns_trans; [apply (jruns_branch F _ frc vsb _ _ HnBR HstepBR)|exact Hj'].
      + intros q Hq. rewrite Hf' by exact Hq. rewrite Hfc by (intros i Hi; apply (Hq (LI i)); unfold new; rewrite !in_app_iff; right; left; apply in_map; exact Hi).
        apply Hfb. intros i Hi. apply Hq. unfold new. rewrite !in_app_iff. left. exact Hi.
    - (* the condition fails: leave the loop *)
      inversion Ew; subst V' A' vs'; clear Ew.
      assert (HstepBR : step F (length pre + length newb + length isc) frc vsb (finish_instr args BR) = StNext (length pre + length new) frc vsb).
      { unfold BR. rewrite finish_br. unfold step. cbn [i_body tgt]. rewrite Hgc. cbn [lift]. rewrite Etr. cbn [lift]. rewrite Hoffeb. reflexivity. }
      exists frc. split; [|split; [congruence|split; [congruence|]]].
      + eapply jruns_trans; [exact Hjb|]. eapply jruns_trans; [exact Hj1|]. apply (jruns_branch F _ frc vsb _ _ HnBR HstepBR).
      + intros q Hq. rewrite Hfc by (intros i Hi; apply (Hq (LI i)); unfold new; rewrite !in_app_iff; right; left; apply in_map; exact Hi).
        apply Hfb. intros i Hi. apply Hq. unfold new. rewrite !in_app_iff. left. exact Hi.
  Qed.
End Do.

(** ** [for (init; c; n) body]: condition block, body block, increment block, exit block *)
Section For.
  Variable structs : list sdef.
  Variable gl args : list string.
  Notation lowers := (lower_stmt structs gl args).

  Lemma lower_for_unfold c nx b st :
    lowers (TFor None (Some c) (Some nx) b) st =
    (let '(st2, condb) := create_block st in
     ldo p <- lower_expr structs gl args c st2; let '(cv, st3) := p in
     let '(st4, cbr) := emit_branch st3 (Some cv) LNone LNone in
     let '(st5, bodyb) := create_block st4 in
     ldo st6 <- lowers b (set_depth st5 (S (l_depth st5)));
     let '(st8, incb) := create_block (set_depth st6 (l_depth st5)) in
     ldo st9 <- lowers (TExpr nx) st8;
     let '(st10, jb) := emit_branch st9 None (LRef condb) LNone in
     let '(st11, endb) := create_block st10 in
     LOk (patch (set_targets st11 cbr (Some (LRef bodyb)) (Some (LRef endb))) (l_depth st5) endb incb)).
  Proof.
    cbn [lower_stmt lower_opt lbind]. destruct (create_block st) as [st2 condb].
    destruct (lower_expr structs gl args c st2) as [[cv st3]| |]; cbn [lbind fst snd]; try reflexivity.
    destruct (emit_branch st3 (Some cv) LNone LNone) as [st4 cbr]. destruct (create_block st4) as [st5 bodyb].
    destruct (lower_stmt structs gl args b (set_depth st5 (S (l_depth st5)))) as [st6| |]; cbn [lbind]; try reflexivity.
    destruct (create_block (set_depth st6 (l_depth st5))) as [st8 incb].
    destruct (lower_expr structs gl args nx st8) as [[q1 q2]| |]; cbn [lbind fst snd]; reflexivity.
  Qed.
  Lemma lower_for_split t x i c nx b st :
    lowers (TFor (Some (t, x, i)) (Some c) (Some nx) b) st = (ldo st1 <- lowers (TDecl t x i) st; lowers (TFor None (Some c) (Some nx) b) st1).
  Proof. cbn [lower_stmt lbind]. destruct (lower_decl structs gl args t x i st); reflexivity. Qed.

  (** at most [k] evaluations of the condition; body a b-statement of depth [n], the increment an assignment *)
  Fixpoint floop (n k : nat) (cs : list (nat * irty * cval)) (locals : list string) (c nx : texpr) (b : tstmt) (V : list (string * val)) (A : list val) (vs : vmstate)
    : option (list (string * val) * list val * vmstate) :=
    match k with
    | O => None
    | S k' =>
        match teval structs gl args cs locals (mkfr V A) vs c with
        | Ok w => match truthy (hp vs) w with
                  | Ok true => match bexec structs gl args n cs locals b V A vs with
                               | Some (V1, A1, vs1) => match bexec structs gl args 1 cs locals (TExpr nx) V1 A1 vs1 with
                                                       | Some (V2, A2, vs2) => floop n k' cs locals c nx b V2 A2 vs2
                                                       | None => None
                                                       end
                               | None => None
                               end
                  | Ok false => Some (V, A, vs)
                  | _ => None
                  end
        | _ => None
        end
    end.
  Definition fspec (n k : nat) (c nx : texpr) (b : tstmt) cs (locals : list string) V A vs : option (list string * list (string * val) * list val * vmstate) :=
    match floop n k cs locals c nx b V A vs with Some (V', A', vs') => Some (locals, V', A', vs') | None => None end.

  Lemma tres_forloop n k c nx b st st' :
    tpure c = true -> bstmt 1 (TExpr nx) = true -> bstmt n b = true -> fok st -> nobc st -> lowers (TFor None (Some c) (Some nx) b) st = LOk st' ->
    tres args st st' (fspec n k c nx b) /\ nobc st'.
  Proof.
    intros Hpc Hbn Hbb A N H. rewrite lower_for_unfold in H.
    destruct (create_block st) as [st1 startb] eqn:Esb.
    destruct (lower_expr structs gl args c st1) as [[cv st2]| |] eqn:Ec; cbn [lbind] in H; try discriminate.
    destruct (emit_branch st2 (Some cv) LNone LNone) as [st3 br] eqn:Eb.
    destruct (create_block st3) as [st4 bodyb] eqn:Ebb.
    destruct (lowers b (set_depth st4 (S (l_depth st4)))) as [st5| |] eqn:Et; cbn [lbind] in H; try discriminate.
    destruct (create_block (set_depth st5 (l_depth st4))) as [st6 incb] eqn:Eib.
    destruct (lowers (TExpr nx) st6) as [st6n| |] eqn:En; cbn [lbind] in H; try discriminate.
    destruct (emit_branch st6n None (LRef startb) LNone) as [st7 jb] eqn:Ejb.
    destruct (create_block st7) as [st8 endb] eqn:Eeb. inversion H; subst st'; clear H.
    set (st9 := set_targets st8 br (Some (LRef bodyb)) (Some (LRef endb))) in *.
    destruct (fok_block _ _ _ Esb A) as (A1 & _ & Hcode1 & Hbo1 & Hsb & Hn1 & _ & Hc1 & Hl1).
    destruct (cond_facts structs gl args c st1 cv st2 Hpc A1 Ec) as (A2 & Hl2 & Hn2 & Hcv & (nc2 & Hc2 & Hg2) & isc & nbc & Hcode2 & Hbo2 & Hr2 & Hb2 & Hsemc).
    destruct (emit_branch_fok _ _ _ _ _ _ Eb A2) as (A3 & (nb3 & Hbo3 & Hb3 & _ & _) & Hcode3 & Hc3 & Hl3 & _ & Hbr).
    destruct (fok_block _ _ _ Ebb A3) as (A4 & _ & Hcode4 & Hbo4 & Hbob & Hn4 & _ & Hc4 & Hl4).
    pose proof (fok_set_depth st4 (S (l_depth st4)) A4) as A4'.
    destruct (bres_all structs gl args n b _ st5 Hbb A4' Et) as (A5 & Hl5 & Hn5 & (nc5 & Hc5 & Hg5) & newb & nbb & Hcode5 & Hbo5 & Hr5 & Hb5 & Hsemb).
    change (lcode (set_depth st4 (S (l_depth st4)))) with (lcode st4) in *. change (boffs (set_depth st4 (S (l_depth st4)))) with (boffs st4) in *.
    change (l_next (set_depth st4 (S (l_depth st4)))) with (l_next st4) in *. change (l_consts (set_depth st4 (S (l_depth st4)))) with (l_consts st4) in *.
    change (l_locals (set_depth st4 (S (l_depth st4)))) with (l_locals st4) in *.
    pose proof (fok_set_depth st5 (l_depth st4) A5) as A5'.
    destruct (fok_block _ _ _ Eib A5') as (A6 & _ & Hcode6 & Hbo6 & Hib & Hn6 & _ & Hc6 & Hl6).
    change (lcode (set_depth st5 (l_depth st4))) with (lcode st5) in *. change (boffs (set_depth st5 (l_depth st4))) with (boffs st5) in *.
    change (l_next (set_depth st5 (l_depth st4))) with (l_next st5) in *. change (l_consts (set_depth st5 (l_depth st4))) with (l_consts st5) in *.
    change (l_locals (set_depth st5 (l_depth st4))) with (l_locals st5) in *.
    destruct (bres_all structs gl args 1 (TExpr nx) st6 st6n Hbn A6 En) as (A6n & Hl6n & Hn6n & (nc6 & Hc6n & Hg6) & newn & nbn & Hcode6n & Hbo6n & Hr6 & Hb6 & Hsemn).
    destruct (emit_branch_fok _ _ _ _ _ _ Ejb A6n) as (A7 & (nb7 & Hbo7 & Hb7 & _ & _) & Hcode7 & Hc7 & Hl7 & _ & Hjb).
    destruct (fok_block _ _ _ Eeb A7) as (A8 & _ & Hcode8 & Hbo8 & Heb & Hn8 & _ & Hc8 & Hl8).
    destruct (fok_targets st8 br (Some (LRef bodyb)) (Some (LRef endb)) A8) as (A9 & _ & Hbo9). fold st9 in A9, Hbo9.
    (* no placeholders: the patch is the identity *)
    assert (N4 : nobc (set_depth st4 (S (l_depth st4)))).
    { unfold nobc. change (lcode (set_depth st4 (S (l_depth st4)))) with (lcode st4). rewrite Hcode4, Hcode3, Hcode2, Hcode1. apply nobc_app; [apply nobc_app; [exact N|apply nobc_LI]|].
      intros r p t0 f0 [E|[]]. inversion E; subst. split; exact Logic.I. }
    pose proof (nobc_b structs gl args n b _ st5 Hbb A4' N4 Et) as N5.
    assert (N6 : nobc st6) by (unfold nobc; rewrite Hcode6; exact N5).
    pose proof (nobc_b structs gl args 1 (TExpr nx) st6 st6n Hbn A6 N6 En) as N6n.
    assert (N8 : nobc st8).
    { unfold nobc. rewrite Hcode8, Hcode7. apply nobc_app; [exact N6n|]. intros r p t0 f0 [E|[]]. inversion E; subst. split; exact Logic.I. }
    pose proof (nobc_set_targets st8 br (Some (LRef bodyb)) (Some (LRef endb)) N8 Logic.I Logic.I) as N9. fold st9 in N9.
    rewrite (patch_id st9 _ _ _ N9). split; [|exact N9].
    (* the code *)
    set (BR0 := LBr br (Some cv) LNone LNone) in *. set (JB := LBr jb None (LRef startb) LNone) in *.
    assert (Hlc8 : lcode st8 = (lcode st ++ map LI isc) ++ [BR0] ++ (newb ++ newn ++ [JB])) by (rewrite Hcode8, Hcode7, Hcode6n, Hcode6, Hcode5, Hcode4, Hcode3, Hcode2, Hcode1, <- !app_assoc; reflexivity).
    assert (Hpre_ne : forall i, In i (lcode st ++ map LI isc) -> lref i <> br).
    { intros i Hi. apply in_app_or in Hi as [Hi|Hi]; [pose proof (irefs_bound _ A i Hi); lia|]. apply in_map_iff in Hi as (j & <- & Hj). cbn. specialize (Hr2 j Hj). lia. }
    assert (Hpost_ne : forall i, In i (newb ++ newn ++ [JB]) -> lref i <> br).
    { intros i Hi. apply in_app_or in Hi as [Hi|Hi]; [specialize (Hr5 i Hi); lia|]. apply in_app_or in Hi as [Hi|[<-|[]]]; [specialize (Hr6 i Hi); lia|cbn; lia]. }
    set (BR := LBr br (Some cv) (LRef bodyb) (LRef endb)) in *.
    assert (Hlc9 : lcode st9 = lcode st ++ map LI isc ++ [BR] ++ newb ++ newn ++ [JB]).
    { unfold st9. rewrite set_targets_lcode, Hlc8. unfold BR0. rewrite (upd_layout br (Some cv) LNone LNone (Some (LRef bodyb)) (Some (LRef endb)) _ _ Hpre_ne Hpost_ne). rewrite <- !app_assoc. reflexivity. }
    set (new := map LI isc ++ [BR] ++ newb ++ newn ++ [JB]).
    set (nb := [(startb, length (lcode st))] ++ nbc ++ nb3 ++ [(bodyb, length (lcode st3))] ++ nbb ++ [(incb, length (lcode st5))] ++ nbn ++ nb7 ++ [(endb, length (lcode st7))]).
    assert (Hbo : boffs st9 = boffs st ++ nb) by (unfold nb; rewrite Hbo9, Hbo8, Hbo7, Hbo6n, Hbo6, Hbo5, Hbo4, Hbo3, Hbo2, Hbo1, <- !app_assoc; reflexivity).
    assert (HL1 : length (lcode st1) = length (lcode st)) by (rewrite Hcode1; reflexivity).
    assert (HL2 : length (lcode st2) = length (lcode st) + length isc) by (rewrite Hcode2, app_length, map_length, HL1; reflexivity).
    assert (HL3 : length (lcode st3) = length (lcode st) + length isc + 1) by (rewrite Hcode3, app_length, HL2; cbn; lia).
    assert (HL4 : length (lcode st4) = length (lcode st3)) by (rewrite Hcode4; reflexivity).
    assert (HL5 : length (lcode st5) = length (lcode st) + length isc + 1 + length newb) by (rewrite Hcode5, app_length, Hcode4, HL3; reflexivity).
    assert (HL6 : length (lcode st6) = length (lcode st5)) by (rewrite Hcode6; reflexivity).
    assert (HL6n : length (lcode st6n) = length (lcode st) + length isc + 1 + length newb + length newn) by (rewrite Hcode6n, app_length, HL6, HL5; reflexivity).
    assert (HL7 : length (lcode st7) = length (lcode st) + length isc + 1 + length newb + length newn + 1) by (rewrite Hcode7, app_length, HL6n; cbn; lia).
    assert (HLnew : length new = length isc + 1 + length newb + length newn + 1) by (unfold new; rewrite !app_length, map_length; cbn; lia).
    assert (HL9 : length (lcode st9) = length (lcode st) + length new) by (rewrite Hlc9; fold new; apply app_length).
    assert (Hnx9 : l_next st9 = l_next st8) by reflexivity.
    split; [exact A9|]. split; [lia|].
    split; [exists (nc2 ++ nc5 ++ nc6); split; [unfold st9; cbn; rewrite Hc8, Hc7, Hc6n, Hc6, Hc5, Hc4, Hc3, Hc2, Hc1, <- !app_assoc; reflexivity|
                                          intros c0 Hc0; apply in_app_or in Hc0 as [Hc0|Hc0]; [specialize (Hg2 c0 Hc0); lia|apply in_app_or in Hc0 as [Hc0|Hc0]; [specialize (Hg5 c0 Hc0); lia|specialize (Hg6 c0 Hc0); lia]]]|].
    exists new, nb. split; [rewrite Hlc9; reflexivity|]. split; [exact Hbo|].
    split.
    { intros i Hi. unfold new in Hi. rewrite !in_app_iff in Hi. cbn [In] in Hi. destruct Hi as [Hi|[[Hi|[]]|[Hi|[Hi|[Hi|[]]]]]].
      - apply in_map_iff in Hi as (j & <- & Hj). cbn. specialize (Hr2 j Hj). lia.
      - subst i. cbn. lia.
      - specialize (Hr5 i Hi). lia.
      - specialize (Hr6 i Hi). lia.
      - subst i. cbn. lia. }
    split.
    { intros e He. unfold nb in He. rewrite HL9.
      apply in_app_or in He as [He|He]; [destruct He as [<-|[]]; cbn [fst snd]; lia|].
      apply in_app_or in He as [He|He]; [destruct (Hb2 e He); lia|].
      apply in_app_or in He as [He|He]; [destruct (Hb3 e He); lia|].
      apply in_app_or in He as [He|He]; [destruct He as [<-|[]]; cbn [fst snd]; lia|].
      apply in_app_or in He as [He|He]; [destruct (Hb5 e He); lia|].
      apply in_app_or in He as [He|He]; [destruct He as [<-|[]]; cbn [fst snd]; lia|].
      apply in_app_or in He as [He|He]; [destruct (Hb6 e He); lia|].
      apply in_app_or in He as [He|He]; [destruct (Hb7 e He); lia|].
      destruct He as [<-|[]]. cbn [fst snd]. lia. }
    (* the execution: induction on the number of evaluations of the condition *)
    intros F pre post fr vs cs locals' V' A' vs' Hflat Hlen Hoff [more Hcs] Hregs Hdisj Hex.
    assert (Hloc : l_locals st9 = l_locals st) by (unfold st9; cbn; congruence).
    unfold fspec in Hex. destruct (floop n k cs (l_locals st) c nx b (vars fr) (fargs fr) vs) as [[[V1 A1q] vs1]|] eqn:Ew; [|discriminate]. inversion Hex; subst locals' V1 A1q vs1; clear Hex.
    split; [exact Hloc|].
    assert (Hflat' : flat_code F = (pre ++ map (finish_instr args) (map LI isc)) ++ finish_instr args BR :: (map (finish_instr args) newb ++ map (finish_instr args) newn) ++ finish_instr args JB :: post).
    { rewrite Hflat. unfold new. rewrite !map_app. cbn [map]. rewrite <- ?app_assoc. cbn [app]. rewrite <- ?app_assoc. cbn [app]. reflexivity. }
    assert (HnBR : nth_error (flat_code F) (length pre + length isc) = Some (finish_instr args BR)).
    { rewrite Hflat'. replace (length pre + length isc) with (length (pre ++ map (finish_instr args) (map LI isc))) by (rewrite app_length, !map_length; reflexivity). apply nth_error_mid. }
    assert (HnJB : nth_error (flat_code F) (length pre + length isc + 1 + length newb + length newn) = Some (finish_instr args JB)).
    { rewrite Hflat'. replace (length pre + length isc + 1 + length newb + length newn) with (length (pre ++ map (finish_instr args) (map LI isc)) + 1 + length (map (finish_instr args) newb ++ map (finish_instr args) newn)) by (rewrite !app_length, !map_length; lia).
      apply nth_error_mid2. }
    assert (Hoffsb : block_offset_last (fn_blocks F) startb = Some (length pre)).
    { assert (Hin : In (startb, length (lcode st)) nb) by (unfold nb; left; reflexivity). pose proof (Hoff _ Hin) as X. cbn [fst snd] in X. rewrite X, Hlen. reflexivity. }
    assert (Hoffbb : block_offset_last (fn_blocks F) bodyb = Some (length pre + length isc + 1)).
    { assert (Hin : In (bodyb, length (lcode st3)) nb) by (unfold nb; rewrite !in_app_iff; cbn [In]; right; right; right; left; left; reflexivity).
      pose proof (Hoff _ Hin) as X. cbn [fst snd] in X. rewrite X, HL3, Hlen. reflexivity. }
    assert (Hoffeb : block_offset_last (fn_blocks F) endb = Some (length pre + length new)).
    { assert (Hin : In (endb, length (lcode st7)) nb) by (unfold nb; rewrite !in_app_iff; cbn [In]; right; right; right; right; right; right; right; right; left; reflexivity).
      pose proof (Hoff _ Hin) as X. cbn [fst snd] in X. rewrite X, HL7, HLnew, Hlen. f_equal. lia. }
    assert (Hcs2 : exists more2, cs = l_consts st2 ++ more2).
    { exists (nc5 ++ nc6 ++ more). rewrite Hcs. unfold st9. cbn. rewrite Hc8, Hc7, Hc6n, Hc6, Hc5, Hc4, Hc3, <- !app_assoc. reflexivity. }
    assert (Hcs5 : exists more5, cs = l_consts st5 ++ more5) by (exists (nc6 ++ more); rewrite Hcs; unfold st9; cbn; rewrite Hc8, Hc7, Hc6n, Hc6, <- app_assoc; reflexivity).
    assert (Hcs6 : exists more6, cs = l_consts st6n ++ more6) by (exists more; rewrite Hcs; unfold st9; cbn; rewrite Hc8, Hc7; reflexivity).
    clear Hcs.
    revert fr vs Hregs Ew. induction k as [|k IHk]; intros fr vs Hregs Ew; [discriminate|]. cbn [floop] in Ew.
    destruct (teval structs gl args cs (l_locals st) (mkfr (vars fr) (fargs fr)) vs c) as [w| |] eqn:Etw; try discriminate.
    destruct (Hsemc F (length pre) fr vs cs w Hcs2 Hregs) as (frc & Hrunc & Hgc & Hvc & Hac & Hfc).
    { intros c0 i Hc0 Hi. apply (Hdisj c0 (LI i) Hc0). unfold new. apply in_or_app. left. apply in_map. exact Hi. }
    { rewrite Hl1. rewrite <- Etw. apply teval_frame; reflexivity. }
    assert (Hj1 : jruns F (length pre) fr vs (length pre + length isc) frc vs).
    { replace (length isc) with (length (map (finish_instr args) (map LI isc))) by (rewrite !map_length; reflexivity).
      apply (sruns_jruns F _ pre (finish_instr args BR :: (map (finish_instr args) newb ++ map (finish_instr args) newn) ++ finish_instr args JB :: post)); [rewrite Hflat', <- app_assoc; reflexivity|apply runs_sruns; exact Hrunc]. }
    assert (Hregsc : forall c0, In c0 cs -> rlookup (cref c0) (regs frc) = Some (const_val (snd c0))).
    { intros c0 Hc0. rewrite Hfc; [apply Hregs; exact Hc0|]. intros i Hi E. apply (Hdisj c0 (LI i) Hc0); [unfold new; apply in_or_app; left; apply in_map; exact Hi|cbn; congruence]. }
    destruct (truthy (hp vs) w) as [[|]| |] eqn:Etr; try discriminate.
    - (* one more iteration: body, increment, jump back *)
      destruct (bexec structs gl args n cs (l_locals st) b (vars fr) (fargs fr) vs) as [[[Vb Ab] vsb]|] eqn:Exb; [|discriminate].
      destruct (bexec structs gl args 1 cs (l_locals st) (TExpr nx) Vb Ab vsb) as [[[Vn An] vsn]|] eqn:Exn; [|discriminate].
      assert (HstepBR : step F (length pre + length isc) frc vs (finish_instr args BR) = StNext (length pre + length isc + 1) frc vs).
      { unfold BR. rewrite finish_br. unfold step. cbn [i_body tgt]. rewrite Hgc. cbn [lift]. rewrite Etr. cbn [lift]. rewrite Hoffbb. reflexivity. }
      destruct (Hsemb F (pre ++ map (finish_instr args) (map LI isc) ++ [finish_instr args BR]) (map (finish_instr args) newn ++ finish_instr args JB :: post) frc vs cs Vb Ab vsb) as (frb & Hjb' & Hvb & Hab & Hfb).
      { rewrite Hflat'. rewrite <- !app_assoc. reflexivity. }
      { rewrite !app_length, !map_length. cbn [length]. change (length (lcode (set_depth st4 (S (l_depth st4))))) with (length (lcode st4)). rewrite HL4, HL3. lia. }
      { intros e He. apply Hoff. unfold nb. rewrite !in_app_iff. cbn [In]. right. right. right. right. left. exact He. }
      { exact Hcs5. }
      { exact Hregsc. }
      { intros c0 i Hc0 Hi. apply Hdisj; [exact Hc0|]. unfold new. rewrite !in_app_iff. cbn [In]. tauto. }
      { change (l_locals (set_depth st4 (S (l_depth st4)))) with (l_locals st4). rewrite Hl4, Hl3, Hl2, Hl1, Hvc, Hac. exact Exb. }
      assert (Hregsb : forall c0, In c0 cs -> rlookup (cref c0) (regs frb) = Some (const_val (snd c0))).
      { intros c0 Hc0. rewrite Hfb; [apply Hregsc; exact Hc0|]. intros i Hi E. apply (Hdisj c0 i Hc0); [unfold new; rewrite !in_app_iff; cbn [In]; tauto|congruence]. }
      destruct (Hsemn F (pre ++ map (finish_instr args) (map LI isc) ++ [finish_instr args BR] ++ map (finish_instr args) newb) (finish_instr args JB :: post) frb vsb cs Vn An vsn) as (frn & Hjn & Hvn & Han & Hfn).
      { rewrite Hflat'. rewrite <- !app_assoc. reflexivity. }
      { rewrite !app_length, !map_length. cbn [length]. rewrite HL6, HL5, Hlen. lia. }
      { intros e He. apply Hoff. unfold nb. rewrite !in_app_iff. cbn [In]. right. right. right. right. right. right. left. exact He. }
      { exact Hcs6. }
      { exact Hregsb. }
      { intros c0 i Hc0 Hi. apply Hdisj; [exact Hc0|]. unfold new. rewrite !in_app_iff. cbn [In]. tauto. }
      { rewrite Hl6, Hl5, Hl4, Hl3, Hl2, Hl1, Hvb, Hab. exact Exn. }
      assert (HstepJB : step F (length pre + length isc + 1 + length newb + length newn) frn vsn (finish_instr args JB) = StNext (length pre) frn vsn).
      { unfold JB. rewrite finish_br. unfold step. cbn [i_body tgt]. rewrite Hoffsb. reflexivity. }
      assert (Hregsn : forall c0, In c0 cs -> rlookup (cref c0) (regs frn) = Some (const_val (snd c0))).
      { intros c0 Hc0. rewrite Hfn; [apply Hregsb; exact Hc0|]. intros i Hi E. apply (Hdisj c0 i Hc0); [unfold new; rewrite !in_app_iff; cbn [In]; tauto|congruence]. }
      destruct (IHk frn vsn Hregsn) as (fr' & Hj' & Hv' & Ha' & Hf').
      { rewrite Hvn, Han. exact Ew. }
      exists fr'. split; [|split; [exact Hv'|split; [exact Ha'|]]].
      + eapply jruns_trans; [exact Hj1|]. eapply jruns_trans; [apply (jruns_branch F _ frc vs _ _ HnBR HstepBR)|].
        rewrite !app_length, !map_length in Hjb'. cbn [length] in Hjb'.
        replace (length pre + (length isc + 1)) with (length pre + length isc + 1) in Hjb' by lia.
        eapply jruns_trans; [exact Hjb'|].
        rewrite !app_length, !map_length in Hjn. cbn [length] in Hjn.
        replace (length pre + (length isc + (1 + length newb))) with (length pre + length isc + 1 + length newb) in Hjn by lia.
        eapply jruns_trans; [exact Hjn|]. eapply jruns_trans; [apply (jruns_branch F _ frn vsn _ _ HnJB HstepJB)|exact Hj'].
      + intros q Hq. rewrite Hf' by exact Hq. rewrite Hfn by (intros i Hi; apply Hq; unfold new; rewrite !in_app_iff; cbn [In]; tauto).
        rewrite Hfb by (intros i Hi; apply Hq; unfold new; rewrite !in_app_iff; cbn [In]; tauto).
        apply Hfc. intros i Hi. apply (Hq (LI i)). unfold new. apply in_or_app. left. apply in_map. exact Hi.
    - (* the condition fails: leave the loop *)
      inversion Ew; subst V' A' vs'; clear Ew.
      assert (HstepBR : step F (length pre + length isc) frc vs (finish_instr args BR) = StNext (length pre + length new) frc vs).
      { unfold BR. rewrite finish_br. unfold step. cbn [i_body tgt]. rewrite Hgc. cbn [lift]. rewrite Etr. cbn [lift]. rewrite Hoffeb. reflexivity. }
      exists frc. split; [|split; [exact Hvc|split; [exact Hac|]]].
      + eapply jruns_trans; [exact Hj1|]. apply (jruns_branch F _ frc vs _ _ HnBR HstepBR).
      + intros q Hq. apply Hfc. intros i Hi. apply (Hq (LI i)). unfold new. apply in_or_app. left. apply in_map. exact Hi.
  Qed.
End For.

(** ** top-level statement lists with loops, and whole functions *)
Section WTop.
  Variable structs : list sdef.
  Variable gl args : list string.
  Notation lowers := (lower_stmt structs gl args).

  (** sequential composition of two lowerings *)
  Lemma tres_seq st st1 st2 spec1 spec2 :
    tres args st st1 spec1 -> tres args st1 st2 spec2 ->
    tres args st st2 (fun cs locals V A vs => match spec1 cs locals V A vs with Some (locals1, V1, A1, vs1) => spec2 cs locals1 V1 A1 vs1 | None => None end).
  Proof.
    intros (A1 & Hn1 & (nc1 & Hc1 & Hg1) & new1 & nb1 & Hcode1 & Hbo1 & Hr1 & Hb1 & Hsem1) (A2 & Hn2 & (nc2 & Hc2 & Hg2) & new2 & nb2 & Hcode2 & Hbo2 & Hr2 & Hb2 & Hsem2).
    assert (Hlen1 : length (lcode st) <= length (lcode st1)) by (rewrite Hcode1, app_length; lia).
    assert (Hlen2 : length (lcode st1) <= length (lcode st2)) by (rewrite Hcode2, app_length; lia).
    split; [exact A2|]. split; [lia|].
    split; [exists (nc1 ++ nc2); split; [rewrite Hc2, Hc1, app_assoc; reflexivity|intros c Hc; apply in_app_or in Hc as [Hc|Hc]; [apply Hg1; exact Hc|specialize (Hg2 c Hc); lia]]|].
    exists (new1 ++ new2), (nb1 ++ nb2). split; [rewrite Hcode2, Hcode1, app_assoc; reflexivity|]. split; [rewrite Hbo2, Hbo1, app_assoc; reflexivity|].
    split; [intros i Hi; apply in_app_or in Hi as [Hi|Hi]; [specialize (Hr1 i Hi); lia|specialize (Hr2 i Hi); lia]|].
    split; [intros e He; apply in_app_or in He as [He|He]; [destruct (Hb1 e He); lia|destruct (Hb2 e He); lia]|].
    intros F pre post fr vs cs locals' V' A' vs' Hflat Hlen Hoff [more Hcs] Hregs Hdisj Hex.
    destruct (spec1 cs (l_locals st) (vars fr) (fargs fr) vs) as [[[[locals1 V1] A1'] vs1]|] eqn:Ex1; [|discriminate].
    destruct (Hsem1 F pre (map (finish_instr args) new2 ++ post) fr vs cs locals1 V1 A1' vs1) as (Hloc1 & fr1 & Hj1 & Hv1 & Ha1 & Hf1).
    { rewrite Hflat, map_app, <- app_assoc. reflexivity. }
    { exact Hlen. }
    { intros e He. apply Hoff. apply in_or_app. left. exact He. }
    { exists (nc2 ++ more). rewrite Hcs, Hc2, <- app_assoc. reflexivity. }
    { exact Hregs. }
    { intros c i Hc Hi. apply Hdisj; [exact Hc|apply in_or_app; left; exact Hi]. }
    { exact Ex1. }
    destruct (Hsem2 F (pre ++ map (finish_instr args) new1) post fr1 vs1 cs locals' V' A' vs') as (Hloc2 & fr2 & Hj2 & Hv2 & Ha2 & Hf2).
    { rewrite Hflat, map_app, <- !app_assoc. reflexivity. }
    { rewrite app_length, map_length, Hcode1, app_length. lia. }
    { intros e He. apply Hoff. apply in_or_app. right. exact He. }
    { exists more. exact Hcs. }
    { intros c Hc. rewrite Hf1; [apply Hregs; exact Hc|]. intros i Hi E. apply (Hdisj c i Hc); [apply in_or_app; left; exact Hi|congruence]. }
    { intros c i Hc Hi. apply Hdisj; [exact Hc|apply in_or_app; right; exact Hi]. }
    { rewrite Hloc1, Hv1, Ha1. exact Hex. }
    split; [exact Hloc2|]. exists fr2. split; [|split; [exact Hv2|split; [exact Ha2|]]].
    + eapply jruns_trans; [exact Hj1|]. rewrite app_length, map_length in Hj2. rewrite app_length. replace (length pre + (length new1 + length new2)) with (length pre + length new1 + length new2) by lia. exact Hj2.
    + intros q Hq. rewrite Hf2 by (intros i Hi; apply Hq; apply in_or_app; right; exact Hi). apply Hf1. intros i Hi. apply Hq. apply in_or_app. left. exact Hi.
  Qed.

  (** a [for] loop with a declaration in its header = the declaration, then the loop *)
  Definition forspec (n k : nat) (t : ty) (x : string) (i : option texpr) (c nx : texpr) (b : tstmt) cs (locals : list string) V A vs :=
    match topexec structs gl args n cs locals (TDecl t x i) V A vs with
    | Some (locals1, V1, A1, vs1) => fspec structs gl args n k c nx b cs locals1 V1 A1 vs1
    | None => None
    end.
  Lemma tres_for n k t x i c nx b st st' :
    simple (TDecl t x i) = true -> tpure c = true -> bstmt 1 (TExpr nx) = true -> bstmt n b = true -> fok st -> nobc st ->
    lowers (TFor (Some (t, x, i)) (Some c) (Some nx) b) st = LOk st' ->
    tres args st st' (forspec n k t x i c nx b) /\ nobc st'.
  Proof.
    intros Hd Hpc Hbn Hbb A N H. rewrite lower_for_split in H.
    destruct (lowers (TDecl t x i) st) as [st1| |] eqn:Ed; cbn [lbind] in H; try discriminate.
    pose proof (tres_simple structs gl args n (TDecl t x i) st st1 Hd A Ed) as T1.
    assert (N1 : nobc st1).
    { destruct (lower_simple_correct structs gl args (TDecl t x i) st st1 Hd (fo_linv _ A) Ed) as (_ & _ & _ & is & Hcode & _). unfold nobc. rewrite Hcode. apply nobc_app; [exact N|apply nobc_LI]. }
    assert (A1 : fok st1) by (destruct T1 as (X & _); exact X).
    destruct (tres_forloop structs gl args n k c nx b st1 st' Hpc Hbn Hbb A1 N1 H) as [T2 N2].
    split; [|exact N2]. apply (tres_seq st st1 st' _ _ T1 T2).
  Qed.

  Definition is_while (n : nat) (s : tstmt) : bool := match s with TWhile c (Some b) => tpure c && bstmt n b | _ => false end.
  Definition is_do (n : nat) (s : tstmt) : bool := match s with TDo b c => tpure c && forallb (bstmt n) b | _ => false end.
  Definition is_for (n : nat) (s : tstmt) : bool :=
    match s with TFor (Some (t, x, i)) (Some c) (Some nx) b => simple (TDecl t x i) && tpure c && bstmt 1 (TExpr nx) && bstmt n b | _ => false end.
  Definition wtop_ok (n : nat) (s : tstmt) : bool := top_ok n s || is_while n s || is_do n s || is_for n s.
  Definition wtopexec (n k : nat) (cs : list (nat * irty * cval)) (locals : list string) (s : tstmt) (V : list (string * val)) (A : list val) (vs : vmstate)
    : option (list string * list (string * val) * list val * vmstate) :=
    match s with
    | TWhile c (Some b) => wspec structs gl args n k c b cs locals V A vs
    | TDo b c => dspec structs gl args n k b c cs locals V A vs
    | TFor (Some (t, x, i)) (Some c) (Some nx) b => forspec n k t x i c nx b cs locals V A vs
    | _ => topexec structs gl args n cs locals s V A vs
    end.
  Fixpoint wtopexec_list (n k : nat) (cs : list (nat * irty * cval)) (locals : list string) (l : list tstmt) (V : list (string * val)) (A : list val) (vs : vmstate)
    : option (list string * list (string * val) * list val * vmstate) :=
    match l with
    | [] => Some (locals, V, A, vs)
    | s :: r => match wtopexec n k cs locals s V A vs with Some (locals1, V1, A1, vs1) => wtopexec_list n k cs locals1 r V1 A1 vs1 | None => None end
    end.

  Lemma wtres_top n k s st st' : wtop_ok n s = true -> fok st -> nobc st -> lowers s st = LOk st' ->
    tres args st st' (fun cs locals V A vs => wtopexec n k cs locals s V A vs) /\ nobc st'.
  Proof.
    intros Hs A N H. unfold wtop_ok in Hs. destruct (top_ok n s) eqn:Et.
    - assert (Hnw : forall cs locals V A0 vs, wtopexec n k cs locals s V A0 vs = topexec structs gl args n cs locals s V A0 vs).
      { intros. unfold wtopexec. destruct s as [| | | | |[[[t0 x0] i0]|] [c1|] [n1|] b1|c [b|]|b0 c0| |]; try reflexivity; unfold top_ok in Et; cbn in Et; destruct n; discriminate. }
      split.
      + pose proof (tres_top structs gl args n s st st' Et A H) as T. destruct T as (T1 & T2 & T3 & new & nb & T4 & T5 & T6 & T7 & T8).
        split; [exact T1|]. split; [exact T2|]. split; [exact T3|]. exists new, nb. split; [exact T4|]. split; [exact T5|]. split; [exact T6|]. split; [exact T7|].
        intros F pre post fr vs cs locals' V' A' vs' X1 X2 X3 X4 X5 X6 X7. rewrite Hnw in X7. apply (T8 F pre post fr vs cs locals' V' A' vs' X1 X2 X3 X4 X5 X6 X7).
      + unfold top_ok in Et. destruct (simple s) eqn:Esim.
        * destruct (lower_simple_correct structs gl args s st st' Esim (fo_linv _ A) H) as (_ & _ & _ & is & Hcode & _). unfold nobc. rewrite Hcode. apply nobc_app; [exact N|apply nobc_LI].
        * cbn in Et. apply (nobc_b structs gl args n s st st' Et A N H).
    - cbn [orb] in Hs. destruct s as [| | | | |[[[t0 x0] i0]|] [c1|] [n1|] b1|c [b|]|b0 c0| |]; try discriminate.
      + cbn [is_while is_do is_for orb] in Hs. apply andb_prop in Hs as [Hs Hbb]. apply andb_prop in Hs as [Hs Hbn]. apply andb_prop in Hs as [Hd Hpc].
        apply (tres_for n k t0 x0 i0 c1 n1 b1 st st' Hd Hpc Hbn Hbb A N H).
      + cbn [is_while is_do is_for orb] in Hs. rewrite !orb_false_r in Hs. apply andb_prop in Hs as [Hpc Hbb].
        apply (tres_while structs gl args n k c b st st' Hpc Hbb A N H).
      + cbn [is_while is_do is_for orb] in Hs. rewrite orb_false_r in Hs. apply andb_prop in Hs as [Hpc Hbb].
        apply (tres_do structs gl args n k b0 c0 st st' Hpc Hbb A N H).
  Qed.

  Lemma wtres_list n k : forall l st st', forallb (wtop_ok n) l = true -> fok st -> nobc st -> lower_body structs gl args l st = LOk st' ->
    tres args st st' (fun cs locals V A vs => wtopexec_list n k cs locals l V A vs) /\ nobc st'.
  Proof.
    induction l as [|s r IH]; intros st st' Hs A N H.
    - cbn in H. inversion H; subst st'. split; [|exact N]. split; [exact A|]. split; [lia|]. split; [exists []; split; [rewrite app_nil_r; reflexivity|intros ? []]|].
      exists [], []. rewrite !app_nil_r. split; [reflexivity|]. split; [reflexivity|]. split; [intros ? []|]. split; [intros ? []|].
      intros F pre post fr vs cs locals' V' A' vs' _ _ _ _ _ _ Hex. cbn in Hex. inversion Hex; subst. split; [reflexivity|]. exists fr. rewrite Nat.add_0_r. split; [constructor|auto].
    - cbn [forallb] in Hs. apply andb_prop in Hs as [Hs1 Hsr]. cbn [lower_body lbind] in H.
      destruct (lowers s st) as [st1| |] eqn:E1; cbn [lbind] in H; try discriminate.
      destruct (wtres_top n k s st st1 Hs1 A N E1) as [(A1 & Hn1 & (nc1 & Hc1 & Hg1) & new1 & nb1 & Hcode1 & Hbo1 & Hr1 & Hb1 & Hsem1) N1].
      destruct (IH st1 st' Hsr A1 N1 H) as [(A2 & Hn2 & (nc2 & Hc2 & Hg2) & new2 & nb2 & Hcode2 & Hbo2 & Hr2 & Hb2 & Hsem2) N2].
      split; [|exact N2].
      assert (Hlen1 : length (lcode st) <= length (lcode st1)) by (rewrite Hcode1, app_length; lia).
      assert (Hlen2 : length (lcode st1) <= length (lcode st')) by (rewrite Hcode2, app_length; lia).
      split; [exact A2|]. split; [lia|].
      split; [exists (nc1 ++ nc2); split; [rewrite Hc2, Hc1, app_assoc; reflexivity|intros c Hc; apply in_app_or in Hc as [Hc|Hc]; [apply Hg1; exact Hc|specialize (Hg2 c Hc); lia]]|].
      exists (new1 ++ new2), (nb1 ++ nb2). split; [rewrite Hcode2, Hcode1, app_assoc; reflexivity|]. split; [rewrite Hbo2, Hbo1, app_assoc; reflexivity|].
      split; [intros i Hi; apply in_app_or in Hi as [Hi|Hi]; [specialize (Hr1 i Hi); lia|specialize (Hr2 i Hi); lia]|].
      split; [intros e He; apply in_app_or in He as [He|He]; [destruct (Hb1 e He); lia|destruct (Hb2 e He); lia]|].
      intros F pre post fr vs cs locals' V' A' vs' Hflat Hlen Hoff [more Hcs] Hregs Hdisj Hex. cbn [wtopexec_list] in Hex.
      destruct (wtopexec n k cs (l_locals st) s (vars fr) (fargs fr) vs) as [[[[locals1 V1] A1'] vs1]|] eqn:Ex1; [|discriminate].
      destruct (Hsem1 F pre (map (finish_instr args) new2 ++ post) fr vs cs locals1 V1 A1' vs1) as (Hloc1 & fr1 & Hj1 & Hv1 & Ha1 & Hf1).
      { rewrite Hflat, map_app, <- app_assoc. reflexivity. }
      { exact Hlen. }
      { intros e He. apply Hoff. apply in_or_app. left. exact He. }
      { exists (nc2 ++ more). rewrite Hcs, Hc2, <- app_assoc. reflexivity. }
      { exact Hregs. }
      { intros c i Hc Hi. apply Hdisj; [exact Hc|apply in_or_app; left; exact Hi]. }
      { exact Ex1. }
      destruct (Hsem2 F (pre ++ map (finish_instr args) new1) post fr1 vs1 cs locals' V' A' vs') as (Hloc2 & fr2 & Hj2 & Hv2 & Ha2 & Hf2).
      { rewrite Hflat, map_app, <- !app_assoc. reflexivity. }
      { rewrite app_length, map_length, Hcode1, app_length. lia. }
      { intros e He. apply Hoff. apply in_or_app. right. exact He. }
      { exists more. exact Hcs. }
      { intros c Hc. rewrite Hf1; [apply Hregs; exact Hc|]. intros i Hi E. apply (Hdisj c i Hc); [apply in_or_app; left; exact Hi|congruence]. }
      { intros c i Hc Hi. apply Hdisj; [exact Hc|apply in_or_app; right; exact Hi]. }
      { rewrite Hloc1, Hv1, Ha1. exact Hex. }
      split; [exact Hloc2|]. exists fr2. split; [|split; [exact Hv2|split; [exact Ha2|]]].
      + eapply jruns_trans; [exact Hj1|]. rewrite app_length, map_length in Hj2. rewrite app_length. replace (length pre + (length new1 + length new2)) with (length pre + length new1 + length new2) by lia. exact Hj2.
      + intros q Hq. rewrite Hf2 by (intros i Hi; apply Hq; apply in_or_app; right; exact Hi). apply Hf1. intros i Hi. apply Hq. apply in_or_app. left. exact Hi.
  Qed.
End WTop.

Lemma nobc0 : nobc lstate0.
Proof. intros r p t f []. Qed.

Theorem loop_function_correct structs gl (f : tfunc) n k l te F :
  tf_body f = l ++ [TRet (Some te)] -> forallb (wtop_ok n) l = true -> tpure te = true -> lower_func structs gl f = LOk F ->
  forall P argv vs locals' V' A' vs' v,
    wtopexec_list structs gl (map snd (tf_args f)) n k (fn_consts F) [] l [] argv vs = Some (locals', V', A', vs') ->
    teval structs gl (map snd (tf_args f)) (fn_consts F) locals' (mkfr V' A') vs' te = Ok v ->
    exists N, forall fuel, N <= fuel -> run fuel P F 0 {| regs := init_regs F; vars := []; fargs := argv |} vs = Done v vs'.
Proof.
  intros Hbody Hs Hp Hlow P argv vs locals' V' A' vs' v Hte Hv. unfold lower_func in Hlow. rewrite Hbody in Hlow. fold lstate0 in Hlow.
  set (args := map snd (tf_args f)) in *. rewrite lower_body_app in Hlow.
  destruct (lower_body structs gl args l lstate0) as [st1| |] eqn:E1; cbn [lbind] in Hlow; try discriminate.
  cbn [lower_body lower_stmt lower_opt lbind] in Hlow.
  destruct (lower_expr structs gl args te st1) as [[r st2]| |] eqn:El; cbn [lbind fst snd] in Hlow; try discriminate.
  match type of Hlow with context [emit st2 ?t ?bd] => destruct (emit st2 t bd) as [st3 ref] eqn:Ee end. cbn [lbind] in Hlow.
  inversion Hlow; subst F; clear Hlow. cbn [fn_consts end_block l_consts l_blocks] in *.
  destruct (wtres_list structs gl args n k l lstate0 st1 Hs fok0 nobc0 E1) as [(A1 & _ & (nc1 & Hc1 & Hg1) & new1 & nb1 & Hcode1 & Hbo1 & Hr1 & Hb1 & Hsem1) _].
  destruct (lower_pure_correct structs gl args te st1 r st2 Hp (fo_linv _ A1) El) as (I2 & Hl2 & Hn2 & Hr & (nc2 & Hc2 & Hg2) & is2 & Hcode2 & Hr2 & Hd2 & Hsem2).
  destruct (lsteps_fok _ _ (lower_pure_steps structs gl args te st1 r st2 Hp El) A1) as [A2 (nb2 & Hbo2 & _)].
  set (mkret := fun r0 : nat => LI {| i_ref := r0; i_ty := match Some te with Some e' => adapt structs 8 (type_of e') | None => ITVoid end; i_body := IRet (Some r) |}).
  assert (Ee' : emit_raw st2 mkret = (st3, ref)) by exact Ee.
  assert (Hmk : forall q, lref (mkret q) = q) by (intros q; reflexivity).
  destruct (fok_emit st2 mkret st3 ref Hmk Ee' A2) as (A3 & (nb3 & Hbo3 & _) & Hcode3 & Hc3 & _). unfold mkret in Hcode3.
  set (reti := {| i_ref := ref; i_ty := match Some te with Some e' => adapt structs 8 (type_of e') | None => ITVoid end; i_body := IRet (Some r) |}) in *.
  set (F := {| fn_name := tf_name f; fn_args := _; fn_ret := _; fn_consts := l_consts st3; fn_blocks := _ |}) in *.
  set (fr0 := {| regs := init_regs F; vars := []; fargs := argv |}) in *.
  assert (Hflat : flat_code F = [] ++ map (finish_instr args) new1 ++ (map (finish_instr args) (map LI is2) ++ [finish_instr args (LI reti)])).
  { unfold flat_code, F. cbn [fn_blocks]. rewrite flat_code_lowered. fold (lcode st3). rewrite Hcode3, Hcode2, Hcode1. cbn [lcode lstate0 l_blocks flat_map app]. rewrite !map_app. rewrite <- !app_assoc. reflexivity. }
  assert (Hregs0 : forall c, In c (l_consts st3) -> rlookup (cref c) (regs fr0) = Some (const_val (snd c))).
  { intros c Hc. unfold fr0, init_regs. cbn [regs fn_consts F]. apply init_regs_lookup; [apply (fo_linv _ A3)|exact Hc]. }
  assert (Hoffs : forall e, In e nb1 -> block_offset_last (fn_blocks F) (fst e) = Some (snd e)).
  { intros [b o] He. cbn [fst snd]. unfold F. cbn [fn_blocks]. change (map (fun b0 => {| b_ref := fst b0; b_code := map (finish_instr args) (snd b0) |}) (l_blocks st3)) with (fin_blocks args (l_blocks st3)).
    rewrite block_offset_last_boffs. fold (boffs st3). apply last_assoc_unique.
    - rewrite brefs_boffs. apply A3.
    - rewrite Hbo3, Hbo2, Hbo1. cbn [boffs lstate0 l_blocks boffs_aux app]. apply in_or_app. left. apply in_or_app. left. exact He. }
  destruct (Hsem1 F [] (map (finish_instr args) (map LI is2) ++ [finish_instr args (LI reti)]) fr0 vs (l_consts st3) locals' V' A' vs') as (Hloc & fr1 & Hj1 & Hv1 & Ha1 & Hf1).
  { exact Hflat. }
  { reflexivity. }
  { exact Hoffs. }
  { exists nc2. rewrite Hc3, Hc2. reflexivity. }
  { exact Hregs0. }
  { intros c i Hc Hi E. rewrite Hc3 in Hc. apply (fo_cc _ A2 (cref c)); [unfold crefs; apply in_map; exact Hc|]. rewrite E. unfold irefs. rewrite Hcode2, Hcode1. cbn [lcode lstate0 l_blocks flat_map app]. rewrite map_app. apply in_or_app. left. apply in_map. exact Hi. }
  { exact Hte. }
  destruct (Hsem2 F (length new1) fr1 vs' (l_consts st3) v) as (fr2 & Hrun2 & Hg & _).
  { exists []. rewrite app_nil_r. exact Hc3. }
  { intros c Hc. rewrite Hf1; [apply Hregs0; exact Hc|]. intros i Hi E. rewrite Hc3 in Hc. apply (fo_cc _ A2 (cref c)); [unfold crefs; apply in_map; exact Hc|].
    unfold irefs. rewrite Hcode2, Hcode1. cbn [lcode lstate0 l_blocks flat_map app]. rewrite map_app. apply in_or_app. left. rewrite <- E. apply in_map. exact Hi. }
  { intros c i Hc Hi. apply Hd2; [rewrite <- Hc3; exact Hc|exact Hi]. }
  { rewrite Hloc. rewrite <- Hv. apply teval_frame; [exact Hv1|exact Ha1]. }
  assert (Hj2 : jruns F (length new1) fr1 vs' (length new1 + length is2) fr2 vs').
  { replace (length new1) with (length (map (finish_instr args) new1)) at 1 2 by apply map_length.
    replace (length is2) with (length (map (finish_instr args) (map LI is2))) by (rewrite !map_length; reflexivity).
    apply (sruns_jruns F _ (map (finish_instr args) new1) [finish_instr args (LI reti)]); [rewrite Hflat; reflexivity|].
    rewrite map_length. apply runs_sruns. exact Hrun2. }
  cbn [length Nat.add] in Hj1.
  destruct (run_jruns P F _ _ _ _ _ _ (jruns_trans _ _ _ _ _ _ _ _ _ _ Hj1 Hj2)) as [k0 Hk].
  exists (k0 + 1). intros fuel Hf. replace fuel with (k0 + (fuel - k0)) by lia. rewrite Hk.
  destruct (fuel - k0) as [|k'] eqn:Ek; [lia|]. cbn [run].
  assert (Hn : nth_error (flat_code F) (length new1 + length is2) = Some (finish_instr args (LI reti))).
  { rewrite Hflat. cbn [app]. rewrite app_assoc. replace (length new1 + length is2) with (length (map (finish_instr args) new1 ++ map (finish_instr args) (map LI is2))) by (rewrite app_length, !map_length; reflexivity). apply nth_error_mid. }
  rewrite Hn. unfold step. cbn [finish_instr reti i_body]. rewrite Hg. reflexivity.
Qed.
