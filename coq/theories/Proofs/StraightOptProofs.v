(** * C01 + C02 for straight-line functions: the function the lowering model produces AND the function
    OptimizeLoadAfterStore makes of it both return what the reference semantics prescribes. *)
From Coq Require Import String ZArith List Bool PrimFloat Arith Lia.
From NSL Require Import Base.Types Base.Syntax Spec.Overload Model.PyNum Model.IR Model.VM Model.TypesBin Model.Elab Model.Lower Model.Opt Spec.RefSem
                        Proofs.OpsAgree Proofs.OptProofs Proofs.LowerExprProofs Proofs.ElabExprProofs Proofs.ReturnExprProofs Proofs.CallAgreeProofs
                        Proofs.LowerStmtProofs Proofs.ElabStmtProofs Proofs.StraightLineProofs Proofs.ForwardProofs Proofs.LowerWfProofs.
Import ListNotations.

Lemma elab_stmt_fresh_0 G env s ts env' gl args : ssimple0 s = true -> elab_stmt G env s = EOk (ts, env') -> fresh_decl gl args s -> fresh_tdecl gl args ts.
Proof.
  intros Hs He Hf. destruct s as [t x init|e0| | | | | | | |]; try discriminate; cbn [elab_stmt] in He.
  - destruct init as [e0|]; cbn [elab_opt ebind] in He.
    + destruct (elab G COn (tdeclare env x t) e0) as [te0| |]; cbn [ebind] in He; try discriminate. destruct (ty_eqb (type_of te0) t); [|discriminate]. inversion He; subst. exact Hf.
    + inversion He; subst. exact Hf.
  - destruct (elab G COn env e0) as [e'| |]; cbn [ebind] in He; try discriminate. inversion He; subst. exact Logic.I.
Qed.

Lemma elab_stmt_fresh G env s ts env' gl args : ssimple s = true -> elab_stmt G env s = EOk (ts, env') -> fresh_decl gl args s -> fresh_tdecl gl args ts.
Proof. intros Hs He Hf. rewrite desugar_elab in He. apply (desugar_fresh gl args) in Hf. exact (elab_stmt_fresh_0 G env (desugar s) ts env' gl args Hs He Hf). Qed.

Lemma elab_body_fresh G gl args : forall l env e tl te, forallb ssimple l = true ->
  elab_body G env (l ++ [SRet (Some e)]) = EOk (tl ++ [TRet (Some te)]) -> length tl = length l ->
  Forall (fresh_decl gl args) l -> Forall (fresh_tdecl gl args) tl.
Proof.
  induction l as [|s r IH]; intros env e tl te Hs He Hlen Hf.
  - destruct tl; [constructor|discriminate].
  - destruct tl as [|ts tl]; [discriminate|]. cbn [app] in *. cbn [elab_body] in He.
    destruct (elab_stmt G env s) as [[ts' env']| |] eqn:Es; cbn [ebind] in He; try discriminate.
    destruct (elab_body G env' (r ++ [SRet (Some e)])) as [tb'| |] eqn:Er; cbn [ebind] in He; try discriminate. inversion He; subst ts' tb'; clear He.
    cbn [forallb] in Hs. apply andb_prop in Hs as [Hs1 Hsr]. inversion Hf; subst. constructor.
    + eapply elab_stmt_fresh; eassumption.
    + eapply IH; try eassumption. cbn in Hlen. lia.
Qed.

Theorem straight_line_optimised_simulation :
  forall (M : module) (fn : func) (l : list stmt) (e : expr) (tf : tfunc) (F : ifunc),
    f_body fn = l ++ [SRet (Some e)] -> forallb ssimple l = true -> spure e = true ->
    elab_func (genv_of M) (genvl M) fn = EOk tf -> lower_func (m_structs M) (glnames M) tf = LOk F ->
    forall tl te, tf_body tf = tl ++ [TRet (Some te)] -> length tl = length l ->
    forallb stok tl = true -> tok te = true ->
    lits_exact (flat_map tflits (body_exprs tl ++ [te])) -> (forall q, In q (flat_map tflits (body_exprs tl ++ [te])) -> PrimFloat.eqb q q = true) ->
    Forall (fresh_decl (glnames M) (argnames fn)) l ->
    forall (P : program) (ws : list rval) (g : RefSem.frame) (vs : vmstate),
      Forall2 (fun p w => has_ty w (fst p)) (f_args fn) ws ->
      (forall x, In x (map snd (f_args fn)) -> ~ In x (glnames M)) ->
      (forall x p, find (fun q => String.eqb (fst q) x) (genvl M) = Some p ->
         num_ty (snd p) /\ exists w, find (fun q => String.eqb (fst q) x) g = Some (fst p, SV w) /\ has_ty w (snd p) /\ slookup x (globals vs) = Some (v_of w)) ->
      forall fuel fl st', exec_list M fuel (f_body fn) (call_state fn ws g) = RefSem.ROk (fl, st') ->
        exists v vs', fl = OReturn (SV v) /\
          exists n, forall fuel', n <= fuel' ->
            run fuel' P F 0 (call_frame ws (init_regs F)) vs = Done (v_of v) vs' /\
            run fuel' P (opt_load_after_store F) 0 (call_frame ws (init_regs F)) vs = Done (v_of v) vs'.
Proof.
  intros M fn l e tf F Hbody Hs Hp Helab Hlower tl te Htb Hlen Hk Hkt Hlit Hnan Hfr P ws g vs Hargs Hdist Hglob fuel fl st' Hex.
  destruct (straight_line_function_simulation M fn l e tf F Hbody Hs Hp Helab Hlower tl te Htb Hlen Hk Hkt Hlit Hnan Hfr P ws g vs Hargs Hdist Hglob fuel fl st' Hex)
    as (v & vs' & Hfl & (n & Hrun) & _).
  exists v, vs'. split; [exact Hfl|]. exists n. intros fuel' Hf. split; [apply Hrun; exact Hf|].
  (* static facts about the lowered function *)
  pose proof (call_agreement M fn ws g vs [] Hargs Hdist Hglob) as Hag0.
  assert (Hn0 : env_num (fenv M fn)) by (intros x t Hx; apply (Hag0 x t Hx)).
  pose proof Helab as Helab'. unfold elab_func in Helab'. rewrite Hbody in Helab'. fold (fenv M fn) in Helab'.
  destruct (elab_body (genv_of M) (fenv M fn) (l ++ [SRet (Some e)])) as [tb| |] eqn:Eb; cbn [ebind] in Helab'; try discriminate.
  inversion Helab'; subst tf; clear Helab'. cbn [tf_body tf_args] in *. subst tb.
  destruct (elab_body_simple_static (genv_of M) l (fenv M fn) e tl te Hn0 Hs Hp Eb Hlen) as [Hsim Hpt].
  { intros x Hx q Hq. apply Hnan. apply in_flat_map. exists x. split; assumption. }
  pose proof (elab_body_fresh (genv_of M) (glnames M) (argnames fn) l (fenv M fn) e tl te Hs Eb Hlen Hfr) as Hfrt.
  set (tf := {| tf_name := if f_export fn then f_name fn else mangle (f_name fn) (f_ret fn) (map fst (f_args fn)); tf_args := f_args fn; tf_ret := f_ret fn; tf_body := tl ++ [TRet (Some te)] |}) in *.
  destruct (straight_lowered_forwarding_hyps (m_structs M) (glnames M) tf tl te F eq_refl Hsim Hpt Hfrt Hlower) as (bref & code & ret & rv & Hblocks & Hret & Hplain & Hnd & Hop & Hsc).
  apply (forwarding_preserves_single_block_functions P F bref code ret rv Hblocks Hret Hplain Hnd Hop Hsc). apply Hrun. exact Hf.
Qed.
