(** Non-vacuity of [history_refines_flow]: the function with nested conditionals of [FlowSimExample], a history of three calls
    that take different branches. *)
From Coq Require Import String ZArith List Bool PrimFloat.
From NSL Require Import Base.Types Base.Syntax Model.PyNum Model.IR Model.VM Model.Elab Model.Lower Spec.RefSem Proofs.OpsAgree
                        Proofs.LowerExprProofs Proofs.ElabExprProofs Proofs.ReturnExprProofs Proofs.CallAgreeProofs
                        Proofs.LowerStmtProofs Proofs.ElabStmtProofs Proofs.StraightLineProofs Proofs.HistoryRefineProofs
                        Proofs.FlowTableProofs Proofs.FlowSimProofs Proofs.FlowSimExample Proofs.HistoryFlowProofs
                        Harness.FragLib Harness.FragLib2 Harness.FlowLib Harness.FlowLib2.
Import ListNotations.
Local Open Scope string_scope.

Definition hf_P : program := {| p_funcs := [fs_F]; p_globals := ["g"] |}.

Lemma hf_fn_ok : fn_ok_flow fs_M hf_P fs_fn.
Proof.
  apply (fn_ok_flow_intro fs_M hf_P fs_fn flow_depth fs_body fs_e fs_tf fs_F fs_tl fs_te); try reflexivity.
  - exact fs_lits_exact.
  - apply forallb_forall. vm_compute. reflexivity.
  - repeat constructor; cbn; auto.
  - intros x Hx Hg. cbn in Hx, Hg. destruct Hg as [Hg|[]]. subst x. destruct Hx as [Hx|[Hx|[]]]; inversion Hx.
  - repeat constructor; cbn; intuition discriminate.
Qed.

Definition hf_calls : list hcall := [(fs_fn, [RInt 3; RFloat 2.5%float]); (fs_fn, [RInt 0; RFloat 0.5%float]); (fs_fn, [RInt 5; RFloat 4%float])].
Definition hf_g : RefSem.frame := [("g", SV (RInt 1))].
Definition hf_vs : vmstate := {| globals := [("g", VInt 1)]; hp := [] |}.

Lemma hf_GA : GA fs_M hf_g hf_vs.
Proof.
  intros x p H. unfold genvl in H. cbn [fs_M m_globals map find fst snd] in H. destruct (String.eqb_spec "g" x) as [<-|Hne]; [|discriminate]. inversion H; subst p. cbn.
  split; [left; reflexivity|]. exists (RInt 1). repeat split; reflexivity.
Qed.

Example hf_history :
  exists rs g', ref_hist fs_M 16 hf_g hf_calls = RefSem.ROk (rs, g') /\
  exists n, forall fuel', n <= fuel' ->
    exists vl vs', vm_hist fuel' hf_P hf_vs hf_calls = Some (vl, vs') /\ Forall2 (fun s v => exists w, s = SV w /\ v = v_of w) rs vl /\ GA fs_M g' vs'.
Proof.
  destruct (ref_hist fs_M 16 hf_g hf_calls) as [[rs g']| | |] eqn:E; try (vm_compute in E; discriminate).
  exists rs, g'. split; [reflexivity|].
  apply (history_refines_flow fs_M hf_P hf_calls) with (fuel := 16) (g := hf_g); [|exact hf_GA|exact E].
  intros c Hc. cbn in Hc. destruct Hc as [<-|[<-|[<-|[]]]]; (split; [exact hf_fn_ok|repeat constructor]).
Qed.

(** evaluated: the global afterwards on both sides (g is decremented by the first call only: 1 -> 0, then the inner branch is not taken) *)
Example hf_values :
  (match ref_hist fs_M 16 hf_g hf_calls with RefSem.ROk (_, g') => Some g' | _ => None end) = Some [("g", SV (RInt 0))] /\
  (match vm_hist 100 hf_P hf_vs hf_calls with Some (_, vs') => Some (globals vs') | None => None end) = Some [("g", VInt 0)].
Proof. split; vm_compute; reflexivity. Qed.
