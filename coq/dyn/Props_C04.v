(** * C04 -- Vectors and matrices are values: component ops, swizzles, copies. *)
From Coq Require Import String Ascii ZArith List Bool Arith.
From NSL Require Import Base.Types Base.Syntax Model.PyNum Model.IR Model.VM Model.Elab Model.Lower Model.Swizzle Spec.RefSem
     Harness.RunLib Model.PyTree Proofs.OpsAgree Proofs.VecProofs Proofs.VecSetProofs Proofs.CallProofs.
From NSLDyn Require Gen_VM Agree_VM Gen_Shapes.
Import ListNotations.

(** Swizzle read: for a source of ANY size and any mask over existing components (any length, order, repetition)
    the SHUFFLE emitted by the lowering yields component mask[k] of the source at position k. *)
Theorem C04_swizzle_read_exact : forall (v : list val) (ws : list nat), Forall (fun i => i < length v) ws ->
  exists out, shuffle_list (v ++ v) (read_indices ws) = Some out /\ length out = length ws /\
              forall k i, nth_error ws k = Some i -> nth_error out k = nth_error v i.
Proof. exact (@swizzle_read_exact val). Qed.

(** Swizzle write: for a vector of ANY size and any non-repeating mask over existing components, the SHUFFLE of the
    old value with the assigned value on the index list built by the lowering changes exactly the named components:
    component mask[k] receives the k-th assigned value, every other component keeps its old value. *)
Theorem C04_swizzle_write_exact : forall (old new : list val) (ws : list nat),
  NoDup ws -> Forall (fun w => w < length old) ws -> length new = length ws ->
  exists out, shuffle_list (old ++ new) (write_indices (length old) ws) = Some out /\ length out = length old /\
              (forall k w, nth_error ws k = Some w -> nth_error out w = nth_error new k) /\
              (forall j, j < length old -> ~ In j ws -> nth_error out j = nth_error old j).
Proof. exact (@swizzle_write_exact val). Qed.

(** the VM's SHUFFLE arm is that list function, allocating a NEW object (the operands stay as they were) *)
Theorem C04_shuffle_step : forall F pc fr st i a b idxs pa pb l1 l2 out,
  i_body i = IShuffle a b idxs -> ty_is_scalar (i_ty i) = false ->
  rget fr a = Ok (VRef pa) -> rget fr b = Ok (VRef pb) ->
  hget (hp st) pa = Some (OList l1) -> hget (hp st) pb = Some (OList l2) ->
  shuffle_list (l1 ++ l2) idxs = Some out ->
  step F pc fr st i = StNext (S pc) (rset fr (i_ref i) (VRef (length (hp st)))) (with_heap st (hp st ++ [OList out])).
Proof. exact step_shuffle_vector. Qed.

(** Assigning through an index (VECTOR_SET): the result is a NEW object equal to the source vector except at the index,
    where it holds the stored scalar; the source vector and every other existing object are unchanged. *)
Theorem C04_vector_set_step : forall F pc fr st i k arr idx src pa l (z : Z) w,
  i_body i = ISetIdx k arr idx src ->
  rget fr src = Ok w -> rget fr arr = Ok (VRef pa) -> rget fr idx = Ok (VInt z) ->
  hget (hp st) pa = Some (OList l) -> forallb is_scalar_val l = true ->
  (0 <= z < Z.of_nat (length l))%Z ->
  step F pc fr st i = StNext (S pc) (rset fr (i_ref i) (VRef (length (hp st)))) (with_heap st (hp st ++ [OList (list_set l (Z.to_nat z) w)])).
Proof. exact step_vector_set. Qed.
Theorem C04_vector_set_exact : forall (l : list val) i w, i < length l ->
  nth_error (list_set l i w) i = Some w /\ (forall j, j <> i -> nth_error (list_set l i w) j = nth_error l j) /\ length (list_set l i w) = length l.
Proof. exact vector_set_exact. Qed.

(** the letter -> index table used by the lowering on this run is the one modelled *)
Theorem C04_swizzle_letters : Gen_VM.swizzle_index_lower = [("r", 0); ("g", 1); ("b", 2); ("a", 3); ("x", 0); ("y", 1); ("z", 2); ("w", 3)]%Z%string.
Proof. exact (proj1 (proj2 (proj2 Agree_VM.agree_small_maps))). Qed.

(** Component-wise arithmetic and comparisons: whenever the reference semantics defines the component-wise result of
    [o] on two vectors, the VM's VECTOR_<o> arm computes exactly those components (0/1 per component for
    comparisons), for vectors of any size. *)
Theorem C04_componentwise_agrees : forall o l1 l2 r,
  zip_r (eval_binop o) l1 l2 = ROk r ->
  Forall2 (fun a b => both_int a b = false \/ o <> ODiv) l1 l2 ->
  zip_with (scalar_op (scalar_opc o) false) (map v_of l1) (map v_of l2) = Ok (map v_of r).
Proof. exact zip_with_agrees. Qed.

(** A copy of a vector or matrix is independent of its source: in a program without in-place stores (every program
    over scalars, vectors and matrices; VECTOR_SET / MATRIX_SET / SHUFFLE / CONSTRUCT_PRIMITIVE / arithmetic all
    produce new objects) no execution changes any existing object, so whatever a variable held stays as it was
    until that variable itself is assigned. *)
Theorem C04_values_never_mutated : forall fuel P,
    (forall F, In F (p_funcs P) -> forallb inplace_free (flat_code F) = true) ->
    forall F pc fr st v st', In F (p_funcs P) -> run fuel P F pc fr st = Done v st' -> grows (hp st) (hp st').
Proof. exact run_keeps_heap. Qed.

(** Full statement (NOT proved; staged): every accepted program over vectors and matrices computes, on the VM, what the
    reference semantics (Spec.RefSem with vectors/matrices: component-wise ops, constructors, swizzles, element and
    row selection and assignment) prescribes.  The theorems above are its instruction-level parts; the composition
    along the lowering is tied by the correspondence on generated programs. *)
Definition C04_full_statement : Prop :=
  forall (M : module) (P : program) (c : call) (n : nat) (r : pv) (g : list (string * pv)),
    compile M = COk P ->
    fst (spec_call n M [] c) = ORet r g ->
    exists m r' g', fst (model_call m P (vm_init P) c) = ORet r' g' /\ pv_pyeq r r' = true /\ globals_eqb pv_pyeq g g' = true.

Theorem C04_lowering_shapes :
  Gen_Shapes.shape_lower_member_checked = true /\ Gen_Shapes.shape_lower_index_checked = true /\
  Gen_Shapes.shape_lower_ctor_checked = true /\ Gen_Shapes.shape_lower_binary_checked = true.
Proof. repeat split. Qed.

Example C04_write_example :
  shuffle_list ([1; 2; 3; 4] ++ [10; 20]) (write_indices 4 [3; 1]) = Some [1; 20; 3; 10].
Proof. reflexivity. Qed.

Eval compute in "ASSUMPTIONS C04_swizzle_write_exact"%string. Print Assumptions C04_swizzle_write_exact.
Eval compute in "ASSUMPTIONS C04_componentwise_agrees"%string. Print Assumptions C04_componentwise_agrees.
Eval compute in "ASSUMPTIONS C04_values_never_mutated"%string. Print Assumptions C04_values_never_mutated.
Eval compute in "END"%string.
