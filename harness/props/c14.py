"""C14 -- Every compiled IR module is well-formed."""
import os, json
import shapes, nslgen, gentyped, vmcases, ircoq
from props import c01

STATIC = ["Model/IR.v", "Model/VM.v", "Model/WfIR.v", "Proofs/WfIRProofs.v", "Proofs/LowerWfProofs.v", "Proofs/LowerAllocProofs.v"]


def run(ctx):
    ctx.static_obligations(STATIC)
    repo = ctx.sync_repo(1)[0]
    shapes.write(ctx, repo, ["argrewrite", "optload", "optcast", "compiler", "pass", "visitor"])
    ctx.compile_dyn(["Gen_Shapes", "Props_C14"])
    progs = c01.gen_programs(ctx, 120 if ctx.tier == "quick" else 2500)
    # every language feature, not only the scalar core: vector / matrix programs (element, member and swizzle accesses after a store are what
    # the optimiser rewires) and the store/load grid of C02; for these only the well-formedness of the dumped IR is checked (no lowering model)
    import genvec
    from props import c02
    extra = []
    vg = genvec.VGen(ctx.rng)
    for k in range(40 if ctx.tier == "quick" else 800):
        vg.o["mats"] = k % 3 != 0
        m, params, globs, ret = vg.program()
        text, _ = nslgen.render(m, "canonical", ctx.rng)
        extra.append((None, [], text))
    for name, m in c02.targeted(ctx.rng):
        text, _ = nslgen.render(m, "canonical", ctx.rng)
        extra.append((None, [], text))
    for src in ("export function f(float4 p) -> float { float4 v = p; return v.x; }", "export function f(float4 p) -> float2 { float4 v = p; return v.zx; }",
                "export function f(float3x3 p) -> float { float3x3 q = p; return q[1][2]; }", "export function f(float4 p, int i) -> float { float4 v = p; return v[i]; }",
                "struct S { int m; float k; }\nexport function f(int a) -> int { S s; s.m = a; S t = s; return t.m; }",
                "export function f(int a) -> int { int[3] x; x[1] = a; int[3] y = x; return y[1]; }",
                "export function f(float4 p) -> float4 { float4 v = p; float4 w = v; w.xy = v.zw; return w + v; }"):
        extra.append((None, [], src))
    progs = progs + extra
    jobs = []
    for k, (m, calls, text) in enumerate(progs):
        jobs.append(vmcases.job(text, calls[:1], optimize=False))
        jobs.append(vmcases.job(text, calls[:1], optimize=True))
    res = ctx.run_impl("compile_impl.py", jobs, nworkers=16)
    blocks, meta, direct_bad = [], [], []
    for k, (j, r) in enumerate(zip(jobs, res)):
        m = progs[k // 2][0]
        if not r["accept"] or "ir" not in r:
            direct_bad.append((j, r)); continue
        prog = ircoq.program({"functions": r["ir"]["functions"], "globals": r["ir"]["globals"]})
        defs = "Definition P_%d : program := %s.\n" % (k, prog)
        expr = "wf_case P_%d" % k
        if not j["opts"]["optimize"] and m is not None:
            defs += "Definition M_%d : module := %s.\n" % (k, nslgen.coq_module(m))
            expr = "(wf_case P_%d + 16 * ir_case M_%d P_%d)" % (k, k, k)
        # operand kinds as the dump saw them: an operand that is not a constant / instruction / block of the function
        stray = [(f["name"], i["ref"], i["opkinds"]) for f in r["ir"]["functions"] for b in f["blocks"] for i in b["instrs"]
                 if any(kd not in ("const", "instr", "block") for kd in i["opkinds"])]
        if stray:
            direct_bad.append((j, {"stray_operands": stray[:3]})); continue
        blocks.append((defs, expr)); meta.append((j, r))
    # linked programs of several modules (import chains, diamonds): every call of the LINKED program names a function of the linked program
    from props import c16
    lg = c16.Gen(ctx.rng)
    ljobs = []
    for nm, edges, kk in [("chain4", [(3, 2), (2, 1), (1, 0)], 4), ("diamond", [(3, 1), (3, 2), (1, 0), (2, 0)], 4), ("two-roots-shared", [(1, 0), (2, 0)], 3),
                          ("chain-plus-root", [(2, 1), (1, 0), (3, 0)], 4), ("transitive-and-direct", [(2, 1), (2, 0), (1, 0)], 3)] * (1 if ctx.tier == "quick" else 6):
        funcs, owner, globs, k = lg.shaped(edges, kk)
        mods, imports, single, names = lg.split(funcs, owner, globs, k)
        sources = [m for m in range(k) if not any(m in imports[j] for j in range(k))]
        ljobs.append({"modules": mods, "order": [names[m] for m in c16.topo(imports, k)], "adds": [[names[m] for m in sources], [names[m] for m in reversed(sources)]], "calls": [],
                      "single": single, "opts": {"optimize": bool(len(ljobs) % 2)}})
    lres = ctx.run_impl("c16_impl.py", ljobs, nworkers=8)
    nlinked = 0
    for lj, lr in zip(ljobs, lres):
        for li, l in enumerate(lr.get("links", [])):
            if not l.get("ok"):
                direct_bad.append(({"src": json.dumps(lj["modules"])[:1500], "opts": lj["opts"]}, {"link_failed": l.get("error"), "adds": l.get("adds")})); continue
            k2 = len(jobs) + nlinked
            nlinked += 1
            prog = ircoq.program({"functions": l["ir"]["functions"], "globals": l["ir"]["globals"]})
            blocks.append(("Definition P_%d : program := %s.\n" % (k2, prog), "wf_case P_%d" % k2))
            meta.append(({"src": "modules " + json.dumps(lj["modules"])[:3000] + " added " + json.dumps(l["adds"]), "opts": lj["opts"]}, {"ir": l["ir"], "linked": True}))
    files = vmcases.write_case_files(ctx, "C14", blocks, per=12)
    outs = ctx.eval_cases(files, timeout=900)
    codes = vmcases.collect_codes(ctx, files, outs, len(blocks), per=12)
    bad_spec = [x for x, c in zip(meta, codes) if c is not None and c & 32]
    bad_model = [x for x, c in zip(meta, codes) if c is not None and (c & 16) and not (c & 64)]
    nfun = sum(len(r["ir"]["functions"]) for _, r in meta)
    ninstr = sum(len(b["instrs"]) for _, r in meta for f in r["ir"]["functions"] for b in f["blocks"])
    ctx.cov["evaluations"] = len(jobs)
    ctx.cov["distinct_nontrivial"] = len({j["src"] + str(j["opts"]) for j, _ in meta})
    ctx.cov["programs"] = len(progs)
    ctx.cov["rule"] = ("the C01 generator's programs (loops with break/continue, calls, recursion, arrays, structs, globals) compiled at both optimisation settings by the real compiler; "
                       "the dumped IR of every module is checked by the Coq function wf_program_b (unique references, block-local def-before-use, branch targets, call arity) whose soundness "
                       "on the VM model is the theorem; the unoptimised IR is additionally compared for equality with the lowering model; plus vector / matrix programs, the store/load grid of C02 and aggregate copies followed by element, member and swizzle accesses (well-formedness of the dumped IR only); plus LINKED programs of several modules (import chains, diamonds, transitive and direct imports) checked the same way. Every (program, setting) pair is distinct and non-trivial.")
    ctx.cov["samples"] = [{"source": j["src"][:400], "optimize": j["opts"]["optimize"]} for j, _ in meta[:2]]
    ctx.extra["input_distribution"] = {"modules_checked": len(meta), "functions": nfun, "instructions": ninstr, "ill_formed": len(bad_spec), "not_compiled": len(direct_bad)}
    ctx.extra["disagreements_checked"] = len(codes)
    if bad_spec or direct_bad:
        j, r = min(bad_spec or direct_bad, key=lambda x: len(x[0]["src"]))
        ctx.violation("failing-input", {"what": "the compiler produced an IR module that is not well-formed (or failed on a well-typed program)", "source": j["src"], "options": j["opts"],
                                        "observed": {k: v for k, v in r.items() if k != "ir"}, "count": len(bad_spec) + len(direct_bad)})
    elif bad_model:
        j, r = bad_model[0]
        ctx.broken.append("correspondence (lowering model): IR differs on %d module(s), e.g. %s" % (len(bad_model), j["src"][:300]))
