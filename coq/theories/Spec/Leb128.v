(** * Specification: the integer, name and framing encodings the WebAssembly binary format prescribes.
    Bytes are [Z] values in [0,256).  These are the *decoders* of the standard; the property (C19) says
    that what the writer emits is recovered by them. *)
From Coq Require Import ZArith List Lia Bool.
Import ListNotations.
Local Open Scope Z_scope.

(** Unsigned LEB128 (counts, sizes, indices). *)
Fixpoint uleb_decode (bs : list Z) : option (Z * list Z) :=
  match bs with
  | [] => None
  | b :: rest =>
      if b <? 128 then Some (b, rest)
      else match uleb_decode rest with
           | Some (v, r) => Some ((b - 128) + 128 * v, r)
           | None => None
           end
  end.

(** Signed LEB128 (i32.const immediates): the final group is sign-extended from bit 6. *)
Fixpoint sleb_decode (bs : list Z) : option (Z * list Z) :=
  match bs with
  | [] => None
  | b :: rest =>
      if b <? 128 then Some ((if b <? 64 then b else b - 128), rest)
      else match sleb_decode rest with
           | Some (v, r) => Some ((b - 128) + 128 * v, r)
           | None => None
           end
  end.

(** [take n l] = the first [n] elements and the remainder, when [l] is long enough. *)
Fixpoint take (n : nat) (l : list Z) : option (list Z * list Z) :=
  match n, l with
  | O, _ => Some ([], l)
  | S n', x :: l' => match take n' l' with Some (a, r) => Some (x :: a, r) | None => None end
  | S _, [] => None
  end.

(** A name / byte vector: unsigned length, then exactly that many bytes. *)
Definition decode_vec_bytes (bs : list Z) : option (list Z * list Z) :=
  match uleb_decode bs with
  | Some (n, rest) => if n <? 0 then None else take (Z.to_nat n) rest
  | None => None
  end.

(** A section: one id byte, the payload size, then exactly [size] payload bytes. *)
Definition decode_section (bs : list Z) : option (Z * list Z * list Z) :=
  match bs with
  | [] => None
  | id :: rest =>
      match decode_vec_bytes rest with
      | Some (payload, r) => Some (id, payload, r)
      | None => None
      end
  end.

(** UTF-8 (RFC 3629): code points are [Z]; surrogates and values above 0x10FFFF are not scalar values. *)
Definition is_scalar_value (c : Z) : bool :=
  (0 <=? c) && (c <=? 1114111) && negb ((55296 <=? c) && (c <=? 57343)).

Definition utf8_decode1 (bs : list Z) : option (Z * list Z) :=
  match bs with
  | [] => None
  | b0 :: r0 =>
      if b0 <? 128 then Some (b0, r0)
      else if b0 <? 192 then None
      else if b0 <? 224 then
        match r0 with
        | b1 :: r1 => if (128 <=? b1) && (b1 <? 192)
                      then let c := (b0 - 192) * 64 + (b1 - 128) in if 128 <=? c then Some (c, r1) else None
                      else None
        | _ => None end
      else if b0 <? 240 then
        match r0 with
        | b1 :: b2 :: r2 => if (128 <=? b1) && (b1 <? 192) && (128 <=? b2) && (b2 <? 192)
                      then let c := (b0 - 224) * 4096 + (b1 - 128) * 64 + (b2 - 128) in
                           if (2048 <=? c) && is_scalar_value c then Some (c, r2) else None
                      else None
        | _ => None end
      else if b0 <? 248 then
        match r0 with
        | b1 :: b2 :: b3 :: r3 => if (128 <=? b1) && (b1 <? 192) && (128 <=? b2) && (b2 <? 192) && (128 <=? b3) && (b3 <? 192)
                      then let c := (b0 - 240) * 262144 + (b1 - 128) * 4096 + (b2 - 128) * 64 + (b3 - 128) in
                           if (65536 <=? c) && is_scalar_value c then Some (c, r3) else None
                      else None
        | _ => None end
      else None
  end.

Fixpoint utf8_decode_fuel (fuel : nat) (bs : list Z) : option (list Z) :=
  match bs with
  | [] => Some []
  | _ => match fuel with
         | O => None
         | S f => match utf8_decode1 bs with
                  | Some (c, r) => match utf8_decode_fuel f r with Some cs => Some (c :: cs) | None => None end
                  | None => None
                  end
         end
  end.
Definition utf8_decode (bs : list Z) : option (list Z) := utf8_decode_fuel (length bs) bs.

(** A name as the format reads it: length-prefixed bytes that are valid UTF-8. *)
Definition decode_name (bs : list Z) : option (list Z * list Z) :=
  match decode_vec_bytes bs with
  | Some (raw, rest) => match utf8_decode raw with Some cs => Some (cs, rest) | None => None end
  | None => None
  end.

(** ** Module framing: preamble, then sections, each consumed exactly. *)
Definition wasm_preamble : list Z := [0; 97; 115; 109; 1; 0; 0; 0].

Fixpoint strip_prefix (p bs : list Z) : option (list Z) :=
  match p, bs with
  | [], _ => Some bs
  | x :: p', y :: bs' => if x =? y then strip_prefix p' bs' else None
  | _ :: _, [] => None
  end.

Fixpoint decode_sections (fuel : nat) (bs : list Z) : option (list (Z * list Z)) :=
  match bs with
  | [] => Some []
  | _ => match fuel with
         | O => None
         | S f => match decode_section bs with
                  | Some (id, payload, r) =>
                      match decode_sections f r with Some l => Some ((id, payload) :: l) | None => None end
                  | None => None
                  end
         end
  end.

Definition split_module (bs : list Z) : option (list (Z * list Z)) :=
  match strip_prefix wasm_preamble bs with
  | Some rest => decode_sections (length rest) rest
  | None => None
  end.

(** a vector of size-prefixed items (function bodies): count, then [count] byte vectors, nothing left over *)
Fixpoint decode_sized_items (n : nat) (bs : list Z) : option (list (list Z) * list Z) :=
  match n with
  | O => Some ([], bs)
  | S n' => match decode_vec_bytes bs with
            | Some (item, r) => match decode_sized_items n' r with Some (l, r') => Some (item :: l, r') | None => None end
            | None => None
            end
  end.

Definition decode_code_section (payload : list Z) : option (list (list Z)) :=
  match uleb_decode payload with
  | Some (n, r) => if n <? 0 then None else
      match decode_sized_items (Z.to_nat n) r with Some (l, []) => Some l | _ => None end
  | None => None
  end.

(** export section: count, then (name, kind byte, index) *)
Fixpoint decode_exports (n : nat) (bs : list Z) : option (list (list Z * Z * Z) * list Z) :=
  match n with
  | O => Some ([], bs)
  | S n' => match decode_name bs with
            | Some (nm, kind :: r) =>
                match uleb_decode r with
                | Some (idx, r') => match decode_exports n' r' with Some (l, r'') => Some ((nm, kind, idx) :: l, r'') | None => None end
                | None => None
                end
            | _ => None
            end
  end.

Definition decode_export_section (payload : list Z) : option (list (list Z * Z * Z)) :=
  match uleb_decode payload with
  | Some (n, r) => if n <? 0 then None else
      match decode_exports (Z.to_nat n) r with Some (l, []) => Some l | _ => None end
  | None => None
  end.
