(** * Model of nsl/passes/LowerToIR.py (+ RewriteFunctionArgAccess) on the core language.
    The state mirrors LowerToIRVisitor.Context and LinearIR.Function: one reference counter shared by constants,
    basic blocks and instructions; constants keyed by (type, value); a block is started lazily after a return;
    break/continue branches are emitted with symbolic targets and patched when their loop has been built. *)
From Coq Require Import String ZArith List Bool PrimFloat Arith.
From NSL Require Import Base.Types Base.Syntax Model.PyNum Model.IR Model.Elab Model.PyTree.
Import ListNotations.

Inductive ltarget := LNone | LRef (n : nat) | LBreak (depth : nat) | LCont (depth : nat).
Inductive linstr :=
  | LI (i : instr)
  | LBr (ref : nat) (pred : option nat) (t f : ltarget).

Record lstate := {
  l_next : nat;                                   (* next reference *)
  l_consts : list (nat * irty * cval);            (* in creation order *)
  l_blocks : list (nat * list linstr);            (* in creation order; instructions in order *)
  l_newblock : bool;                              (* start a block before the next instruction *)
  l_locals : list string;                         (* RegisterFunctionLocalVariable *)
  l_depth : nat }.                                (* number of open loops *)

Inductive lres (A : Type) := LOk (a : A) | LFail (why : string) | LUnmodelled.
Arguments LOk {A}. Arguments LFail {A}. Arguments LUnmodelled {A}.
Definition lbind {A B} (r : lres A) (f : A -> lres B) : lres B :=
  match r with LOk a => f a | LFail w => LFail w | LUnmodelled => LUnmodelled end.
Notation "'ldo' x <- r ; k" := (lbind r (fun x => k)) (at level 200, x pattern, r at level 100, k at level 200).

Fixpoint adapt (structs : list sdef) (fuel : nat) (t : ty) : irty :=
  match fuel with
  | O => ITVoid
  | S fu =>
      let sc c := match c with CFloat => ITFloat | CInt => ITInt false | CUInt => ITInt true end in
      match t with
      | TPrim (PScalar c) => sc c
      | TPrim (PVec c n) => ITVec (sc c) n
      | TPrim (PMat c r k) => ITMat (sc c) r k
      | TStruct n => match find (fun d => String.eqb (s_name d) n) structs with
                     | Some d => ITStruct n (map (fun f => (snd f, adapt structs fu (fst f))) (s_fields d))
                     | None => ITStruct n [] end
      | TArr e dims => ITArr (adapt structs fu e) dims
      | TVoid => ITVoid
      end
  end.

(** constant keys: same printed type and Python-equal values (1 == 1.0) *)
Definition irty_eqb_simple (a b : irty) : bool :=
  match a, b with
  | ITInt u, ITInt v => Bool.eqb u v
  | ITFloat, ITFloat => true
  | _, _ => false
  end.
Definition cval_pyeq (a b : cval) : bool :=
  match a, b with
  | KInt x, KInt y => Z.eqb x y
  | KFloat x, KFloat y => PrimFloat.eqb x y
  | KInt x, KFloat y | KFloat y, KInt x => match float_of_Z x with Ok f => PrimFloat.eqb f y | _ => false end
  end.

Definition create_const (st : lstate) (t : irty) (v : cval) : lstate * nat :=
  match find (fun c => irty_eqb_simple (snd (fst c)) t && cval_pyeq (snd c) v) (l_consts st) with
  | Some c => (st, fst (fst c))
  | None => ({| l_next := S (l_next st); l_consts := l_consts st ++ [(l_next st, t, v)]; l_blocks := l_blocks st;
                l_newblock := l_newblock st; l_locals := l_locals st; l_depth := l_depth st |}, l_next st)
  end.

Definition create_block (st : lstate) : lstate * nat :=
  ({| l_next := S (l_next st); l_consts := l_consts st; l_blocks := l_blocks st ++ [(l_next st, [])];
      l_newblock := false; l_locals := l_locals st; l_depth := l_depth st |}, l_next st).

Definition append_last (bs : list (nat * list linstr)) (i : linstr) : list (nat * list linstr) :=
  match rev bs with
  | (r, code) :: rest => rev rest ++ [(r, code ++ [i])]
  | [] => []
  end.

(** ctx.BasicBlock.AddInstruction: start a block first if one is pending (or none exists), then register the instruction *)
Definition emit_raw (st : lstate) (mk : nat -> linstr) : lstate * nat :=
  let st1 := if l_newblock st then fst (create_block st) else st in
  let r := l_next st1 in
  ({| l_next := S r; l_consts := l_consts st1; l_blocks := append_last (l_blocks st1) (mk r);
      l_newblock := false; l_locals := l_locals st1; l_depth := l_depth st1 |}, r).

Definition emit (st : lstate) (t : irty) (b : ibody) : lstate * nat :=
  emit_raw st (fun r => LI {| i_ref := r; i_ty := t; i_body := b |}).

Definition end_block (st : lstate) : lstate :=
  {| l_next := l_next st; l_consts := l_consts st; l_blocks := l_blocks st; l_newblock := true; l_locals := l_locals st; l_depth := l_depth st |}.
Definition register_local (st : lstate) (x : string) : lstate :=
  {| l_next := l_next st; l_consts := l_consts st; l_blocks := l_blocks st; l_newblock := l_newblock st; l_locals := x :: l_locals st; l_depth := l_depth st |}.
Definition set_depth (st : lstate) (d : nat) : lstate :=
  {| l_next := l_next st; l_consts := l_consts st; l_blocks := l_blocks st; l_newblock := l_newblock st; l_locals := l_locals st; l_depth := d |}.

Definition patch_target (d : nat) (brk cnt : nat) (t : ltarget) : ltarget :=
  match t with
  | LBreak d' => if Nat.eqb d d' then LRef brk else t
  | LCont d' => if Nat.eqb d d' then LRef cnt else t
  | _ => t
  end.
Definition patch (st : lstate) (d brk cnt : nat) : lstate :=
  {| l_next := l_next st; l_consts := l_consts st;
     l_blocks := map (fun b => (fst b, map (fun i => match i with
                                                     | LBr r p t f => LBr r p (patch_target d brk cnt t) (patch_target d brk cnt f)
                                                     | _ => i end) (snd b))) (l_blocks st);
     l_newblock := l_newblock st; l_locals := l_locals st; l_depth := l_depth st |}.
(** set the targets of one branch instruction (SetTrueBlock / SetFalseBlock after the fact) *)
Definition set_targets (st : lstate) (ref : nat) (t f : option ltarget) : lstate :=
  {| l_next := l_next st; l_consts := l_consts st;
     l_blocks := map (fun b => (fst b, map (fun i => match i with
                                                     | LBr r p t0 f0 => if Nat.eqb r ref then LBr r p (match t with Some x => x | None => t0 end) (match f with Some x => x | None => f0 end) else i
                                                     | _ => i end) (snd b))) (l_blocks st);
     l_newblock := l_newblock st; l_locals := l_locals st; l_depth := l_depth st |}.

Section Lower.
  Variable structs : list sdef.
  Variable globals : list string.
  Variable args : list string.

  Definition ad := adapt structs 8.

  (** ChainMap(globals, args, locals) *)
  Definition scope_of (st : lstate) (x : string) : lres vscope :=
    if existsb (String.eqb x) globals then LOk SGlobal
    else if existsb (String.eqb x) args then LOk SArg
    else if existsb (String.eqb x) (l_locals st) then LOk SLocal
    else LFail "KeyError in LookupVariableScope".

  (** BinaryInstruction.FromOperation, scalar result *)
  Definition scalar_opc (o : binop) : binopc :=
    match o with
    | OAdd => BAdd | OSub => BSub | OMul => BMul | ODiv => BDiv | OMod => BMod | OLand => BLgAnd | OLor => BLgOr
    | OLt => BCmp CLt | OLe => BCmp CLe | OGt => BCmp CGt | OGe => BCmp CGe | OEq => BCmp CEq | ONe => BCmp CNe
    end.

  Fixpoint lower_expr (e : texpr) (st : lstate) : lres (nat * lstate) :=
    let lower_list := fix lower_list (l : list texpr) (st : lstate) : lres (list nat * lstate) :=
        match l with
        | [] => LOk ([], st)
        | x :: r => ldo p <- lower_expr x st; let '(v, st1) := p in ldo q <- lower_list r st1; let '(vs, st2) := q in LOk (v :: vs, st2)
        end in
    match e with
    | XInt z => let '(st1, r) := create_const st (ITInt false) (KInt z) in LOk (r, st1)
    | XFloat f => let '(st1, r) := create_const st ITFloat (KFloat f) in LOk (r, st1)
    | XVar x t => ldo sc <- scope_of st x; let '(st1, r) := emit st (ad t) (ILoad sc (VName x)) in LOk (r, st1)
    | XBin o rt l r =>
        ldo p <- lower_expr l st; let '(a, st1) := p in
        ldo q <- lower_expr r st1; let '(b, st2) := q in
        let '(st3, ref) := emit st2 (ad (TPrim rt)) (IBin (scalar_opc o) a b) in LOk (ref, st3)
    | XCast t a =>
        ldo p <- lower_expr a st; let '(v, st1) := p in
        let '(st2, ref) := emit st1 (ad (TPrim t)) (ICast v) in LOk (ref, st2)
    | XAssign l r =>
        ldo p <- lower_expr r st; let '(v, st1) := p in
        match l with
        | XVar x t => ldo sc <- scope_of st1 x; let '(st2, ref) := emit st1 (ad t) (IStore sc (VName x) v) in LOk (v, st2)
        | XIdx pa ix t =>
            ldo q <- lower_expr pa st1; let '(a, st2) := q in
            ldo q2 <- lower_expr ix st2; let '(i, st3) := q2 in
            let '(st4, ref) := emit st3 (ad t) (IStoreArray a i v) in LOk (v, st4)
        | XField pa m t =>
            ldo q <- lower_expr pa st1; let '(a, st2) := q in
            let '(st3, ref) := emit st2 (ad t) (IStoreMember a m v) in LOk (v, st3)
        | _ => LUnmodelled
        end
    | XPre inc x t | XPost inc x t =>
        let '(st0, one) := create_const st (ad t) (match ad t with ITFloat => KFloat one | _ => KInt 1 end) in
        ldo sc <- scope_of st0 x;
        let '(st1, a) := emit st0 (ad t) (ILoad sc (VName x)) in
        let '(st2, b) := emit st1 (ad t) (IBin (if inc then BAdd else BSub) a one) in
        let '(st3, _) := emit st2 (ad t) (IStore sc (VName x) b) in
        LOk (match e with XPre _ _ _ => b | _ => a end, st3)
    | XCall name rt args' =>
        ldo p <- lower_list args' st; let '(vs, st1) := p in
        let '(st2, ref) := emit st1 (ad rt) (ICall name vs) in LOk (ref, st2)
    | XIdx pa ix t =>
        ldo q <- lower_expr pa st; let '(a, st1) := q in
        ldo q2 <- lower_expr ix st1; let '(i, st2) := q2 in
        let '(st3, ref) := emit st2 (ad t) (ILoadIdx KArray a i) in LOk (ref, st3)
    | XField pa m t =>
        ldo q <- lower_expr pa st; let '(a, st1) := q in
        let '(st2, ref) := emit st1 (ad t) (ILoadMember a m) in LOk (ref, st2)
    end.

  Definition lower_opt (e : option texpr) (st : lstate) : lres (option nat * lstate) :=
    match e with None => LOk (None, st) | Some e' => ldo p <- lower_expr e' st; LOk (Some (fst p), snd p) end.

  Definition emit_branch (st : lstate) (pred : option nat) (t f : ltarget) : lstate * nat :=
    emit_raw st (fun r => LBr r pred t f).

  Definition lower_decl (t : ty) (x : string) (init : option texpr) (st : lstate) : lres lstate :=
    let st0 := register_local st x in
    let '(st1, _) := emit st0 (ad t) (INewVar x) in
    match init with
    | None => LOk st1
    | Some e => ldo p <- lower_expr e st1; let '(v, st2) := p in
                let '(st3, _) := emit st2 (ad t) (IStore SLocal (VName x) v) in LOk st3
    end.

  Fixpoint lower_stmt (s : tstmt) (st : lstate) : lres lstate :=
    let lower_list := fix lower_list (l : list tstmt) (st : lstate) : lres lstate :=
        match l with [] => LOk st | x :: r => ldo st1 <- lower_stmt x st; lower_list r st1 end in
    match s with
    | TDecl t x init => lower_decl t x init st
    | TExpr e => ldo p <- lower_expr e st; LOk (snd p)
    | TBlock b => lower_list b st
    | TRet e =>
        ldo p <- lower_opt e st; let '(v, st1) := p in
        let t := match e with Some e' => ad (type_of e') | None => ITVoid end in
        let '(st2, _) := emit st1 t (IRet v) in LOk (end_block st2)
    | TIf c t f =>
        ldo p <- lower_expr c st; let '(cv, st1) := p in
        let '(st2, br) := emit_branch st1 (Some cv) LNone LNone in
        let '(st3, tb) := create_block st2 in
        ldo st4 <- lower_stmt t st3;
        let st5 := set_targets st4 br (Some (LRef tb)) None in
        match f with
        | Some f' =>
            let '(st6, ex) := emit_branch st5 None (LRef tb) LNone in
            let '(st7, fb) := create_block st6 in
            ldo st8 <- lower_stmt f' st7;
            let st9 := set_targets st8 br None (Some (LRef fb)) in
            let '(st10, bb) := create_block st9 in
            LOk (set_targets st10 ex (Some (LRef bb)) None)
        | None =>
            let '(st6, bb) := create_block st5 in
            LOk (set_targets st6 br None (Some (LRef bb)))
        end
    | TFor init c n b =>
        ldo st1 <- match init with None => LOk st | Some (t, x, i) => lower_decl t x i st end;
        let '(st2, condb) := create_block st1 in
        ldo p <- lower_opt c st2; let '(cv, st3) := p in
        let '(st4, cbr) := emit_branch st3 cv LNone LNone in
        let '(st5, bodyb) := create_block st4 in
        let d := l_depth st5 in
        ldo st6 <- lower_stmt b (set_depth st5 (S d));
        let st7 := set_depth st6 d in
        let '(st8, incb) := create_block st7 in
        ldo q <- lower_opt n st8; let st9 := snd q in
        let '(st10, _) := emit_branch st9 None (LRef condb) LNone in
        let '(st11, endb) := create_block st10 in
        LOk (patch (set_targets st11 cbr (Some (LRef bodyb)) (Some (LRef endb))) d endb incb)
    | TWhile c b =>
        let '(st1, startb) := create_block st in
        ldo p <- lower_expr c st1; let '(cv, st2) := p in
        let '(st3, br) := emit_branch st2 (Some cv) LNone LNone in
        let d := l_depth st3 in
        let '(st4, bodyb) := create_block st3 in
        ldo st5 <- match b with Some b' => lower_stmt b' (set_depth st4 (S d)) | None => LOk st4 end;
        let st6 := set_depth st5 d in
        let '(st7, _) := emit_branch st6 None (LRef startb) LNone in
        let '(st8, endb) := create_block st7 in
        LOk (patch (set_targets st8 br (Some (LRef bodyb)) (Some (LRef endb))) d endb startb)
    | TDo b c =>
        let '(st1, startb) := create_block st in
        let d := l_depth st1 in
        ldo st2 <- lower_list b (set_depth st1 (S d));
        let st3 := set_depth st2 d in
        let '(st4, condb) := create_block st3 in
        ldo p <- lower_expr c st4; let '(cv, st5) := p in
        let '(st6, br) := emit_branch st5 (Some cv) (LRef startb) LNone in
        let '(st7, endb) := create_block st6 in
        LOk (patch (set_targets st7 br None (Some (LRef endb))) d endb condb)
    | TBreak =>
        match l_depth st with
        | O => LFail "IndexError in RegisterLoopBreak"
        | S d => let '(st1, _) := emit_branch st None (LBreak d) LNone in LOk st1
        end
    | TContinue =>
        match l_depth st with
        | O => LFail "IndexError in RegisterLoopContinue"
        | S d => let '(st1, _) := emit_branch st None (LCont d) LNone in LOk st1
        end
    end.

  Fixpoint lower_body (l : list tstmt) (st : lstate) : lres lstate :=
    match l with [] => LOk st | x :: r => ldo st1 <- lower_stmt x st; lower_body r st1 end.
End Lower.

Definition tgt (t : ltarget) : option nat := match t with LRef n => Some n | _ => None end.

(** final form: symbolic targets resolved; argument accesses by index (RewriteFunctionArgAccess) *)
Definition finish_instr (args : list string) (i : linstr) : instr :=
  let idx x := (fix go (l : list string) (k : nat) : varname :=
                  match l with [] => VName x | y :: r => if String.eqb x y then VIndex k else go r (S k) end) args 0 in
  match i with
  | LBr r p t f => {| i_ref := r; i_ty := ITVoid; i_body := IBranch p (tgt t) (tgt f) |}
  | LI i' =>
      match i_body i' with
      | ILoad SArg (VName x) => {| i_ref := i_ref i'; i_ty := i_ty i'; i_body := ILoad SArg (idx x) |}
      | IStore SArg (VName x) v => {| i_ref := i_ref i'; i_ty := i_ty i'; i_body := IStore SArg (idx x) v |}
      | _ => i'
      end
  end.

Definition lower_func (structs : list sdef) (globals : list string) (f : tfunc) : lres ifunc :=
  let args := map snd (tf_args f) in
  let st0 := {| l_next := 0; l_consts := []; l_blocks := []; l_newblock := true; l_locals := []; l_depth := 0 |} in
  ldo st <- lower_body structs globals args (tf_body f) st0;
  LOk {| fn_name := tf_name f;
         fn_args := map (fun a => (snd a, adapt structs 8 (fst a))) (tf_args f);
         fn_ret := adapt structs 8 (tf_ret f);
         fn_consts := l_consts st;
         fn_blocks := map (fun b => {| b_ref := fst b; b_code := map (finish_instr args) (snd b) |}) (l_blocks st) |}.

Definition lower_module (m : tmodule) : lres program :=
  let globals := map snd (tm_globals m) in
  ldo fs <- (fix go (l : list tfunc) : lres (list ifunc) :=
               match l with [] => LOk [] | f :: r => ldo f' <- lower_func (tm_structs m) globals f; ldo r' <- go r; LOk (f' :: r') end) (tm_funcs m);
  LOk {| p_funcs := fs; p_globals := globals |}.

(** the whole unoptimised pipeline on the core language *)
Inductive cres := COk (p : program) | CReject | CLowerFail (why : string) | CUnmodelled.
Definition compile (m : module) : cres :=
  match elab_module m with
  | EOk tm => match lower_module tm with LOk p => COk p | LFail w => CLowerFail w | LUnmodelled => CUnmodelled end
  | EReject => CReject
  | EUnmodelled => CUnmodelled
  end.
