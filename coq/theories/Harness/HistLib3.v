(** Boolean test, per module, of the hypotheses of [history_refines_loop] (C15) that can be decided by computation. *)
From Coq Require Import String ZArith List Bool PrimFloat Arith.
From NSL Require Import Base.Types Base.Syntax Model.PyNum Model.IR Model.VM Model.WfIR Model.Elab Model.Lower Spec.RefSem
                        Proofs.LowerExprProofs Proofs.ElabStmtProofs Proofs.StraightLineProofs Proofs.FlowTableProofs Proofs.FlowSimProofs Proofs.LoopSimProofs
                        Harness.FragLib Harness.FragLib2 Harness.HistLib Harness.FlowLib Harness.FlowLib2 Harness.LoopLib.
Import ListNotations.

Definition fn_hist_loop_ok_b (M : module) (fn : func) : bool :=
  loopsrc_in_fragment M fn &&
  (match straight_static M fn with Some (_, _, _, _, tl, te) => lits_exact_b (flat_map tflits (flat_map (wtopexprs flow_depth) tl ++ [te])) | None => false end) &&
  nodup_str (map snd (f_args fn)) &&
  (match find (fun f => String.eqb (f_name f) (f_name fn) && f_export f) (m_funcs M) with Some f' => String.eqb (f_name f') (f_name fn) && Nat.eqb (length (f_body f')) (length (f_body fn)) | None => false end).

(** 100 * exported functions + those for which the test passes; 10000 added when it passes for all of them *)
Definition hist_case3 (M : module) : Z :=
  let ex := filter f_export (m_funcs M) in
  let ok := filter (fn_hist_loop_ok_b M) ex in
  ((if Nat.eqb (length ok) (length ex) && negb (Nat.eqb (length ex) 0) then 10000 else 0) + Z.of_nat (length ex) * 100 + Z.of_nat (length ok))%Z.
