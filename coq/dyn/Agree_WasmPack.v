(** Agreement between the definitions regenerated from nsl/WebAssembly.py on this run (Gen_WasmPack)
    and the hand-written model the static proofs are about (NSL.Model.WasmPack). *)
From Coq Require Import String ZArith List Bool.
From NSL Require Import Model.WasmPack.
From NSLDyn Require Gen_WasmPack.
Import ListNotations.
Open Scope Z_scope.

Lemma agree_pack_loop : forall n i bc v, Gen_WasmPack.pack_loop n i bc v = pack_loop n i bc v.
Proof. induction n as [|n IH]; intros; cbn [Gen_WasmPack.pack_loop pack_loop]; [reflexivity|]. rewrite IH. reflexivity. Qed.

Lemma agree_pack_integer : forall v, Gen_WasmPack.pack_integer v = pack_integer v.
Proof. intros v. unfold Gen_WasmPack.pack_integer, pack_integer. destruct (v =? 0); [reflexivity|]. cbv zeta. apply agree_pack_loop. Qed.

Lemma agree_pack_signed_loop : forall n v, Gen_WasmPack.pack_signed_loop n v = pack_signed_loop n v.
Proof. induction n as [|n IH]; intros; cbn [Gen_WasmPack.pack_signed_loop pack_signed_loop]; [reflexivity|]. cbv zeta. rewrite IH. reflexivity. Qed.

Lemma agree_pack_signed : forall v, Gen_WasmPack.pack_signed v = pack_signed v.
Proof. intros v. unfold Gen_WasmPack.pack_signed, pack_signed. apply agree_pack_signed_loop. Qed.

Lemma agree_write_bytes_vec : forall bs, Gen_WasmPack.write_bytes_vec bs = write_bytes_vec bs.
Proof. intros. unfold Gen_WasmPack.write_bytes_vec, write_bytes_vec. rewrite agree_pack_integer. reflexivity. Qed.

(** The format prescribes: i32.const (0x41) takes a signed LEB128 immediate, f32.const (0x43) four IEEE bytes,
    every other immediate the writer can emit (local/func/type indices) is unsigned. *)
Lemma agree_imm_writer : forall opc,
    Gen_WasmPack.imm_writer opc =
    if opc =? 67 then Gen_WasmPack.ImmF32 else if opc =? 65 then Gen_WasmPack.ImmSigned else Gen_WasmPack.ImmUnsigned.
Proof. intros. reflexivity. Qed.

Lemma agree_const_opcodes :
    In ("i32.const"%string, 65) Gen_WasmPack.opcodes /\ In ("f32.const"%string, 67) Gen_WasmPack.opcodes.
Proof. split; vm_compute; tauto. Qed.
