"""C15 -- Global state persists exactly across invocation histories; VMs are isolated."""
import os, json
import shapes, nslgen, gentyped, vmcases, ircoq
from common import TranslatorAbort, coq_list
from nslgen import *

STATIC = ["Model/IR.v", "Model/VM.v", "Model/PyTree.v", "Proofs/HistoryProofs.v", "Spec/RefSem.v", "Proofs/HistoryRefineProofs.v", "Proofs/HistoryExample.v", "Harness/HistLib.v",
          "Proofs/HistoryFlowProofs.v", "Proofs/HistoryFlowExample.v", "Harness/HistLib2.v",
          "Proofs/HistoryLoopProofs.v", "Proofs/LoopOptExample.v", "Harness/HistLib3.v"]


def aggregate_programs():
    """default-initialised locals of every aggregate shape, updated in place and read back; counters in globals"""
    S = Struct("S", [{"t": "int", "n": "a"}, {"t": "float", "n": "b"}])
    T = Struct("T", [{"t": "int", "n": "cnt", "dims": [2]}, {"t": "S", "n": "inner"}])
    out = []
    def mk(name, decl_t, dims, lv, structs):
        # record(i, v): T x (default); x<lv> += v; total += x<lv>; calls += 1; return x<lv>
        body = [Decl(decl_t, "x", None, dims=dims), ES(A(lv, V("v"), "+=")), ES(A(V("total"), B("+", V("total"), lv))), ES(A(V("calls"), I(1), "+=")), Ret(lv)]
        get = Func("peek", [], "int", Block([Ret(B("+", B("*", V("total"), I(100)), V("calls")))]), export=True)
        return (name, Module(structs + [Global("int", "total"), Global("int", "calls"), Func("record", [Arg("int", "i"), Arg("int", "v")], "int", Block(body), export=True), get]))
    out.append(mk("array1", "int", [3], Idx(V("x"), V("i")), []))
    out.append(mk("array2", "int", [2, 3], Idx(Idx(V("x"), V("i")), I(2)), []))
    out.append(mk("array3", "int", [2, 2, 2], Idx(Idx(Idx(V("x"), V("i")), I(1)), V("i")), []))
    out.append(mk("struct", "S", [], Mem(V("x"), "a"), [S]))
    W = Struct("W", [{"t": "S", "n": "items", "dims": [2]}, {"t": "T", "n": "deep", "dims": [2]}])
    # (a local `S[2] x;` is not spellable -- it parses as an index expression -- so arrays of structs sit in a struct)
    out.append(mk("array-of-struct", "W", [], Mem(Idx(Mem(V("x"), "items"), V("i")), "a"), [S, T, W]))
    out.append(mk("struct-with-array-and-struct", "T", [], Idx(Mem(V("x"), "cnt"), V("i")), [S, T]))
    out.append(mk("nested-struct-field", "T", [], Mem(Mem(V("x"), "inner"), "a"), [S, T]))
    out.append(mk("array-of-nested", "W", [], Mem(Mem(Idx(Mem(V("x"), "deep"), V("i")), "inner"), "a"), [S, T, W]))
    return out


def global_aggregate_program():
    m = Module([Global("int", "hist", [3]), Global("float", "acc"), Global("int", "n"),
                Func("add", [Arg("int", "i"), Arg("float", "w")], "float",
                     Block([ES(A(Idx(V("hist"), V("i")), I(1), "+=")), ES(A(V("acc"), B("+", V("acc"), B("*", V("w"), Idx(V("hist"), V("i")))))), ES(Pre("++", "n")), Ret(V("acc"))]), export=True),
                Func("count", [Arg("int", "i")], "int", Block([Ret(B("+", Idx(V("hist"), V("i")), B("*", V("n"), I(10))))]), export=True)])
    return ("global-array", m)


def recursive_program():
    """nested activations of one function: an argument, a local scalar and a local array stay alive across the recursive call;
    results accumulate into globals"""
    m = Module([Global("int", "total"), Global("int", "calls"),
                Func("sum", [Arg("int", "n")], "int", Block([If(B("<=", V("n"), I(0)), Block([Ret(I(0))])), Ret(B("+", V("n"), Call("sum", [B("-", V("n"), I(1))])))])),
                Func("add", [Arg("int", "n")], "int", Block([ES(A(V("total"), B("+", V("total"), Call("sum", [V("n")])))), ES(A(V("calls"), I(1), "+=")), Ret(V("total"))]), export=True),
                Func("fact", [Arg("int", "n")], "int", Block([If(B("<=", V("n"), I(1)), Block([Ret(I(1))])), Ret(B("*", V("n"), Call("fact", [B("-", V("n"), I(1))])))]), export=True),
                Func("walk", [Arg("int", "n")], "int",
                     Block([Decl("int", "k", V("n")), Decl("int", "a", None, dims=[2]), ES(A(Idx(V("a"), I(1)), B("*", V("n"), I(3)))),
                            If(B(">", V("n"), I(0)), Block([ES(Call("walk", [B("-", V("n"), I(1))])), ES(A(V("total"), B("+", V("total"), B("+", V("k"), Idx(V("a"), I(1))))))])),
                            ES(A(V("calls"), I(1), "+=")), Ret(V("total"))]), export=True)])
    return ("recursion", m)


def vector_global_program():
    """vector-valued globals copied to another global and to locals, then assigned again: a copy keeps the old value"""
    vec = lambda a: Ctor("float4", [a, B("+", a, F("1.0")), B("+", a, F("2.0")), B("+", a, F("3.0"))])
    m = Module([Global("float4", "g"), Global("float4", "h"), Global("float", "acc"),
                Func("setg", [Arg("float", "a")], "float", Block([ES(A(V("g"), vec(V("a")))), Ret(Idx(V("g"), I(0)))]), export=True),
                Func("copy", [], "float", Block([ES(A(V("h"), V("g"))), Ret(Idx(V("h"), I(1)))]), export=True),
                Func("swap", [Arg("float", "a")], "float",
                     Block([Decl("float4", "t", V("g")), ES(A(V("g"), vec(V("a")))), ES(A(V("acc"), B("+", V("acc"), Idx(V("t"), I(0))))), ES(A(V("h"), V("t"))), Ret(Idx(V("t"), I(2)))]), export=True),
                Func("read", [Arg("int", "i")], "float", Block([Ret(B("+", Idx(V("g"), V("i")), B("*", F("10.0"), Idx(V("h"), V("i")))))]), export=True)])
    return ("global-vector", m)


def failing_program():
    """invocations that fail deep inside nested calls (a division by zero at recursion depth n, before any global is written) between
    invocations that succeed: a failed invocation leaves nothing behind"""
    n = V("n")
    deep = Func("deep", [Arg("int", "n"), Arg("int", "z")], "int", Block([If(B("<=", n, I(0)), Block([Ret(B("/", I(10), V("z")))])), Ret(B("+", Call("deep", [B("-", n, I(1)), V("z")]), I(1)))]))
    m = Module([Global("int", "total"), deep,
                Func("boom", [Arg("int", "n")], "int", Block([Ret(Call("deep", [n, I(0)]))]), export=True),
                Func("work", [Arg("int", "n"), Arg("int", "d")], "int", Block([ES(A(V("total"), B("+", V("total"), Call("deep", [n, V("d")])))), Ret(V("total"))]), export=True)])
    return ("failing-invocations", m)


def nested_global_program():
    """helpers that reach a global only through a further call (f -> outer -> inner reads and writes g): the same invocation with the same arguments
    after the global was changed -- by the host or by an earlier invocation -- must see the new value and perform its store again"""
    inner_r = Func("inner_r", [Arg("int", "x")], "int", Block([Ret(B("+", B("*", V("scale"), V("x")), V("bias")))]))
    inner_w = Func("inner_w", [Arg("int", "x")], "int", Block([ES(A(V("bias"), B("+", V("bias"), V("x")))), ES(A(V("count"), I(1), "+=")), Ret(V("bias"))]))
    outer_r = Func("outer_r", [Arg("int", "x")], "int", Block([Decl("int", "t", Call("inner_r", [B("+", V("x"), I(1))])), Ret(B("-", V("t"), I(1)))]))
    outer_w = Func("outer_w", [Arg("int", "x")], "int", Block([Ret(B("+", Call("inner_w", [V("x")]), I(100)))]))
    pure = Func("twice", [Arg("int", "x")], "int", Block([Ret(B("*", V("x"), I(2)))]))
    m = Module([Global("int", "scale"), Global("int", "bias"), Global("int", "count"), inner_r, inner_w, outer_r, outer_w, pure,
                Func("get", [Arg("int", "x")], "int", Block([Ret(B("+", Call("outer_r", [V("x")]), Call("twice", [V("x")])))]), export=True),
                Func("bump", [Arg("int", "x")], "int", Block([Ret(B("+", Call("outer_w", [V("x")]), Call("twice", [V("x")])))]), export=True),
                # the caller itself reads / assigns the global before and after a call that assigns it
                Func("rcr", [Arg("int", "x")], "int", Block([Decl("int", "before", V("bias")), Decl("int", "r", Call("inner_w", [V("x")])), Decl("int", "after", V("bias")),
                                                            Ret(B("+", B("*", V("before"), I(1000000)), B("+", B("*", V("r"), I(1000)), V("after"))))]), export=True),
                Func("acc", [Arg("int", "x")], "int", Block([ES(A(V("bias"), B("+", V("bias"), I(1)))), Decl("int", "r", Call("inner_w", [V("x")])), ES(A(V("bias"), B("+", V("bias"), I(1)))),
                                                            Ret(B("+", V("bias"), B("*", V("r"), I(0))))]), export=True),
                Func("both", [Arg("int", "x")], "int", Block([Decl("int", "a", Call("outer_r", [V("x")])), Decl("int", "b", Call("outer_w", [V("x")])), Ret(B("+", B("*", V("a"), I(1000)), B("+", V("b"), Call("outer_r", [V("x")]))))]), export=True)])
    return ("nested-global-access", m)


def run(ctx):
    ctx.static_obligations(STATIC)
    repo = ctx.sync_repo(1)[0]
    shapes.write(ctx, repo, ["compiler", "pass", "visitor"])
    try:
        from translate import t_vm
        open(os.path.join(ctx.dyn, "Gen_VM.v"), "w").write(t_vm.generate(repo))
        ctx.compile_dyn(["Gen_Shapes", "Gen_VM", "Agree_VM", "Props_C15"])
    except TranslatorAbort as e:
        ctx.broken.append("translator T4 (VM arms) aborted: %s" % e)
        ctx.obligations.append({"name": "T4.translate", "ok": False})
    rng = ctx.rng
    cases = []
    hist_len = (10, 25) if ctx.tier == "quick" else (20, 40)
    for name, m in aggregate_programs():
        for rep in range(2 if ctx.tier == "quick" else 8):
            calls = [{"vm": 0, "fn": "peek", "args": {}, "globals": {"total": 0, "calls": 0}, "read_globals": ["total", "calls"]},
                     {"vm": 1, "fn": "peek", "args": {}, "globals": {"total": 5, "calls": 0}, "read_globals": ["total", "calls"]}]
            for _ in range(rng.randint(*hist_len)):
                vm = rng.choice([0, 0, 1])
                if rng.random() < 0.75:
                    calls.append({"vm": vm, "fn": "record", "args": {"i": rng.choice([0, 1]), "v": rng.choice([1, 2, 3, 7])}, "globals": {}, "read_globals": ["total", "calls"]})
                elif rng.random() < 0.5:
                    calls.append({"vm": vm, "fn": "peek", "args": {}, "globals": {}, "read_globals": ["total"]})
                else:
                    calls.append({"vm": vm, "fn": "peek", "args": {}, "globals": {"total": rng.choice([0, 10, -4])}, "read_globals": ["total", "calls"]})
            cases.append((name, m, calls))
    name, m = global_aggregate_program()
    for rep in range(3 if ctx.tier == "quick" else 12):
        calls = [{"vm": v, "fn": "count", "args": {"i": 0}, "globals": {"hist": [0, 0, 0], "acc": 0.0, "n": 0}, "read_globals": ["hist", "acc", "n"]} for v in (0, 1)]
        for _ in range(rng.randint(*hist_len)):
            vm = rng.choice([0, 1])
            if rng.random() < 0.7:
                calls.append({"vm": vm, "fn": "add", "args": {"i": rng.randrange(3), "w": rng.choice([0.5, 1.0, 2.5])}, "globals": {}, "read_globals": ["hist", "acc", "n"]})
            elif rng.random() < 0.6:
                calls.append({"vm": vm, "fn": "count", "args": {"i": rng.randrange(3)}, "globals": {}, "read_globals": ["n"]})
            else:
                calls.append({"vm": vm, "fn": "count", "args": {"i": 1}, "globals": {"hist": [rng.randrange(5) for _ in range(3)]}, "read_globals": ["hist"]})
        cases.append((name, m, calls))
    name, m = vector_global_program()
    for rep in range(3 if ctx.tier == "quick" else 12):
        calls = [{"vm": v, "fn": "read", "args": {"i": 0}, "globals": {"g": [1.0 + v, 2.0, 3.0, 4.0], "h": [0.0, 0.0, 0.0, 0.5], "acc": 0.0}, "read_globals": ["g", "h", "acc"]} for v in (0, 1)]
        for _ in range(rng.randint(*hist_len)):
            vm = rng.choice([0, 0, 1])
            fnm = rng.choice(["setg", "copy", "swap", "read", "setg"])
            args = {"a": rng.choice([0.5, 2.0, -1.25, 7.0])} if fnm in ("setg", "swap") else ({"i": rng.randrange(4)} if fnm == "read" else {})
            c = {"vm": vm, "fn": fnm, "args": args, "globals": {}, "read_globals": ["g", "h", "acc"]}
            if rng.random() < 0.1:
                c["globals"] = {"g": [rng.choice([0.25, 9.0]) for _ in range(4)]}
            calls.append(c)
        cases.append((name, m, calls))
    name, m = failing_program()
    for rep in range(2 if ctx.tier == "quick" else 8):
        calls = [{"vm": v, "fn": "work", "args": {"n": 2, "d": 5}, "globals": {"total": 0}, "read_globals": ["total"]} for v in (0, 1)]
        for q in range(30 if ctx.tier == "quick" else 60):
            vm = rng.choice([0, 0, 1])
            if rng.random() < 0.6:
                calls.append({"vm": vm, "fn": "boom", "args": {"n": rng.choice([40, 55, 70])}, "globals": {}, "read_globals": [], "expect_fail": "ZeroDivisionError"})
            else:
                calls.append({"vm": vm, "fn": "work", "args": {"n": rng.choice([3, 30, 60]), "d": rng.choice([1, 2, 4])}, "globals": {}, "read_globals": ["total"]})
        calls.append({"vm": 0, "fn": "work", "args": {"n": 60, "d": 4}, "globals": {}, "read_globals": ["total"]})
        calls.append({"vm": 1, "fn": "work", "args": {"n": 60, "d": 4}, "globals": {}, "read_globals": ["total"]})
        cases.append((name, m, calls))
    name, m = nested_global_program()
    for rep in range(3 if ctx.tier == "quick" else 12):
        calls = [{"vm": v, "fn": "get", "args": {"x": 3}, "globals": {"scale": 2 + v, "bias": 1, "count": 0}, "read_globals": ["scale", "bias", "count"]} for v in (0, 1)]
        for _ in range(rng.randint(*hist_len)):
            vm = rng.choice([0, 0, 1])
            c = {"vm": vm, "fn": rng.choice(["get", "get", "bump", "both", "rcr", "acc"]), "args": {"x": rng.choice([3, 3, 3, 1, 4])}, "globals": {}, "read_globals": ["scale", "bias", "count"]}
            if rng.random() < 0.35:
                c["globals"] = {rng.choice(["scale", "bias"]): rng.randrange(-3, 8)}
            calls.append(c)
        cases.append((name, m, calls))
    name, m = recursive_program()
    for rep in range(4 if ctx.tier == "quick" else 16):
        calls = [{"vm": v, "fn": "add", "args": {"n": 0}, "globals": {"total": 0, "calls": 0}, "read_globals": ["total", "calls"]} for v in (0, 1)]
        for _ in range(rng.randint(*hist_len)):
            vm = rng.choice([0, 0, 1])
            fnm = rng.choice(["add", "fact", "walk", "walk"])
            c = {"vm": vm, "fn": fnm, "args": {"n": rng.randrange(0, 6)}, "globals": {}, "read_globals": ["total", "calls"]}
            if rng.random() < 0.15:
                c["globals"] = {"total": rng.choice([0, 10, -4])}
            calls.append(c)
        cases.append((name, m, calls))
    # programs of straight-line functions over two globals: the fragment of the history refinement theorem
    from props import c01
    for (m, cl, text) in c01.straight_programs(ctx, 30 if ctx.tier == "quick" else 600):
        fns = [(it["n"], it["args"]) for it in m["items"] if it["k"] == "func"]
        calls = []
        for vmid in (0, 1):
            fname, params = fns[0]
            calls.append({"vm": vmid, "fn": fname, "args": {a_["n"]: (1 if a_["t"] == "int" else 0.5) for a_ in params}, "globals": {"g0": rng.randrange(-3, 4), "g1": rng.choice([0.5, 1.25])}, "read_globals": ["g0", "g1"]})
        for _ in range(rng.randint(*hist_len)):
            fname, params = rng.choice(fns)
            c = {"vm": rng.choice([0, 0, 1]), "fn": fname, "args": {a_["n"]: (rng.randrange(-6, 9) if a_["t"] == "int" else rng.choice([0.5, -1.25, 3.0, 0.1, 7.5])) for a_ in params},
                 "globals": {}, "read_globals": ["g0", "g1"]}
            if rng.random() < 0.1:
                c["globals"] = {"g0": rng.randrange(-3, 4)}
            calls.append(c)
        cases.append(("straight-line", m, calls))
    # programs of functions with nested conditionals over two globals: the fragment of the history refinement theorem for conditionals
    for (m, cl, text) in c01.conditional_programs(ctx, 20 if ctx.tier == "quick" else 400):
        fname, params = [(it["n"], it["args"]) for it in m["items"] if it["k"] == "func"][0]
        calls = [{"vm": vmid, "fn": fname, "args": {a_["n"]: (1 if a_["t"] == "int" else 0.5) for a_ in params}, "globals": {"g0": rng.randrange(-3, 4), "g1": rng.choice([0.5, 1.25])}, "read_globals": ["g0", "g1"]}
                 for vmid in (0, 1)]
        for _ in range(rng.randint(*hist_len)):
            c = {"vm": rng.choice([0, 0, 1]), "fn": fname, "args": {a_["n"]: (rng.randrange(-6, 9) if a_["t"] == "int" else rng.choice([0.5, -1.25, 3.0, 0.1, 7.5])) for a_ in params},
                 "globals": {}, "read_globals": ["g0", "g1"]}
            if rng.random() < 0.1:
                c["globals"] = {"g0": rng.randrange(-3, 4)}
            calls.append(c)
        cases.append(("conditionals", m, calls))
    for (m, cl, text) in c01.loop_programs(ctx, 20 if ctx.tier == "quick" else 400):
        fname, params = [(it["n"], it["args"]) for it in m["items"] if it["k"] == "func"][0]
        calls = [{"vm": vmid, "fn": fname, "args": {a_["n"]: (1 if a_["t"] == "int" else 0.5) for a_ in params}, "globals": {"g0": rng.randrange(-3, 4), "g1": rng.choice([0.5, 1.25])}, "read_globals": ["g0", "g1"]}
                 for vmid in (0, 1)]
        for _ in range(rng.randint(*hist_len)):
            c = {"vm": rng.choice([0, 0, 1]), "fn": fname, "args": {a_["n"]: (rng.randrange(-6, 9) if a_["t"] == "int" else rng.choice([0.5, -1.25, 3.0, 0.1, 7.5])) for a_ in params},
                 "globals": {}, "read_globals": ["g0", "g1"]}
            if rng.random() < 0.1:
                c["globals"] = {"g0": rng.randrange(-3, 4)}
            calls.append(c)
        cases.append(("loops", m, calls))
    for k in range(40 if ctx.tier == "quick" else 1200):
        g = gentyped.TGen(rng, floats=True, arrays=True, structs=(k % 2 == 0), calls=(k % 3 == 0), max_depth=2)
        m, exported, globs = g.module()
        if not globs:
            continue
        calls = g.calls(exported, globs, rng.randint(*hist_len))
        for c in calls:
            c["vm"] = rng.choice([0, 0, 1])
        # every VM's globals are set by its first operation
        seen = set()
        for c in calls:
            if c["vm"] not in seen:
                seen.add(c["vm"]); c["globals"] = {gname: g.value(t, d) for gname, t, d in globs}
        cases.append(("random", m, calls))
    jobs = []
    for k, (name, m, calls) in enumerate(cases):
        text, _ = nslgen.render(m, "canonical", rng)
        j = vmcases.job(text, calls, optimize=bool(k % 2))
        for jc, c in zip(j["calls"], calls):
            jc["vm"] = c["vm"]
        if name == "failing-invocations":
            j["continue_after_failure"] = True
        jobs.append(j)
    res = ctx.run_impl("compile_impl.py", jobs, nworkers=16)
    blocks, meta, direct_bad = [], [], []
    for k, ((name, m, calls), j, r) in enumerate(zip(cases, jobs, res)):
        if not r["accept"] or "ir" not in r:
            direct_bad.append((name, j["src"], r)); continue
        if name == "failing-invocations":
            # the invocations that must fail are checked here and taken out of the history: they write no global before they fail, so the
            # reference state machine and the VM model see the remaining operations only
            wrong = [(c, x) for c, x in zip(calls, r["calls"]) if c.get("expect_fail") and not ("fail" in x and x["fail"].get("exc") == c["expect_fail"])]
            if wrong or len(r["calls"]) != len(calls):
                direct_bad.append((name, j["src"], {"what": "an invocation that divides by zero deep inside nested calls did not fail with ZeroDivisionError (or the history stopped)",
                                                    "call": wrong[0][0] if wrong else None, "observed": wrong[0][1] if wrong else r["calls"][-1:]})); continue
            keep = [n_ for n_, c in enumerate(calls) if not c.get("expect_fail")]
            calls = [calls[n_] for n_ in keep]
            r = dict(r, calls=[r["calls"][n_] for n_ in keep])
        prog = ircoq.program({"functions": r["ir"]["functions"], "globals": r["ir"]["globals"]})
        obs = []
        for c, x in zip(calls, r["calls"]):
            obs.append(vmcases.coq_obs(x, c.get("read_globals", [])))
            if "fail" in x:
                break
        cs = coq_list(["(%d%%nat, %s)" % (c["vm"], vmcases.coq_call(c)) for c in calls])
        defs = "Definition P_%d : program := %s.\nDefinition M_%d : module := %s.\n" % (k, prog, k, nslgen.coq_module(m))
        expr = "run_case_vms fuel M_%d P_%d %s %s" % (k, k, cs, coq_list(obs))
        if name == "straight-line":
            expr = "(%s + 1000 * hist_case M_%d)" % (expr, k)
        elif name == "conditionals":
            expr = "(%s + 1000 * (100000 + hist_case2 M_%d))" % (expr, k)
        elif name == "loops":
            expr = "(%s + 1000 * (200000 + hist_case3 M_%d))" % (expr, k)
        blocks.append((defs, expr)); meta.append((name, j["src"], calls, r))
    files = vmcases.write_case_files(ctx, "C15", blocks, per=6)
    outs = ctx.eval_cases(files, timeout=900)
    codes = vmcases.collect_codes(ctx, files, outs, len(blocks), per=6)
    hfrag = {"programs": 0, "programs_inside_proved_fragment": 0, "exported_functions": 0, "functions_passing_the_test": 0}
    cfrag = {"programs": 0, "programs_inside_proved_fragment": 0, "exported_functions": 0, "functions_passing_the_test": 0}
    wfrag = {"programs": 0, "programs_inside_proved_fragment": 0, "exported_functions": 0, "functions_passing_the_test": 0}
    for n_, c in enumerate(codes):
        if c is not None and c >= 1000:
            hc = c // 1000
            codes[n_] = c % 1000
            if hc >= 200000:
                hc -= 200000
                wfrag["programs"] += 1; wfrag["programs_inside_proved_fragment"] += 1 if hc >= 10000 else 0
                wfrag["exported_functions"] += (hc % 10000) // 100; wfrag["functions_passing_the_test"] += hc % 100
                continue
            if hc >= 100000:
                hc -= 100000
                cfrag["programs"] += 1; cfrag["programs_inside_proved_fragment"] += 1 if hc >= 10000 else 0
                cfrag["exported_functions"] += (hc % 10000) // 100; cfrag["functions_passing_the_test"] += hc % 100
                continue
            hfrag["programs"] += 1; hfrag["programs_inside_proved_fragment"] += 1 if hc >= 10000 else 0
            hfrag["exported_functions"] += (hc % 10000) // 100; hfrag["functions_passing_the_test"] += hc % 100
    bad_spec = [x for x, c in zip(meta, codes) if c is not None and c & 2]
    bad_model = [x for x, c in zip(meta, codes) if c is not None and c & 1]
    nops = sum(len(c) for _, _, c in cases)
    ctx.cov["evaluations"] = nops
    ctx.cov["distinct_nontrivial"] = len({json.dumps(c[2], sort_keys=True) + c[0] for c in cases})
    ctx.cov["programs"] = len(cases)
    ctx.cov["rule"] = ("histories of %d-%d host operations (SetGlobal of typed values, Invoke of any exported function, GetGlobal of every global) interleaved on two VMs of the same "
                       "linked program: programs with default-initialised locals of every aggregate shape (1-3 dimensional arrays, structs, arrays of structs, structs holding arrays and "
                       "structs) updated in place and accumulated into globals, a program keeping an array and counters in globals, a program of recursive functions that keep an argument, a local and a local array alive across the recursive call, programs of straight-line functions over two globals (the fragment of the history refinement theorem; its decidable hypotheses are tested inside Coq per program), and random programs of the C01 generator; observations "
                       "compared step by step inside Coq with per-VM states of the heap VM model and of the reference state machine. Non-trivial: every history; distinct by content." % hist_len)
    ctx.cov["samples"] = [{"program": n, "history_prefix": c[:4], "impl_prefix": r["calls"][:4]} for n, t, c, r in meta[:2]]
    ctx.extra["input_distribution"] = {"straight_line_programs": hfrag, "conditional_programs": cfrag, "loop_programs": wfrag, "histories": len(cases), "operations": nops, "spec_skipped": sum(1 for c in codes if c is not None and c & 8), "model_skipped": sum(1 for c in codes if c is not None and c & 4)}
    ctx.extra["disagreements_checked"] = len(codes)
    if bad_spec or direct_bad:
        if bad_spec:
            n_, t, c, r = min(bad_spec, key=lambda x: len(x[2]))
            ctx.violation("failing-input", {"what": "a history of host operations does not behave like the reference state machine of the source program (fresh locals per invocation, globals changed only "
                                                    "by executed assignments, VMs independent)", "program": n_, "source": t, "history": c, "observed": r["calls"], "count": len(bad_spec)})
        else:
            n_, t, r = direct_bad[0]
            ctx.violation("failing-input", {"what": "a program of the history corpus was rejected", "program": n_, "source": t, "observed": {k: v for k, v in r.items() if k != "ir"}, "count": len(direct_bad)})
    elif bad_model:
        n_, t, c, r = bad_model[0]
        ctx.broken.append("correspondence (VM model): differs from the implementation on %d history(ies), e.g. [%s]" % (len(bad_model), n_))
