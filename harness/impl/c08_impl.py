"""Implementation side of C08: (1) the shift/reduce decisions of the LALR tables PLY builds from the current grammar,
(2) the tree the real parser builds for a source text."""
import sys, json, io, contextlib, os, re
sys.path.insert(0, os.path.dirname(os.path.abspath(__file__)))
from nsl import parser
import astdump

_parser = None
def get_parser():
    global _parser
    if _parser is None:
        with contextlib.redirect_stdout(io.StringIO()), contextlib.redirect_stderr(io.StringIO()):
            _parser = parser.NslParser()
    return _parser

OPS = ["LOR", "LAND", "EQ", "NE", "LT", "LE", "GT", "GE", "PLUS", "MINUS", "TIMES", "DIVIDE", "MOD"]

def tables():
    p = get_parser().parser
    prods = p.productions
    def text(pr):
        return getattr(pr, "str", None) or str(pr)
    rows, asg, notes = {}, {}, []
    for i, pr in enumerate(prods):
        m = re.fullmatch(r"binary_expression -> expression (\w+) expression", text(pr))
        states = [s for s, acts in p.action.items() if any(a == -i for a in acts.values())]
        if m:
            o1 = m.group(1)
            row = {}
            for la in OPS:
                kinds = set()
                for s in states:
                    a = p.action[s].get(la)
                    kinds.add("E" if a is None else "S" if a > 0 else "R" if a == -i else "X")
                row[la] = kinds.pop() if len(kinds) == 1 else "X"
            rows[o1] = {"row": row, "states": len(states)}
        elif text(pr) == "assignment_expression -> unary_expression assignment_op expression":
            for la in OPS:
                kinds = set()
                for s in states:
                    a = p.action[s].get(la)
                    kinds.add("E" if a is None else "S" if a > 0 else "R")
                asg[la] = kinds.pop() if len(kinds) == 1 else "X"
    shapes = sorted(text(pr) for pr in prods if text(pr).split(" -> ")[0] in ("binary_expression", "expression", "assignment_expression", "assignment_op"))
    return {"rows": rows, "asg": asg, "productions": shapes, "precedence": [list(x) for x in parser.NslParser.precedence]}

def _strip(d):
    if isinstance(d, dict):
        return {k: _strip(v) for k, v in d.items() if k not in ("loc", "locs")}
    if isinstance(d, list):
        return [_strip(x) for x in d]
    return d

def run(job):
    try:
        if job["k"] == "tables":
            return tables()
        if job["k"] == "lex":
            out = io.StringIO()
            lx = get_parser().lexer
            toks = []
            with contextlib.redirect_stdout(out), contextlib.redirect_stderr(out):
                lx.input(job["text"])
                while True:
                    t = lx.token()
                    if t is None:
                        break
                    toks.append([t.type, t.value])
            return {"tokens": toks, "illegal": out.getvalue().count("Illegal character")}
        if job["k"] == "parse":
            out = io.StringIO()
            with contextlib.redirect_stdout(out), contextlib.redirect_stderr(out):
                tree = get_parser().Parse(job["text"])
            m = astdump.module(tree)
            f = [x for x in m["items"] if x["k"] == "func"][0]
            res = {"body": f["body"], "illegal": out.getvalue().count("Illegal character")}
            # tree printer (BinaryExpression.__str__): the printed return expression, parsed again, is the same tree
            try:
                st = tree.GetFunctions()[0].GetBody().GetStatements()[0]
                e0 = st.GetExpression()
                printed = str(e0)
                try:
                    with contextlib.redirect_stdout(out), contextlib.redirect_stderr(out):
                        t2 = get_parser().Parse("function f(int q)->int{ return %s; }" % printed)
                    e2 = t2.GetFunctions()[0].GetBody().GetStatements()[0].GetExpression()
                    res["reprint"] = {"printed": printed, "same": _strip(astdump.expr(e0)) == _strip(astdump.expr(e2))}
                except BaseException as ex:
                    res["reprint"] = {"printed": printed, "same": None, "why": type(ex).__name__}
            except BaseException as ex:
                res["reprint"] = {"printed": None, "same": None, "why": type(ex).__name__}
            return res
    except SystemExit:
        return {"syntax_error": True}
    except BaseException as e:
        return {"error": type(e).__name__ + ": " + str(e)[:200]}
    return {"error": "unknown job"}

jobs = json.load(open(sys.argv[1]))
json.dump([run(j) for j in jobs], open(sys.argv[2], "w"))
