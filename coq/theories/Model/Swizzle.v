(** * Model of the swizzle lowering (LowerToIRVisitor.v_MemberAccessExpression, swizzle branch) and of SHUFFLE:
    a read is a shuffle of the source with itself, a write a shuffle of the old value with the assigned value. *)
From Coq Require Import String Ascii List Arith Bool.
From NSL Require Import Model.VM.
Import ListNotations.

(** swizzleComponentToIndex *)
Definition comp_index (c : ascii) : option nat :=
  if Ascii.eqb c "r" || Ascii.eqb c "x" then Some 0 else if Ascii.eqb c "g" || Ascii.eqb c "y" then Some 1
  else if Ascii.eqb c "b" || Ascii.eqb c "z" then Some 2 else if Ascii.eqb c "a" || Ascii.eqb c "w" then Some 3 else None.
Fixpoint mask_index_list (m : string) : option (list nat) :=
  match m with
  | EmptyString => Some []
  | String c r => match comp_index c, mask_index_list r with Some i, Some l => Some (i :: l) | _, _ => None end
  end.

(** load: indices = [swizzleComponentToIndex[c] for c in mask]; SHUFFLE(value, value, indices) *)
Definition read_indices (ws : list nat) : list nat := ws.

(** store: indices = list(range(n)); for i, c in enumerate(mask): indices[index(c)] = n + i; SHUFFLE(old, new, indices) *)
Fixpoint write_loop (acc : list nat) (n off : nat) (ws : list nat) : list nat :=
  match ws with [] => acc | w :: r => write_loop (list_set acc w (n + off)) n (S off) r end.
Definition write_indices (n : nat) (ws : list nat) : list nat := write_loop (seq 0 n) n 0 ws.

(** VM SHUFFLE: combined = first + second; result = [combined[i] for i in indices] *)
Fixpoint shuffle_list {A} (comb : list A) (idxs : list nat) : option (list A) :=
  match idxs with
  | [] => Some []
  | i :: r => match nth_error comb i, shuffle_list comb r with Some x, Some xs => Some (x :: xs) | _, _ => None end
  end.
