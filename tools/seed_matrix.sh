#!/bin/bash
# usage: tools/seed_matrix.sh [seed ids...]  -- apply each seeded change to /repo, run the check of its property (quick), undo; print one line per seed
cd /verif
for d in ${@:-$(ls seeded)}; do
  P=${d%%-*}
  out=$(tools/try_patch.sh /verif/seeded/$d/patch.diff $P quick 2>&1)
  line=$(echo "$out" | grep "^VIOLATION" | head -1)
  kind="NOT-DETECTED"
  if [ -n "$line" ]; then case "$line" in *no-failing-input-found*) kind="broken-tie-only";; *) kind="failing-input";; esac; fi
  echo "$d $P $kind"
done
