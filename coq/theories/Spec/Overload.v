(** * Specification of overload resolution (C10), from the property text. *)
From Coq Require Import String ZArith List Bool Arith.
From NSL Require Import Base.Types.
Import ListNotations.

Record fdecl := { fd_name : string; fd_params : list ty }.

(** "every argument is convertible to the corresponding parameter": all numeric scalar types convert into each
    other; vectors convert component-wise to vectors of the same size, matrices to matrices of the same shape
    (a one-component vector counts as a scalar); a struct only matches itself. *)
Definition reduce1 (p : pty) : pty := match p with PVec c 1 => PScalar c | _ => p end.

Definition convertible (a p : ty) : bool :=
  match a, p with
  | TPrim x, TPrim y =>
      match reduce1 x, reduce1 y with
      | PScalar _, PScalar _ => true
      | PVec _ n, PVec _ m => Nat.eqb n m
      | PMat _ r k, PMat _ r' k' => Nat.eqb r r' && Nat.eqb k k'
      | _, _ => false
      end
  | TStruct n, TStruct m => String.eqb n m
  | _, _ => false
  end.

(** number of conversions a candidate needs, when it is viable *)
Fixpoint cost (args params : list ty) : option nat :=
  match args, params with
  | [], [] => Some 0
  | a :: args', p :: params' =>
      if convertible a p then
        match cost args' params' with
        | Some c => Some ((if ty_eqb a p then 0 else 1) + c)
        | None => None
        end
      else None
  | _, _ => None        (* "the argument count matches" *)
  end.

Inductive resolution := Found (d : fdecl) | Ambiguous | NoMatch | Unknown.

Definition viable_costs (decls : list fdecl) (name : string) (args : list ty) : list (fdecl * nat) :=
  flat_map (fun d => if String.eqb (fd_name d) name
                     then match cost args (fd_params d) with Some c => [(d, c)] | None => [] end
                     else []) decls.

Definition min_cost (l : list (fdecl * nat)) : nat :=
  match l with [] => 0 | p :: r => fold_left (fun m q => Nat.min m (snd q)) r (snd p) end.

(** "among those candidates the one needing the fewest conversions is chosen ... If no candidate is viable,
    the name is unknown, or the best score is shared, the program is rejected" *)
Definition select_min (l : list (fdecl * nat)) : resolution :=
  match l with
  | [] => NoMatch
  | _ => match filter (fun p => Nat.eqb (snd p) (min_cost l)) l with
         | [p] => Found (fst p)
         | _ => Ambiguous
         end
  end.

Definition spec_resolve (decls : list fdecl) (name : string) (args : list ty) : resolution :=
  if existsb (fun d => String.eqb (fd_name d) name) decls
  then select_min (viable_costs decls name args)
  else Unknown.
