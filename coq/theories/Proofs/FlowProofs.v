(** * C11: the flow check accepts exactly the programs without a misplaced break/continue. *)
From Coq Require Import String ZArith List Bool Arith Lia.
From NSL Require Import Base.Types Base.Syntax Base.SyntaxInd Spec.Flow Model.Flow.
Import ListNotations.

Lemma forallb_map_app_true : forall (l : list (list bool)),
    forallb (existsb (fun x => x)) (map (fun p => p ++ [true]) l) = true.
Proof.
  induction l as [|p l IH]; cbn; [reflexivity|]. rewrite IH, existsb_app. cbn. rewrite orb_true_r. reflexivity.
Qed.

Lemma forallb_map_app_false : forall (l : list (list bool)),
    forallb (existsb (fun x => x)) (map (fun p => p ++ [false]) l) = forallb (existsb (fun x => x)) l.
Proof.
  induction l as [|p l IH]; cbn; [reflexivity|]. rewrite IH, existsb_app. cbn. rewrite orb_false_r. reflexivity.
Qed.

Lemma forallb_flat_map {A B} (f : B -> bool) (g : A -> list B) l :
  forallb f (flat_map g l) = forallb (fun x => forallb f (g x)) l.
Proof. induction l as [|x l IH]; cbn; [reflexivity|]. rewrite forallb_app, IH. reflexivity. Qed.

(** inside a loop nothing is misplaced *)
Lemma flow_ok_pos : forall s d, flow_ok (S d) s = true.
Proof.
  induction s using stmt_ind2; intros d; cbn; try reflexivity.
  - apply forallb_forall. intros x Hx. rewrite Forall_forall in H. apply H. exact Hx.
  - rewrite IHs. destruct f as [f'|]; [|reflexivity]. cbn. apply (H f' eq_refl).
  - apply IHs.
  - destruct b as [b'|]; [|reflexivity]. apply (H b' eq_refl).
  - apply forallb_forall. intros x Hx. rewrite Forall_forall in H. apply H. exact Hx.
Qed.

(** the depth counter at depth 0 computes the path-based specification *)
Theorem flow_ok_spec : forall s, flow_ok 0 s = spec_flow_ok s.
Proof.
  unfold spec_flow_ok. induction s using stmt_ind2; cbn; try reflexivity.
  - rewrite forallb_flat_map. apply forallb_ext_in || idtac.
    induction b as [|x b IHb]; cbn; [reflexivity|]. inversion H; subst. rewrite H2, IHb by assumption. reflexivity.
  - rewrite forallb_map_app_false, forallb_app, IHs. destruct f as [f'|]; cbn; [rewrite (H f' eq_refl)|]; reflexivity.
  - rewrite forallb_map_app_true. apply flow_ok_pos.
  - rewrite forallb_map_app_true. destruct b as [b'|]; [apply flow_ok_pos|reflexivity].
  - rewrite forallb_map_app_true. apply forallb_forall. intros x _. apply flow_ok_pos.
Qed.

(** the executable specification decides [misplaced] *)
Theorem spec_flow_ok_iff : forall s, spec_flow_ok s = true <-> ~ misplaced s.
Proof.
  intros s. rewrite <- flow_ok_spec. induction s using stmt_ind2; cbn; split; intros Hx; try reflexivity;
    try (intro M; inversion M; fail).
  - (* block -> *) intro M. inversion M as [| |b' s Hin Hm| |]; subst.
    rewrite forallb_forall in Hx. rewrite Forall_forall in H. apply (H s Hin); auto.
  - apply forallb_forall. intros x Hin. rewrite Forall_forall in H. apply (H x Hin). intro M. apply Hx. econstructor; eauto.
  - apply andb_prop in Hx as [H1 H2]. intro M. inversion M; subst.
    + apply IHs in H1. contradiction.
    + apply (H _ eq_refl) in H2. contradiction.
  - apply andb_true_intro. split.
    + apply IHs. intro M. apply Hx. constructor. exact M.
    + destruct f as [f'|]; [|reflexivity]. apply (H f' eq_refl). intro M. apply Hx. apply MIfF. exact M.
  - apply flow_ok_pos.
  - destruct b; [apply flow_ok_pos|reflexivity].
  - apply forallb_forall. intros x _. apply flow_ok_pos.
  - discriminate.
  - exfalso. apply Hx. constructor.
  - discriminate.
  - exfalso. apply Hx. constructor.
Qed.

Theorem flow_check_exact : forall s, flow_ok 0 s = true <-> ~ misplaced s.
Proof. intros s. rewrite flow_ok_spec. apply spec_flow_ok_iff. Qed.

Theorem flow_check_exact_module : forall m, flow_ok_module m = true <-> ~ misplaced_in_module m.
Proof.
  intros m. unfold flow_ok_module, misplaced_in_module, misplaced_in_func. split.
  - intros H (f & Hf & s & Hs & M). rewrite forallb_forall in H. specialize (H f Hf). rewrite forallb_forall in H.
    specialize (H s Hs). apply flow_check_exact in H. contradiction.
  - intros H. apply forallb_forall. intros f Hf. apply forallb_forall. intros s Hs. apply flow_check_exact.
    intro M. apply H. exists f. split; [exact Hf|]. exists s. auto.
Qed.
