(** * C03 -- Calls pass arguments by value into isolated frames and reach the chosen overload. *)
From Coq Require Import String ZArith List Bool Arith.
From NSL Require Import Model.PyNum Model.IR Model.VM Model.WfIR Proofs.CallProofs Spec.Overload Model.Overload Proofs.OverloadProofs.
From NSLDyn Require Gen_VM Agree_VM Gen_Shapes.
Import ListNotations.

(** A CALL runs the callee in a fresh activation (its constants as the only registers, no named locals, the evaluated
    arguments) and then continues the caller with the frame it had, changed only at the call's own result -- for
    every program, any nesting depth, direct and mutual recursion (the statement is about every CALL step of every
    execution of the VM model). *)
Theorem C03_call_step : forall fu P F pc fr st i fn args vs G,
    nth_error (flat_code F) pc = Some i -> i_body i = ICall fn args ->
    map_res (fun rv => match rv with VInt r => rget fr (Z.to_nat r) | _ => Unmodelled end) (map (fun r => VInt (Z.of_nat r)) args) = Ok vs ->
    find_func P fn = Some G ->
    run (S fu) P F pc fr st =
    match run fu P G 0 {| regs := init_regs G; vars := []; fargs := vs |} st with
    | Done v st' => run fu P F (S pc) (rset fr (i_ref i) v) st'
    | other => other
    end.
Proof. exact call_frame. Qed.

Theorem C03_call_preserves_caller_frame : forall fr dst v,
    fargs (rset fr dst v) = fargs fr /\ vars (rset fr dst v) = vars fr /\
    (forall r, r <> dst -> rlookup r (regs (rset fr dst v)) = rlookup r (regs fr)).
Proof. exact call_preserves_caller_frame. Qed.

(** the CALL arm in nsl/VM.py on this run writes the activation's value map only (never the argument list) *)
Theorem C03_call_arm_writes : In ("CALL"%string, ["localScope"%string]) Gen_VM.vm_arm_writes.
Proof. rewrite Agree_VM.agree_vm_writes. cbn. tauto. Qed.

(** Invariant behind "modified in the callee => caller unchanged" for vectors and matrices: only STORE_ARRAY and
    STORE_MEMBER update an existing object; every other instruction (VECTOR_SET / MATRIX_SET copy first) leaves all
    existing heap objects as they were. *)
Theorem C03_values_never_mutated_step : forall F pc fr st i pc' fr' st',
    inplace_free i = true -> step F pc fr st i = StNext pc' fr' st' -> grows (hp st) (hp st').
Proof. exact step_keeps_heap. Qed.

Theorem C03_values_never_mutated_run : forall fuel P,
    (forall F, In F (p_funcs P) -> forallb inplace_free (flat_code F) = true) ->
    forall F pc fr st v st', In F (p_funcs P) -> run fuel P F pc fr st = Done v st' -> grows (hp st) (hp st').
Proof. exact run_keeps_heap. Qed.

(** the overload that is called is the one resolution picks (C10), by any declaration order *)
Theorem C03_resolution_is_specified : forall decls name args,
    find_function decls name args = spec_resolve decls name args.
Proof. exact find_function_correct. Qed.

Eval compute in "ASSUMPTIONS C03_call_step"%string. Print Assumptions C03_call_step.
Eval compute in "ASSUMPTIONS C03_values_never_mutated_run"%string. Print Assumptions C03_values_never_mutated_run.
Eval compute in "END"%string.
