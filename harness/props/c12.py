"""C12 -- No two visible variables share a name; references bind lexically."""
import os, json, copy
from common import coq_list, parse_coq_values
import shapes, nslgen
from nslgen import *

STATIC = ["Base/Syntax.v", "Base/SyntaxInd.v", "Spec/Scope.v", "Model/Names.v", "Proofs/ScopeProofs.v", "Proofs/UsesProofs.v"]

HEADER = """From Coq Require Import String ZArith List Bool Arith PrimFloat.
From NSL Require Import Base.Util Base.Types Base.Syntax Spec.Scope Model.Names.
Import ListNotations.
Open Scope Z_scope.
(* implementation outcome: 0 accepted, 1 same-scope redeclaration (typing scope assertion), 3 shadowing redeclaration
   (name validator), 2 unknown name, 9 anything else *)
Definition model_code (m : module) : Z :=
  match names_check m with POk => 0 | PSameScope _ => 1 | PUnknown _ => 2 | PShadow _ => 3 end.
(* the property speaks about accept/reject; code 9 = rejected later by an internal error of lowering *)
Definition spec_ok (m : module) (i : Z) : bool :=
  match decl_module m, use_module m with
  | true, true => i =? 0
  | false, true => (i =? 1) || (i =? 3) || (i =? 9)
  | true, false => (i =? 2) || (i =? 9)
  | false, false => negb (i =? 0)
  end.
(* the names-only model covers the two front-end passes; a rejection raised in lowering (code 9) is compared
   with the specification only *)
Definition chk (m : module) (i : Z) : Z := verdict ((model_code m =? i) || (i =? 9)) (spec_ok m i).
"""


class Gen:
    def __init__(self, rng):
        self.rng = rng
        self.n = 0

    def fresh(self):
        self.n += 1
        return "v%d" % self.n

    def use(self, vis):
        x = self.rng.choice(vis)
        return ES(A(V(x), B("+", V(x), I(1))))

    def stmts(self, depth, vis, slots, allnames):
        """list of statements; records insertion slots (list ref, index, visible names at that point)"""
        r = self.rng
        out = []
        vis = list(vis)
        for _ in range(r.choice([1, 2, 3])):
            slots.append((out, len(out), list(vis), "stmt"))
            c = r.random()
            if depth <= 0 or c < 0.35:
                if r.random() < 0.6:
                    x = self.fresh(); allnames.append(x)
                    out.append(Decl("int", x, B("+", V(r.choice(vis)), I(1)) if r.random() < 0.5 else None)); vis.append(x)
                else:
                    out.append(self.use(vis))
            elif c < 0.5:
                out.append(Block(self.stmts(depth - 1, vis, slots, allnames)))
            elif c < 0.58:
                t = Block(self.stmts(depth - 1, vis, slots, allnames))
                f = Block(self.stmts(depth - 1, vis, slots, allnames)) if r.random() < 0.6 else None
                out.append(If(B("<", V(r.choice(vis)), I(3)), t, f))
            elif c < 0.65:
                # unbraced branches that are declarations: the name lives in the scope of the if, not after it
                x = self.fresh(); allnames.append(x)
                t = Decl("int", x, B("+", V(r.choice(vis)), I(1)) if r.random() < 0.5 else None)
                k = r.random()
                if k < 0.4:
                    f = None
                elif k < 0.7:
                    y = self.fresh(); allnames.append(y)
                    f = Decl("int", y, V(x) if r.random() < 0.5 else None)      # the else branch sees the then branch's name
                else:
                    f = Block(self.stmts(depth - 1, vis + [x], slots, allnames))
                out.append(If(B("<", V(r.choice(vis)), I(3)), t, f))
            elif c < 0.8:
                x = self.fresh(); allnames.append(x)
                body = Block(self.stmts(depth - 1, vis + [x], slots, allnames))
                out.append(For(Decl("int", x, I(0)), B("<", V(x), I(2)), Pre("++", x), body))
            elif c < 0.9:
                out.append(While(B("<", V(r.choice(vis)), I(3)), Block(self.stmts(depth - 1, vis, slots, allnames))))
            else:
                out.append(Do(Block(self.stmts(depth - 1, vis, slots, allnames)), B("<", V(r.choice(vis)), I(3))))
        slots.append((out, len(out), list(vis), "stmt"))
        return out

    def program(self):
        r = self.rng
        self.n = 0
        globs = ["g0"] + (["g1"] if r.random() < 0.5 else [])
        args = ["p0", "p1"][: r.choice([1, 2])]
        slots, allnames = [], []
        body = self.stmts(3, globs + args, slots, allnames)
        body.append(Ret(V(args[0])))
        items = [Global("int", g) for g in globs]
        f1 = Func("f", [Arg("int", a) for a in args], "int", Block(body), export=True)
        items.append(f1)
        if r.random() < 0.3:
            # a second function: its locals and parameters are not visible in the first and vice versa
            items.append(Func("h", [Arg("int", "q0")], "int", Block([Decl("int", "hv", None), Ret(V("q0"))])))
            allnames += ["q0", "hv"]
        return Module(items), slots, globs + args + allnames


def binding_program(rng):
    """run-time binding: a small pool of names is declared again and again in sibling scopes (blocks, branches, loop bodies, loop headers), with and without
    initialiser; every fresh variable is folded into the global g0 right after its declaration and left non-zero afterwards, so a declaration that binds
    to an older variable of the same name (or keeps its value) changes the result"""
    r = rng
    names = ["a", "b", "c", "d", "p0", "p1"]
    def function(fname, params):
        pool = [n for n in names if n not in params]
        def stmts(depth, vis):
            out, vis = [], list(vis)
            for _ in range(r.choice([2, 3])):
                cand = [n for n in pool if n not in vis]
                c = r.random()
                if (depth <= 0 or c < 0.4) and cand:
                    x = r.choice(cand)
                    out.append(Decl("int", x, None if r.random() < 0.55 else B("+", V(r.choice(vis)), I(r.randrange(1, 4))))); vis.append(x)
                    out.append(ES(A(V("g0"), B("%", B("+", B("*", V("g0"), I(7)), V(x)), I(1000003)))))
                    out.append(ES(A(V(x), B("+", V(x), I(r.randrange(1, 9))))))
                elif depth > 0 and c < 0.55:
                    out.append(Block(stmts(depth - 1, vis)))
                elif depth > 0 and c < 0.75:
                    out.append(If(B("<", V(r.choice(vis)), I(r.randrange(1, 6))), Block(stmts(depth - 1, vis)), Block(stmts(depth - 1, vis)) if r.random() < 0.7 else None))
                elif depth > 0 and cand:
                    x = r.choice(cand)
                    out.append(For(Decl("int", x, I(0)), B("<", V(x), I(2)), Pre("++", x), Block(stmts(depth - 1, vis + [x]))))
                else:
                    out.append(ES(A(V("g0"), B("%", B("+", B("*", V("g0"), I(3)), V(r.choice(vis))), I(1000003)))))
            return out
        body = stmts(3, ["g0"] + params)
        body.append(Ret(B("+", V("g0"), B("*", V(params[0]), B("+", V(params[1]), I(2))))))
        return Func(fname, [Arg("int", q) for q in params], "int", Block(body), export=True)
    # several functions: the locals of one are the parameters of another (every function has its own table of names)
    sigs = [("f", ["p0", "p1"])]
    if r.random() < 0.6:
        sigs.append(("h", r.sample(["a", "b", "c", "d"], 2)))
    if r.random() < 0.3:
        sigs.append(("k", r.sample(names, 2)))
    r.shuffle(sigs)
    m = Module([Global("int", "g0")] + [function(n, ps) for n, ps in sigs])
    calls = []
    for k in range(2 if len(sigs) == 1 else 4):
        n, ps = sigs[k % len(sigs)]
        calls.append({"fn": n, "args": {q: r.randrange(0, 6) for q in ps}, "globals": {"g0": r.randrange(0, 5)} if k == 0 else {}, "read_globals": ["g0"]})
    return m, calls


def binding_targets():
    """fixed run-time binding programs (each twice, so that both optimisation settings see it): the last statement of a scope stores to a variable and
    the very next scope declares the name again without initialiser and reads it -- the read must see the new, zero variable"""
    def f(body):
        return Module([Global("int", "g0"), Func("f", [Arg("int", "p0"), Arg("int", "p1")], "int", Block(body), export=True)])
    c0, c1 = B(">", V("p0"), I(0)), B(">", V("p0"), I(1))
    progs = [
        f([Block([Decl("int", "x", I(5))]), Block([Decl("int", "x"), Ret(V("x"))]), Ret(I(-1))]),
        f([Block([Decl("int", "x", V("p1"))]), Block([Decl("int", "x"), ES(A(V("g0"), V("x")))]), Ret(B("+", V("g0"), I(100)))]),
        f([Block([Decl("int", "x"), ES(A(V("x"), B("+", V("p1"), I(7))))]), Block([Decl("int", "x"), ES(A(V("g0"), B("+", V("x"), I(1))))]), Ret(V("g0"))]),
        f([If(c0, Block([Decl("int", "t", I(7))])), If(c1, Block([Decl("int", "t"), Ret(V("t"))])), Ret(I(-1))]),
        f([If(c0, Block([Decl("int", "t", I(7))]), Block([Decl("int", "t", I(8))])), Block([Decl("int", "t"), ES(A(V("g0"), B("+", V("t"), V("p1"))))]), Ret(V("g0"))]),
        f([Decl("int", "s", I(0)), For(Decl("int", "i", I(0)), B("<", V("i"), I(3)), Pre("++", "i"), Block([Decl("int", "t"), ES(A(V("s"), B("+", B("*", V("s"), I(10)), V("t")))), ES(A(V("t"), B("+", V("i"), I(4))))])), Ret(V("s"))]),
        f([Decl("int", "s", I(0)), While(B("<", V("s"), I(2)), Block([Decl("int", "t"), ES(A(V("g0"), B("+", B("*", V("g0"), I(10)), V("t")))), ES(A(V("s"), B("+", V("s"), I(1)))), ES(A(V("t"), I(9)))])), Ret(V("g0"))]),
        f([Block([Decl("float", "w", F("2.5"))]), Block([Decl("float", "w"), ES(A(V("g0"), B(">", V("w"), F("1.0"))))]), Ret(V("g0"))]),
    ]
    calls = [{"fn": "f", "args": {"p0": a_, "p1": b_}, "globals": {"g0": 3} if k == 0 else {}, "read_globals": ["g0"]} for k, (a_, b_) in enumerate(((2, 5), (1, 4), (0, 2)))]
    return [(m, calls) for m in progs for _ in (0, 1)]


def variants(g, rng):
    """one base program and mutated copies: an extra declaration / use at every kind of point with every kind of name"""
    m, slots, names = g.program()
    out = [("base", m)]
    picks = rng.sample(range(len(slots)), min(len(slots), 6))
    for si in picks:
        lst, idx, vis, _ = slots[si]
        candidates = []
        for x in set(vis):
            candidates.append(("visible", x))
        for x in set(names) - set(vis):
            candidates.append(("out-of-scope", x))
        candidates.append(("fresh", "zz_new"))
        rng.shuffle(candidates)
        for kind, x in candidates[:4]:
            for what in ("decl", "use"):
                if what == "use" and kind == "fresh":
                    continue
                # deep copy the module with the insertion
                path_marker = {"k": "MARK"}
                lst.insert(idx, path_marker)
                m2 = copy.deepcopy(m)
                lst.pop(idx)
                new = Decl("int", x, None) if what == "decl" else ES(A(V(x), I(5)))
                def repl(n):
                    if isinstance(n, dict):
                        for k, v in list(n.items()):
                            if isinstance(v, dict) and v.get("k") == "MARK":
                                n[k] = new
                            else:
                                repl(v)
                    elif isinstance(n, list):
                        for i, v in enumerate(n):
                            if isinstance(v, dict) and v.get("k") == "MARK":
                                n[i] = new
                            else:
                                repl(v)
                repl(m2)
                out.append(("%s-%s" % (what, kind), m2))
    return out


def targeted():
    """hand-picked shapes named in the property: unbraced branches, loop headers, parameter/global clashes"""
    f = lambda body, args=("p0",), globs=("g0",): Module([Global("int", g) for g in globs] +
                                                          [Func("f", [Arg("int", a) for a in args], "int", Block(body + [Ret(V(args[0]))]), export=True)])
    c = B("<", V("p0"), I(3))
    return [
        ("if-unbraced-both", f([If(c, Decl("int", "x"), Decl("int", "x"))])),
        ("if-unbraced-then-block", f([If(c, Decl("int", "x"), Block([Decl("int", "x")]))])),
        ("if-braced-both", f([If(c, Block([Decl("int", "x")]), Block([Decl("int", "x")]))])),
        ("for-header-vs-body", f([For(Decl("int", "i", I(0)), B("<", V("i"), I(2)), Pre("++", "i"), Block([Decl("int", "i")]))])),
        ("for-header-reuse-after", f([For(Decl("int", "i", I(0)), B("<", V("i"), I(2)), Pre("++", "i"), Block([])), Decl("int", "i")])),
        ("for-header-use-after", f([For(Decl("int", "i", I(0)), B("<", V("i"), I(2)), Pre("++", "i"), Block([])), ES(A(V("i"), I(1)))])),
        ("param-clash", f([Decl("int", "p0")])),
        ("global-clash", f([Block([Block([Decl("int", "g0")])])])),
        ("param-vs-global", f([], args=("g0",))),
        ("two-params-same", f([], args=("p0", "p0"))),
        ("two-globals-same", f([], globs=("g0", "g0"))),
        ("sibling-blocks", f([Block([Decl("int", "x")]), Block([Decl("int", "x")]), While(c, Block([Decl("int", "x")]))])),
        ("block-use-after", f([Block([Decl("int", "x")]), ES(A(V("x"), I(1)))])),
        ("do-body-vs-cond", f([Do(Block([Decl("int", "x", I(5))]), B("<", V("x"), I(3)))])),
        ("while-unbraced-decl-cond", f([While(B("<", V("x"), I(3)), Decl("int", "x"))])),
        ("own-initialiser", f([Decl("int", "x", B("+", V("x"), I(1)))])),
        ("same-scope", f([Decl("int", "x"), Decl("int", "x")])),
        ("if-unbraced-use-after", f([If(c, Decl("int", "t", I(5))), ES(A(V("p0"), V("t")))])),
        ("if-unbraced-siblings", f([If(c, Decl("int", "t", I(1))), If(c, Decl("int", "t", I(2)))])),
        ("if-unbraced-else-sees-then", f([If(c, Decl("int", "t", I(1)), Decl("int", "u", V("t")))])),
        ("while-unbraced-use-after", f([While(c, Decl("int", "t", I(5))), ES(A(V("p0"), V("t")))])),
        ("for-unbraced-use-after", f([For(Decl("int", "i", I(0)), B("<", V("i"), I(2)), Pre("++", "i"), Decl("int", "t", I(5))), ES(A(V("p0"), V("t")))])),
        # parameters written without a name declare nothing (fix ba9e34c): any number of them, between named ones
        ("unnamed-params-two", f([Decl("int", "x")], args=("p0", None, None))),
        ("unnamed-params-around", f([Decl("int", "x"), Block([Decl("int", "y")])], args=("p0", None, "q", None))),
        ("unnamed-params-clash-still-seen", f([Decl("int", "q")], args=("p0", None, "q", None))),
        ("unnamed-params-named-twice", f([], args=("p0", None, "p0", None))),
        ("nested-shadow", f([Decl("int", "x"), Block([If(c, Block([Decl("int", "x")]))])])),
        # ladders: a branch that is itself an if (else if ...; an unbraced nested if) still sees every enclosing name
        ("else-if-redeclares-local", f([Decl("int", "x", I(1)), If(c, Block([ES(A(V("x"), I(2)))]), If(B(">", V("p0"), I(7)), Block([Decl("int", "x", I(3))]), Block([ES(A(V("x"), I(4)))])))])),
        ("else-if-else-redeclares-param", f([If(c, Block([]), If(B(">", V("p0"), I(7)), Block([]), Block([Decl("int", "p0", I(3))])))])),
        ("else-if-redeclares-global", f([If(c, Block([]), If(B(">", V("p0"), I(7)), Decl("int", "g0", I(3))))])),
        ("else-if-third-link", f([Decl("int", "x", I(1)), If(c, Block([]), If(B(">", V("p0"), I(7)), Block([]), If(B(">", V("p0"), I(9)), Block([Decl("int", "x", I(5))]))))])),
        ("nested-unbraced-if-redeclares", f([Decl("int", "x", I(1)), If(c, If(B(">", V("p0"), I(1)), Decl("int", "x", I(9))))])),
        ("else-if-fresh-names-ok", f([Decl("int", "x", I(1)), If(c, Block([Decl("int", "y", I(2))]), If(B(">", V("p0"), I(7)), Block([Decl("int", "y", I(3))]), Block([Decl("int", "z", I(4))])))])),
    ]


def impl_code(r):
    if r["accept"]:
        return 0
    h = r["how"]
    if h.get("exc") == "AssertionError" and h.get("where") == "RegisterVariable":
        return 1
    if h.get("exc") == "UnknownSymbolException":
        return 2
    if h.get("stage") == "pass-returned-false" or h.get("code") == 2401:
        return 3
    if h.get("stage") == "lower" and h.get("exc") == "KeyError":
        return 9
    return 8


def run(ctx):
    ctx.static_obligations(STATIC)
    repo = ctx.sync_repo(1)[0]
    shapes.write(ctx, repo, ["names", "compiler", "pass", "visitor"])
    ctx.compile_dyn(["Gen_Shapes", "Props_C12"])
    rng = ctx.rng
    g = Gen(rng)
    cases = list(targeted())
    for _ in range(25 if ctx.tier == "quick" else 400):
        cases += variants(g, rng)
    jobs = []
    for k, (kind, m) in enumerate(cases):
        text, _ = nslgen.render(m, ["canonical", "dense"][k % 2], rng)
        jobs.append({"src": text, "opts": {}})
    res = ctx.run_impl("compile_impl.py", jobs, nworkers=16)
    kf = ctx.known_findings()
    lines, meta = [], []
    dist = {}
    for (kind, m), j, r in zip(cases, jobs, res):
        c = impl_code(r)
        key = "%s:%d" % (kind.split("-")[0] if kind.startswith(("decl", "use", "base")) else "targeted", c)
        dist[key] = dist.get(key, 0) + 1
        lines.append("chk %s %d" % (nslgen.coq_module(m), c)); meta.append((kind, j, r, c))
    files, per = [], 150
    for k in range(0, len(lines), per):
        f = os.path.join(ctx.dyn, "cases_C12_%d.v" % (k // per))
        open(f, "w").write(HEADER + "Definition cases : list Z := [\n  " + ";\n  ".join(lines[k:k + per]) + "].\nEval vm_compute in cases.\n")
        files.append(f)
    outs = ctx.eval_cases(files)
    codes = []
    for f in files:
        ok, out, err = outs[f]
        vals = parse_coq_values(out) if ok else []
        if not ok or not vals or not isinstance(vals[0], list):
            ctx.broken.append("correspondence: %s did not evaluate: %s" % (os.path.basename(f), err[-300:]))
            codes.extend([None] * min(per, len(lines) - len(codes)))
        else:
            codes.extend(vals[0])
    bad_model, bad_spec = [], []
    for x, c in zip(meta, codes):
        if c is None:
            continue
        if c & 2:
            hit = None
            for e in kf:
                if e["classifier"] == "c12_while_unbraced_decl_visible_in_condition" and x[0] == "while-unbraced-decl-cond":
                    hit = e
            if hit:
                ctx.report_known(hit)
            else:
                bad_spec.append(x)
        elif c & 1:
            bad_model.append(x)
    # run-time binding: sibling scopes declaring the same names, executed by the real VM, the VM model and the reference semantics
    import vmcases
    rt = binding_targets() + [binding_program(rng) for _ in range(60 if ctx.tier == "quick" else 1500)]
    rjobs = [vmcases.job(nslgen.render(m, "canonical", rng)[0], calls, optimize=bool(k % 2)) for k, (m, calls) in enumerate(rt)]
    rres = ctx.run_impl("compile_impl.py", rjobs, nworkers=16)
    blocks, rmeta, rt_bad = [], [], []
    for k, ((m, calls), j, r) in enumerate(zip(rt, rjobs, rres)):
        if not r["accept"] or "ir" not in r or "calls" not in r:
            rt_bad.append((j, r)); continue
        blocks.append(vmcases.case_block(k, m, r, calls, with_spec=True, with_ir=not j["opts"]["optimize"])); rmeta.append((j, calls, r))
    rfiles = vmcases.write_case_files(ctx, "C12rt", blocks)
    routs = ctx.eval_cases(rfiles, timeout=900)
    rcodes = vmcases.collect_codes(ctx, rfiles, routs, len(blocks))
    rt_spec = [x for x, c in zip(rmeta, rcodes) if c is not None and c & 2]
    rt_model = [x for x, c in zip(rmeta, rcodes) if c is not None and (c & 1 or (c & 16 and not c & 64))]
    dist["runtime-binding:programs"] = len(rt)
    dist["runtime-binding:agree"] = sum(1 for c in rcodes if c == 0)
    dist["runtime-binding:spec-out-of-domain"] = sum(1 for c in rcodes if c is not None and c & 8)
    ctx.cov["evaluations"] = len(jobs) + sum(len(c) for _, c in rt)
    ctx.cov["distinct_nontrivial"] = len({j["src"] for k, j, r, c in meta if k != "base"}) + len({j["src"] for j in rjobs})
    ctx.cov["rule"] = ("random all-int programs (globals, parameters, nested blocks / if-else / for with header variable / while / do, depth 3); at sampled statement positions an "
                       "extra declaration or an extra use is inserted with a name that is visible there, declared only in a closed or sibling scope, or fresh; plus 18 targeted shapes "
                       "(unbraced branches, loop headers, parameter/global clashes, use after scope, own initialiser). Accept / kind of rejection of the real compiler compared inside "
                       "Coq with the model (typing-scope assertion, unknown symbol, name validator) and the flat lexical specification. Non-trivial: a mutated or targeted program. Run-time binding: programs that declare a pool of four names again and again in sibling blocks, branches, loop "
                       "bodies and loop headers (with and without initialiser), fold every fresh variable into a global and leave it non-zero; executed at both optimisation settings by the real VM, the VM model and the "
                       "reference semantics, compared inside Coq.")
    ctx.cov["samples"] = [{"kind": k, "source": j["src"], "impl_code": c} for k, j, r, c in (meta[:2] + meta[30:32])]
    ctx.extra["input_distribution"] = dist
    ctx.extra["disagreements_checked"] = len(codes) + len(rcodes)
    if rt_spec or rt_bad:
        if rt_spec:
            j, calls, r = min(rt_spec, key=lambda x: len(x[0]["src"]))
            ctx.violation("failing-input", {"what": "a name declared again in a sibling scope does not denote a new variable at run time: the VM's result differs from the reference semantics",
                                            "source": j["src"], "options": j["opts"], "calls": calls, "observed": r["calls"], "count": len(rt_spec)})
        else:
            j, r = rt_bad[0]
            ctx.violation("failing-input", {"what": "a program that declares names again in sibling scopes was rejected or could not be run", "source": j["src"],
                                            "observed": {k: v for k, v in r.items() if k != "ir"}, "count": len(rt_bad)})
    elif rt_model:
        j, calls, r = rt_model[0]
        ctx.broken.append("correspondence (run-time binding): VM / lowering model differ from the real compiler on %d program(s), e.g. %s" % (len(rt_model), j["src"][:300]))
    if bad_spec:
        k, j, r, c = min(bad_spec, key=lambda x: len(x[1]["src"]))
        ctx.violation("failing-input", {"what": "accept/reject differs from the lexical visibility rule (0 accept, 1/3 redeclaration, 2 unknown name)", "case_kind": k,
                                        "source": j["src"], "observed": r, "impl_code": c, "count": len(bad_spec)})
    elif bad_model:
        k, j, r, c = bad_model[0]
        ctx.broken.append("correspondence: compiler differs from NSL.Model.Names on %d program(s), e.g. [%s] %s -> %s" % (len(bad_model), k, j["src"][:200], c))
