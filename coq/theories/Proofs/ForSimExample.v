(** Non-vacuity of [loop_function_simulation] for [for] loops: the loop variable is declared in the header (a frame of its own in the reference semantics, a local of the function in the VM), the increment runs after the body. *)
From Coq Require Import String ZArith List Bool PrimFloat.
From NSL Require Import Base.Types Base.Syntax Model.PyNum Model.IR Model.VM Model.Elab Model.Lower Spec.RefSem Proofs.OpsAgree
                        Proofs.LowerExprProofs Proofs.ElabExprProofs Proofs.ReturnExprProofs Proofs.CallAgreeProofs
                        Proofs.LowerStmtProofs Proofs.ElabStmtProofs Proofs.StraightLineProofs Proofs.FlowLowerProofs Proofs.FlowFuncProofs
                        Proofs.FlowElabProofs Proofs.FlowTableProofs Proofs.FlowSimProofs Proofs.LoopLowerProofs Proofs.LoopElabProofs Proofs.LoopSimProofs
                        Harness.FragLib Harness.FragLib2 Harness.FlowLib Harness.FlowLib2 Harness.LoopLib.
Import ListNotations.
Local Open Scope string_scope.

(** int g;
    export function f(int n, float b) -> float {
      float acc = b * 0.5;
      for (int i = 0; i < n; i = i + 1) { acc += i; if (i < g) { g = g - 1; } }
      return acc + g; } *)
Definition fo_body : list stmt :=
  [ SDecl tfloat "acc" (Some (EBin OMul (EVar "b") (EFloat 0.5)));
    SFor (Some (tint, "i", Some (EInt 0))) (Some (EBin OLt (EVar "i") (EVar "n"))) (Some (EAssign AAssign (EVar "i") (EBin OAdd (EVar "i") (EInt 1))))
         (SBlock [ SExpr (EAssign AAddEq (EVar "acc") (EVar "i"));
                   SIf (EBin OLt (EVar "i") (EVar "g")) (SBlock [SExpr (EAssign AAssign (EVar "g") (EBin OSub (EVar "g") (EInt 1)))]) None ]) ].
Definition fo_e : expr := EBin OAdd (EVar "acc") (EVar "g").
Definition fo_fn : func := {| f_name := "f"; f_export := true; f_args := [(tint, "n"); (tfloat, "b")]; f_ret := tfloat; f_body := fo_body ++ [SRet (Some fo_e)] |}.
Definition fo_M : module := {| m_structs := []; m_globals := [(tint, "g")]; m_funcs := [fo_fn] |}.

Example fo_in_fragment : loopsrc_in_fragment fo_M fo_fn = true.
Proof. vm_compute. reflexivity. Qed.

Definition fo_static := Eval vm_compute in straight_static fo_M fo_fn.
Definition fo_F : ifunc := match fo_static with Some (_, _, _, F, _, _) => F | None => {| fn_name := ""; fn_args := []; fn_ret := ITVoid; fn_consts := []; fn_blocks := [] |} end.
Definition fo_tl : list tstmt := match fo_static with Some (_, _, _, _, tl, _) => tl | None => [] end.
Definition fo_te : texpr := match fo_static with Some (_, _, _, _, _, te) => te | None => XInt 0 end.
Definition fo_tf : tfunc := match fo_static with Some (_, _, tf, _, _, _) => tf | None => {| tf_name := ""; tf_args := []; tf_ret := TVoid; tf_body := [] |} end.

Example fo_lits_exact : lits_exact (flat_map tflits (flat_map (wtopexprs flow_depth) fo_tl ++ [fo_te])).
Proof. intros f f' Hf Hf' _. vm_compute in Hf, Hf'. destruct Hf as [<-|[]]; destruct Hf' as [<-|[]]; reflexivity. Qed.

Definition fo_ws : list rval := [RInt 3; RFloat 1%float].
Definition fo_g : RefSem.frame := [("g", SV (RInt 2))].
Definition fo_vs : vmstate := {| globals := [("g", VInt 2)]; hp := [] |}.

Example fo_conclusion : forall P,
  exists v vs', fst (match exec_list fo_M 30 (f_body fo_fn) (call_state fo_fn fo_ws fo_g) with RefSem.ROk p => p | _ => (ONormal, call_state fo_fn fo_ws fo_g) end) = OReturn (SV v) /\
                exists n, forall fuel', n <= fuel' -> run fuel' P fo_F 0 (call_frame fo_ws (init_regs fo_F)) fo_vs = Done (v_of v) vs'.
Proof.
  intros P.
  destruct (exec_list fo_M 30 (f_body fo_fn) (call_state fo_fn fo_ws fo_g)) as [[fl st']| | |] eqn:E; try (vm_compute in E; discriminate).
  assert (Hnan : forall q, In q (flat_map tflits (flat_map (wtopexprs flow_depth) fo_tl ++ [fo_te])) -> PrimFloat.eqb q q = true).
  { apply forallb_forall. vm_compute. reflexivity. }
  destruct (loop_function_simulation fo_M fo_fn flow_depth fo_body fo_e fo_tf fo_F eq_refl eq_refl eq_refl eq_refl eq_refl fo_tl fo_te eq_refl eq_refl eq_refl fo_lits_exact Hnan)
    with (P := P) (ws := fo_ws) (g := fo_g) (vs := fo_vs) (fuel := 30) (fl := fl) (st' := st') as (v & vs' & -> & Hrun & _).
  - repeat constructor; cbn; auto.
  - cbn; repeat split; reflexivity.
  - repeat constructor.
  - intros x Hx Hg. cbn in Hx, Hg. destruct Hg as [Hg|[]]. subst x. destruct Hx as [Hx|[Hx|[]]]; inversion Hx.
  - intros x p H. unfold genvl in H. cbn [fo_M m_globals map find fst snd] in H. destruct (String.eqb_spec "g" x) as [<-|Hne]; [|discriminate]. inversion H; subst p. cbn.
    split; [left; reflexivity|]. exists (RInt 2). repeat split; reflexivity.
  - exact E.
  - exists v, vs'. split; [reflexivity|exact Hrun].
Qed.

(** both sides evaluated: acc = 0.5 + 0 + 1 + 2 = 3.5 (three rounds, the condition evaluated four times), g goes 2 -> 1, result 4.5 *)
Example fo_values :
  (match exec_list fo_M 30 (f_body fo_fn) (call_state fo_fn fo_ws fo_g) with RefSem.ROk (OReturn (SV (RFloat x)), _) => Some x | _ => None end) = Some 4.5%float /\
  run 200 {| p_funcs := [fo_F]; p_globals := ["g"] |} fo_F 0 (call_frame fo_ws (init_regs fo_F)) fo_vs = Done (VFloat 4.5%float) {| globals := [("g", VInt 1)]; hp := [] |}.
Proof. repeat split; vm_compute; reflexivity. Qed.
