(** * Specification for C20: what a line:column range means.
    A text is a list of code points; the only line terminator is LF (10) -- that is what the lexer counts
    and what every consumer of positions means by "line".  Lines and columns are printed 1-based,
    ranges are half-open. *)
From Coq Require Import ZArith List Lia Bool Arith.
Import ListNotations.

Definition NL : Z := 10%Z.
Definition is_nl (c : Z) : bool := Z.eqb c NL.

Definition count_nl (s : list Z) : nat := length (filter is_nl s).

(** the (0-based) line an offset lies on = number of line terminators strictly before it *)
Definition spec_line_of (s : list Z) (off : nat) : nat := count_nl (firstn off s).

(** [is_line_start s i o]: offset [o] is where line [i] begins *)
Definition is_line_start (s : list Z) (i o : nat) : Prop :=
  o <= length s /\ count_nl (firstn o s) = i /\ (o = 0 \/ exists o', o = S o' /\ nth_error s o' = Some NL).

(** executable: offset just after the i-th terminator *)
Fixpoint spec_line_start (s : list Z) (i : nat) : option nat :=
  match i with
  | O => Some 0
  | S i' => match s with
            | [] => None
            | c :: r => if is_nl c then option_map S (spec_line_start r i')
                        else option_map S (spec_line_start r i)
            end
  end.

(** A printed range: 1-based line and column of the first character, and of the position just past the last. *)
Inductive printed := PSingle (l c c' : Z) | PMulti (l c l' c' : Z).

(** reading a printed range back as a pair of offsets *)
Definition decode_printed (s : list Z) (p : printed) : option (nat * nat) :=
  match p with
  | PSingle l c c' =>
      if ((1 <=? l) && (1 <=? c) && (c <=? c'))%Z then
        match spec_line_start s (Z.to_nat (l - 1)) with
        | Some o => Some (o + Z.to_nat (c - 1), o + Z.to_nat (c' - 1))
        | None => None end
      else None
  | PMulti l c l' c' =>
      if ((1 <=? l) && (l <? l') && (1 <=? c) && (1 <=? c'))%Z then
        match spec_line_start s (Z.to_nat (l - 1)), spec_line_start s (Z.to_nat (l' - 1)) with
        | Some o, Some o' => Some (o + Z.to_nat (c - 1), o' + Z.to_nat (c' - 1))
        | _, _ => None end
      else None
  end.

(** the characters a range designates *)
Definition slice (s : list Z) (b e : nat) : list Z := firstn (e - b) (skipn b s).

Definition designates (s : list Z) (p : printed) (chars : list Z) : Prop :=
  exists b e, decode_printed s p = Some (b, e) /\ b <= e <= length s /\ slice s b e = chars.

(** spans and hulls *)
Definition covers (outer inner : Z * Z) : Prop := (fst outer <= fst inner /\ snd inner <= snd outer)%Z.
