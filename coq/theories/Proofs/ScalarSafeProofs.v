(** * C05, scalar fragment: type safety of the VM model.
    In a program whose functions consist of scalar loads/stores, scalar binary operators, casts to scalar types,
    declarations of scalar locals, branches with both targets, calls and value returns -- and end in a return --,
    started on numeric arguments with numeric globals, NO execution at any call depth fails with TypeError,
    AssertionError, an internal compiler error, AttributeError or an unhandled opcode.  (What remains possible is
    exactly what the property allows or what other theorems exclude: ZeroDivisionError, IndexError / KeyError classes
    covered by C14, and the float->int conversion errors of NaN / infinity.) *)
From Coq Require Import String ZArith List Bool Arith Lia PrimFloat.
From NSL Require Import Model.PyNum Model.IR Model.VM Proofs.WfIRProofs.
Import ListNotations.

Definition numeric (v : val) : Prop := match v with VInt _ | VFloat _ => True | _ => False end.
Definition terr (e : errkind) : Prop := e = EType \/ e = EAssert \/ e = EICE \/ e = EAttr \/ e = EUnhandledOpcode.

Definition scalar_ty (t : irty) : bool := match t with ITInt _ | ITFloat => true | _ => false end.
Definition scalar_opc (o : binopc) : bool :=
  match o with BAdd | BSub | BMul | BDiv | BMod | BCmp _ | BLgAnd | BLgOr => true | _ => false end.

Section Fn.
  Variable F : ifunc.
  Definition target_ok (t : option nat) : bool :=
    match t with
    | Some b => match block_offset_last (fn_blocks F) b with Some off => Nat.ltb off (length (flat_code F)) | None => true end
    | None => true
    end.
  Definition scalar_instr (i : instr) : bool :=
    match i_body i with
    | ILoad SGlobal (VName _) | ILoad SArg (VIndex _) | ILoad SLocal (VName _) => true
    | IStore SGlobal (VName _) _ | IStore SArg (VIndex _) _ | IStore SLocal (VName _) _ => true
    | IBin o _ _ => scalar_opc o
    | IBranch (Some _) (Some t) (Some f) => target_ok (Some t) && target_ok (Some f)
    | IBranch None (Some t) _ => target_ok (Some t)
    | IRet (Some _) => true
    | ICall _ _ => true
    | INewVar _ => scalar_ty (i_ty i)
    | ICast _ => scalar_ty (i_ty i)
    | _ => false
    end.
  Definition ends_in_return : bool :=
    match rev (flat_code F) with i :: _ => match i_body i with IRet (Some _) => true | _ => false end | [] => false end.
  Definition fn_safe_b : bool := forallb scalar_instr (flat_code F) && ends_in_return.
End Fn.

Definition numeric_frame (fr : frame) : Prop :=
  (forall r v, rlookup r (regs fr) = Some v -> numeric v) /\ (forall x v, slookup x (vars fr) = Some v -> numeric v) /\ Forall numeric (fargs fr).
Definition numeric_globals (st : vmstate) : Prop := forall x v, slookup x (globals st) = Some v -> numeric v.

Lemma numeric_rset fr r v : numeric_frame fr -> numeric v -> numeric_frame (rset fr r v).
Proof.
  intros (A & B & C) Hv. split; [|split; [exact B|exact C]]. intros r' w H. cbn in H.
  destruct (Nat.eq_dec r' r) as [->|Hne]; [rewrite rlookup_update_same in H; inversion H; subst; exact Hv|].
  rewrite rlookup_update_other in H by exact Hne. eapply A; eauto.
Qed.

Lemma rget_numeric fr r v : numeric_frame fr -> rget fr r = Ok v -> numeric v.
Proof. intros (A & _) H. unfold rget in H. destruct (rlookup r (regs fr)) eqn:E; [|discriminate]. inversion H; subst. eapply A; eauto. Qed.

Lemma slookup_supdate x y w (g : list (string * val)) v : slookup x (supdate y w g) = Some v -> (x = y /\ v = w) \/ slookup x g = Some v.
Proof.
  unfold slookup, supdate. induction g as [|[k u] g IH]; cbn.
  - destruct (String.eqb_spec x y); [intros H; inversion H; left; auto|discriminate].
  - destruct (String.eqb_spec y k) as [->|Hne]; cbn.
    + destruct (String.eqb_spec x k); [intros H; inversion H; left; auto|intros H; right; exact H].
    + destruct (String.eqb_spec x k); [intros H; right; exact H|exact IH].
Qed.

Lemma to_float_cases n : (exists f, to_float n = Ok f) \/ to_float n = Unmodelled.
Proof. destruct n as [z|f]; cbn; [|left; eexists; reflexivity]. unfold float_of_Z. destruct (_ && _); [left; eexists; reflexivity|]. destruct (_ && _); [left; eexists; reflexivity|right; reflexivity]. Qed.

Definition okres (r : res val) : Prop := match r with Ok v => numeric v | Err e => e = EZeroDiv | Unmodelled => True end.
Ltac tf := repeat match goal with |- context [to_float ?a] => destruct (to_float_cases a) as [[? ->]| ->]; cbn [bind] end.
Lemma arith_ok fi ff a b : okres (arith fi ff a b).
Proof. unfold arith. destruct a as [x|x], b as [y|y]; try exact I; tf; exact I. Qed.
Lemma truediv_ok a b : okres (py_truediv a b).
Proof. unfold py_truediv. tf; try exact I. destruct (PrimFloat.eqb _ zero); cbn; [reflexivity|exact I]. Qed.
Lemma intdiv_ok a b : okres (py_intdiv a b).
Proof. unfold py_intdiv. destruct a, b; try exact I. destruct (z0 =? 0)%Z; cbn; [reflexivity|exact I]. Qed.
Lemma mod_ok a b : okres (py_mod a b).
Proof. unfold py_mod. destruct a, b; try exact I. destruct (z0 =? 0)%Z; cbn; [reflexivity|exact I]. Qed.
Lemma cmp_ok c a b : okres (do r <- py_cmp c a b; Ok (b2v r)).
Proof. unfold py_cmp. destruct a as [x|x], b as [y|y]; try exact I; tf; exact I. Qed.

Lemma scalar_op_ok o b x y : numeric x -> numeric y -> okres (scalar_op o b x y).
Proof.
  intros Hx Hy. unfold scalar_op, num2. destruct x as [a|f| |]; try contradiction; destruct y as [c|g| |]; try contradiction; cbn [as_num bind];
    destruct o; try exact I; try apply arith_ok; try apply mod_ok; try apply cmp_ok; try (destruct b; [apply intdiv_ok|apply truediv_ok]); exact I.
Qed.

Lemma binary_op_scalar o t h x y : scalar_opc o = true -> numeric x -> numeric y ->
  match binary_op o t h x y with
  | Ok (h', v) => h' = h /\ numeric v
  | Err e => e = EZeroDiv
  | Unmodelled => True
  end.
Proof.
  intros Ho Hx Hy. destruct o; try discriminate; cbn [binary_op vec_elem_op];
    match goal with |- context [scalar_op ?o ?b x y] => pose proof (scalar_op_ok o b x y Hx Hy) as Hk; destruct (scalar_op o b x y) as [v|e|] end; cbn in *;
    try exact I; try exact Hk; try (split; [reflexivity|exact Hk]).
Qed.

Lemma floor_float_err f e : floor_float f = Err e -> e = EValue \/ e = EOverflow.
Proof.
  unfold floor_float. destruct (negb (PrimFloat.eqb f f)); [intros H; inversion H; auto|].
  destruct (negb (is_finite f)); [intros H; inversion H; auto|]. destruct (PrimFloat.eqb f zero); [discriminate|].
  destruct (frshiftexp (PrimFloat.abs f)). destruct (0 <=? _)%Z; discriminate.
Qed.
Lemma float_of_Z_cases z : (exists f, float_of_Z z = Ok f) \/ float_of_Z z = Unmodelled.
Proof. apply (to_float_cases (NI z)). Qed.
Lemma cast_scalar_numeric t v w : numeric v -> cast_scalar t v = Ok w -> numeric w.
Proof.
  intros Hv H. destruct t; cbn in H; try discriminate; destruct v; try contradiction.
  - inversion H; exact I.
  - destruct (floor_float f); cbn in H; try discriminate. inversion H; exact I.
  - destruct (float_of_Z z); cbn in H; try discriminate. inversion H; exact I.
  - inversion H; exact I.
Qed.
Lemma cast_scalar_err t v e : scalar_ty t = true -> numeric v -> cast_scalar t v = Err e -> ~ terr e.
Proof.
  intros Ht Hv H. destruct t; try discriminate; destruct v; try contradiction; cbn in H; try discriminate.
  - destruct (floor_float f) eqn:E; cbn in H; try discriminate. inversion H; subst. apply floor_float_err in E.
    intros [X|[X|[X|[X|X]]]]; destruct E; subst; discriminate.
  - destruct (float_of_Z_cases z) as [[f E]|E]; rewrite E in H; discriminate.
Qed.

(** one instruction *)
Definition step_ok (F : ifunc) (len : nat) (pc : nat) (i : instr) (r : step_res) (st : vmstate) : Prop :=
  match r with
  | StNext pc' fr' st' => numeric_frame fr' /\ numeric_globals st' /\ ((pc' = S pc /\ forall r0, i_body i <> IRet (Some r0)) \/ pc' < len)
  | StRet v st' => numeric v /\ st' = st
  | StCall fn vs dst => Forall numeric vs
  | StFail e => ~ terr e
  | StUnmodelled => True
  end.

Lemma not_terr_key k : ~ terr (EKey k). Proof. intros [E|[E|[E|[E|E]]]]; discriminate. Qed.
Lemma not_terr_index : ~ terr EIndex. Proof. intros [E|[E|[E|[E|E]]]]; discriminate. Qed.
Lemma not_terr_zd : ~ terr EZeroDiv. Proof. intros [E|[E|[E|[E|E]]]]; discriminate. Qed.

Lemma map_res_rget_numeric fr : numeric_frame fr -> forall (l : list nat) vs,
  map_res (fun rv => match rv with VInt r => rget fr (Z.to_nat r) | _ => Unmodelled end) (map (fun r => VInt (Z.of_nat r)) l) = Ok vs -> Forall numeric vs.
Proof.
  intros Hf. induction l as [|r l IH]; intros vs H; cbn in H; [inversion H; constructor|].
  rewrite Nat2Z.id in H. destruct (rget fr r) as [v|e|] eqn:E; cbn in H; try discriminate.
  destruct (map_res _ _) as [vs'|e|] eqn:E2; cbn in H; try discriminate. inversion H; subst.
  constructor; [eapply rget_numeric; eauto|apply IH; reflexivity].
Qed.
Lemma map_res_rget_err fr : forall (l : list nat) e,
  map_res (fun rv => match rv with VInt r => rget fr (Z.to_nat r) | _ => Unmodelled end) (map (fun r => VInt (Z.of_nat r)) l) = Err e -> ~ terr e.
Proof.
  induction l as [|r l IH]; intros e H; cbn in H; [discriminate|].
  rewrite Nat2Z.id in H. destruct (rget fr r) as [v|e'|] eqn:E; cbn in H; try discriminate.
  - destruct (map_res _ _) as [vs'|e'|] eqn:E2; cbn in H; try discriminate. inversion H; subst. apply IH. reflexivity.
  - inversion H; subst. unfold rget in E. destruct (rlookup r (regs fr)); [discriminate|]. inversion E; subst. apply not_terr_key.
Qed.

Lemma rget_err fr r e : rget fr r = Err e -> ~ terr e.
Proof. unfold rget. destruct (rlookup r (regs fr)); [discriminate|]. intros H; inversion H; subst. apply not_terr_key. Qed.

Lemma step_scalar F pc fr st i : scalar_instr F i = true -> numeric_frame fr -> numeric_globals st ->
  step_ok F (length (flat_code F)) pc i (step F pc fr st i) st.
Proof.
  Ltac nx Eb := left; split; [reflexivity|intros r0; rewrite Eb; discriminate].
  intros Hi Hf Hg. pose proof Hf as (HR & HV & HA). unfold scalar_instr in Hi. unfold step.
  destruct (i_body i) as [sc vn|sc vn src| | | | | | |o a b|pred t f|rv|fn args|name|src| |] eqn:Eb; try discriminate.
  - (* load *) destruct sc, vn as [x|n]; try discriminate.
    + destruct (slookup x (globals st)) as [w|] eqn:E; cbn; [|apply not_terr_key]. split; [apply numeric_rset; [exact Hf|eapply Hg; eauto]|]. split; [exact Hg|nx Eb].
    + destruct (nth_error (fargs fr) n) as [w|] eqn:E; cbn; [|apply not_terr_index]. split; [apply numeric_rset; [exact Hf|]|split; [exact Hg|nx Eb]].
      rewrite Forall_forall in HA. apply HA. eapply nth_error_In; eauto.
    + destruct (slookup x (vars fr)) as [w|] eqn:E; cbn; [|apply not_terr_key]. split; [apply numeric_rset; [exact Hf|eapply HV; eauto]|]. split; [exact Hg|nx Eb].
  - (* store *) destruct (rget fr src) as [w|e|] eqn:Es; cbn [lift]; [|eapply rget_err; eauto|exact I].
    pose proof (rget_numeric fr src w Hf Es) as Hw. pose proof (numeric_rset fr (i_ref i) w Hf Hw) as Hf1.
    destruct sc, vn as [x|n]; try discriminate; cbn [rset fargs regs vars].
    + cbn. split; [exact Hf1|]. split; [|nx Eb]. intros y v Hy. cbn in Hy. apply slookup_supdate in Hy as [[_ ->]|Hy]; [exact Hw|eapply Hg; eauto].
    + destruct (Nat.ltb n (length (fargs fr))) eqn:El; [|apply not_terr_index]. cbn.
      split; [|split; [exact Hg|nx Eb]]. destruct Hf1 as (A1 & B1 & C1). split; [exact A1|]. split; [exact B1|]. cbn.
      clear -C1 Hw. cbn in C1. revert n. induction (fargs fr) as [|y l IH]; intros [|n]; cbn; auto; inversion C1; subst; constructor; auto.
    + cbn. split; [|split; [exact Hg|nx Eb]]. destruct Hf1 as (A1 & B1 & C1). split; [exact A1|]. split; [|exact C1].
      intros y v Hy. cbn in Hy. apply slookup_supdate in Hy as [[_ ->]|Hy]; [exact Hw|eapply B1; eauto].
  - (* binary *) destruct (rget fr a) as [x|e|] eqn:Ea; cbn [lift]; [|eapply rget_err; eauto|exact I].
    destruct (rget fr b) as [y|e|] eqn:Ebb; cbn [lift]; [|eapply rget_err; eauto|exact I].
    pose proof (binary_op_scalar o (i_ty i) (hp st) x y Hi (rget_numeric _ _ _ Hf Ea) (rget_numeric _ _ _ Hf Ebb)) as Hb.
    destruct (binary_op o (i_ty i) (hp st) x y) as [[h' v]|e|]; cbn [lift]; [|subst; apply not_terr_zd|exact I].
    destruct Hb as [-> Hv]. cbn. split; [apply numeric_rset; assumption|]. split; [destruct st; exact Hg|nx Eb].
  - (* branch *) destruct pred as [p|].
    + destruct t as [tb|]; [|discriminate]. destruct f as [fb|]; [|discriminate].
      destruct (rget fr p) as [pv|e|] eqn:Ep; cbn [lift]; [|eapply rget_err; eauto|exact I].
      assert (Ht : exists c, truthy (hp st) pv = Ok c) by (pose proof (rget_numeric _ _ _ Hf Ep); destruct pv; try contradiction; eexists; reflexivity).
      destruct Ht as [c ->]. cbn [lift]. apply andb_prop in Hi as [Ht Hfb]. unfold target_ok in Ht, Hfb.
      destruct c; [destruct (block_offset_last (fn_blocks F) tb)|destruct (block_offset_last (fn_blocks F) fb)]; cbn; try apply not_terr_key;
        (split; [exact Hf|split; [exact Hg|right; apply Nat.ltb_lt; assumption]]).
    + destruct t as [tb|]; [|discriminate]. unfold target_ok in Hi. destruct (block_offset_last (fn_blocks F) tb); cbn; [|apply not_terr_key].
      split; [exact Hf|split; [exact Hg|right; apply Nat.ltb_lt; assumption]].
  - (* return *) destruct rv as [r|]; [|discriminate]. destruct (rget fr r) as [w|e|] eqn:Er; cbn [lift]; [|eapply rget_err; eauto|exact I].
    cbn. split; [eapply rget_numeric; eauto|reflexivity].
  - (* call *) destruct (map_res _ _) as [vs|e|] eqn:Em; cbn [lift]; [|eapply map_res_rget_err; eauto|exact I].
    cbn. eapply map_res_rget_numeric; eauto.
  - (* new variable *) destruct (i_ty i) eqn:Et; try discriminate; cbn.
    + split; [|split; [destruct st; exact Hg|nx Eb]]. apply numeric_rset; [|exact I]. split; [exact HR|]. split; [|exact HA].
      intros y v Hy. cbn in Hy. apply slookup_supdate in Hy as [[_ ->]|Hy]; [exact I|eapply HV; eauto].
    + split; [|split; [destruct st; exact Hg|nx Eb]]. apply numeric_rset; [|exact I]. split; [exact HR|]. split; [|exact HA].
      intros y v Hy. cbn in Hy. apply slookup_supdate in Hy as [[_ ->]|Hy]; [exact I|eapply HV; eauto].
  - (* cast *) destruct (rget fr src) as [w|e|] eqn:Es; cbn [lift]; [|eapply rget_err; eauto|exact I].
    pose proof (rget_numeric _ _ _ Hf Es) as Hw.
    assert (Hp : ty_is_primitive (i_ty i) = true) by (destruct (i_ty i); try discriminate; reflexivity). rewrite Hp. cbn [negb].
    assert (He : (match i_ty i with ITVec e _ | ITMat e _ _ => e | t => t end) = i_ty i) by (destruct (i_ty i); try discriminate; reflexivity). rewrite He.
    assert (Hc : cast_value 4 (i_ty i) (hp st) w = (do x <- cast_scalar (i_ty i) w; Ok (hp st, x))) by (destruct w; try contradiction; reflexivity).
    rewrite Hc. destruct (cast_scalar (i_ty i) w) as [x|e|] eqn:Ec; cbn [bind lift].
    + cbn. split; [apply numeric_rset; [exact Hf|eapply cast_scalar_numeric; eauto]|]. split; [destruct st; exact Hg|nx Eb].
    + eapply cast_scalar_err; eauto.
    + exact I.
Qed.

(** ** whole executions *)
Definition prog_safe (P : program) : Prop := forall fn G, find_func P fn = Some G -> fn_safe_b G = true.
Definition out_ok (o : outcome) : Prop :=
  match o with Done v st' => numeric v /\ numeric_globals st' | Fail e => ~ terr e | OutOfFuel | UnmodelledO => True end.

Lemma last_is_return F pc i : ends_in_return F = true -> nth_error (flat_code F) pc = Some i ->
  (forall r0, i_body i <> IRet (Some r0)) -> S pc < length (flat_code F).
Proof.
  unfold ends_in_return. intros He Hn Hi. assert (Hlt : pc < length (flat_code F)) by (apply nth_error_Some; congruence).
  destruct (rev (flat_code F)) as [|l r] eqn:Er; [discriminate|].
  assert (Hc : flat_code F = rev r ++ [l]) by (rewrite <- (rev_involutive (flat_code F)), Er; reflexivity).
  destruct (Nat.eq_dec (S pc) (length (flat_code F))) as [E|N]; [|lia]. exfalso.
  rewrite Hc in Hn, E. rewrite app_length in E. cbn in E. rewrite nth_error_app2 in Hn by lia.
  replace (pc - length (rev r)) with 0 in Hn by lia. cbn in Hn. inversion Hn; subst.
  destruct (i_body i) as [| | | | | | | | | |[r0|]| | | | |]; try discriminate. eapply Hi; reflexivity.
Qed.

Lemma nonempty_of_return F : ends_in_return F = true -> 0 < length (flat_code F).
Proof. unfold ends_in_return. destruct (flat_code F); [discriminate|cbn; lia]. Qed.

Lemma init_regs_numeric G r v : rlookup r (init_regs G) = Some v -> numeric v.
Proof.
  unfold init_regs. assert (Hg : forall d, (forall r v, rlookup r d = Some v -> numeric v) ->
    forall r v, rlookup r (fold_left (fun d c => rupdate (fst (fst c)) (const_val (snd c)) d) (fn_consts G) d) = Some v -> numeric v).
  { induction (fn_consts G) as [|c l IH]; intros d Hd r0 v0; cbn; [apply Hd|]. apply IH. intros r1 v1 H1.
    destruct (Nat.eq_dec r1 (fst (fst c))) as [->|N]; [rewrite rlookup_update_same in H1; inversion H1; destruct (snd c); exact I|].
    rewrite rlookup_update_other in H1 by exact N. eapply Hd; eauto. }
  apply Hg. intros r0 v0 H0. destruct r0; discriminate.
Qed.

Theorem run_scalar_safe P : prog_safe P -> forall fuel F pc fr st,
  fn_safe_b F = true -> pc < length (flat_code F) -> numeric_frame fr -> numeric_globals st ->
  out_ok (run fuel P F pc fr st).
Proof.
  intros HP. induction fuel as [|fu IH]; intros F pc fr st HF Hpc Hfr Hg; [exact I|]. cbn [run].
  destruct (nth_error (flat_code F) pc) as [i|] eqn:En; [|apply nth_error_None in En; lia].
  apply andb_prop in HF as [Hall Hend].
  assert (Hi : scalar_instr F i = true) by (rewrite forallb_forall in Hall; apply Hall; eapply nth_error_In; eauto).
  pose proof (step_scalar F pc fr st i Hi Hfr Hg) as Hs.
  assert (HFb : fn_safe_b F = true) by (unfold fn_safe_b; rewrite Hall, Hend; reflexivity).
  destruct (step F pc fr st i) as [pc' fr' st'|v st'|fn vs dst|e|] eqn:Es; cbn in Hs.
  - destruct Hs as (A & B & C). apply IH; auto. destruct C as [[-> C]|C]; [eapply last_is_return; eauto|exact C].
  - destruct Hs as [A ->]. split; assumption.
  - destruct (find_func P fn) as [G|] eqn:Eg; [|apply not_terr_key].
    pose proof (HP _ _ Eg) as HG. pose proof HG as HG'. apply andb_prop in HG' as [_ HGe].
    assert (Hcal : out_ok (run fu P G 0 {| regs := init_regs G; vars := []; fargs := vs |} st)).
    { apply IH; auto; [apply nonempty_of_return; exact HGe|]. split; [intros r v; apply init_regs_numeric|split; [intros x v H; discriminate|exact Hs]]. }
    destruct (run fu P G 0 _ st) as [v st'|e| |]; try exact Hcal. destruct Hcal as [Hv Hst'].
    apply IH; auto; [|apply numeric_rset; assumption].
    eapply last_is_return; eauto. intros r0 Hr. unfold step in Es. rewrite Hr in Es. destruct (rget fr r0); discriminate.
  - exact Hs.
  - exact I.
Qed.

(** entry through Invoke: numeric (or defaulted) arguments -- every declared argument supplied *)
Theorem invoke_scalar_safe P fuel fn named st : prog_safe P -> numeric_globals st ->
  (forall F a, find_func P fn = Some F -> In a (fn_args F) -> exists v, slookup (fst a) named = Some v /\ numeric v) ->
  out_ok (invoke fuel P fn named st).
Proof.
  intros HP Hg Hargs. unfold invoke. destruct (find_func P fn) as [F|] eqn:Ef; [|apply not_terr_key].
  pose proof (HP _ _ Ef) as HF. pose proof HF as HF'. apply andb_prop in HF' as [_ He].
  apply run_scalar_safe; auto; [apply nonempty_of_return; exact He|].
  split; [intros r v; apply init_regs_numeric|split; [intros x v H; discriminate|]].
  apply Forall_forall. intros v Hv. apply in_map_iff in Hv as (a & <- & Ha). destruct (Hargs F a eq_refl Ha) as (w & -> & Hw). exact Hw.
Qed.

