"""Shape fingerprints for the small hand-modelled visitors: the normalised source (ast.unparse, docstrings
removed) of a class or function must equal the recorded text, otherwise the translator aborts (fail-closed).
`python t_shape.py --record <repo>` rewrites the recorded texts (done by hand after re-reading the code)."""
import ast, os, sys
from common import TranslatorAbort
from translate.pyx import read_source

HERE = os.path.join(os.path.dirname(os.path.abspath(__file__)), "fingerprints")
TARGETS = {
    "flow": ("nsl/passes/ValidateFlowStatements.py", ["ValidateFlowStatementVisitor", "GetPass"]),
    "names": ("nsl/passes/ValidateVariableNames.py", ["ValidateVariableNamesVisitor", "GetPass"]),
    "swizzle": ("nsl/passes/ValidateSwizzle.py", ["ValidateSwizzleMask", "ValidateSwizzleMaskVisitor", "GetPass"]),
    "bounds": ("nsl/passes/ValidateArrayOutOfBoundsAccess.py", ["ValidateArrayOutOfBoundsAccessVisitor", "GetPass"]),
    "indextype": ("nsl/passes/ValidateArrayAccessType.py", ["ValidateArrayAccessTypeVisitor", "GetPass"]),
    "utility": ("nsl/Utility.py", ["ContainsAnyOf"]),
    "rewriteassign": ("nsl/passes/RewriteAssignEqualOperations.py", ["RewriteAssignEqualVisitor", "GetPass"]),
    "argrewrite": ("nsl/passes/RewriteFunctionArgAccess.py", ["RewriteFunctionArgAccessVisitor", "GetPass"]),
    "optload": ("nsl/passes/OptimizeLoadAfterStore.py", ["OptimizeLoadAfterStoreVisitor", "GetPass"]),
    "optcast": ("nsl/passes/OptimizeConstantCasts.py", ["OptimizeConstantCastVisitor", "GetPass"]),
    "compiler": ("nsl/Compiler.py", ["Compiler"]),
    "pass": ("nsl/Pass.py", ["PassFlags", "Pass", "MakePassFromVisitor"]),
    "visitor": ("nsl/Visitor.py", ["Node", "Visitor", "DefaultVisitor"]),
    "linker": ("nsl/LinearIR.py", ["ModuleLoader", "FilesystemModuleLoader", "MemoryModuleLoader", "Program", "Linker"]),
    "wasm_writer": ("nsl/WebAssembly.py", ["ValueType", "HeapType", "StructType", "FunctionType", "TypeSection", "FunctionSection", "Table", "TableSection", "Memory",
                                           "MemorySection", "Export", "ExportSection", "Local", "Instruction", "Code", "CodeSection", "Module"]),
    "wasm_generator": ("nsl/passes/GenerateWasm.py", ["_MakeStructForArray", "_ConvertType", "_ConvertFunctionType", "_GenerateConstant", "GenerateWasmVisitor", "GetPass"]),
    # methods are addressed as Class.method
    "lower_member": ("nsl/passes/LowerToIR.py", ["LowerToIRVisitor.v_MemberAccessExpression"]),
    "lower_index": ("nsl/passes/LowerToIR.py", ["LowerToIRVisitor.v_ArrayExpression"]),
    "lower_ctor": ("nsl/passes/LowerToIR.py", ["LowerToIRVisitor.v_ConstructPrimitiveExpression"]),
    "lower_binary": ("nsl/passes/LowerToIR.py", ["LowerToIRVisitor.v_BinaryExpression"]),
}


class _Strip(ast.NodeTransformer):
    def _strip(self, node):
        self.generic_visit(node)
        b = node.body
        if b and isinstance(b[0], ast.Expr) and isinstance(b[0].value, ast.Constant) and isinstance(b[0].value.value, str):
            node.body = b[1:] or [ast.Pass()]
        return node
    visit_FunctionDef = visit_ClassDef = _strip


def normalised(repo, key):
    rel, names = TARGETS[key]
    tree, _ = read_source(repo, rel)
    out = []
    for n in names:
        scope = tree.body
        if "." in n:
            cn, n = n.split(".")
            cls = [x for x in tree.body if isinstance(x, ast.ClassDef) and x.name == cn]
            if len(cls) != 1:
                raise TranslatorAbort("%s: class %s not found exactly once" % (rel, cn))
            scope = cls[0].body
        hits = [x for x in scope if isinstance(x, (ast.ClassDef, ast.FunctionDef)) and x.name == n]
        if len(hits) != 1:
            raise TranslatorAbort("%s: %s not found exactly once" % (rel, n))
        out.append(ast.unparse(_Strip().visit(hits[0])))
    return "\n\n".join(out) + "\n"


def check(repo, key):
    got = normalised(repo, key)
    want = open(os.path.join(HERE, key + ".txt")).read()
    if got != want:
        import difflib
        d = [l for l in difflib.unified_diff(want.splitlines(), got.splitlines(), lineterm="", n=0) if not l.startswith(("---", "+++", "@@"))]
        raise TranslatorAbort("%s changed shape: %s" % (TARGETS[key][0], " | ".join(d[:6])))
    return "Definition shape_%s_checked : bool := true.\n" % key


if __name__ == "__main__":
    if sys.argv[1] == "--record":
        for k in (sys.argv[3:] or TARGETS):
            open(os.path.join(HERE, k + ".txt"), "w").write(normalised(sys.argv[2], k))
        print("recorded", sorted(TARGETS))
