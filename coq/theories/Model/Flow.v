(** * Model of nsl/passes/ValidateFlowStatements.py: a loop-depth counter passed down by value; break/continue
    at depth 0 invalidate the module (by raising).  Every other node kind is traversed by the default visitor. *)
From Coq Require Import String ZArith List Bool Arith.
From NSL Require Import Base.Types Base.Syntax.
Import ListNotations.

Fixpoint flow_ok (d : nat) (s : stmt) : bool :=
  match s with
  | SBreak | SContinue => negb (Nat.eqb d 0)
  | SBlock b => forallb (flow_ok d) b
  | SIf _ t f => flow_ok d t && match f with Some f' => flow_ok d f' | None => true end
  | SFor _ _ _ b => flow_ok (S d) b
  | SWhile _ b => match b with Some b' => flow_ok (S d) b' | None => true end
  | SDo b _ => forallb (flow_ok (S d)) b
  | _ => true
  end.

Definition flow_ok_module (m : module) : bool := forallb (fun f => forallb (flow_ok 0) (f_body f)) (m_funcs m).
