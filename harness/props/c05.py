"""C05 -- Accepted programs do not go wrong."""
import os, itertools, json
import shapes, nslgen, genvec, gentyped, vmcases, ircoq
from nslgen import *
from props import c01

STATIC = ["Model/IR.v", "Model/VM.v", "Model/WfIR.v", "Proofs/WfIRProofs.v", "Proofs/ScalarSafeProofs.v"]

SCAL = ["float", "int", "uint"]
VECS = [c + str(n) for c in SCAL for n in (2, 3, 4)]
MATS = ["float3x3", "float4x4"]
TYPES = SCAL + VECS + MATS
OPS = ["||", "&&", "==", "!=", "<", "<=", ">", ">=", "+", "-", "*", "/", "%"]


def value(t, rng, zero_ok=True):
    c = "float" if t.startswith("float") else "int"
    def s():
        if c == "float":
            return rng.choice([0.0, 1.5, -2.25, 4.0, 0.5]) if zero_ok else rng.choice([1.5, -2.25, 4.0, 0.5])
        lo = 0 if t.startswith("uint") else -5
        v = rng.randrange(lo, 9)
        return v if zero_ok or v != 0 else 3
    if t in MATS:
        n = int(t[-1])
        return [[s() for _ in range(n)] for _ in range(n)]
    if t[-1].isdigit():
        return [s() for _ in range(int(t[-1]))]
    return s()


def fn(params, ret, body, name="f", export=True):
    return Func(name, [Arg(t, n) for n, t in params], ret, Block(body), export=export)


def families(rng, quick):
    """(family, module, calls)"""
    out = []
    pairs = list(itertools.product(TYPES, TYPES))
    # F1: every operator on every pair of spellable types; the result is stored, returned and used again
    for o in OPS:
        for l, r in pairs:
            m = Module([fn([("a", l), ("b", r)], l, [Ret(B(o, V("a"), V("b")))])])
            out.append(("binop", m, [{"fn": "f", "args": {"a": value(l, rng), "b": value(r, rng, zero_ok=False)}},
                                     {"fn": "f", "args": {"a": value(l, rng), "b": value(r, rng)}}]))
    # F2: assignments and compound assignments between every pair of types
    for aop in ["=", "+=", "-=", "*=", "/="]:
        for l, r in pairs:
            m = Module([fn([("a", l), ("b", r)], l, [Decl(l, "x", V("a")), ES(A(V("x"), V("b"), aop)), Ret(V("x"))])])
            out.append(("assign", m, [{"fn": "f", "args": {"a": value(l, rng), "b": value(r, rng, zero_ok=False)}}]))
    # F2b: the assigned variable is used afterwards (its last component / its value)
    for l, r in pairs:
        n = int(l[-1]) if l[-1].isdigit() else 0
        use = V("x") if n == 0 else (Idx(Idx(V("x"), I(n - 1)), I(n - 1)) if l in MATS else Idx(V("x"), I(n - 1)))
        m = Module([fn([("a", l), ("b", r)], "float" if l.startswith("float") else "int", [Decl(l, "x", V("a")), ES(A(V("x"), V("b"))), Ret(use)])])
        out.append(("assign-use", m, [{"fn": "f", "args": {"a": value(l, rng), "b": value(r, rng)}}]))
    # F3: declarations with initialiser of another type; return of another type; argument of another type
    for l, r in pairs:
        out.append(("init", Module([fn([("b", r)], l, [Decl(l, "x", V("b")), Ret(V("x"))])]), [{"fn": "f", "args": {"b": value(r, rng)}}]))
        out.append(("return", Module([fn([("b", r)], l, [Ret(V("b"))], name="h", export=False),
                                      fn([("b", r)], l, [Decl(l, "x", Call("h", [V("b")])), Decl(l, "y", B("+", V("x"), V("x"))), Ret(V("y"))])]),
                    [{"fn": "f", "args": {"b": value(r, rng)}}]))
        out.append(("argument", Module([fn([("p", l)], l, [Decl(l, "y", B("+", V("p"), V("p"))), Ret(V("y"))], name="h", export=False),
                                        fn([("b", r)], l, [Ret(Call("h", [V("b")]))])]),
                    [{"fn": "f", "args": {"b": value(r, rng)}}]))
    # F4: constructors with every multiset of argument types up to 4 arguments (arity and shape mismatches included)
    pieces = ["float", "int", "float2", "int2", "float3", "float4"]
    for t in VECS[:6] + MATS:
        combos = [c for n in (1, 2, 3, 4) for c in itertools.product(pieces, repeat=n)]
        if quick:
            combos = rng.sample(combos, 60)
        for combo in combos:
            ps = [("q%d" % i, ty) for i, ty in enumerate(combo)]
            body = [Decl(t, "x", Ctor(t, [V(n) for n, _ in ps]))]
            n = int(t[-1])
            # use every component the declared type promises
            body.append(Ret(Idx(V("x"), I(n - 1)) if t not in MATS else Idx(Idx(V("x"), I(n - 1)), I(n - 1))))
            out.append(("ctor", Module([fn(ps, "float" if t.startswith("float") else "int", body)]),
                        [{"fn": "f", "args": {nm: value(ty, rng) for nm, ty in ps}}]))
    # F4b: every well-formed constructor: compositions of the component count into scalar and vector pieces of either component type
    def compositions(n):
        if n == 0:
            return [[]]
        return [[k] + rest for k in range(1, n + 1) for rest in compositions(n - k)]
    for t in VECS:
        n = int(t[-1])
        for comp_ in compositions(n):
            if comp_ == [n]:
                continue
            for cs in itertools.product(["float", "int"], repeat=len(comp_)) if len(comp_) <= 3 else [tuple(rng.choice(["float", "int"]) for _ in comp_)]:
                ps = [("q%d" % i, (c if k == 1 else "%s%d" % (c, k))) for i, (k, c) in enumerate(zip(comp_, cs))]
                out.append(("ctor-valid", Module([fn(ps, t, [Decl(t, "x", Ctor(t, [V(nm) for nm, _ in ps])), Ret(B("+", V("x"), V("x")))])]),
                            [{"fn": "f", "args": {nm: value(ty, rng) for nm, ty in ps}}]))
    for t in MATS:
        n = int(t[-1])
        for rows in itertools.product(["float%d" % n, "int%d" % n], repeat=n) if n == 3 else [tuple(rng.choice(["float4", "int4"]) for _ in range(4)) for _ in range(4)]:
            ps = [("q%d" % i, ty) for i, ty in enumerate(rows)]
            out.append(("ctor-valid", Module([fn(ps, t, [Decl(t, "x", Ctor(t, [V(nm) for nm, _ in ps])), Ret(B("*", V("x"), V("x")))])]),
                        [{"fn": "f", "args": {nm: value(ty, rng) for nm, ty in ps}}]))
    for t in SCAL:
        for a in SCAL:
            out.append(("ctor-valid", Module([fn([("q", a)], t, [Ret(Ctor(t, [V("q")]))])]), [{"fn": "f", "args": {"q": value(a, rng)}}]))
    # F4c: statement forms in odd places (declarations as unbraced bodies, loop headers, empty bodies) and overloads on aggregates
    from props import c12
    for kind, m in c12.targeted():
        out.append(("stmt-forms", m, [{"fn": "f", "args": {a["n"]: 5 for a in [x for x in m["items"] if x["k"] == "func"][0]["args"]},
                                       "globals": {x["n"]: 1 for x in m["items"] if x["k"] == "global"}}]))
    for et in ("int", "float", "float3"):
        for n in (2, 3):
            m = Module([Func("g", [{"t": et, "n": "a", "dims": [n]}], et, Block([Ret(Idx(V("a"), I(1)))])),
                        Func("g", [{"t": "int" if et != "int" else "float", "n": "a", "dims": [n]}], et, Block([Ret(Idx(V("a"), I(0)))])),
                        Func("g", [Arg(et, "a")], et, Block([Ret(V("a"))])),
                        fn([("p", et)], et, [Decl(et, "arr", None, dims=[n]), ES(A(Idx(V("arr"), I(1)), V("p"))), Ret(B("+", Call("g", [V("arr")]), Call("g", [V("p")])))])])
            out.append(("overload-aggregate", m, [{"fn": "f", "args": {"p": value(et, rng)}}]))
    # F5: element selection chains accepted by C13's rules, as reads and as stores
    for t in TYPES:
        for chain in ([("m", "x")], [("m", "xx")], [("m", "yx")], [("c", 0)], [("c", 1), ("c", 0)], [("c", 1), ("m", "zy")], [("m", "xy"), ("c", 1)], [("m", "xy"), ("m", "y")], [("v", "i")], [("v", "i"), ("v", "i")]):
            e = V("a")
            for k, x in chain:
                e = Mem(e, x) if k == "m" else Idx(e, I(x) if k == "c" else V(x))
            out.append(("select-read", Module([fn([("a", t), ("i", "int")], "float", [Decl(t, "keep", V("a")), Ret(e)])]), [{"fn": "f", "args": {"a": value(t, rng), "i": 1}}]))
            for rt in ("float", "int", "float2", "float3"):
                out.append(("select-store", Module([fn([("a", t), ("i", "int"), ("s", rt)], t, [ES(A(e, V("s"))), Ret(V("a"))])]),
                            [{"fn": "f", "args": {"a": value(t, rng), "i": 1, "s": value(rt, rng)}}]))
    # F5d: a swizzle store whose right-hand side is the target itself (or another name of the same value): v.yx = v; b = a; b.wzyx = a;
    for t in VECS:
        n = int(t[-1])
        for perm in itertools.permutations("xyzw"[:n]):
            sw = "".join(perm)
            out.append(("swizzle-self", Module([fn([("a", t)], t, [ES(A(Mem(V("a"), sw), V("a"))), Ret(V("a"))])]), [{"fn": "f", "args": {"a": value(t, rng)}}]))
            out.append(("swizzle-self", Module([fn([("a", t)], t, [Decl(t, "b", V("a")), ES(A(Mem(V("b"), sw), V("a"))), Ret(B("+", V("a"), V("b")))])]), [{"fn": "f", "args": {"a": value(t, rng)}}]))
        out.append(("swizzle-self", Module([Global(t, "g"), fn([("a", t)], t, [ES(A(Mem(V("g"), "xyzw"[:n][::-1]), V("g"))), Ret(V("g"))])]),
                    [{"fn": "f", "args": {"a": value(t, rng)}, "globals": {"g": value(t, rng)}}]))
        if n > 2:
            out.append(("swizzle-self", Module([fn([("a", t)], t, [ES(A(Mem(V("a"), "xy"), Mem(V("a"), "yx"))), ES(A(Mem(V("a"), "zx"), Mem(V("a"), "xz"))), Ret(V("a"))])]), [{"fn": "f", "args": {"a": value(t, rng)}}]))
    # F5b: index expressions of every scalar type at every position of a chain (only int/uint may pass the front end)
    for it in SCAL:
        for base, dims, chains in (("float", [3, 2], ([("v", "x")], [("v", "x"), ("v", "i")], [("v", "i"), ("v", "x")])),
                                   ("float3x3", [], ([("v", "x")], [("v", "x"), ("v", "i")], [("v", "i"), ("v", "x")])),
                                   ("float3", [2], ([("v", "x"), ("v", "i")], [("v", "i"), ("v", "x")], [("v", "x"), ("m", "yx")]))):
            for chain in chains:
                e = V("a")
                for k, x in chain:
                    e = Mem(e, x) if k == "m" else Idx(e, V(x))
                body = [Decl(base, "a", None, dims=dims), Decl("float", "r", None)]
                out.append(("index-type", Module([fn([("x", it), ("i", "int")], "float", body + [ES(A(e, V("r"))), Ret(V("r"))])]), [{"fn": "f", "args": {"x": value(it, rng) if it != "float" else 1.0, "i": 1}}]))
                out.append(("index-type", Module([fn([("x", it), ("i", "int")], "float", body + [ES(A(V("r"), e) if chain[-1] != ("m", "yx") else A(V("r"), Idx(e, I(0)))), Ret(V("r"))])]),
                            [{"fn": "f", "args": {"x": 1 if it != "float" else 1.0, "i": 1}}]))
        # an index nested inside an index
        out.append(("index-type", Module([fn([("x", it), ("i", "int")], "int", [Decl("int", "t", None, dims=[3]), Decl("int", "u", None, dims=[3]), Ret(Idx(V("t"), Idx(V("u"), V("x"))))])]),
                    [{"fn": "f", "args": {"x": 1 if it != "float" else 1.0, "i": 1}}]))
    # F5c: assignments used as values, through every kind of target
    for t, tgt in (("int", lambda: Idx(V("arr"), I(1))), ("int", lambda: Mem(V("s"), "k")), ("int", lambda: Idx(V("iv"), I(2))), ("int", lambda: Mem(V("iv"), "y")),
                   ("float", lambda: Idx(Idx(V("m"), I(1)), I(2))), ("int", lambda: V("loc"))):
        decls = [Decl("int", "arr", None, dims=[3]), Decl("S", "s", None), Decl("int3", "iv", None), Decl("float3x3", "m", None), Decl("int", "loc", None), Decl(t, "c", None), Decl(t, "d", None)]
        for form in (lambda: A(V("c"), A(tgt(), V("p"))), lambda: A(V("d"), A(V("c"), A(tgt(), V("p")))), lambda: A(tgt(), A(V("c"), V("p"))), lambda: A(V("c"), A(tgt(), V("p"), "+="))):
            out.append(("assign-value", Module([Struct("S", [{"t": "int", "n": "k"}]), fn([("p", t)], t, decls + [ES(form()), Ret(B("+", V("c"), tgt()))])]),
                        [{"fn": "f", "args": {"p": value(t, rng)}}]))
    # F6: arrays and structures of every element type
    for t in TYPES:
        out.append(("aggregate", Module([Struct("S", [{"t": t, "n": "m"}, {"t": "int", "n": "k"}]),
                                         fn([("a", t), ("i", "int")], t, [Decl(t, "arr", None, dims=[3]), Decl("S", "s", None), ES(A(Idx(V("arr"), V("i")), V("a"))),
                                                                          ES(A(Mem(V("s"), "m"), Idx(V("arr"), V("i")))), Decl("S", "s2", V("s")), Decl(t, "arr2", V("arr"), dims=[3]),
                                                                          Ret(B("+", Mem(V("s2"), "m"), Idx(V("arr2"), I(1))))])]),
                    [{"fn": "f", "args": {"a": value(t, rng), "i": 1}}, {"fn": "f", "args": {"a": value(t, rng), "i": 3}}]))
        out.append(("default", Module([fn([("i", "int")], t, [Decl(t, "x", None), Decl(t, "y", B("+", V("x"), V("x"))), Ret(V("y"))])]), [{"fn": "f", "args": {"i": 0}}]))
    # F8: the result of a comparison (an int vector / matrix of the operands' shape) used in arithmetic with the float operand: an implicit cast
    #     of a whole vector or matrix
    for t in TYPES:
        if not t.startswith("float") or t == "float":
            continue
        for cmp_ in ("==", "<", "!="):
            for form in (lambda: B("+", P(B(cmp_, V("a"), V("b"))), V("a")), lambda: B("*", P(B(cmp_, V("a"), V("b"))), F("2.5")), lambda: B("-", V("a"), P(B(cmp_, V("a"), V("b"))))):
                out.append(("comparison-in-arithmetic", Module([fn([("a", t), ("b", t)], t, [Ret(form())])]), [{"fn": "f", "args": {"a": value(t, rng), "b": value(t, rng)}}]))
    # F7: a name of an enclosing scope declared again, with another type, in a nested scope (branch, block, loop body, for-initialiser) and the
    #     outer variable used afterwards: the front end must reject the program (one flat name table per function at run time)
    outer = [("int", [4], lambda: Idx(V("x"), I(0)), "int"), ("float4", None, lambda: Idx(V("x"), I(3)), "float"), ("int", None, lambda: B("+", V("x"), I(1)), "int"),
             ("float3x3", None, lambda: Idx(Idx(V("x"), I(1)), I(1)), "float"), ("float", None, lambda: B("*", V("x"), F("2.0")), "float"), ("int3", None, lambda: Mem(V("x"), "z"), "int")]
    inner = [("int", None, I(5)), ("float", None, F("1.5")), ("float2", None, Ctor("float2", [F("1.0"), F("2.0")])), ("int", [2], None)]
    for (ot, odims, use, rt), (it, idims, init) in itertools.product(outer, inner):
        if (ot, odims) == (it, idims):
            continue
        redecl = Decl(it, "x", init, dims=idims)
        for nest in (lambda d: If(B(">", V("c"), I(0)), Block([d])), lambda d: Block([d]), lambda d: While(B(">", V("c"), I(5)), Block([d, Break()])),
                     lambda d: If(B(">", V("c"), I(0)), Block([ES(A(V("c"), I(1)))]), Block([d]))):
            m = Module([fn([("c", "int")], rt, [Decl(ot, "x", None, dims=odims), nest(redecl), Ret(use())])])
            out.append(("nested-redeclaration", m, [{"fn": "f", "args": {"c": 1}}, {"fn": "f", "args": {"c": 0}}, {"fn": "f", "args": {"c": 7}}]))
    # F9: SIBLING scopes (accepted by the front end) that declare one name with different types, both executed in one invocation, each variable
    #     used in its own scope with an operation of its own type: the later declaration is a new variable of the later type
    uses = {("int", None): lambda: B("+", V("x"), I(1)), ("float", None): lambda: B("*", V("x"), F("2.0")), ("float2", None): lambda: Mem(V("x"), "y"),
            ("int3", None): lambda: Mem(V("x"), "z"), ("float3x3", None): lambda: Idx(Idx(V("x"), I(2)), I(1)), ("int", (3,)): lambda: Idx(V("x"), I(2)),
            ("float4", None): lambda: Idx(V("x"), I(3))}
    res_t = {("int", None): "int", ("float", None): "float", ("float2", None): "float", ("int3", None): "int", ("float3x3", None): "float", ("int", (3,)): "int", ("float4", None): "float"}
    for (t1, d1), (t2, d2) in itertools.permutations(list(uses), 2):
        def scope(t, d, acc):
            return [Decl(t, "x", None, dims=list(d) if d else None), ES(A(V(acc), uses[(t, d)]()))]
        r1, r2 = res_t[(t1, d1)], res_t[(t2, d2)]
        for k, (first, second) in enumerate(((lambda b: Block(b), lambda b: Block(b)),
                                             (lambda b: If(B(">", V("c"), I(0)), Block(b)), lambda b: If(B(">", V("c"), I(1)), Block(b))),
                                             (lambda b: Block(b), lambda b: While(B(">", V("c"), I(0)), Block(b + [ES(A(V("c"), B("-", V("c"), I(1))))]))))):
            m = Module([fn([("c", "int")], "float", [Decl(r1, "u", None), Decl(r2, "w", None), first(scope(t1, d1, "u")), second(scope(t2, d2, "w")),
                                                    Ret(B("+", B("*", V("u"), F("1.0")), V("w")))])])
            out.append(("sibling-redeclaration", m, [{"fn": "f", "args": {"c": 2}}, {"fn": "f", "args": {"c": 1}}, {"fn": "f", "args": {"c": 0}}]))
    return out


ALLOWED = ("ZeroDivisionError", "IndexError")


def _walk(x):
    if isinstance(x, dict):
        yield x
        for v in x.values():
            yield from _walk(v)
    elif isinstance(x, (list, tuple)):
        for v in x:
            yield from _walk(v)


def allowed_failure(m, exc):
    """the run-time errors the property leaves to the program: a division by zero needs a division, an index error a computed index"""
    if exc == "ZeroDivisionError":
        return any(n.get("k") == "bin" and n.get("op") in ("/", "%") or n.get("k") == "assign" and n.get("op") in ("/=", "%=") for n in _walk(m))
    if exc == "IndexError":
        return any(n.get("k") == "idx" and n["i"].get("k") != "int" for n in _walk(m))
    return False


def run(ctx):
    ctx.static_obligations(STATIC)
    repo = ctx.sync_repo(1)[0]
    shapes.write(ctx, repo, ["compiler", "pass", "visitor"])
    ctx.compile_dyn(["Gen_Shapes", "Props_C05"])
    rng = ctx.rng
    quick = ctx.tier == "quick"
    progs = families(rng, quick)
    if quick:
        keep = []
        per = {}
        for p in progs:
            per.setdefault(p[0], []).append(p)
        for k, lst in per.items():
            keep += lst if len(lst) <= 700 else rng.sample(lst, 700)
        progs = keep
    # random programs: the scalar/array/struct/call generator of C01 and the vector generator of C04
    for (m, calls, text) in c01.gen_programs(ctx, 60 if quick else 1500):
        progs.append(("random-core", m, calls[:2]))
    # scalar programs (no arrays, structures, vectors): the fragment of theorem C05_scalar_fragment_safe_partial
    for k in range(60 if quick else 1200):
        tg = gentyped.TGen(rng, floats=(k % 5 != 0), arrays=False, structs=False, calls=(k % 2 == 0), max_depth=2 + k % 2)
        m, exported, globs = tg.module()
        progs.append(("random-scalar", m, tg.calls(exported, globs, 2)))
    g = genvec.VGen(rng)
    for k in range(80 if quick else 2000):
        m, params, globs, ret = g.program()
        progs.append(("random-vector", m, g.calls(params, globs, 2)))
    jobs, meta = [], []
    for k, (fam, m, calls) in enumerate(progs):
        text, _ = nslgen.render(m, "canonical", rng)
        for opt in (False, True):
            jobs.append(vmcases.job(text, calls, optimize=opt)); meta.append((fam, m, calls))
    res = ctx.run_impl("compile_impl.py", jobs, nworkers=16)
    dist, bad = {}, []
    accepted = 0
    for (fam, m, calls), j, r in zip(meta, jobs, res):
        key = fam
        if not r["accept"]:
            st = r["how"].get("stage")
            diagnostic = r["how"].get("exc") == "CompileException" and r["how"].get("code") not in (None, 1001)    # 1001 = internal compiler error
            if (st in ("lower", "opt", "other", "wasm", "compile") and not (diagnostic and st == "other")) or r["how"].get("exc") == "Timeout":
                # the front end let the program through (or something other than a diagnostic stopped it)
                bad.append((fam, j, {"stage": "compile", "how": r["how"]}))
                key += ":crash-after-front-end"
            else:
                key += ":rejected"
        else:
            accepted += 1
            if "link_error" in r:
                bad.append((fam, j, {"stage": "link", "how": r["link_error"]}))
            for c, spec in zip(r.get("calls", []), j["calls"]):
                if "fail" in c and c["fail"]["exc"] in ("Timeout", "RecursionError"):     # unbounded loop / recursion of the NSL program itself
                    key += ":no-result-within-time-limit"      # a loop that does not terminate is not an internal error
                    break
                if "fail" in c and not allowed_failure(m, c["fail"]["exc"]):
                    bad.append((fam, j, {"stage": "run", "how": c["fail"], "call": spec}))
                    key += ":run-failure"
                    break
            else:
                key += ":ok"
        dist[key] = dist.get(key, 0) + 1
    # the proved fragment: membership is decided inside Coq on the real compiler's IR; an in-fragment program that the real VM fails
    # with one of the excluded error classes contradicts the theorem's transfer to the VM (model/VM correspondence)
    from common import parse_coq_values
    frag = [(j, r) for (fam, m, calls), j, r in zip(meta, jobs, res) if fam == "random-scalar" and r["accept"] and "ir" in r]
    in_fragment = 0
    per = 40
    files = []
    for i in range(0, len(frag), per):
        f = os.path.join(ctx.dyn, "cases_C05_%d.v" % (i // per))
        chunk = frag[i:i + per]
        defs = "".join("Definition P_%d : program := %s.\n" % (i + n, ircoq.program({"functions": r["ir"]["functions"], "globals": r["ir"]["globals"]})) for n, (j, r) in enumerate(chunk))
        open(f, "w").write(vmcases.HEADER + "From NSL Require Import Proofs.ScalarSafeProofs.\n" + defs + "Definition cases : list Z := [\n  " +
                           ";\n  ".join("(if forallb fn_safe_b (p_funcs P_%d) then 1 else 0)" % (i + n) for n in range(len(chunk))) + "].\nEval vm_compute in cases.\n")
        files.append(f)
    outs = ctx.eval_cases(files, timeout=900) if files else {}
    flags = []
    for f in files:
        ok, out, err = outs[f]
        vals = parse_coq_values(out) if ok else []
        if not ok or not vals or not isinstance(vals[0], list):
            ctx.broken.append("fragment membership: %s did not evaluate: %s" % (os.path.basename(f), err[-300:]))
            flags.extend([None] * min(per, len(frag) - len(flags)))
        else:
            flags.extend(vals[0])
    EXCLUDED = ("TypeError", "AssertionError", "CompileException", "AttributeError")
    for (j, r), fl in zip(frag, flags):
        if fl == 1:
            in_fragment += 1
            for c in r.get("calls", []):
                if "fail" in c and c["fail"]["exc"] in EXCLUDED:
                    ctx.broken.append("theorem C05_scalar_fragment_safe_partial does not transfer: the real VM raised %s on an IR program inside the proved fragment: %s" % (c["fail"]["exc"], j["src"][:300]))
    dist["proved-fragment:programs-inside"] = in_fragment
    dist["proved-fragment:scalar-programs-compiled"] = len(frag)
    # known findings are matched by classifier on (family, stage, exception, raising function)
    kf = ctx.known_findings()
    new = []
    for fam, j, what in bad:
        sig = (what["stage"], what["how"].get("exc"), what["how"].get("where"))
        hit = None
        for e in kf:
            cl = CLASSIFIERS.get(e["classifier"])
            if cl and cl(fam, j, what):
                hit = e; break
        if hit:
            ctx.report_known(hit)
        else:
            new.append((fam, j, what))
    ctx.cov["evaluations"] = len(jobs)
    ctx.cov["distinct_nontrivial"] = accepted
    ctx.cov["programs"] = len(progs)
    ctx.cov["rule"] = ("families over all 14 spellable primitive types (float/int/uint scalars, their 2-4 vectors, float3x3, float4x4): every operator on every ordered pair of types; "
                       "= += -= *= /= between every pair, also followed by a read of the last component of the target; initialisers, returned expressions and call arguments of every other type; constructors with every tuple of up to 4 argument "
                       "types (arity and shape mismatches included) followed by a use of the last component; element-selection chains as reads and stores; swizzle stores whose right-hand side is the target itself under every permutation; arrays and structures of every "
                       "element type with whole-aggregate copies; default instances; plus random programs of the C01 generator (statements, loops, calls, recursion, arrays, structs, "
                       "globals) and of the C04 generator (vectors/matrices), and scalar-only programs whose real IR is tested inside Coq for membership in the fragment of the type-safety theorem. Each compiled at both optimisation settings; if the front end lets it through, it is linked and run on inputs of "
                       "the declared types. Non-trivial = accepted by the compiler. A failure is anything after the AST passes other than ZeroDivisionError in a program that divides / IndexError in a program with a computed index.")
    ctx.cov["samples"] = [{"family": f, "source": j["src"][:300]} for (f, m, c), j in list(zip(meta, jobs))[:: max(1, len(jobs) // 5)][:5]]
    ctx.extra["input_distribution"] = dict(sorted(dist.items()))
    ctx.extra["disagreements_checked"] = len(jobs)
    if new:
        fam, j, what = min(new, key=lambda x: len(x[1]["src"]))
        ctx.extra["all_new_failures"] = sorted({j["src"].replace("\n", " ")[-150:] + " => " + str(w["how"].get("msg"))[:80] for f, j, w in new})[:60]
        ctx.violation("failing-input", {"what": "a program the front end accepted failed with an internal error", "family": fam, "source": j["src"], "options": j["opts"],
                                        "failure": what, "count": len(new),
                                        "signatures": sorted({"%s/%s/%s/%s" % (f, w["stage"], w["how"].get("exc"), w["how"].get("where")) for f, _, w in new})[:40],
                                        "examples": {sig: min((j["src"] for f, j, w in new if "%s/%s/%s/%s" % (f, w["stage"], w["how"].get("exc"), w["how"].get("where")) == sig), key=len)
                                                     for sig in sorted({"%s/%s/%s/%s" % (f, w["stage"], w["how"].get("exc"), w["how"].get("where")) for f, _, w in new})[:40]}})


def _return_shape_mismatch(fam, job, what):
    """KF-02: the 'return' family (a helper returns its parameter of type R from a function declared L != R) failing at run time
    with TypeError in the VM"""
    return fam == "return" and what["stage"] == "run" and what["how"].get("exc") in ("TypeError", "IndexError") and what["how"].get("where") == "__Execute"


def _assign_shape_mismatch(fam, job, what):
    """KF-04: the 'assign-use' family (x of type L assigned a value of another shape, then a component of x read) failing at run time in the VM"""
    return fam == "assign-use" and what["stage"] == "run" and what["how"].get("exc") in ("TypeError", "IndexError") and what["how"].get("where") in ("__Execute", "__GetItem", "_GetItem")


CLASSIFIERS = {"c05_return_shape_mismatch": _return_shape_mismatch, "c05_assign_shape_mismatch": _assign_shape_mismatch}
