(** * C13: typing + validators accept exactly the chains the specification accepts, with the same result type
    -- for all array shapes, vector sizes, matrix shapes, all integer constants, all masks. *)
From Coq Require Import String Ascii ZArith List Bool Arith Lia.
From NSL Require Import Base.Types Spec.Select Model.Validate.
Import ListNotations.

Lemma pos_disjoint c p : xyzw_pos c = Some p -> rgba_pos c = None.
Proof.
  unfold xyzw_pos, rgba_pos.
  destruct (Ascii.eqb_spec c "x"); [subst; reflexivity|].
  destruct (Ascii.eqb_spec c "y"); [subst; reflexivity|].
  destruct (Ascii.eqb_spec c "z"); [subst; reflexivity|].
  destruct (Ascii.eqb_spec c "w"); [subst; reflexivity|]. discriminate.
Qed.

Lemma xyzw_lt4 c p : xyzw_pos c = Some p -> p < 4.
Proof. unfold xyzw_pos. repeat destruct (Ascii.eqb _ _); intros H; inversion H; lia. Qed.
Lemma rgba_lt4 c p : rgba_pos c = Some p -> p < 4.
Proof. unfold rgba_pos. repeat destruct (Ascii.eqb _ _); intros H; inversion H; lia. Qed.
Lemma mod4_plus p : p < 4 -> (4 + p) mod 4 = p.
Proof. intros H. do 4 (destruct p as [|p]; [reflexivity|]). lia. Qed.

Lemma existsb_false {A} (f : A -> bool) l : existsb f l = false <-> forall x, In x l -> f x = false.
Proof.
  split.
  - intros H x Hin. destruct (f x) eqn:E; [|reflexivity].
    assert (existsb f l = true) by (apply existsb_exists; eauto). congruence.
  - intros H. apply not_true_is_false. intros Ht. apply existsb_exists in Ht as (x & Hin & Hx). rewrite (H x Hin) in Hx. discriminate.
Qed.

Definition validate_list (m : list ascii) (count : nat) : bool :=
  if existsb (fun c => match letter_index c with None => true | Some _ => false end) m then false
  else if existsb (fun c => match letter_index c with Some i => Nat.leb count (Nat.modulo i 4) | None => false end) m then false
  else if contains_any m xyzw_pos && contains_any m rgba_pos then false
  else true.

Lemma validate_list_ok m n : validate_list m n = (all_in xyzw_pos n m || all_in rgba_pos n m).
Proof.
  apply eq_iff_eq_true. split.
  - unfold validate_list. intros H.
    destruct (existsb _ m) eqn:E1 in H; [discriminate|].
    destruct (existsb _ m) eqn:E2 in H; [discriminate|].
    destruct (contains_any m xyzw_pos && contains_any m rgba_pos) eqn:E3; [discriminate|]. clear H.
    rewrite existsb_false in E1, E2. apply orb_true_iff.
    apply andb_false_iff in E3 as [E3|E3]; unfold contains_any in E3; rewrite existsb_false in E3.
    + right. unfold all_in. apply forallb_forall. intros c Hin.
      specialize (E1 c Hin). specialize (E2 c Hin). specialize (E3 c Hin). unfold letter_index in *.
      destruct (xyzw_pos c); [discriminate|]. destruct (rgba_pos c) as [p|] eqn:Er; [|discriminate].
      rewrite (mod4_plus p (rgba_lt4 c p Er)) in E2. apply Nat.ltb_lt. apply Nat.leb_gt. exact E2.
    + left. unfold all_in. apply forallb_forall. intros c Hin.
      specialize (E1 c Hin). specialize (E2 c Hin). specialize (E3 c Hin). unfold letter_index in *.
      destruct (xyzw_pos c) as [p|] eqn:Ex.
      * rewrite Nat.mod_small in E2 by (eapply xyzw_lt4; eauto). apply Nat.ltb_lt. apply Nat.leb_gt. exact E2.
      * destruct (rgba_pos c); discriminate.
  - intros H. apply orb_true_iff in H as [H|H]; unfold all_in in H; rewrite forallb_forall in H; unfold validate_list.
    + assert (E1 : existsb (fun c => match letter_index c with None => true | Some _ => false end) m = false).
      { apply existsb_false. intros c Hin. specialize (H c Hin). unfold letter_index. destruct (xyzw_pos c); [reflexivity|discriminate]. }
      assert (E2 : existsb (fun c => match letter_index c with Some i => Nat.leb n (i mod 4) | None => false end) m = false).
      { apply existsb_false. intros c Hin. specialize (H c Hin). unfold letter_index. destruct (xyzw_pos c) as [p|] eqn:Ex; [|discriminate].
        rewrite Nat.mod_small by (eapply xyzw_lt4; eauto). apply Nat.leb_gt. apply Nat.ltb_lt. exact H. }
      assert (E3 : contains_any m rgba_pos = false).
      { apply existsb_false. intros c Hin. specialize (H c Hin). destruct (xyzw_pos c) as [p|] eqn:Ex; [|discriminate]. rewrite (pos_disjoint c p Ex). reflexivity. }
      rewrite E1, E2, E3, andb_false_r. reflexivity.
    + assert (Hr : forall c, In c m -> exists p, rgba_pos c = Some p /\ p < n /\ xyzw_pos c = None).
      { intros c Hin. specialize (H c Hin). destruct (rgba_pos c) as [p|] eqn:Er; [|discriminate]. exists p. split; [reflexivity|]. split; [apply Nat.ltb_lt; exact H|].
        destruct (xyzw_pos c) as [q|] eqn:Ex; [|reflexivity]. rewrite (pos_disjoint c q Ex) in Er. discriminate. }
      assert (E1 : existsb (fun c => match letter_index c with None => true | Some _ => false end) m = false).
      { apply existsb_false. intros c Hin. destruct (Hr c Hin) as (p & Hp & _ & Hx). unfold letter_index. rewrite Hx, Hp. reflexivity. }
      assert (E2 : existsb (fun c => match letter_index c with Some i => Nat.leb n (i mod 4) | None => false end) m = false).
      { apply existsb_false. intros c Hin. destruct (Hr c Hin) as (p & Hp & Hlt & Hx). unfold letter_index. rewrite Hx, Hp.
        rewrite (mod4_plus p (rgba_lt4 c p Hp)). apply Nat.leb_gt. exact Hlt. }
      assert (E3 : contains_any m xyzw_pos = false).
      { apply existsb_false. intros c Hin. destruct (Hr c Hin) as (p & _ & _ & Hx). rewrite Hx. reflexivity. }
      rewrite E1, E2, E3. reflexivity.
Qed.

(** the mask validator is the specified mask rule, for every mask and component count *)
Theorem validate_mask_ok : forall m n, validate_mask m n = mask_ok n m.
Proof. intros m n. unfold validate_mask, mask_ok. apply validate_list_ok. Qed.

(** typing of an index step agrees with the specified dimension/element *)
Lemma typed_index_spec t :
  match index_dim t with
  | Some (d, e) => typed_index t = Some e /\ exists ds, get_size t = Some (d :: ds)
  | None => typed_index t = None
  end.
Proof.
  destruct t as [p|s|e ds|]; cbn; try reflexivity.
  - destruct p as [c|c n|c r k]; cbn; eauto.
  - destruct ds as [|d [|d2 ds]]; cbn; eauto.
Qed.

(** nested induction principle for access steps *)
Section StepInd.
  Variable P : sel_step -> Prop.
  Hypothesis Hc : forall k, P (IdxConst k).
  Hypothesis He : forall t, P (IdxExpr t).
  Hypothesis Hs : forall b c, Forall P c -> P (IdxSel b c).
  Hypothesis Hm : forall m, P (Swizzle m).
  Fixpoint sel_step_ind' (s : sel_step) : P s :=
    match s with
    | IdxConst k => Hc k
    | IdxExpr t => He t
    | IdxSel b c => Hs b c ((fix go (c : list sel_step) : Forall P c :=
                              match c with [] => Forall_nil P | x :: r => Forall_cons x (sel_step_ind' x) (go r) end) c)
    | Swizzle m => Hm m
    end.
End StepInd.

Definition ok3_step t s := pass_step PIndexType t s && pass_step PBounds t s && pass_step PSwizzle t s.
Definition ok3_chain t c := pass_chain PIndexType t c && pass_chain PBounds t c && pass_chain PSwizzle t c.

Definition step_law (s : sel_step) : Prop := forall t,
  spec_step t s = match type_step t s with Some e => if ok3_step t s then Some e else None | None => None end.
Definition chain_law (c : list sel_step) : Prop := forall t,
  spec_select t c = match type_chain t c with Some e => if ok3_chain t c then Some e else None | None => None end.

Lemma spec_step_sel t b c : spec_step t (IdxSel b c) =
  match spec_select b c with
  | Some it => match index_dim t with Some (_, e) => if is_integer_ty it then Some e else None | None => None end
  | None => None end.
Proof. reflexivity. Qed.
Lemma type_step_sel t b c : type_step t (IdxSel b c) =
  match type_chain b c with Some it => if is_scalar_ty it then typed_index t else None | None => None end.
Proof. reflexivity. Qed.
Lemma pass_step_sel p t b c : pass_step p t (IdxSel b c) =
  pass_chain p b c && match p with PIndexType => match type_chain b c with Some it => is_integer_ty it | None => true end | _ => true end.
Proof. reflexivity. Qed.

Lemma chain_from_steps c : Forall step_law c -> chain_law c.
Proof.
  induction 1 as [|s r Hs _ IH]; intros t; [reflexivity|].
  cbn [spec_select type_chain]. rewrite (Hs t). unfold ok3_chain, ok3_step. cbn [pass_chain].
  destruct (type_step t s) as [e|]; [|reflexivity].
  destruct (pass_step PIndexType t s), (pass_step PBounds t s), (pass_step PSwizzle t s); cbn [andb];
    try (destruct (type_chain e r); [|reflexivity]; destruct (pass_chain PIndexType e r), (pass_chain PBounds e r); reflexivity).
  rewrite (IH e). reflexivity.
Qed.

Lemma integer_is_scalar it : is_integer_ty it = true -> is_scalar_ty it = true.
Proof. destruct it as [[[]| |]| | |]; cbn; congruence. Qed.

Lemma step_law_all : forall s, step_law s.
Proof.
  induction s as [k|it|b c IHc|m] using sel_step_ind'; intros t; pose proof (typed_index_spec t) as Ht; unfold ok3_step.
  - cbn. destruct (index_dim t) as [[d e]|].
    + destruct Ht as [Ht (ds & Hg)]. rewrite Ht, Hg.
      destruct (k <? 0)%Z eqn:E1, (Z.of_nat d <=? k)%Z eqn:E2, (0 <=? k)%Z eqn:E3, (k <? Z.of_nat d)%Z eqn:E4; cbn; try lia; reflexivity.
    + rewrite Ht. reflexivity.
  - cbn. destruct (is_integer_ty it) eqn:Ei.
    + rewrite (integer_is_scalar it Ei). destruct (index_dim t) as [[d e]|]; [destruct Ht as [Ht _]|]; rewrite Ht; reflexivity.
    + destruct (index_dim t) as [[d e]|]; destruct (is_scalar_ty it); try reflexivity; destruct (typed_index t); reflexivity.
  - rewrite spec_step_sel, type_step_sel, !pass_step_sel.
    rewrite (chain_from_steps c IHc b). unfold ok3_chain.
    destruct (type_chain b c) as [it|]; [|reflexivity].
    destruct (pass_chain PIndexType b c), (pass_chain PBounds b c), (pass_chain PSwizzle b c); cbn;
      try (destruct (is_scalar_ty it); [destruct (typed_index t)|]; rewrite ?andb_false_r; reflexivity).
    destruct (is_integer_ty it) eqn:Ei.
    + rewrite (integer_is_scalar it Ei). destruct (index_dim t) as [[d e]|]; [destruct Ht as [Ht _]|]; rewrite Ht; reflexivity.
    + destruct (index_dim t) as [[d e]|]; destruct (is_scalar_ty it); try reflexivity; destruct (typed_index t); reflexivity.
  - cbn. destruct (swizzle_base t) as [[c n]|]; [|reflexivity].
    rewrite validate_mask_ok. destruct (mask_ok n m); reflexivity.
Qed.

Lemma chain_law_all : forall c, chain_law c.
Proof. intros c. apply chain_from_steps. apply Forall_forall. intros s _. apply step_law_all. Qed.

(** C13, main statement: typing and the three validators accept exactly the access chains (arbitrarily nested) whose
    every constant index is inside the dimension it selects, whose every index expression is int/uint, and whose
    every mask is valid for the vector it applies to -- with the same resulting type. *)
Theorem select_exact : forall chain t, accepts (model_select t chain) = spec_select t chain.
Proof.
  intros c t. rewrite (chain_law_all c t). unfold model_select, ok3_chain.
  destruct (type_chain t c); [|reflexivity].
  destruct (pass_chain PIndexType t c), (pass_chain PBounds t c), (pass_chain PSwizzle t c); reflexivity.
Qed.

(** the rejection reasons are the specified ones (single steps; a longer chain reports the first failing pass in
    the compiler's pass order: typing, index type, bounds, swizzle) *)
Theorem bounds_reason : forall t k d e, index_dim t = Some (d, e) ->
  (model_select t [IdxConst k] = VBounds <-> (k < 0 \/ Z.of_nat d <= k)%Z).
Proof.
  intros t k d e Hd. unfold model_select. cbn. pose proof (typed_index_spec t) as Ht. rewrite Hd in Ht. destruct Ht as [Ht (ds & Hg)]. rewrite Ht, Hg.
  destruct (k <? 0)%Z eqn:E1, (Z.of_nat d <=? k)%Z eqn:E2; cbn; split; intros H; try reflexivity; try lia; discriminate.
Qed.

Theorem index_type_reason : forall t c d e, index_dim t = Some (d, e) ->
  (model_select t [IdxExpr (TPrim (PScalar c))] = VIndexType <-> c = CFloat).
Proof.
  intros t c d e Hd. unfold model_select. cbn. pose proof (typed_index_spec t) as Ht. rewrite Hd in Ht. destruct Ht as [Ht _]. rewrite Ht.
  destruct c; cbn; split; intros H; try reflexivity; discriminate.
Qed.

Theorem swizzle_reason : forall t c n m, swizzle_base t = Some (c, n) ->
  (model_select t [Swizzle m] = VSwizzle <-> mask_ok n m = false).
Proof.
  intros t c n m Hb. unfold model_select. cbn. rewrite Hb, validate_mask_ok. destruct (mask_ok n m); split; intros H; try reflexivity; discriminate.
Qed.

(** non-vacuity *)
Example select_ex1 : spec_select (TArr (TPrim (PVec CFloat 4)) [3; 2])
    [IdxConst 2; IdxSel (TPrim (PVec CInt 2)) [Swizzle "y"]; Swizzle "xyz"; IdxConst 2] = Some (TPrim (PScalar CFloat)).
Proof. reflexivity. Qed.
Example select_ex2 : model_select (TPrim (PVec CFloat 3)) [Swizzle "xyr"] = VSwizzle /\ model_select (TPrim (PVec CFloat 3)) [Swizzle "rgb"; Swizzle "w"] = VSwizzle
  /\ model_select (TArr (TPrim (PScalar CInt)) [3]) [IdxConst 3] = VBounds /\ model_select (TArr (TPrim (PScalar CInt)) [3]) [IdxConst (-1)] = VBounds
  /\ model_select (TArr (TPrim (PScalar CInt)) [3]) [IdxSel (TPrim (PVec CInt 2)) [Swizzle "z"]] = VSwizzle.
Proof. repeat split. Qed.
