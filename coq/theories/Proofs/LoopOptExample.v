(** Non-vacuity for loops: the lowered function of [LoopSimExample] (a while loop with a conditional inside: seven blocks, a back
    edge) satisfies the hypotheses of the whole-optimiser theorem, the planned optimised function is what the optimiser model
    produces, and the optimised function returns 7.5 and leaves g = 0; and a history of calls refines the reference state machine. *)
From Coq Require Import String ZArith List Bool PrimFloat.
From NSL Require Import Base.Types Base.Syntax Model.PyNum Model.IR Model.VM Model.Elab Model.Lower Model.Opt Model.IREq Spec.RefSem Proofs.OpsAgree
                        Proofs.LowerExprProofs Proofs.ElabExprProofs Proofs.ReturnExprProofs Proofs.CallAgreeProofs Proofs.LowerStmtProofs Proofs.ElabStmtProofs Proofs.StraightLineProofs Proofs.HistoryRefineProofs
                        Proofs.FlowTableProofs Proofs.FlowSimProofs Proofs.LoopSimProofs Proofs.LoopSimExample Proofs.HistoryLoopProofs
                        Proofs.ForwardFlowProofs Proofs.ForwardFlowFailProofs Proofs.ConstCastFlowProofs Harness.FragLib Harness.FragLib2 Harness.FlowLib Harness.LoopLib Harness.FwdFlowLib Harness.CCLib.
Import ListNotations.
Local Open Scope string_scope.

Example lp_optimiser_ok : optfull_ok lp_F = true /\ Nat.ltb 3 (length (fn_blocks lp_F)) = true.
Proof. vm_compute. split; reflexivity. Qed.

Example lp_opt_value :
  match optimise_func lp_F with
  | OOk F'' => run 200 {| p_funcs := [lp_F]; p_globals := ["g"] |} F'' 0 (call_frame lp_ws (init_regs F'')) lp_vs
  | _ => OutOfFuel end = Done (VFloat 7.5%float) {| globals := [("g", VInt 0)]; hp := [] |}.
Proof. vm_compute. reflexivity. Qed.

Definition hl_P : program := {| p_funcs := [lp_F]; p_globals := ["g"] |}.
Lemma hl_fn_ok : fn_ok_loop lp_M hl_P lp_fn.
Proof.
  apply (fn_ok_loop_intro lp_M hl_P lp_fn flow_depth lp_body lp_e lp_tf lp_F lp_tl lp_te); try reflexivity.
  - exact lp_lits_exact.
  - apply forallb_forall. vm_compute. reflexivity.
  - repeat constructor; cbn; auto.
  - cbn; tauto.
  - intros x Hx Hg. cbn in Hx, Hg. destruct Hg as [Hg|[]]. subst x. destruct Hx as [Hx|[Hx|[]]]; inversion Hx.
  - repeat constructor; cbn; intuition discriminate.
Qed.
Definition hl_calls : list hcall := [(lp_fn, [RInt 4; RFloat 3%float]); (lp_fn, [RInt 0; RFloat 1%float]); (lp_fn, [RInt 2; RFloat 0.5%float])].
Definition hl_g : RefSem.frame := [("g", SV (RInt 5))].
Definition hl_vs : vmstate := {| globals := [("g", VInt 5)]; hp := [] |}.
Lemma hl_GA : GA lp_M hl_g hl_vs.
Proof.
  intros x p H. unfold genvl in H. cbn [lp_M m_globals map find fst snd] in H. destruct (String.eqb_spec "g" x) as [<-|Hne]; [|discriminate]. inversion H; subst p. cbn.
  split; [left; reflexivity|]. exists (RInt 5). repeat split; reflexivity.
Qed.
Example hl_history :
  exists rs g', ref_hist lp_M 40 hl_g hl_calls = RefSem.ROk (rs, g') /\
  exists n, forall fuel', n <= fuel' ->
    exists vl vs', vm_hist fuel' hl_P hl_vs hl_calls = Some (vl, vs') /\ Forall2 (fun s v => exists w, s = SV w /\ v = v_of w) rs vl /\ GA lp_M g' vs'.
Proof.
  destruct (ref_hist lp_M 40 hl_g hl_calls) as [[rs g']| | |] eqn:E; try (vm_compute in E; discriminate).
  exists rs, g'. split; [reflexivity|].
  apply (history_refines_loop lp_M hl_P hl_calls) with (fuel := 40) (g := hl_g); [|exact hl_GA|exact E].
  intros c Hc. cbn in Hc. destruct Hc as [<-|[<-|[<-|[]]]]; (split; [exact hl_fn_ok|repeat constructor]).
Qed.
Example hl_values :
  (match vm_hist 300 hl_P hl_vs hl_calls with Some (_, vs') => Some (globals vs') | None => None end) = Some [("g", VInt 0)].
Proof. vm_compute. reflexivity. Qed.
