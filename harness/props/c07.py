"""C07 -- Every emitted WebAssembly binary is well-formed and valid."""
import os, json
import shapes, wasmcases, ircoq
from common import parse_coq_values

STATIC = ["Spec/Wasm.v", "Proofs/WasmProofs.v", "Model/WasmGen.v", "Proofs/WasmGenProofs.v", "Spec/Leb128.v", "Proofs/Leb128Proofs.v"]


def run(ctx):
    ctx.static_obligations(STATIC)
    repo = ctx.sync_repo(1)[0]
    shapes.write(ctx, repo, ["wasm_writer", "wasm_generator", "compiler", "pass", "visitor"])
    ctx.compile_dyn(["Gen_Shapes", "Props_C07"])
    rng = ctx.rng
    quick = ctx.tier == "quick"
    jobs = wasmcases.build_jobs(rng, quick, 150 if quick else 3000)
    for k, j in enumerate(jobs):
        j["optimize"] = bool(k % 2)
    res = ctx.run_impl("c06_impl.py", jobs, nworkers=16)
    emitted = [(j, r) for j, r in zip(jobs, res) if r["accept"]]
    node = wasmcases.run_node(ctx, [{"hex": r["hex"], "calls": []} for j, r in emitted])
    lines = ["valid_binary %s" % wasmcases.coq_bytes(r["hex"]) for j, r in emitted]
    files, per = [], 60
    for k in range(0, len(lines), per):
        f = os.path.join(ctx.dyn, "cases_C07_%d.v" % (k // per))
        open(f, "w").write(wasmcases.HEADER + "Definition cases : list Z := [\n  " + ";\n  ".join(lines[k:k + per]) + "].\nEval vm_compute in cases.\n")
        files.append(f)
    outs = ctx.eval_cases(files, timeout=600)
    codes = []
    for f in files:
        ok, out, err = outs[f]
        vals = parse_coq_values(out) if ok else []
        if not ok or not vals or not isinstance(vals[0], list):
            ctx.broken.append("correspondence: %s did not evaluate: %s" % (os.path.basename(f), err[-300:]))
            codes.extend([None] * min(per, len(lines) - len(codes)))
        else:
            codes.extend(vals[0])
    # the generator model against the real compiler: same module for every emitted binary, refusal for every refused program
    gblocks, gmeta = [], []
    for k, (j, r) in enumerate(zip(jobs, res)):
        if "ir" not in r:
            continue
        prog = ircoq.program({"functions": r["ir"]["functions"], "globals": r["ir"]["globals"]})
        defs = "Definition P_%d : program := %s.\n" % (k, prog)
        if r["accept"]:
            gblocks.append((defs, "gen_chk P_%d %s" % (k, wasmcases.coq_bytes(r["hex"]))))
        elif r.get("front_end_ok") and r["how"].get("stage") in ("wasm", "other"):
            gblocks.append((defs, "refuse_chk P_%d" % k))
        else:
            continue
        gmeta.append((j, r))
    gfiles = []
    GH = wasmcases.HEADER.replace("From NSL Require Import Spec.Wasm.", "From NSL Require Import Model.PyNum Model.IR Spec.Wasm Harness.WasmLib.")
    for i in range(0, len(gblocks), 40):
        f = os.path.join(ctx.dyn, "cases_C07g_%d.v" % (i // 40))
        chunk = gblocks[i:i + 40]
        open(f, "w").write(GH + "".join(d for d, _ in chunk) + "Definition cases : list Z := [\n  " + ";\n  ".join(e for _, e in chunk) + "].\nEval vm_compute in cases.\n")
        gfiles.append(f)
    gouts = ctx.eval_cases(gfiles, timeout=600)
    gcodes = []
    for f in gfiles:
        ok, out, err = gouts[f]
        vals = parse_coq_values(out) if ok else []
        if not ok or not vals or not isinstance(vals[0], list):
            ctx.broken.append("correspondence: %s did not evaluate: %s" % (os.path.basename(f), err[-300:]))
            gcodes.extend([None] * min(40, len(gblocks) - len(gcodes)))
        else:
            gcodes.extend(vals[0])
    gbad = [(j, r, c) for (j, r), c in zip(gmeta, gcodes) if c not in (None, 0)]
    dist = {}
    for j, r in zip(jobs, res):
        k = "%s:%s" % (j["kind"], "emitted" if r["accept"] else ("refused" if r.get("front_end_ok") else "rejected-by-front-end"))
        dist[k] = dist.get(k, 0) + 1
    bad, disagree, outside = [], [], 0
    kf = ctx.known_findings()
    for (j, r), n, c in zip(emitted, node, codes):
        if c is None:
            continue
        if c == 3:
            outside += 1
        coq_ok = (c == 0)
        if c in (1, 2) or (c == 3 and not n["valid"]):
            if n["valid"] and c != 3:
                disagree.append((j, r, n, c))
            else:
                bad.append((j, r, n, c))
        elif coq_ok and not n["valid"]:
            disagree.append((j, r, n, c))
    new = []
    for x in bad:
        hit = None
        for e in kf:
            cl = CLASSIFIERS.get(e["classifier"])
            if cl and cl(*x):
                hit = e; break
        if hit:
            ctx.report_known(hit)
        else:
            new.append(x)
    ctx.cov["evaluations"] = len(jobs)
    ctx.cov["distinct_nontrivial"] = len({r["hex"] for j, r in emitted})
    ctx.cov["programs"] = len(jobs)
    ctx.cov["rule"] = ("modules of 1-4 exported functions with 0-4 int/uint/float parameters whose bodies return an expression over parameters and literals (+ - * / == < >, depth up to 4); "
                       "one in five just outside the subset (locals, %%, mixed types, if, calls, <= >= !=, && ||); plus targeted modules: i32 constants at every LEB128 length boundary and "
                       "beyond 32 bits, f32 constants incl. unrepresentable ones, 1-17 functions with distinct signatures, aggregate parameters, bodies without a return, void functions, two "
                       "returns, result-type mismatches, every operator on int/uint/float, long export names. Each compiled with the wasm option at alternating optimisation settings; every "
                       "emitted binary is decoded and validated inside Coq (Spec.Wasm.valid_binary: 0 valid, 1 malformed, 2 invalid, 3 outside the modelled fragment) and by V8 "
                       "(WebAssembly.validate). Non-trivial = distinct emitted binaries.")
    ctx.cov["samples"] = [{"kind": j["kind"], "source": j["src"][:300], "hex": r["hex"][:160]} for j, r in emitted[:: max(1, len(emitted) // 4)][:4]]
    ctx.extra["input_distribution"] = dict(sorted(dist.items()), emitted=len(emitted), outside_coq_fragment=outside)
    ctx.extra["disagreements_checked"] = len(codes)
    if new:
        j, r, n, c = min(new, key=lambda x: len(x[0]["src"]))
        ctx.violation("failing-input", {"what": "the compiler emitted a WebAssembly binary that is not a valid WebAssembly 1.0 module", "case_kind": j["kind"], "source": j["src"], "compiled_before_on_the_same_Compiler_object": j.get("before", []), "hex": r["hex"],
                                        "coq_verdict": {0: "valid", 1: "malformed", 2: "invalid", 3: "outside the modelled fragment"}[c], "v8": {"valid": n["valid"], "error": n.get("error")},
                                        "count": len(new), "kinds": sorted({x[0]["kind"] for x in new})})
    ctx.extra["generator_model"] = {"compared": len(gcodes), "differs": len(gbad)}
    if gbad and not new:
        j, r, c = gbad[0]
        ctx.broken.append("correspondence: the generator model (Model.WasmGen) differs from the compiler on %d module(s) (code %s: 8 model emits what the compiler refuses, 16 other module, "
                          "32 IR not typed, 64 model refuses what the compiler emits), e.g. %s" % (len(gbad), c, j["src"][:200]))
    if disagree:
        j, r, n, c = disagree[0]
        ctx.broken.append("correspondence: Spec.Wasm.valid_binary (%s) and V8 (%s) disagree on %d binary(ies), e.g. %s" % (c, n["valid"], len(disagree), j["src"][:200]))


CLASSIFIERS = {}
