(** * Model of the two passes that enforce C12:
    - nsl/passes/ComputeTypes.py registers every declaration in the typing scope of its block / loop / if /
      function (Scope.RegisterVariable asserts the name is not in the *same* scope) and looks every used name up
      the scope chain (UnknownSymbolException); it stops at the first failure;
    - nsl/passes/ValidateVariableNames.py keeps a chain of name tables (Context.Add / Get): a name found anywhere
      up the chain is a redeclaration.
    Chains are lists of tables, innermost first.  This is the names-only view: it is exact for programs whose
    expressions are otherwise well typed. *)
From Coq Require Import String ZArith List Bool.
From NSL Require Import Base.Types Base.Syntax Spec.Scope.
Import ListNotations.

Definition chain := list (list string).
Definition chain_get (c : chain) (x : string) : bool := existsb (fun t => mem x t) c.
Definition push (c : chain) : chain := [] :: c.
Definition add_head (c : chain) (x : string) : chain := match c with t :: r => (x :: t) :: r | [] => [[x]] end.

(** outcome of a pass: ok, or the reason it stopped *)
Inductive pass_res := POk | PSameScope (x : string) | PUnknown (x : string) | PShadow (x : string).

(** thread a chain through a statement list, stopping at the first failure *)
Definition mthread {A} (f : chain -> A -> pass_res * chain) : chain -> list A -> pass_res :=
  fix go (c : chain) (l : list A) : pass_res :=
    match l with
    | [] => POk
    | x :: r => match f c x with (POk, c') => go c' r | (v, _) => v end
    end.

(** ---- ComputeTypes (names view) *)
Definition ct_register (c : chain) (x : string) : pass_res * chain :=
  match c with
  | t :: _ => if mem x t then (PSameScope x, c) else (POk, add_head c x)
  | [] => (POk, add_head c x)
  end.

Definition ct_expr (c : chain) (e : option expr) : pass_res :=
  match e with
  | None => POk
  | Some e' => match find (fun x => negb (chain_get c x)) (expr_names e') with Some x => PUnknown x | None => POk end
  end.

Fixpoint ct_stmt (c : chain) (s : stmt) : pass_res * chain :=
  match s with
  | SDecl _ x init => match ct_register c x with
                      | (POk, c') => (ct_expr c' init, c')
                      | (v, _) => (v, c) end
  | SExpr e => (ct_expr c (Some e), c)
  | SRet e => (ct_expr c e, c)
  | SBlock b => (mthread ct_stmt (push c) b, c)
  | SIf cnd t f =>
      (* the condition in the enclosing scope, each branch in a scope of its own *)
      match ct_expr c (Some cnd) with
      | POk => match ct_stmt (push c) t with
               | (POk, _) => match f with Some f' => (fst (ct_stmt (push c) f'), c) | None => (POk, c) end
               | (v, _) => (v, c) end
      | v => (v, c) end
  | SFor init cnd n b =>
      let c1 := push c in
      let '(v0, c2) := match init with
                       | Some (_, x, i) => match ct_register c1 x with (POk, c') => (ct_expr c' i, c') | (v, _) => (v, c1) end
                       | None => (POk, c1) end in
      match v0 with
      | POk => match ct_expr c2 cnd with
               | POk => match ct_expr c2 n with
                        | POk => (fst (ct_stmt c2 b), c)
                        | v => (v, c) end
               | v => (v, c) end
      | v => (v, c) end
  | SWhile cnd b =>
      let c1 := push c in
      match b with
      | Some b' => match ct_expr c1 (Some cnd) with POk => (fst (ct_stmt c1 b'), c) | v => (v, c) end   (* condition first, then the body *)
      | None => (ct_expr c1 (Some cnd), c)
      end
  | SDo b cnd =>
      let c1 := push c in
      match mthread ct_stmt (push c1) b with POk => (ct_expr c1 (Some cnd), c) | v => (v, c) end
  | SBreak | SContinue => (POk, c)
  end.

Definition ct_body := mthread ct_stmt.

Fixpoint ct_register_all (c : chain) (names : list string) : pass_res * chain :=
  match names with
  | [] => (POk, c)
  | x :: r => match ct_register c x with (POk, c') => ct_register_all c' r | (v, _) => (v, c) end
  end.

(** parameter types are kept in a dictionary keyed by name: a repeated parameter name is registered once *)
Definition ct_func (c : chain) (f : func) : pass_res :=
  match ct_register_all (push c) (nodup string_dec (map snd (f_args f))) with
  | (POk, c1) => ct_body (push c1) (f_body f)       (* the body is a compound statement: its own scope *)
  | (v, _) => v
  end.

Definition ct_module (m : module) : pass_res :=
  match ct_register_all [[]] (map snd (m_globals m)) with
  | (POk, c) => (fix go (fs : list func) := match fs with [] => POk | f :: r => match ct_func c f with POk => go r | v => v end end) (m_funcs m)
  | (v, _) => v
  end.

(** ---- ValidateVariableNames: Context.Add raises when Get finds the name anywhere up the chain; inside a function
    body the error is recorded and the traversal of that scope is abandoned, the pass then reports failure *)
Definition vn_add (c : chain) (x : string) : pass_res * chain :=
  if chain_get c x then (PShadow x, c) else (POk, add_head c x).

Fixpoint vn_stmt (c : chain) (s : stmt) : pass_res * chain :=
  match s with
  | SDecl _ x _ => vn_add c x
  | SBlock b => (mthread vn_stmt (push c) b, c)
  | SIf _ t f =>
      match vn_stmt (push c) t with
      | (POk, _) => match f with Some f' => (fst (vn_stmt (push c) f'), c) | None => (POk, c) end
      | (v, _) => (v, c) end
  | SFor init _ _ b =>
      let c1 := push c in
      let '(v0, c2) := match init with Some (_, x, _) => vn_add c1 x | None => (POk, c1) end in
      match v0 with POk => (fst (vn_stmt c2 b), c) | v => (v, c) end
  | SWhile _ b => match b with Some b' => (fst (vn_stmt (push c) b'), c) | None => (POk, c) end
  | SDo b _ => (mthread vn_stmt (push (push c)) b, c)
  | _ => (POk, c)
  end.

Definition vn_body := mthread vn_stmt.

Fixpoint vn_add_all (c : chain) (names : list string) : pass_res * chain :=
  match names with
  | [] => (POk, c)
  | x :: r => match vn_add c x with (POk, c') => vn_add_all c' r | (v, _) => (v, c) end
  end.

Definition vn_func (c : chain) (f : func) : pass_res :=
  match vn_add_all (push c) (map snd (f_args f)) with
  | (POk, c1) => vn_body (push c1) (f_body f)
  | (v, _) => v
  end.

(** the validator visits every function even after one failed; it fails if any did *)
Definition vn_module (m : module) : pass_res :=
  match vn_add_all [[]] (map snd (m_globals m)) with
  | (POk, c) => match find (fun r => match r with POk => false | _ => true end) (map (vn_func c) (m_funcs m)) with
                | Some v => v | None => POk end
  | (v, _) => v
  end.

(** ComputeTypes runs first; ValidateVariableNames only runs when it succeeded *)
Definition names_check (m : module) : pass_res :=
  match ct_module m with POk => vn_module m | v => v end.

Definition names_ok (m : module) : bool := match names_check m with POk => true | _ => false end.
