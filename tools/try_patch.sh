#!/bin/bash
# usage: tools/try_patch.sh <patch.diff> <prop> [tier]  -- apply to /repo, run the check, undo
P=$(realpath "$1"); PROP=$2; TIER=${3:-quick}
cd /repo && git diff --quiet || { echo "/repo dirty"; exit 2; }
git -C /repo apply "$P" || { echo "patch does not apply"; exit 3; }
cd /verif && ./check $PROP --tier $TIER; RC=$?
git -C /repo checkout -- . ; echo "check rc=$RC"
exit $RC
