(** * Proofs for C19: the packers of the model are inverted by the standard decoders. *)
From Coq Require Import ZArith List Lia Bool.
From NSL Require Import Spec.Leb128 Model.WasmPack.
Import ListNotations.
Local Open Scope Z_scope.

Lemma land127 v : Z.land v 127 = v mod 128.
Proof. change 127 with (Z.ones 7). rewrite Z.land_ones by lia. reflexivity. Qed.

Lemma land_small_pow2 b k : 0 <= k -> 0 <= b < 2 ^ k -> Z.land b (2 ^ k) = 0.
Proof.
  intros Hk H. apply Z.bits_inj'; intros n Hn. rewrite Z.land_spec, Z.bits_0.
  destruct (Z.eq_dec n k) as [->|Hne].
  - replace (Z.testbit b k) with false; auto. symmetry.
    destruct (Z.eq_dec b 0) as [->|]; [apply Z.bits_0|].
    apply Z.bits_above_log2; try lia.
    assert (Z.log2 b < k) by (apply Z.log2_lt_pow2; lia). lia.
  - rewrite Z.pow2_bits_false by lia. apply andb_false_r.
Qed.

Lemma lor128 b : 0 <= b < 128 -> Z.lor b 128 = b + 128.
Proof.
  intros H. assert (H0 : Z.land b 128 = 0) by (apply (land_small_pow2 b 7); lia).
  rewrite <- Z.lxor_lor by exact H0. rewrite Z.add_nocarry_lxor by exact H0. reflexivity.
Qed.

Lemma pack_loop_decode : forall n i bc v rest,
    Z.of_nat n = bc - i -> n <> O -> 0 <= v < 2 ^ (7 * Z.of_nat n) ->
    uleb_decode (pack_loop n i bc v ++ rest) = Some (v, rest).
Proof.
  induction n as [|n IH]; intros i bc v rest Hn Hne Hv; [congruence|].
  cbn [pack_loop]. rewrite land127, Z.shiftr_div_pow2 by lia. change (2 ^ 7) with 128.
  assert (Hm : 0 <= v mod 128 < 128) by (apply Z.mod_pos_bound; lia).
  destruct n as [|n'].
  - (* last group *)
    assert (Hlt : (i + 1 <? bc) = false) by (apply Z.ltb_ge; lia). rewrite Hlt.
    cbn [pack_loop app uleb_decode]. change (7 * Z.of_nat 1) with 7 in Hv. change (2 ^ 7) with 128 in Hv.
    rewrite Z.mod_small by lia. destruct (Z.ltb_spec v 128); try lia. reflexivity.
  - assert (Hlt : (i + 1 <? bc) = true) by (apply Z.ltb_lt; lia). rewrite Hlt.
    rewrite lor128 by lia. cbn [app uleb_decode].
    destruct (Z.ltb_spec (v mod 128 + 128) 128); try lia.
    rewrite IH; try congruence; try lia.
    + f_equal. f_equal. pose proof (Z.div_mod v 128). lia.
    + split; [apply Z.div_pos; lia|].
      apply Z.div_lt_upper_bound; try lia.
      replace (7 * Z.of_nat (S (S n'))) with (7 + 7 * Z.of_nat (S n')) in Hv by lia.
      rewrite Z.pow_add_r in Hv by lia. change (2 ^ 7) with 128 in Hv. lia.
Qed.

(** Unsigned round trip, for every non-negative integer (in particular the whole u32 range). *)
Theorem unsigned_roundtrip : forall v rest, 0 <= v ->
    uleb_decode (pack_integer v ++ rest) = Some (v, rest).
Proof.
  intros v rest Hv. unfold pack_integer. destruct (Z.eqb_spec v 0) as [->|Hne]; [reflexivity|].
  assert (Hpos : 0 < v) by lia.
  unfold bit_length. destruct (Z.eqb_spec v 0); try lia. rewrite Z.abs_eq by lia.
  set (k := (Z.log2 v + 1 + (7 - 1)) / 7).
  assert (Hl : 0 <= Z.log2 v) by apply Z.log2_nonneg.
  assert (Hk : 1 <= k) by (unfold k; apply Z.div_le_lower_bound; lia).
  apply pack_loop_decode; try lia.
  rewrite Z2Nat.id by lia. split; [lia|].
  apply Z.lt_le_trans with (2 ^ (Z.log2 v + 1)).
  - apply Z.log2_spec; lia.
  - apply Z.pow_le_mono_r; try lia. unfold k.
    pose proof (Z.div_mod (Z.log2 v + 1 + (7 - 1)) 7). pose proof (Z.mod_pos_bound (Z.log2 v + 1 + (7 - 1)) 7). lia.
Qed.

(** every byte PackInteger emits for v >= 0 is a byte *)
Lemma pack_loop_bytes : forall n i bc v b, In b (pack_loop n i bc v) -> 0 <= b < 256.
Proof.
  induction n as [|n IH]; intros i bc v b Hin; [contradiction|].
  cbn [pack_loop] in Hin. rewrite land127 in Hin.
  assert (Hm : 0 <= v mod 128 < 128) by (apply Z.mod_pos_bound; lia).
  destruct Hin as [<-|Hin]; [|eapply IH; eauto].
  destruct (i + 1 <? bc); [rewrite lor128 by lia|]; lia.
Qed.

Lemma pack_integer_bytes : forall v b, In b (pack_integer v) -> 0 <= b < 256.
Proof.
  intros v b. unfold pack_integer. destruct (v =? 0).
  - intros [<-|[]]; lia.
  - apply pack_loop_bytes.
Qed.

(** ** Signed *)
Lemma land64_zero b : 0 <= b < 128 -> (Z.land b 64 =? 0) = (b <? 64).
Proof.
  intros H. destruct (Z.ltb_spec b 64).
  - apply Z.eqb_eq. apply (land_small_pow2 b 6); lia.
  - apply Z.eqb_neq. intro E.
    assert (Hb : Z.testbit b 6 = true).
    { rewrite Z.testbit_odd, Z.shiftr_div_pow2 by lia. change (2 ^ 6) with 64.
      replace (b / 64) with 1; [reflexivity|]. apply Z.div_unique with (b - 64); lia. }
    assert (Hc : Z.testbit (Z.land b 64) 6 = true).
    { rewrite Z.land_spec, Hb. change 64 with (2 ^ 6). rewrite Z.pow2_bits_true by lia. reflexivity. }
    rewrite E in Hc. rewrite Z.bits_0 in Hc. discriminate.
Qed.

Lemma pack_signed_loop_decode : forall n v rest,
    n <> O -> - 2 ^ (7 * Z.of_nat n - 1) <= v < 2 ^ (7 * Z.of_nat n - 1) ->
    sleb_decode (pack_signed_loop n v ++ rest) = Some (v, rest).
Proof.
  induction n as [|n IH]; intros v rest Hne Hv; [congruence|].
  cbn [pack_signed_loop]. rewrite land127, Z.shiftr_div_pow2 by lia. change (2 ^ 7) with 128.
  assert (Hm : 0 <= v mod 128 < 128) by (apply Z.mod_pos_bound; lia).
  pose proof (Z.div_mod v 128 ltac:(lia)) as Hdm.
  rewrite land64_zero by lia.
  destruct (Z.eqb_spec (v / 128) 0) as [E0|N0]; cbn [andb orb].
  - destruct (Z.ltb_spec (v mod 128) 64) as [L|G]; cbn [andb orb negb].
    + cbn [app sleb_decode]. destruct (Z.ltb_spec (v mod 128) 128); try lia.
      destruct (Z.ltb_spec (v mod 128) 64); try lia. do 2 f_equal. lia.
    + destruct (Z.eqb_spec (v / 128) (-1)); try lia. cbn [andb orb].
      (* v in [64,128): needs another group *)
      rewrite lor128 by lia. cbn [app sleb_decode].
      destruct (Z.ltb_spec (v mod 128 + 128) 128); try lia.
      destruct n as [|n'].
      { exfalso. change (7 * Z.of_nat 1 - 1) with 6 in Hv. change (2 ^ 6) with 64 in Hv. lia. }
      rewrite IH; try congruence.
      * do 2 f_equal. lia.
      * rewrite E0. split.
        -- assert (0 < 2 ^ (7 * Z.of_nat (S n') - 1)) by (apply Z.pow_pos_nonneg; lia). lia.
        -- apply Z.pow_pos_nonneg; lia.
  - destruct (Z.eqb_spec (v / 128) (-1)) as [E1|N1]; cbn [andb orb].
    + destruct (Z.ltb_spec (v mod 128) 64) as [L|G]; cbn [andb orb negb].
      * (* v in [-128,-64): another group *)
        rewrite lor128 by lia. cbn [app sleb_decode].
        destruct (Z.ltb_spec (v mod 128 + 128) 128); try lia.
        destruct n as [|n'].
        { exfalso. change (7 * Z.of_nat 1 - 1) with 6 in Hv. change (2 ^ 6) with 64 in Hv. lia. }
        rewrite IH; try congruence.
        -- do 2 f_equal. lia.
        -- rewrite E1. assert (0 < 2 ^ (7 * Z.of_nat (S n') - 1)) by (apply Z.pow_pos_nonneg; lia). lia.
      * cbn [app sleb_decode]. destruct (Z.ltb_spec (v mod 128) 128); try lia.
        destruct (Z.ltb_spec (v mod 128) 64); try lia. do 2 f_equal. lia.
    + (* continue *)
      rewrite lor128 by lia. cbn [app sleb_decode].
      destruct (Z.ltb_spec (v mod 128 + 128) 128); try lia.
      destruct n as [|n'].
      { exfalso. change (7 * Z.of_nat 1 - 1) with 6 in Hv. change (2 ^ 6) with 64 in Hv.
        assert (v / 128 = 0 \/ v / 128 = -1); [|lia].
        destruct (Z_lt_le_dec v 0).
        - right. symmetry. apply Z.div_unique with (v + 128); lia.
        - left. apply Z.div_small; lia. }
      rewrite IH; try congruence.
      * do 2 f_equal. lia.
      * replace (7 * Z.of_nat (S (S n')) - 1) with (7 + (7 * Z.of_nat (S n') - 1)) in Hv by lia.
        rewrite Z.pow_add_r in Hv by lia. change (2 ^ 7) with 128 in Hv.
        set (P := 2 ^ (7 * Z.of_nat (S n') - 1)) in *.
        split.
        -- apply Z.div_le_lower_bound; lia.
        -- apply Z.div_lt_upper_bound; lia.
Qed.

(** Signed round trip, for every integer (in particular the whole i32 range). *)
Theorem signed_roundtrip : forall v rest, sleb_decode (pack_signed v ++ rest) = Some (v, rest).
Proof.
  intros v rest. unfold pack_signed, pack_signed_fuel.
  assert (Hl : 0 <= Z.log2 (Z.abs v)) by apply Z.log2_nonneg.
  assert (Hq : 0 <= Z.log2 (Z.abs v) / 7) by (apply Z.div_pos; lia).
  apply pack_signed_loop_decode.
  - intro E. apply (f_equal Z.of_nat) in E. rewrite Z2Nat.id in E by lia. cbn in E. lia.
  - rewrite Z2Nat.id by lia.
    assert (Hb : Z.abs v < 2 ^ (Z.log2 (Z.abs v) + 1)).
    { destruct (Z.eq_dec (Z.abs v) 0) as [->|]; [cbn; lia|]. apply Z.log2_spec; lia. }
    assert (Hp : 2 ^ (Z.log2 (Z.abs v) + 1) <= 2 ^ (7 * (Z.log2 (Z.abs v) / 7 + 2) - 1)).
    { apply Z.pow_le_mono_r; try lia.
      pose proof (Z.div_mod (Z.log2 (Z.abs v)) 7 ltac:(lia)). pose proof (Z.mod_pos_bound (Z.log2 (Z.abs v)) 7 ltac:(lia)). lia. }
    lia.
Qed.

(** ** Framing *)
Lemma take_app : forall (a rest : list Z), take (length a) (a ++ rest) = Some (a, rest).
Proof. induction a as [|x a IH]; intros rest; cbn; [reflexivity|]. rewrite IH. reflexivity. Qed.

Theorem vec_bytes_roundtrip : forall bs rest,
    decode_vec_bytes (write_bytes_vec bs ++ rest) = Some (bs, rest).
Proof.
  intros bs rest. unfold decode_vec_bytes, write_bytes_vec. rewrite <- app_assoc.
  rewrite unsigned_roundtrip by lia.
  destruct (Z.ltb_spec (Z.of_nat (length bs)) 0); try lia.
  rewrite Nat2Z.id. apply take_app.
Qed.

(** The size field of a section equals the number of payload bytes that follow, and the payload is recovered. *)
Theorem section_roundtrip : forall id payload rest,
    decode_section (write_section id payload ++ rest) = Some (id, payload, rest).
Proof.
  intros id payload rest. unfold decode_section, write_section. cbn [app].
  change (pack_integer (Z.of_nat (length payload)) ++ payload) with (write_bytes_vec payload).
  rewrite vec_bytes_roundtrip. reflexivity.
Qed.

Theorem section_size_exact : forall id payload rest,
    exists n, uleb_decode (tl (write_section id payload ++ rest)) = Some (Z.of_nat n, payload ++ rest) /\ n = length payload.
Proof.
  intros. exists (length payload). split; [|reflexivity]. unfold write_section. cbn [app tl].
  rewrite <- app_assoc. apply unsigned_roundtrip. lia.
Qed.

(** ** Whole-module framing: any number of sections, of any sizes, written one after the other behind the
    preamble, split back into exactly those (id, payload) pairs with nothing left over. *)
Lemma write_section_length id payload : (1 <= length (write_section id payload))%nat.
Proof. unfold write_section. cbn [length]. lia. Qed.

Lemma decode_sections_write : forall secs fuel, (length (write_sections secs) <= fuel)%nat ->
    decode_sections fuel (write_sections secs) = Some secs.
Proof.
  induction secs as [|[id payload] secs IH]; intros fuel Hf.
  - destruct fuel; reflexivity.
  - unfold write_sections in *. cbn [flat_map fst snd] in *.
    rewrite app_length in Hf. pose proof (write_section_length id payload) as Hl.
    destruct fuel as [|f]; [lia|].
    remember (write_section id payload ++ flat_map (fun s => write_section (fst s) (snd s)) secs) as bs eqn:Ebs.
    destruct bs as [|b bs'].
    { unfold write_section in Ebs. cbn [app] in Ebs. discriminate. }
    cbn [decode_sections]. rewrite Ebs. rewrite section_roundtrip.
    rewrite IH by lia. reflexivity.
Qed.

Theorem module_framing_roundtrip : forall secs,
    split_module (wasm_preamble ++ write_sections secs) = Some secs.
Proof.
  intros secs. unfold split_module.
  assert (Hs : strip_prefix wasm_preamble (wasm_preamble ++ write_sections secs) = Some (write_sections secs)).
  { unfold wasm_preamble. cbn [app strip_prefix]. rewrite !Z.eqb_refl. reflexivity. }
  rewrite Hs. apply decode_sections_write. lia.
Qed.

(** ** UTF-8 *)
Lemma utf8_decode1_encode1 : forall c rest, is_scalar_value c = true ->
    utf8_decode1 (utf8_encode1 c ++ rest) = Some (c, rest).
Proof.
  intros c rest H. unfold is_scalar_value in H.
  apply andb_prop in H as [H H3]. apply andb_prop in H as [H1 H2].
  apply Z.leb_le in H1. apply Z.leb_le in H2.
  unfold utf8_encode1.
  destruct (Z.ltb_spec c 128) as [A|A].
  { cbn [app utf8_decode1]. destruct (Z.ltb_spec c 128); try lia. reflexivity. }
  destruct (Z.ltb_spec c 2048) as [B|B].
  { cbn [app utf8_decode1].
    pose proof (Z.div_mod c 64 ltac:(lia)). pose proof (Z.mod_pos_bound c 64 ltac:(lia)).
    assert (2 <= c / 64 < 32) by (split; [apply Z.div_le_lower_bound|apply Z.div_lt_upper_bound]; lia).
    repeat match goal with |- context [?a <? ?b] => destruct (Z.ltb_spec a b); try lia end.
    repeat match goal with |- context [?a <=? ?b] => destruct (Z.leb_spec a b); try lia end.
    cbn [andb]. do 2 f_equal. lia. }
  destruct (Z.ltb_spec c 65536) as [C|C].
  { cbn [app utf8_decode1].
    pose proof (Z.div_mod c 64 ltac:(lia)). pose proof (Z.mod_pos_bound c 64 ltac:(lia)).
    pose proof (Z.div_mod (c / 64) 64 ltac:(lia)). pose proof (Z.mod_pos_bound (c / 64) 64 ltac:(lia)).
    assert (E : c / 4096 = c / 64 / 64) by (rewrite Z.div_div by lia; reflexivity).
    assert (0 <= c / 4096 < 16) by (split; [apply Z.div_pos|apply Z.div_lt_upper_bound]; lia).
    set (c' := (224 + c / 4096 - 224) * 4096 + (128 + (c / 64) mod 64 - 128) * 64 + (128 + c mod 64 - 128)).
    assert (Ec : c' = c) by (unfold c'; lia).
    repeat match goal with |- context [?a <? ?b] => destruct (Z.ltb_spec a b); try lia end.
    repeat match goal with |- context [?a <=? ?b] => destruct (Z.leb_spec a b); try lia end.
    cbn [andb]. unfold is_scalar_value. rewrite Ec.
    destruct (Z.leb_spec 2048 c); try lia. destruct (Z.leb_spec 0 c); try lia. destruct (Z.leb_spec c 1114111); try lia.
    rewrite H3. cbn [andb]. reflexivity. }
  { cbn [app utf8_decode1].
    pose proof (Z.div_mod c 64 ltac:(lia)). pose proof (Z.mod_pos_bound c 64 ltac:(lia)).
    pose proof (Z.div_mod (c / 64) 64 ltac:(lia)). pose proof (Z.mod_pos_bound (c / 64) 64 ltac:(lia)).
    pose proof (Z.div_mod (c / 4096) 64 ltac:(lia)). pose proof (Z.mod_pos_bound (c / 4096) 64 ltac:(lia)).
    assert (E : c / 4096 = c / 64 / 64) by (rewrite Z.div_div by lia; reflexivity).
    assert (E2 : c / 262144 = c / 4096 / 64) by (rewrite Z.div_div by lia; reflexivity).
    assert (0 <= c / 262144 < 8) by (split; [apply Z.div_pos|apply Z.div_lt_upper_bound]; lia).
    set (c' := (240 + c / 262144 - 240) * 262144 + (128 + (c / 4096) mod 64 - 128) * 4096 + (128 + (c / 64) mod 64 - 128) * 64 + (128 + c mod 64 - 128)).
    assert (Ec : c' = c) by (unfold c'; lia).
    repeat match goal with |- context [?a <? ?b] => destruct (Z.ltb_spec a b); try lia end.
    repeat match goal with |- context [?a <=? ?b] => destruct (Z.leb_spec a b); try lia end.
    cbn [andb]. unfold is_scalar_value. rewrite Ec.
    destruct (Z.leb_spec 65536 c); try lia. destruct (Z.leb_spec 0 c); try lia. destruct (Z.leb_spec c 1114111); try lia.
    rewrite H3. cbn [andb]. reflexivity. }
Qed.

Lemma utf8_encode1_nonempty c : utf8_encode1 c <> [].
Proof. unfold utf8_encode1. repeat destruct (_ <? _); discriminate. Qed.

Lemma utf8_decode_fuel_encode : forall cs fuel,
    forallb is_scalar_value cs = true -> (length (utf8_encode cs) <= fuel)%nat ->
    utf8_decode_fuel fuel (utf8_encode cs) = Some cs.
Proof.
  induction cs as [|c cs IH]; intros fuel Hs Hf.
  - destruct fuel; reflexivity.
  - cbn [forallb] in Hs. apply andb_prop in Hs as [Hc Hs].
    unfold utf8_encode in *. cbn [flat_map] in *.
    pose proof (utf8_encode1_nonempty c) as Hne.
    destruct (utf8_encode1 c) as [|b bs] eqn:E; [congruence|].
    rewrite app_length in Hf. cbn [length] in Hf.
    destruct fuel as [|f]; [lia|].
    cbn [app utf8_decode_fuel]. change (b :: bs ++ flat_map utf8_encode1 cs) with ((b :: bs) ++ flat_map utf8_encode1 cs).
    rewrite <- E. rewrite utf8_decode1_encode1 by exact Hc.
    rewrite IH; [reflexivity|exact Hs|lia].
Qed.

Theorem utf8_roundtrip : forall cs, forallb is_scalar_value cs = true -> utf8_decode (utf8_encode cs) = Some cs.
Proof. intros cs H. unfold utf8_decode. apply utf8_decode_fuel_encode; [exact H|lia]. Qed.

(** Names: length-prefixed UTF-8, recovered exactly. *)
Theorem name_roundtrip : forall cs rest, forallb is_scalar_value cs = true ->
    decode_name (write_string cs ++ rest) = Some (cs, rest).
Proof.
  intros cs rest H. unfold decode_name, write_string. rewrite vec_bytes_roundtrip.
  rewrite utf8_roundtrip by exact H. reflexivity.
Qed.

(** ** Payloads of the code and export sections: count-prefixed lists of any length are recovered exactly. *)
Lemma decode_sized_items_write : forall bodies rest,
    decode_sized_items (length bodies) (flat_map write_bytes_vec bodies ++ rest) = Some (bodies, rest).
Proof.
  induction bodies as [|b bodies IH]; intros rest; [reflexivity|].
  cbn [length flat_map decode_sized_items]. rewrite <- app_assoc. rewrite vec_bytes_roundtrip. rewrite IH. reflexivity.
Qed.

Theorem code_section_roundtrip : forall bodies,
    decode_code_section (write_code_payload bodies) = Some bodies.
Proof.
  intros bodies. unfold decode_code_section, write_code_payload.
  rewrite unsigned_roundtrip by lia.
  destruct (Z.ltb_spec (Z.of_nat (length bodies)) 0) as [Hn|_]; [lia|].
  rewrite Nat2Z.id. rewrite <- (app_nil_r (flat_map write_bytes_vec bodies)).
  rewrite decode_sized_items_write. reflexivity.
Qed.

Definition export_ok (e : list Z * Z * Z) : bool := forallb is_scalar_value (fst (fst e)) && (0 <=? snd e).

Lemma decode_exports_write : forall es rest, forallb export_ok es = true ->
    decode_exports (length es) (flat_map write_export es ++ rest) = Some (es, rest).
Proof.
  induction es as [|[[nm kind] idx] es IH]; intros rest Hok; [reflexivity|].
  cbn [forallb] in Hok. apply andb_true_iff in Hok as [He Hes].
  unfold export_ok in He. cbn [fst snd] in He. apply andb_true_iff in He as [Hnm Hidx]. apply Z.leb_le in Hidx.
  cbn [length flat_map decode_exports]. unfold write_export at 1. cbn [fst snd].
  rewrite <- !app_assoc. rewrite name_roundtrip by exact Hnm.
  cbn [app]. rewrite unsigned_roundtrip by exact Hidx. rewrite IH by exact Hes. reflexivity.
Qed.

Theorem export_section_roundtrip : forall es, forallb export_ok es = true ->
    decode_export_section (write_export_payload es) = Some es.
Proof.
  intros es Hok. unfold decode_export_section, write_export_payload.
  rewrite unsigned_roundtrip by lia.
  destruct (Z.ltb_spec (Z.of_nat (length es)) 0) as [Hn|_]; [lia|].
  rewrite Nat2Z.id. rewrite <- (app_nil_r (flat_map write_export es)).
  rewrite decode_exports_write by exact Hok. reflexivity.
Qed.
