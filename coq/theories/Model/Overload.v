(** * Model of nsl/types.py: IsCompatible, Match, Function.Match, Scope.FindFunction (one scope level; the
    walk to the parent scope only happens when the name is absent from the current one). *)
From Coq Require Import String ZArith List Bool Arith.
From NSL Require Import Base.Types Spec.Overload.
Import ListNotations.
Local Open Scope Z_scope.

(** IsCompatible (arrays are outside the modelled universe: Error-free but always incompatible here) *)
Definition is_compatible (l r : ty) : bool :=
  match l, r with
  | TPrim x, TPrim y =>
      let x := match x with PVec c 1 => PScalar c | _ => x end in
      let y := match y with PVec c 1 => PScalar c | _ => y end in
      match x, y with
      | PVec _ n, PVec _ m => Nat.eqb n m
      | PMat _ r1 k1, PMat _ r2 k2 => Nat.eqb r1 r2 && Nat.eqb k1 k2
      | PScalar _, PScalar _ => true
      | _, _ => false
      end
  | TStruct n, TStruct m => String.eqb n m
  | _, _ => false
  end.

(** types.Match *)
Definition match_type (l r : ty) : Z :=
  if negb (is_compatible l r) then -1 else if ty_eqb l r then 0 else 1.

(** Function.Match (no optional parameters): arity, then all per-argument scores; -1 if any is negative, else the sum *)
Fixpoint zip_scores (args params : list ty) : list Z :=
  match args, params with
  | a :: args', p :: params' => match_type a p :: zip_scores args' params'
  | _, _ => []
  end.

Definition fn_match (d : fdecl) (args : list ty) : Z :=
  if negb (Nat.eqb (length args) (length (fd_params d))) then -1
  else let scores := zip_scores args (fd_params d) in
       if existsb (fun s => s <? 0) scores then -1 else fold_left Z.add scores 0.

(** sorted(..., key=score): a stable sort; modelled as stable insertion sort *)
Fixpoint insert_by (p : Z * fdecl) (l : list (Z * fdecl)) : list (Z * fdecl) :=
  match l with
  | [] => [p]
  | q :: r => if fst q <? fst p then q :: insert_by p r else p :: l
  end.
Definition sort_by (l : list (Z * fdecl)) : list (Z * fdecl) := fold_right insert_by [] l.

(** Scope.FindFunction *)
Definition find_function (decls : list fdecl) (name : string) (args : list ty) : resolution :=
  match filter (fun d => String.eqb (fd_name d) name) decls with
  | [] => Unknown
  | cands =>
      let ranking := filter (fun p => 0 <=? fst p) (sort_by (map (fun c => (fn_match c args, c)) cands)) in
      match ranking with
      | [] => NoMatch
      | [p] => Found (snd p)
      | p :: q :: _ => if fst p =? fst q then Ambiguous else Found (snd p)
      end
  end.
