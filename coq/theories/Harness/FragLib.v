(** Boolean membership test for the fragment of [return_function_simulation] (C01): evaluated by the check on the
    source AST of generated programs; [fn_in_fragment_sound] turns a positive answer into the theorem's static hypotheses. *)
From Coq Require Import String ZArith List Bool PrimFloat.
From NSL Require Import Base.Types Base.Syntax Model.PyNum Model.IR Model.VM Model.Elab Model.Lower Spec.RefSem
                        Proofs.LowerExprProofs Proofs.ElabExprProofs Proofs.ReturnExprProofs Proofs.CallAgreeProofs.
Import ListNotations.

Definition num_ty_b (t : ty) : bool := ty_eqb t tint || ty_eqb t tfloat.
(** a computable stand-in for [lits_exact]: numerically equal literals have the same sign of zero (a test, not a proof:
    Leibniz equality of primitive floats is not decidable inside Coq) *)
Definition same_zero_sign (a b : float) : bool := Bool.eqb (PrimFloat.ltb (PrimFloat.div one a) zero) (PrimFloat.ltb (PrimFloat.div one b) zero).
Definition lits_exact_b (L : list float) : bool :=
  forallb (fun f => forallb (fun f' => implb (PrimFloat.eqb f' f) (same_zero_sign f' f)) L) L.

Definition fn_static (M : module) (fn : func) : option (expr * tfunc * ifunc * texpr) :=
  match f_body fn with
  | [SRet (Some e)] =>
      match elab_func (genv_of M) (genvl M) fn, elab (genv_of M) COn (fenv M fn) e with
      | EOk tf, EOk te => match lower_func (m_structs M) (glnames M) tf with LOk F => Some (e, tf, F, te) | _ => None end
      | _, _ => None
      end
  | _ => None
  end.

Definition fn_in_fragment (M : module) (fn : func) : bool :=
  match fn_static M fn with
  | Some (e, tf, F, te) =>
      spure e && tok te && forallb (fun f => PrimFloat.eqb f f) (tflits te) &&
      forallb (fun p => num_ty_b (fst p) && negb (existsb (String.eqb (snd p)) (glnames M))) (f_args fn) &&
      forallb (fun g => num_ty_b (fst g)) (m_globals M)
  | None => false
  end.

Lemma fn_in_fragment_sound M fn : fn_in_fragment M fn = true ->
  exists e tf F te,
    f_body fn = [SRet (Some e)] /\ spure e = true /\ elab_func (genv_of M) (genvl M) fn = EOk tf /\ lower_func (m_structs M) (glnames M) tf = LOk F /\
    elab (genv_of M) COn (fenv M fn) e = EOk te /\ tok te = true /\ (forall f, In f (tflits te) -> PrimFloat.eqb f f = true) /\
    (forall x, In x (map snd (f_args fn)) -> ~ In x (glnames M)).
Proof.
  unfold fn_in_fragment, fn_static. intros H.
  destruct (f_body fn) as [|[ | | |[e|]| | | | | | ] [|? ?]] eqn:Eb; try discriminate.
  destruct (elab_func (genv_of M) (genvl M) fn) as [tf| |] eqn:Ef; try discriminate.
  destruct (elab (genv_of M) COn (fenv M fn) e) as [te| |] eqn:Ee; try discriminate.
  destruct (lower_func (m_structs M) (glnames M) tf) as [F| |] eqn:El; try discriminate.
  repeat (apply andb_prop in H as [H ?]).
  exists e, tf, F, te. repeat split; auto.
  - intros f Hf. match goal with Hn : forallb (fun f => PrimFloat.eqb f f) _ = true |- _ => rewrite forallb_forall in Hn; apply Hn; exact Hf end.
  - intros x Hx Hg. match goal with Hp : forallb _ (f_args fn) = true |- _ => rewrite forallb_forall in Hp end.
    apply in_map_iff in Hx as (p & <- & Hp'). match goal with Hp : forall x, In x (f_args fn) -> _ |- _ => specialize (Hp p Hp') end.
    match goal with Hp : _ && _ = true |- _ => apply andb_prop in Hp as [_ Hp]; apply negb_true_iff in Hp; rewrite (existsb_true_in _ _ Hg) in Hp; discriminate end.
Qed.

(** counts for the evidence: functions of the module, functions inside the fragment, those whose literal test passes *)
Definition frag_case (M : module) : Z :=
  let inside := filter (fn_in_fragment M) (m_funcs M) in
  let exact := filter (fun fn => match fn_static M fn with Some (_, _, _, te) => lits_exact_b (tflits te) | None => false end) inside in
  (Z.of_nat (length (m_funcs M)) * 10000 + Z.of_nat (length inside) * 100 + Z.of_nat (length exact))%Z.
