(** * Well-formedness of IR programs (C14), as an executable check on the IR data.
    The def-before-use condition is checked in its block-local form: every operand is a constant of the function
    or the result of an earlier instruction *of the same block* (a block is only entered at its first instruction,
    so this implies "has executed before the use on every path"; [Proofs.WfIRProofs] makes that precise on the VM). *)
From Coq Require Import String ZArith List Bool Arith.
From NSL Require Import Model.PyNum Model.IR.
Import ListNotations.

Definition memn (x : nat) (l : list nat) : bool := existsb (Nat.eqb x) l.

(** instructions whose execution defines localScope[ref] *)
Definition defines_b (b : ibody) : bool :=
  match b with IBranch _ _ _ | IRet _ | IUnknown _ => false | _ => true end.
Definition defines (i : instr) : bool := defines_b (i_body i).

Definition opt_list (o : option nat) : list nat := match o with Some x => [x] | None => [] end.

(** value operands (block references of branches are not values) *)
Definition operands (b : ibody) : list nat :=
  match b with
  | ILoad _ _ | INewVar _ | IUnknown _ => []
  | IStore _ _ s => [s]
  | ILoadIdx _ a i => [a; i]
  | IStoreArray a i s | ISetIdx _ a i s => [a; i; s]
  | ILoadMember o _ => [o]
  | IStoreMember o _ s => [o; s]
  | IShuffle a b _ | IBin _ a b => [a; b]
  | IBranch p _ _ => opt_list p
  | IRet v => opt_list v
  | ICall _ args => args
  | ICast s => [s]
  | IConstruct vs => vs
  end.

Definition const_refs (F : ifunc) : list nat := map (fun c => fst (fst c)) (fn_consts F).
Definition block_refs (F : ifunc) : list nat := map b_ref (fn_blocks F).
Definition instr_refs (F : ifunc) : list nat := flat_map (fun b => map i_ref (b_code b)) (fn_blocks F).

Fixpoint nodupb (l : list nat) : bool := match l with [] => true | x :: r => negb (memn x r) && nodupb r end.

(** the instruction list with a mark on the first instruction of every (non-empty) block *)
Definition mark_block (b : block) : list (bool * instr) :=
  match b_code b with [] => [] | i :: r => (true, i) :: map (fun j => (false, j)) r end.
Definition marked (F : ifunc) : list (bool * instr) := flat_map mark_block (fn_blocks F).

(** one scan: [acc] = results available so far in the current block *)
Fixpoint scan_ok (consts : list nat) (acc : list nat) (code : list (bool * instr)) : bool :=
  match code with
  | [] => true
  | (flag, i) :: r =>
      let acc0 := if flag then [] else acc in
      forallb (fun o => memn o consts || memn o acc0) (operands (i_body i)) &&
      scan_ok consts (if defines i then i_ref i :: acc0 else acc0) r
  end.

Definition branch_ok (F : ifunc) (i : instr) : bool :=
  match i_body i with
  | IBranch (Some _) (Some t) (Some f) => memn t (block_refs F) && memn f (block_refs F)
  | IBranch (Some _) _ _ => false
  | IBranch None (Some t) _ => memn t (block_refs F)
  | IBranch None None _ => false
  | _ => true
  end.

Definition call_ok (P : program) (i : instr) : bool :=
  match i_body i with
  | ICall fn args => match find_func P fn with Some G => Nat.eqb (length args) (length (fn_args G)) | None => false end
  | _ => true
  end.

Definition wf_func_b (P : program) (F : ifunc) : bool :=
  nodupb (const_refs F ++ block_refs F ++ instr_refs F) &&
  scan_ok (const_refs F) [] (marked F) &&
  forallb (fun fi => branch_ok F (snd fi) && call_ok P (snd fi)) (marked F).

Definition wf_program_b (P : program) : bool := forallb (wf_func_b P) (p_funcs P).
