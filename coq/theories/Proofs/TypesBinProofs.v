(** * C09: the typing function of the model agrees with the specification on the whole type universe
    (every operator, every component type, every positive vector size and matrix shape -- no bound). *)
From Coq Require Import String ZArith List Bool Arith Lia.
From NSL Require Import Base.Types Spec.Typing Model.TypesBin.
Import ListNotations.

Definition agrees (m : resolved) (s : typing) : Prop :=
  match s with
  | Undefined => True
  | Rejected => exists k, m = RFail k
  | Typed rs L R => exists res, m = ROk res L R /\ In res rs
  end.

Lemma common_scalar_wider a b : common_scalar a b = wider a b.
Proof. destruct a, b; reflexivity. Qed.

Ltac eqb_cases :=
  repeat match goal with
         | |- context [Nat.eqb ?x ?y] => destruct (Nat.eqb_spec x y); subst
         | |- context [Nat.ltb ?x ?y] => destruct (Nat.ltb_spec x y)
         end.

Ltac finish :=
  cbn [agrees andb orb negb]; 
  first [ exact I
        | eexists; reflexivity
        | eexists; split; [reflexivity | cbn [In]; tauto]
        | exfalso; lia
        | idtac ].

Theorem resolve_agrees_spec : forall o l r, wf_pty l = true -> wf_pty r = true ->
    agrees (resolve_binop o l r) (spec_binop o l r).
Proof.
  intros o l r Hl Hr.
  destruct l as [a|a n|a r1 k1], r as [b|b m|b r2 k2]; cbn [wf_pty] in Hl, Hr;
    repeat match goal with
           | H : (_ && _)%bool = true |- _ => apply andb_prop in H; destruct H
           | H : Nat.ltb 0 _ = true |- _ => apply Nat.ltb_lt in H
           end;
    destruct o; destruct a, b;
    unfold resolve_binop, resolve_binop_with, common_prim_with, spec_binop;
    cbn [is_comparison kind_nat Nat.eqb negb common_prim is_scalar is_matrix andb orb comp_of common_scalar comp_eqb
         with_comp wider rows_cols fst snd pty_eqb];
    eqb_cases; cbn [andb orb negb]; eqb_cases; finish.
Qed.

(** the model only depends on the two regenerated pieces pointwise *)
Lemma resolve_with_ext : forall f f' g g', (forall o, f o = f' o) -> (forall a b, g a b = g' a b) ->
    forall o l r, resolve_binop_with f g o l r = resolve_binop_with f' g' o l r.
Proof.
  intros f f' g g' Hf Hg o l r. unfold resolve_binop_with, common_prim_with. rewrite Hf.
  destruct l, r; rewrite ?Hg; reflexivity.
Qed.
