(** * Model of the PLY lexer (nsl/lexer.py) on the characters expressions are made of: first matching rule in rule
    order (identifiers, then numbers -- a sign directly before a digit 1-9 belongs to the literal --, then operators
    with the longer spelling first), blanks, tabs and newlines skipped.  Anything outside this alphabet, and any
    spelling the real lexer would turn into another token (++ -- += -> << ... floats, suffixes, keywords are handled
    by the caller), makes the model answer None: it claims nothing there. *)
From Coq Require Import String Ascii List Bool Arith NArith.
From NSL Require Import Base.Types.
Import ListNotations.
Local Open Scope char_scope.

Definition code (c : ascii) : N := N_of_ascii c.
Definition in_range (c : ascii) (lo hi : N) : bool := N.leb lo (code c) && N.leb (code c) hi.
Definition is_digit (c : ascii) : bool := in_range c 48 57.
Definition is_digit19 (c : ascii) : bool := in_range c 49 57.
Definition is_alpha (c : ascii) : bool := in_range c 65 90 || in_range c 97 122 || N.eqb (code c) 95.
Definition is_word (c : ascii) : bool := is_alpha c || is_digit c.
(** after the digits of a decimal literal these characters continue a number token of another kind (float, suffix, hex) *)
Definition is_num_cont (c : ascii) : bool :=
  N.eqb (code c) 46 || N.eqb (code c) 101 || N.eqb (code c) 69 || N.eqb (code c) 117 || N.eqb (code c) 85 ||
  N.eqb (code c) 108 || N.eqb (code c) 76 || N.eqb (code c) 120 || N.eqb (code c) 88.
Definition is_blank (c : ascii) : bool := N.eqb (code c) 32 || N.eqb (code c) 9 || N.eqb (code c) 10.

Inductive ltok :=
  | LId (s : list ascii)            (* an identifier (keywords are told apart by the caller) *)
  | LInt (sign : option bool) (digits : list ascii)   (* decimal literal; sign: Some true = '-', Some false = '+' *)
  | LOp (o : binop) | LAssign | LParL | LParR.

Fixpoint span (p : ascii -> bool) (cs : list ascii) : list ascii * list ascii :=
  match cs with
  | c :: r => if p c then let '(a, b) := span p r in (c :: a, b) else ([], cs)
  | [] => ([], [])
  end.

Definition chr (n : nat) : ascii := ascii_of_nat n.

(** one token from a non-blank position; None: outside the model *)
Definition lex_one (cs : list ascii) : option (ltok * list ascii) :=
  match cs with
  | [] => None
  | c :: r =>
      if is_alpha c then let '(w, rest) := span is_word cs in Some (LId w, rest)
      else if is_digit c then
        (* a decimal literal: 0 alone, or 1-9 followed by digits; a following . e E u U l L x X makes it another kind of number token *)
        let '(ds, rest) := span is_digit cs in
        let bad_next := match rest with x :: _ => is_num_cont x | [] => false end in
        if bad_next then None
        else if Ascii.eqb c "0" then (match ds with [_] => Some (LInt None ds, rest) | _ => None end)
        else Some (LInt None ds, rest)
      else if (Ascii.eqb c "+" || Ascii.eqb c "-") && match r with d :: _ => is_digit19 d | [] => false end then
        let '(ds, rest) := span is_digit r in
        let bad_next := match rest with x :: _ => is_num_cont x | [] => false end in
        if bad_next then None else Some (LInt (Some (Ascii.eqb c "-")) ds, rest)
      else
        let two (x : ascii) := match r with d :: _ => Ascii.eqb d x | [] => false end in
        let three (x : ascii) := match r with _ :: d :: _ => Ascii.eqb d x | _ => false end in
        if Ascii.eqb c "(" then Some (LParL, r)
        else if Ascii.eqb c ")" then Some (LParR, r)
        else if Ascii.eqb c "|" then (if two "|" then Some (LOp OLor, tl r) else None)
        else if Ascii.eqb c "&" then (if two "&" then Some (LOp OLand, tl r) else None)
        else if Ascii.eqb c "=" then (if two "=" then Some (LOp OEq, tl r) else Some (LAssign, r))
        else if Ascii.eqb c "!" then (if two "=" then Some (LOp ONe, tl r) else None)
        else if Ascii.eqb c "<" then (if two "=" then Some (LOp OLe, tl r) else if two "<" then None else Some (LOp OLt, r))
        else if Ascii.eqb c ">" then (if two "=" then Some (LOp OGe, tl r) else if two ">" then None else Some (LOp OGt, r))
        else if Ascii.eqb c "+" then (if two "+" || two "=" then None else Some (LOp OAdd, r))
        else if Ascii.eqb c "-" then (if two "-" || two "=" || two ">" then None else Some (LOp OSub, r))
        else if Ascii.eqb c "*" then (if two "=" then None else Some (LOp OMul, r))
        else if Ascii.eqb c "/" then (if two "=" then None else Some (LOp ODiv, r))
        else if Ascii.eqb c "%" then (if two "=" then None else Some (LOp OMod, r))
        else None
  end.

Fixpoint lex (fuel : nat) (cs : list ascii) : option (list ltok) :=
  match fuel with
  | O => None
  | S fu =>
      match cs with
      | [] => Some []
      | c :: r => if is_blank c then lex fu r
                  else match lex_one cs with
                       | Some (t, rest) => option_map (cons t) (lex fu rest)
                       | None => None
                       end
      end
  end.

(** the spelling of a token *)
Definition op_text (o : binop) : list ascii :=
  match o with
  | OLor => ["|"; "|"] | OLand => ["&"; "&"] | OEq => ["="; "="] | ONe => ["!"; "="] | OLt => ["<"] | OLe => ["<"; "="]
  | OGt => [">"] | OGe => [">"; "="] | OAdd => ["+"] | OSub => ["-"] | OMul => ["*"] | ODiv => ["/"] | OMod => ["%"]
  end%char.
Definition tok_text (t : ltok) : list ascii :=
  match t with
  | LId s => s
  | LInt None ds => ds
  | LInt (Some true) ds => "-"%char :: ds
  | LInt (Some false) ds => "+"%char :: ds
  | LOp o => op_text o
  | LAssign => ["="%char] | LParL => ["("%char] | LParR => [")"%char]
  end.

Fixpoint render (toks : list ltok) (seps : list (list ascii)) : list ascii :=
  match toks, seps with
  | t :: r, s :: ss => s ++ tok_text t ++ render r ss
  | t :: r, [] => tok_text t ++ render r []
  | [], s :: _ => s
  | [], [] => []
  end.
