(** * Specification for C13: static checks on element selection. *)
From Coq Require Import String Ascii ZArith List Bool Arith.
From NSL Require Import Base.Types.
Import ListNotations.

(** one step of an access chain *)
Inductive sel_step :=
  | IdxConst (k : Z)            (* a literal index *)
  | IdxExpr (t : ty)            (* a non-literal index expression of static type t *)
  | IdxSel (b : ty) (c : list sel_step)   (* an index expression that is itself a selection from a variable of type b *)
  | Swizzle (mask : string).

(** the dimension an index on a value of type [t] selects, and the type of the selected element *)
Definition index_dim (t : ty) : option (nat * ty) :=
  match t with
  | TArr e [d] => Some (d, e)
  | TArr e (d :: ds) => Some (d, TArr e ds)
  | TPrim (PVec c n) => Some (n, TPrim (PScalar c))
  | TPrim (PMat c r k) => Some (r, TPrim (PVec c k))
  | _ => None
  end.

Definition is_integer_ty (t : ty) : bool :=
  match t with TPrim (PScalar CInt) | TPrim (PScalar CUInt) => true | _ => false end.

(** position of a letter in its set *)
Definition xyzw_pos (c : ascii) : option nat :=
  if Ascii.eqb c "x" then Some 0 else if Ascii.eqb c "y" then Some 1 else if Ascii.eqb c "z" then Some 2 else if Ascii.eqb c "w" then Some 3 else None.
Definition rgba_pos (c : ascii) : option nat :=
  if Ascii.eqb c "r" then Some 0 else if Ascii.eqb c "g" then Some 1 else if Ascii.eqb c "b" then Some 2 else if Ascii.eqb c "a" then Some 3 else None.

Definition all_in (pos : ascii -> option nat) (size : nat) (mask : list ascii) : bool :=
  forallb (fun c => match pos c with Some p => Nat.ltb p size | None => false end) mask.

(** "uses one of the letter sets xyzw / rgba without mixing them and names only components the vector has" *)
Definition mask_ok (size : nat) (mask : string) : bool :=
  let m := list_ascii_of_string mask in
  all_in xyzw_pos size m || all_in rgba_pos size m.

Definition swizzle_base (t : ty) : option (comp * nat) :=
  match t with TPrim (PVec c n) => Some (c, n) | TPrim (PScalar c) => Some (c, 1) | _ => None end.

Definition swizzle_result (c : comp) (mask : string) : ty :=
  match String.length mask with 1 => TPrim (PScalar c) | n => TPrim (PVec c n) end.

(** a step is accepted iff its own rule holds (and, for a nested selection, the nested chain is accepted and
    yields an integer); a chain is accepted iff every step is; [None] = rejected *)
Fixpoint spec_step (t : ty) (s : sel_step) {struct s} : option ty :=
  match s with
  | IdxConst k =>
      match index_dim t with
      | Some (d, e) => if (0 <=? k)%Z && (k <? Z.of_nat d)%Z then Some e else None
      | None => None
      end
  | IdxExpr it =>
      match index_dim t with
      | Some (_, e) => if is_integer_ty it then Some e else None
      | None => None
      end
  | IdxSel b c =>
      match (fix go (t : ty) (c : list sel_step) : option ty :=
               match c with [] => Some t | s :: r => match spec_step t s with Some e => go e r | None => None end end) b c with
      | Some it => match index_dim t with
                   | Some (_, e) => if is_integer_ty it then Some e else None
                   | None => None
                   end
      | None => None
      end
  | Swizzle m =>
      match swizzle_base t with
      | Some (c, n) => if mask_ok n m then Some (swizzle_result c m) else None
      | None => None
      end
  end.

Fixpoint spec_select (t : ty) (chain : list sel_step) : option ty :=
  match chain with
  | [] => Some t
  | s :: r => match spec_step t s with Some e => spec_select e r | None => None end
  end.
