(** * C08 core: a shift-reduce parser whose decision table is "reduce iff the lookahead does not bind tighter"
    builds exactly the canonical tree -- for every expression, any length, any nesting. *)
From Coq Require Import List Arith Lia Bool.
From NSL Require Import Base.Types Spec.Prec Model.ParserSR.
Import ListNotations.

Section SR.
Variable decide : binop -> binop -> bool.
Hypothesis decide_prec : forall o1 o2, decide o1 o2 = (lvl o2 <=? lvl o1).

Notation reduce_while := (reduce_while decide).
Notation run := (run decide).
Notation parse := (parse decide).

(** right-spine decomposition *)
Fixpoint spine (t : ptree) : stack :=
  match t with PNode o l r => spine r ++ [StkBin l o] | PAsg a r => spine r ++ [StkAsg a] | _ => [] end.
Fixpoint last_atom (t : ptree) : ptree :=
  match t with PNode _ _ r => last_atom r | PAsg _ r => last_atom r | _ => t end.

Definition top_lt (st : stack) (t : ptree) : Prop :=
  match st with StkBin _ o1 :: _ => root_gt (lvl o1) t | _ => True end.

Lemma unwind_app st1 st2 cur : unwind (st1 ++ st2) cur = unwind st2 (unwind st1 cur).
Proof. revert cur; induction st1 as [|[l o|a] st1 IH]; simpl; intros; auto. Qed.

Lemma unwind_spine t : unwind (spine t) (last_atom t) = t.
Proof.
  induction t as [a|o l IHl r IHr|a r IHr|t IH]; simpl; auto.
  - rewrite unwind_app, IHr. reflexivity.
  - rewrite unwind_app, IHr. reflexivity.
Qed.

Definition bin_ge (n : nat) (e : sentry) : Prop := match e with StkBin _ o => n <= lvl o | StkAsg _ => False end.

(** the right spine of a closed canonical tree whose root level is >= n holds binary operators of level >= n only *)
Lemma spine_levels t n : canonical t -> closed t -> root_ge n t -> Forall (bin_ge n) (spine t).
Proof.
  revert n; induction t as [a|o l IHl r IHr|a r IHr|t IH]; simpl; intros n Hc Hcl Hr; auto.
  - destruct Hc as (Hl & Hrr & Hlo & Hro & Hcl').
    apply Forall_app; split.
    + apply IHr; auto. destruct r; simpl in *; auto; lia.
    + constructor; simpl; auto.
  - contradiction.
Qed.

Lemma reduce_all la st1 st2 cur :
  Forall (bin_ge (lvl la)) st1 -> reduce_while la (st1 ++ st2) cur = reduce_while la st2 (unwind st1 cur).
Proof.
  revert cur; induction st1 as [|[l o|a] st1 IH]; simpl; intros cur H; auto.
  - inversion H as [|? ? H1 H2]; subst; simpl in *.
    rewrite decide_prec. destruct (Nat.leb_spec (lvl la) (lvl o)); try lia. apply IH; auto.
  - inversion H as [|? ? H1 H2]; subst; simpl in *. contradiction.
Qed.

Lemma reduce_stop la st cur : (match st with StkBin _ o1 :: _ => lvl o1 < lvl la | _ => True end) ->
  reduce_while la st cur = (st, cur).
Proof.
  destruct st as [|[l o|a] st]; simpl; auto. intros H. rewrite decide_prec.
  destruct (Nat.leb_spec (lvl la) (lvl o)); auto; lia.
Qed.

Lemma last_atom_not_asg_leaf t : forall a, last_atom t = PLeaf a -> True.
Proof. auto. Qed.

Lemma par_ok_b_true t : par_ok t -> par_ok_b t = true.
Proof. destruct t; simpl; intros; auto; contradiction. Qed.

Lemma run_tree t : canonical t -> forall st fs rest, top_lt st t ->
  run (flatten t ++ rest) ((st, None) :: fs) = run rest ((spine t ++ st, Some (last_atom t)) :: fs).
Proof.
  induction t as [a|o l IHl r IHr|a r IHr|t IH]; simpl; intros Hc st fs rest Htop.
  - reflexivity.
  - destruct Hc as (Hl & Hr & Hlo & Hro & Hcl).
    rewrite <- app_assoc. rewrite IHl; auto.
    2:{ destruct st as [|[? o1|?] ?]; simpl in *; auto. destruct l; simpl in *; auto; lia. }
    simpl.
    rewrite (reduce_all o (spine l) st (last_atom l)) by (apply spine_levels; auto).
    rewrite unwind_spine.
    rewrite reduce_stop.
    2:{ destruct st as [|[? o1|?] ?]; simpl in *; auto. }
    rewrite IHr; auto. rewrite <- app_assoc. reflexivity.
  - rewrite IHr; auto. 2:{ simpl; auto. } rewrite <- app_assoc. reflexivity.
  - destruct Hc as [Hc Hp]. rewrite <- app_assoc. simpl. rewrite IH; auto. 2:{ simpl; auto. }
    simpl. rewrite app_nil_r. rewrite unwind_spine. rewrite (par_ok_b_true t Hp). reflexivity.
Qed.

(** completeness: the parser builds the prescribed grouping of every expression *)
Theorem sr_parser_correct : forall t, canonical t -> parse (flatten t) = Some t.
Proof.
  intros t Hc. unfold parse, ParserSR.parse.
  rewrite <- (app_nil_r (flatten t)). rewrite run_tree; simpl; auto.
  rewrite app_nil_r. rewrite unwind_spine. reflexivity.
Qed.

(** so the prescribed grouping of a token string is unique *)
Corollary canonical_unique : forall t1 t2, canonical t1 -> canonical t2 -> flatten t1 = flatten t2 -> t1 = t2.
Proof.
  intros t1 t2 H1 H2 Hf. apply sr_parser_correct in H1. apply sr_parser_correct in H2.
  rewrite Hf in H1. congruence.
Qed.

(** ** Soundness: whatever the parser accepts is the prescribed grouping of exactly the tokens it read *)
Definition entry_toks (e : sentry) : list token :=
  match e with StkBin l o => flatten l ++ [KOp o] | StkAsg a => [KAtom a; KAsg] end.
Fixpoint stack_toks (st : stack) : list token :=
  match st with [] => [] | e :: st' => stack_toks st' ++ entry_toks e end.
Definition frame_toks (f : frame) : list token :=
  stack_toks (fst f) ++ match snd f with Some c => flatten c | None => [] end.
Definition prefix_toks (rec : list frame -> list token) (fs : list frame) : list token :=
  match fs with [] => [] | _ => rec fs ++ [KL] end.
Fixpoint frames_toks (fs : list frame) : list token :=
  match fs with [] => [] | f :: fs' => prefix_toks frames_toks fs' ++ frame_toks f end.

Definition atomic (c : ptree) : Prop := match c with PLeaf _ | PPar _ => True | _ => False end.
Definition below (st : stack) (n : nat) : Prop := match st with StkBin _ o2 :: _ => lvl o2 < n | _ => True end.
Fixpoint stack_wf (st : stack) : Prop :=
  match st with
  | [] => True
  | StkAsg _ :: st' => stack_wf st'
  | StkBin l o :: st' => canonical l /\ closed l /\ root_ge (lvl o) l /\ below st' (lvl o) /\ stack_wf st'
  end.
Definition frame_wf (f : frame) : Prop :=
  stack_wf (fst f) /\ match snd f with Some c => canonical c /\ atomic c | None => True end.

Lemma flatten_unwind st cur : flatten (unwind st cur) = stack_toks st ++ flatten cur.
Proof.
  revert cur; induction st as [|[l o|a] st IH]; simpl; intros cur; auto.
  - rewrite IH. simpl. rewrite <- !app_assoc. reflexivity.
  - rewrite IH. simpl. rewrite <- !app_assoc. reflexivity.
Qed.

Definition top_ok (st : stack) (cur : ptree) : Prop := match st with StkBin _ o :: _ => root_gt (lvl o) cur | _ => True end.

Lemma unwind_canonical st : forall cur, stack_wf st -> canonical cur -> top_ok st cur -> canonical (unwind st cur).
Proof.
  induction st as [|[l o|a] st IH]; simpl; intros cur Hwf Hc Htop; auto.
  - destruct Hwf as (Hl & Hcl & Hge & Hbelow & Hwf).
    apply IH; auto; try (simpl; auto; fail); try (destruct st as [|[l2 o2|a2] st]; simpl in *; auto).
  - apply IH; auto; try (destruct st as [|[l2 o2|a2] st]; simpl in *; auto).
Qed.

Lemma reduce_while_inv la st : forall cur st' cur',
  stack_wf st -> canonical cur -> closed cur -> top_ok st cur -> root_ge (lvl la) cur ->
  reduce_while la st cur = (st', cur') ->
  stack_wf st' /\ canonical cur' /\ closed cur' /\ root_ge (lvl la) cur' /\ below st' (lvl la) /\
  stack_toks st' ++ flatten cur' = stack_toks st ++ flatten cur.
Proof.
  induction st as [|[l o|a] st IH]; simpl; intros cur st' cur' Hwf Hc Hcl Htop Hge Hr.
  - inversion Hr; subst. simpl. repeat split; auto.
  - destruct Hwf as (Hl & Hcll & Hgel & Hbelow & Hwf). rewrite decide_prec in Hr.
    destruct (Nat.leb_spec (lvl la) (lvl o)) as [Hle|Hlt].
    + apply IH in Hr; auto; try (simpl; auto; fail); try (destruct st as [|[l2 o2|a2] st]; simpl in *; auto; fail).
      destruct Hr as (A & B & C & D & E & F). repeat split; auto. rewrite F. simpl. rewrite <- !app_assoc. reflexivity.
    + inversion Hr; subst. simpl. repeat split; auto.
  - inversion Hr; subst. simpl. repeat split; auto.
Qed.

Lemma frames_toks_cons f fs : frames_toks (f :: fs) = prefix_toks frames_toks fs ++ frame_toks f.
Proof. reflexivity. Qed.

Lemma run_sound : forall toks fs t, Forall frame_wf fs -> run toks fs = Some t ->
  canonical t /\ flatten t = frames_toks fs ++ toks.
Proof.
  induction toks as [|k rest IH]; intros fs t Hwf Hrun.
  - destruct fs as [|[st [cur|]] [|f2 fs']]; simpl in Hrun; try discriminate.
    inversion Hrun; subst. inversion Hwf as [|? ? Hf _]; subst; unfold frame_wf in Hf; simpl in Hf; destruct Hf as [Hst [Hc Hat]]. simpl in *. split.
    + apply unwind_canonical; auto. destruct st as [|[l o|a] st]; simpl; auto. destruct cur; simpl in *; auto; contradiction.
    + rewrite flatten_unwind. unfold frame_toks. simpl. rewrite app_nil_r. reflexivity.
  - destruct k as [a|o| | |].
    + (* operand *)
      destruct fs as [|[st [cur|]] fs']; simpl in Hrun; try discriminate.
      inversion Hwf as [|? ? Hf Hrest]; subst; unfold frame_wf in Hf; simpl in Hf; destruct Hf as [Hst _].
      apply IH in Hrun.
      * destruct Hrun as [Hc Hf]. split; auto. rewrite Hf, !frames_toks_cons. unfold frame_toks. simpl.
        rewrite app_nil_r, <- !app_assoc. reflexivity.
      * constructor; auto. split; simpl; auto.
    + (* binary operator *)
      destruct fs as [|[st [cur|]] fs']; simpl in Hrun; try discriminate.
      inversion Hwf as [|? ? Hf Hrest]; subst; unfold frame_wf in Hf; simpl in Hf; destruct Hf as [Hst [Hc Hat]]. simpl in *.
      destruct (reduce_while o st cur) as [st' cur'] eqn:Hr.
      apply reduce_while_inv in Hr; auto; try (destruct cur; simpl in *; auto; contradiction).
      2:{ destruct st as [|[l2 o2|a2] st]; simpl; auto; destruct cur; simpl in *; auto; contradiction. }
      destruct Hr as (A & B & C & D & E & F).
      apply IH in Hrun.
      * destruct Hrun as [Hct Hf]. split; auto. rewrite Hf, !frames_toks_cons. unfold frame_toks. simpl.
        rewrite app_nil_r. rewrite <- !app_assoc. f_equal. rewrite app_assoc, F, <- !app_assoc. reflexivity.
      * constructor; auto. split; simpl; auto.
    + (* = *)
      destruct fs as [|[st [[a|?|?|?]|]] fs']; simpl in Hrun; try discriminate.
      inversion Hwf as [|? ? Hf Hrest]; subst; unfold frame_wf in Hf; simpl in Hf; destruct Hf as [Hst _]. simpl in *.
      apply IH in Hrun.
      * destruct Hrun as [Hc Hf]. split; auto. rewrite Hf, !frames_toks_cons. unfold frame_toks. simpl.
        rewrite app_nil_r, <- !app_assoc. reflexivity.
      * constructor; auto. split; simpl; auto.
    + (* ( *)
      destruct fs as [|[st [cur|]] fs']; simpl in Hrun; try discriminate.
      apply IH in Hrun.
      * destruct Hrun as [Hc Hf]. split; auto. rewrite Hf. rewrite (frames_toks_cons ([], None)). unfold prefix_toks at 1.
        unfold frame_toks at 1. simpl. rewrite <- !app_assoc. reflexivity.
      * constructor; auto. split; simpl; auto.
    + (* ) *)
      destruct fs as [|[st [cur|]] [|[st2 [c2|]] fs']]; simpl in Hrun; try discriminate.
      destruct (par_ok_b (unwind st cur)) eqn:Hp; try discriminate.
      inversion Hwf as [|? ? Hf Hrest]; subst; unfold frame_wf in Hf; simpl in Hf; destruct Hf as [Hst [Hc Hat]]. inversion Hrest as [|? ? Hf2 Hrest']; subst; unfold frame_wf in Hf2; simpl in Hf2; destruct Hf2 as [Hst2 _]. simpl in *.
      assert (Hcu : canonical (unwind st cur)).
      { apply unwind_canonical; auto. destruct st as [|[l2 o2|a2] st]; simpl; auto; destruct cur; simpl in *; auto; contradiction. }
      apply IH in Hrun.
      * destruct Hrun as [Hct Hf]. split; auto. rewrite Hf. rewrite !frames_toks_cons. unfold prefix_toks.
        unfold frame_toks. simpl. rewrite flatten_unwind. rewrite app_nil_r.
        destruct fs'; rewrite <- ?app_assoc; simpl; rewrite <- ?app_assoc; simpl; reflexivity.
      * constructor; auto. split; simpl; auto. split; auto. split; auto.
        destruct (unwind st cur); simpl in *; auto; discriminate.
Qed.

Theorem sr_parser_sound : forall toks t, parse toks = Some t -> canonical t /\ flatten t = toks.
Proof.
  intros toks t H. apply run_sound in H.
  - exact H.
  - constructor; auto. split; simpl; auto.
Qed.

(** the parser accepts exactly the token strings that have a prescribed grouping, and returns it *)
Theorem sr_parser_exact : forall toks t, parse toks = Some t <-> canonical t /\ flatten t = toks.
Proof.
  intros toks t; split.
  - apply sr_parser_sound.
  - intros [Hc Hf]. subst. apply sr_parser_correct; auto.
Qed.
End SR.
