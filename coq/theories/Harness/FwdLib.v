(** Boolean test of the hypotheses of [forwarding_preserves_single_block_functions] (C02), evaluated by the check on the
    real compiler's IR; [fwd_fragment_sound] turns a positive answer into the theorem's conclusion. *)
From Coq Require Import String ZArith List Bool PrimFloat Arith.
From NSL Require Import Model.PyNum Model.IR Model.VM Model.WfIR Model.Lower Model.Opt Proofs.ForwardProofs.
Import ListNotations.

Fixpoint operands_earlier_b (code : list instr) : bool :=
  match code with
  | [] => true
  | i :: r => forallb (fun o => negb (memn o (map i_ref (i :: r)))) (operands (i_body i)) && operands_earlier_b r
  end.
Definition scope_eqb (a b : vscope) : bool := match a, b with SGlobal, SGlobal | SArg, SArg | SLocal, SLocal => true | _, _ => false end.
Fixpoint scopes_agree_b (prev : option instr) (code : list instr) : bool :=
  match code with
  | [] => true
  | i :: r =>
      match i_body i, prev with
      | ILoad sc v, Some p => match i_body p with IStore sc' v' _ => implb (var_eqb v' v) (scope_eqb sc' sc) | _ => true end
      | _, _ => true
      end && scopes_agree_b (Some i) r
  end.

Lemma memn_in x l : memn x l = true <-> In x l.
Proof.
  unfold memn. rewrite existsb_exists. split.
  - intros (y & Hy & E). apply Nat.eqb_eq in E. subst. exact Hy.
  - intros H. exists x. split; [exact H|apply Nat.eqb_refl].
Qed.
Lemma nodupb_NoDup l : nodupb l = true -> NoDup l.
Proof.
  induction l as [|x l IH]; cbn; intros H; [constructor|]. apply andb_prop in H as [H1 H2]. constructor; [|apply IH; exact H2].
  intro X. apply memn_in in X. rewrite X in H1. discriminate.
Qed.
Lemma operands_earlier_sound code : operands_earlier_b code = true -> operands_earlier code.
Proof.
  induction code as [|i r IH]; cbn [operands_earlier_b operands_earlier]; intros H; [exact I|]. apply andb_prop in H as [H1 H2]. split; [|apply IH; exact H2].
  intros o Ho X. rewrite forallb_forall in H1. specialize (H1 o Ho). apply negb_true_iff in H1. apply memn_in in X. congruence.
Qed.
Lemma scopes_agree_sound : forall code prev, scopes_agree_b prev code = true -> scopes_agree prev code.
Proof.
  induction code as [|i r IH]; intros prev H; cbn [scopes_agree_b scopes_agree] in *; [exact I|]. apply andb_prop in H as [H1 H2]. split; [|apply IH; exact H2].
  destruct (i_body i); try exact I. destruct prev as [p|]; [|exact I]. destruct (i_body p); try exact I.
  intros Hv. rewrite Hv in H1. cbn in H1. destruct sc0, sc; try discriminate; reflexivity.
Qed.

(** the shape: one block, a plain prefix, a return last *)
Definition split_last (code : list instr) : option (list instr * instr) :=
  match rev code with [] => None | l :: r => Some (rev r, l) end.
Lemma split_last_spec code pre l : split_last code = Some (pre, l) -> code = pre ++ [l].
Proof. unfold split_last. destruct (rev code) as [|x r] eqn:E; [discriminate|]. intros H. inversion H; subst. rewrite <- (rev_involutive code), E. reflexivity. Qed.

Definition fwd_fragment_b (F : ifunc) : bool :=
  match fn_blocks F with
  | [b] =>
      match split_last (b_code b) with
      | Some (code, ret) =>
          (match i_body ret with IRet _ => true | _ => false end) && forallb plain code &&
          nodupb (map i_ref (b_code b)) && operands_earlier_b (b_code b) && scopes_agree_b None code
      | None => false
      end
  | _ => false
  end.

Theorem fwd_fragment_sound (P : program) (F : ifunc) : fwd_fragment_b F = true ->
  forall fuel fr vs w vs1, run fuel P F 0 fr vs = Done w vs1 -> run fuel P (opt_load_after_store F) 0 fr vs = Done w vs1.
Proof.
  unfold fwd_fragment_b. intros H. destruct (fn_blocks F) as [|b [|]] eqn:Eb; try discriminate.
  destruct (split_last (b_code b)) as [[code ret]|] eqn:Es; [|discriminate]. apply split_last_spec in Es.
  repeat (apply andb_prop in H as [H ?]). destruct (i_body ret) as [| | | | | | | | | |rv| | | | |] eqn:Er; try discriminate.
  destruct b as [bref bcode]. cbn [b_code] in *. subst bcode.
  apply (forwarding_preserves_single_block_functions P F bref code ret rv Eb Er); auto.
  - apply nodupb_NoDup. assumption.
  - apply operands_earlier_sound. assumption.
  - apply scopes_agree_sound. assumption.
Qed.

(** for the evidence: 100 * (functions inside the fragment) + (those among them in which the pass forwards something) *)
Definition fwd_case (P : program) : Z :=
  match (fix go (l : list ifunc) : option (list ifunc) :=
           match l with [] => Some [] | f :: r => match opt_const_casts f, go r with OOk f', Some r' => Some (f' :: r') | _, _ => None end end) (p_funcs P) with
  | Some fs =>
      let inside := filter fwd_fragment_b fs in
      let active := filter (fun F => match fn_blocks F with [b] => negb (Nat.eqb (length (las_scan None (b_code b) [])) 0) | _ => false end) inside in
      (Z.of_nat (length (p_funcs P)) * 10000 + Z.of_nat (length inside) * 100 + Z.of_nat (length active))%Z
  | None => 0%Z
  end.
