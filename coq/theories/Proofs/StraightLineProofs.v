(** * C01 for straight-line functions: declarations and assignments of scalar variables followed by [return e].
    Composition of the lowering theorem ([straight_function_correct]), the elaboration theorem
    ([simple_body_preserved]), the constant-table facts and the call agreement. *)
From Coq Require Import String ZArith List Bool PrimFloat Arith Lia.
From NSL Require Import Base.Types Base.Syntax Spec.Overload Model.PyNum Model.IR Model.VM Model.TypesBin Model.Elab Model.Lower Spec.RefSem
                        Proofs.OpsAgree Proofs.OptProofs Proofs.LowerExprProofs Proofs.ElabExprProofs Proofs.ReturnExprProofs Proofs.CallAgreeProofs
                        Proofs.LowerStmtProofs Proofs.ElabStmtProofs.
Import ListNotations.

Section Table.
  Variable structs : list sdef.
  Variable gl args : list string.
  Variable L : list float.

  Definition present (cs : list (nat * irty * cval)) (te : texpr) : Prop :=
    (forall z, In z (tilits te) -> exists c, const_lookup cs (ITInt false) (KInt z) = Some c) /\
    (forall f, In f (tflits te) -> exists c, const_lookup cs ITFloat (KFloat f) = Some c).
  Lemma present_app cs more te : present cs te -> present (cs ++ more) te.
  Proof. intros [H1 H2]. split; intros q Hq; [destruct (H1 q Hq) as [c Hc]|destruct (H2 q Hq) as [c Hc]]; exists c; apply find_app_some; exact Hc. Qed.

  Lemma lower_simple_table : forall s st st', simple s = true -> linv st -> lower_stmt structs gl args s st = LOk st' ->
    table_ok L (l_consts st) -> (forall te, In te (stexprs s) -> incl (tflits te) L) ->
    linv st' /\ table_ok L (l_consts st') /\ (exists new, l_consts st' = l_consts st ++ new) /\ forall te, In te (stexprs s) -> present (l_consts st') te.
  Proof.
    intros s st st' Hs I H Ht Hin. destruct s as [t x init|e| | | | | | | | ]; try discriminate.
    - destruct t as [[c| |]| | |]; try discriminate. cbn [lower_stmt] in H. unfold lower_decl in H.
      pose proof (register_local_inv st x I) as I0.
      match type of H with context [emit ?s0 ?t ?b] => destruct (emit s0 t b) as [st1 r1] eqn:E1 end.
      destruct (emit_spec _ _ _ _ _ I0 E1) as (I1 & _ & Hcs1 & _). cbn [register_local l_consts] in Hcs1.
      destruct init as [e|].
      + cbn [simple] in Hs. cbn [lbind] in H.
        destruct (lower_expr structs gl args e st1) as [[v st2]| |] eqn:Ee; cbn [lbind] in H; try discriminate.
        match type of H with context [emit st2 ?t ?b] => destruct (emit st2 t b) as [st3 r3] eqn:E3 end. inversion H; subst st'; clear H.
        destruct (lower_table structs gl args L e st1 v st2 Hs I1 Ee) as (I2 & Ht2 & (new2 & Hn2) & Hpi & Hpf).
        { rewrite Hcs1. exact Ht. }
        { apply Hin. left. reflexivity. }
        destruct (emit_spec _ _ _ _ _ I2 E3) as (I3 & _ & Hcs3 & _).
        split; [exact I3|]. rewrite Hcs3. split; [exact Ht2|]. split; [exists new2; rewrite Hn2, Hcs1; reflexivity|].
        intros te [<-|[]]. split; assumption.
      + inversion H; subst st'. split; [exact I1|]. rewrite Hcs1. split; [exact Ht|]. split; [exists []; rewrite app_nil_r; reflexivity|]. intros te [].
    - destruct e as [| | | | |l r0| | | | |]; try discriminate. destruct l as [| |x t| | | | | | | |]; try discriminate.
      destruct t as [[c| |]| | |]; try discriminate. cbn [simple] in Hs. cbn [lower_stmt lower_expr lbind] in H.
      destruct (lower_expr structs gl args r0 st) as [[v st1]| |] eqn:Ee; cbn [lbind] in H; try discriminate.
      destruct (scope_of gl args st1 x) as [sc| |] eqn:Esc; cbn [lbind] in H; try discriminate.
      match type of H with context [emit st1 ?t ?b] => destruct (emit st1 t b) as [st2 r2] eqn:E2 end. cbn [lbind snd] in H. inversion H; subst st'; clear H.
      destruct (lower_table structs gl args L r0 st v st1 Hs I Ee Ht) as (I1 & Ht1 & (new1 & Hn1) & Hpi & Hpf).
      { apply Hin. left. reflexivity. }
      destruct (emit_spec _ _ _ _ _ I1 E2) as (I2 & _ & Hcs2 & _).
      split; [exact I2|]. rewrite Hcs2. split; [exact Ht1|]. split; [exists new1; exact Hn1|]. intros te [<-|[]]. split; assumption.
  Qed.

  Lemma lower_body_table : forall l st st', forallb simple l = true -> linv st -> lower_body structs gl args l st = LOk st' ->
    table_ok L (l_consts st) -> (forall te, In te (body_exprs l) -> incl (tflits te) L) ->
    linv st' /\ table_ok L (l_consts st') /\ (exists new, l_consts st' = l_consts st ++ new) /\ forall te, In te (body_exprs l) -> present (l_consts st') te.
  Proof.
    induction l as [|s r IH]; intros st st' Hs I H Ht Hin.
    - cbn in H. inversion H; subst. split; [exact I|]. split; [exact Ht|]. split; [exists []; rewrite app_nil_r; reflexivity|]. intros te [].
    - cbn [forallb] in Hs. apply andb_prop in Hs as [Hs1 Hsr]. cbn [lower_body lbind] in H.
      destruct (lower_stmt structs gl args s st) as [st1| |] eqn:E1; cbn [lbind] in H; try discriminate.
      destruct (lower_simple_table s st st1 Hs1 I E1 Ht) as (I1 & Ht1 & (new1 & Hn1) & Hp1).
      { intros te Hte. apply Hin. unfold body_exprs. cbn [flat_map]. apply in_or_app. left. exact Hte. }
      destruct (IH st1 st' Hsr I1 H Ht1) as (I2 & Ht2 & (new2 & Hn2) & Hp2).
      { intros te Hte. apply Hin. unfold body_exprs. cbn [flat_map]. apply in_or_app. right. exact Hte. }
      split; [exact I2|]. split; [exact Ht2|]. split; [exists (new1 ++ new2); rewrite Hn2, Hn1, app_assoc; reflexivity|].
      intros te Hte. unfold body_exprs in Hte. cbn [flat_map] in Hte. apply in_app_or in Hte as [Hte|Hte]; [|apply Hp2; exact Hte].
      rewrite Hn2. apply present_app. apply Hp1. exact Hte.
  Qed.
End Table.

Lemma lower_func_straight_inv structs gl (f : tfunc) tl te F :
  tf_body f = tl ++ [TRet (Some te)] -> lower_func structs gl f = LOk F ->
  exists st1 r st2, lower_body structs gl (map snd (tf_args f)) tl lstate0 = LOk st1 /\
                    lower_expr structs gl (map snd (tf_args f)) te st1 = LOk (r, st2) /\ fn_consts F = l_consts st2.
Proof.
  intros Hbody Hlow. unfold lower_func in Hlow. rewrite Hbody in Hlow. fold lstate0 in Hlow. rewrite lower_body_app in Hlow.
  destruct (lower_body structs gl (map snd (tf_args f)) tl lstate0) as [st1| |] eqn:E1; cbn [lbind] in Hlow; try discriminate.
  cbn [lower_body lower_stmt lower_opt lbind] in Hlow.
  destruct (lower_expr structs gl (map snd (tf_args f)) te st1) as [[r st2]| |] eqn:El; cbn [lbind fst snd] in Hlow; try discriminate.
  match type of Hlow with context [emit st2 ?t ?bd] => destruct (emit st2 t bd) as [st3 ref] eqn:Ee end. cbn [lbind] in Hlow.
  inversion Hlow; subst F; clear Hlow. exists st1, r, st2. split; [reflexivity|]. split; [exact El|]. cbn [fn_consts end_block l_consts].
  unfold emit, emit_raw in Ee. inversion Ee; subst. cbn. destruct (l_newblock st2); reflexivity.
Qed.

(** every literal of the function is present in its constant table and read back exactly *)
Lemma function_lits_ok structs gl (f : tfunc) tl te F :
  tf_body f = tl ++ [TRet (Some te)] -> forallb simple tl = true -> tpure te = true -> lower_func structs gl f = LOk F ->
  let L := flat_map tflits (body_exprs tl ++ [te]) in
  lits_exact L -> (forall q, In q L -> PrimFloat.eqb q q = true) ->
  forall x, In x (body_exprs tl ++ [te]) -> lit_ok (fn_consts F) x.
Proof.
  intros Hbody Hs Hp Hlow L Hex Hnan x Hx.
  destruct (lower_func_straight_inv structs gl f tl te F Hbody Hlow) as (st1 & r & st2 & E1 & E2 & Hcs).
  assert (HinL : forall y, In y (body_exprs tl ++ [te]) -> incl (tflits y) L).
  { intros y Hy q Hq. unfold L. apply in_flat_map. exists y. split; assumption. }
  destruct (lower_body_table structs gl (map snd (tf_args f)) L tl lstate0 st1 Hs linv0 E1) as (I1 & Ht1 & (new1 & Hn1) & Hp1).
  { intros c []. }
  { intros y Hy. apply HinL. apply in_or_app. left. exact Hy. }
  destruct (lower_table structs gl (map snd (tf_args f)) L te st1 r st2 Hp I1 E2 Ht1) as (I2 & Ht2 & (new2 & Hn2) & Hpi & Hpf).
  { apply HinL. apply in_or_app. right. left. reflexivity. }
  assert (Hpres : present (fn_consts F) x).
  { rewrite Hcs. apply in_app_or in Hx as [Hx|[<-|[]]]; [rewrite Hn2; apply present_app; apply Hp1; exact Hx|split; assumption]. }
  destruct Hpres as [Hpi' Hpf']. rewrite Hcs in *. split.
  - intros z Hz. destruct (Hpi' z Hz) as [c Hc]. exists c. split; [exact Hc|apply (lookup_exact_int L _ _ _ Ht2 Hc)].
  - intros q Hq. assert (HqL : In q L) by (apply (HinL x Hx); exact Hq). split; [|apply Hnan; exact HqL].
    destruct (Hpf' q Hq) as [c Hc]. exists c. split; [exact Hc|apply (lookup_exact_float L _ _ _ Ht2 Hex HqL Hc)].
Qed.

(** ** static facts: the elaborated body of a simple source body is simple (needs only the types of the visible names) *)
Section Static.
  Variable G : genv.
  Definition env_num (env : tenv) : Prop := forall x t, tlookup env x = Some t -> num_ty t.

  Lemma elab_numty_static env : env_num env -> forall e te, spure e = true -> elab G COn env e = EOk te -> num_ty (type_of te).
  Proof.
    intros Hn. induction e as [z|f|x|o l IHl r IHr| | | | | | | ]; intros te Hs He; try discriminate.
    - cbn in He. inversion He; subst. left; reflexivity.
    - cbn in He. inversion He; subst. right; reflexivity.
    - cbn in He. destruct (tlookup env x) as [t|] eqn:Et; [|discriminate]. inversion He; subst. apply (Hn x t Et).
    - cbn [spure] in Hs. apply andb_prop in Hs as [Hsl Hsr]. cbn [elab kids ebind] in He.
      destruct (elab G COn env l) as [l'| |] eqn:El; cbn [ebind] in He; try discriminate.
      destruct (elab G COn env r) as [r'| |] eqn:Er; cbn [ebind] in He; try discriminate.
      destruct (num_ty_cases _ (IHl _ Hsl eq_refl)) as (cl & Hl & Hcl). destruct (num_ty_cases _ (IHr _ Hsr eq_refl)) as (cr & Hr & Hcr).
      rewrite Hl, Hr in He. rewrite (resolve_scalar o cl cr Hcl Hcr) in He. cbn [is_scalar andb self_on] in He. inversion He; subst. cbn [type_of].
      destruct (common_num cl cr Hcl Hcr) as [[E|E] _]; destruct (is_comparison o); rewrite ?E; unfold num_ty, tint, tfloat; auto.
  Qed.

  Lemma elab_tpure_static env : env_num env -> forall e te, spure e = true -> elab G COn env e = EOk te ->
    (forall f, In f (tflits te) -> PrimFloat.eqb f f = true) -> tpure te = true.
  Proof.
    intros Hn. induction e as [z|f|x|o l IHl r IHr| | | | | | | ]; intros te Hs He Hnan; try discriminate.
    - cbn in He. inversion He; reflexivity.
    - cbn in He. inversion He; subst. cbn. apply Hnan. left. reflexivity.
    - cbn in He. destruct (tlookup env x) as [t|] eqn:Et; [|discriminate]. inversion He; subst. destruct (Hn x t Et) as [-> | ->]; reflexivity.
    - cbn [spure] in Hs. apply andb_prop in Hs as [Hsl Hsr]. cbn [elab kids ebind] in He.
      destruct (elab G COn env l) as [l'| |] eqn:El; cbn [ebind] in He; try discriminate.
      destruct (elab G COn env r) as [r'| |] eqn:Er; cbn [ebind] in He; try discriminate.
      destruct (num_ty_cases _ (elab_numty_static env Hn l l' Hsl El)) as (cl & Hl & Hcl). destruct (num_ty_cases _ (elab_numty_static env Hn r r' Hsr Er)) as (cr & Hr & Hcr).
      rewrite Hl, Hr in He. rewrite (resolve_scalar o cl cr Hcl Hcr) in He. cbn [is_scalar andb self_on] in He. inversion He; subst te; clear He.
      cbn [tflits] in Hnan. rewrite !tflits_cast_to in Hnan.
      assert (Hpl : tpure l' = true) by (apply (IHl l' Hsl eq_refl); intros f Hf; apply Hnan; apply in_or_app; left; exact Hf).
      assert (Hpr : tpure r' = true) by (apply (IHr r' Hsr eq_refl); intros f Hf; apply Hnan; apply in_or_app; right; exact Hf).
      destruct (is_comparison o); cbn [tpure]; rewrite !tpure_cast_to by assumption; reflexivity.
  Qed.

  Lemma env_num_declare env x t : env_num env -> num_ty t -> env_num (tdeclare env x t).
  Proof.
    intros Hn Ht y t' Hy. destruct (String.eqb_spec y x) as [->|Hne].
    - rewrite tlookup_tdeclare_same in Hy. inversion Hy; subst. exact Ht.
    - rewrite (tlookup_tdeclare_other _ _ _ _ Hne) in Hy. apply (Hn y t' Hy).
  Qed.

  Lemma elab_stmt_simple_static_0 env s ts env' : env_num env -> ssimple0 s = true -> elab_stmt G env s = EOk (ts, env') ->
    (forall x, In x (stexprs ts) -> forall f, In f (tflits x) -> PrimFloat.eqb f f = true) -> simple ts = true /\ env_num env'.
  Proof.
    intros Hn Hs He Hnan. destruct s as [t x init|e| | | | | | | |]; try discriminate.
    - cbn [elab_stmt] in He. destruct init as [e|].
      + cbn [ssimple0] in Hs. apply andb_prop in Hs as [Hnt Hp]. pose proof (num_ty_b_sound _ Hnt) as Hnum. destruct (num_ty_cases _ Hnum) as (c & -> & Hc).
        cbn [elab_opt ebind] in He. destruct (elab G COn (tdeclare env x (TPrim (PScalar c))) e) as [te| |] eqn:Ee; cbn [ebind] in He; try discriminate.
        destruct (ty_eqb (type_of te) (TPrim (PScalar c))); [|discriminate]. inversion He; subst ts env'; clear He.
        pose proof (env_num_declare env x _ Hn Hnum) as Hn'. split; [|exact Hn'].
        cbn [simple]. apply (elab_tpure_static _ Hn' e te Hp Ee). intros f Hf. apply (Hnan te (or_introl eq_refl) f Hf).
      + cbn [ssimple0] in Hs. pose proof (num_ty_b_sound _ Hs) as Hnum. destruct (num_ty_cases _ Hnum) as (c & -> & Hc).
        cbn [elab_opt ebind] in He. inversion He; subst ts env'. split; [reflexivity|apply env_num_declare; assumption].
    - destruct e as [| | | |o l r| | | | | |]; try discriminate. destruct o; try discriminate. destruct l as [| |x| | | | | | | |]; try discriminate.
      cbn [ssimple0] in Hs. cbn [elab_stmt ebind] in He.
      destruct (elab G COn env (EAssign AAssign (EVar x) r)) as [e'| |] eqn:Ee; cbn [ebind] in He; try discriminate. inversion He; subst ts env'; clear He.
      cbn [elab kids ebind aop_op] in Ee. destruct (tlookup env x) as [t|] eqn:Etx; cbn [ebind] in Ee; try discriminate.
      destruct (elab G COn env r) as [te| |] eqn:Er; cbn [ebind] in Ee; try discriminate.
      cbn [type_of] in Ee. destruct (ty_eqb t (type_of te) && is_scalar_ty t) eqn:Ec; [|discriminate]. inversion Ee; subst e'; clear Ee.
      split; [|exact Hn]. destruct (num_ty_cases _ (Hn x t Etx)) as (c & -> & _). cbn [simple].
      apply (elab_tpure_static _ Hn r te Hs Er). intros f Hf. apply (Hnan te (or_introl eq_refl) f Hf).
  Qed.

  Lemma elab_stmt_simple_static env s ts env' : env_num env -> ssimple s = true -> elab_stmt G env s = EOk (ts, env') ->
    (forall x, In x (stexprs ts) -> forall f, In f (tflits x) -> PrimFloat.eqb f f = true) -> simple ts = true /\ env_num env'.
  Proof. intros Hn Hs He Hnan. rewrite desugar_elab in He. exact (elab_stmt_simple_static_0 env (desugar s) ts env' Hn Hs He Hnan). Qed.

  Lemma elab_body_simple_static : forall l env e tl te, env_num env -> forallb ssimple l = true -> spure e = true ->
    elab_body G env (l ++ [SRet (Some e)]) = EOk (tl ++ [TRet (Some te)]) -> length tl = length l ->
    (forall x, In x (body_exprs tl ++ [te]) -> forall f, In f (tflits x) -> PrimFloat.eqb f f = true) ->
    forallb simple tl = true /\ tpure te = true.
  Proof.
    induction l as [|s r IH]; intros env e tl te Hn Hs Hp He Hlen Hnan.
    - destruct tl; [|discriminate]. cbn [app] in *. cbn [elab_body elab_stmt elab_opt ebind] in He.
      destruct (elab G COn env e) as [te'| |] eqn:Ee; cbn [ebind elab_body] in He; try discriminate. inversion He; subst te'.
      split; [reflexivity|]. apply (elab_tpure_static env Hn e te Hp Ee). intros f Hf. apply (Hnan te (or_introl eq_refl) f Hf).
    - destruct tl as [|ts tl]; [discriminate|]. cbn [app] in *. cbn [elab_body] in He.
      destruct (elab_stmt G env s) as [[ts' env']| |] eqn:Es; cbn [ebind] in He; try discriminate.
      destruct (elab_body G env' (r ++ [SRet (Some e)])) as [tb'| |] eqn:Er; cbn [ebind] in He; try discriminate. inversion He; subst ts' tb'; clear He.
      cbn [forallb] in Hs. apply andb_prop in Hs as [Hs1 Hsr].
      destruct (elab_stmt_simple_static env s ts env' Hn Hs1 Es) as [Hsim Hn'].
      { intros x Hx f Hf. apply (Hnan x); [|exact Hf]. unfold body_exprs. cbn [flat_map]. apply in_or_app. left. apply in_or_app. left. exact Hx. }
      destruct (IH env' e tl te Hn' Hsr Hp Er) as [Hsim' Hpt]; auto.
      { intros x Hx f Hf. apply (Hnan x); [|exact Hf]. unfold body_exprs in *. cbn [flat_map]. rewrite <- app_assoc. apply in_or_app. right. exact Hx. }
      split; [cbn [forallb]; rewrite Hsim, Hsim'; reflexivity|exact Hpt].
  Qed.
End Static.

(** ** the function-level statement *)
Theorem straight_line_function_simulation :
  forall (M : module) (fn : func) (l : list stmt) (e : expr) (tf : tfunc) (F : ifunc),
    f_body fn = l ++ [SRet (Some e)] -> forallb ssimple l = true -> spure e = true ->
    elab_func (genv_of M) (genvl M) fn = EOk tf -> lower_func (m_structs M) (glnames M) tf = LOk F ->
    forall tl te, tf_body tf = tl ++ [TRet (Some te)] -> length tl = length l ->
    forallb stok tl = true -> tok te = true ->
    lits_exact (flat_map tflits (body_exprs tl ++ [te])) -> (forall q, In q (flat_map tflits (body_exprs tl ++ [te])) -> PrimFloat.eqb q q = true) ->
    Forall (fresh_decl (glnames M) (argnames fn)) l ->
    forall (P : program) (ws : list rval) (g : RefSem.frame) (vs : vmstate),
      Forall2 (fun p w => has_ty w (fst p)) (f_args fn) ws ->
      (forall x, In x (map snd (f_args fn)) -> ~ In x (glnames M)) ->
      (forall x p, find (fun q => String.eqb (fst q) x) (genvl M) = Some p ->
         num_ty (snd p) /\ exists w, find (fun q => String.eqb (fst q) x) g = Some (fst p, SV w) /\ has_ty w (snd p) /\ slookup x (globals vs) = Some (v_of w)) ->
      forall fuel fl st', exec_list M fuel (f_body fn) (call_state fn ws g) = RefSem.ROk (fl, st') ->
        exists v vs', fl = OReturn (SV v) /\
          (exists n, forall fuel', n <= fuel' -> run fuel' P F 0 (call_frame ws (init_regs F)) vs = Done (v_of v) vs') /\
          exists locals' V' A', Agree (glnames M) (argnames fn) (env_after (fenv M fn) l) st' locals' V' A' vs'.
Proof.
  intros M fn l e tf F Hbody Hs Hp Helab Hlower tl te Htb Hlen Hk Hkt Hlit Hnan Hfr P ws g vs Hargs Hdist Hglob fuel fl st' Hex.
  (* the elaborated function *)
  unfold elab_func in Helab. rewrite Hbody in Helab. fold (fenv M fn) in Helab.
  destruct (elab_body (genv_of M) (fenv M fn) (l ++ [SRet (Some e)])) as [tb| |] eqn:Eb; cbn [ebind] in Helab; try discriminate.
  inversion Helab; subst tf; clear Helab. cbn [tf_body tf_args] in *. subst tb.
  (* agreement at the call *)
  pose proof (call_agreement M fn ws g vs [] Hargs Hdist Hglob) as Hag0.
  assert (Hn0 : env_num (fenv M fn)) by (intros x t Hx; apply (Hag0 x t Hx)).
  (* static simplicity, then the table facts *)
  destruct (elab_body_simple_static (genv_of M) l (fenv M fn) e tl te Hn0 Hs Hp Eb Hlen) as [Hsim Hpt].
  { intros x Hx f Hf. apply Hnan. apply in_flat_map. exists x. split; assumption. }
  set (tf := {| tf_name := if f_export fn then f_name fn else mangle (f_name fn) (f_ret fn) (map fst (f_args fn)); tf_args := f_args fn; tf_ret := f_ret fn; tf_body := tl ++ [TRet (Some te)] |}) in *.
  pose proof (function_lits_ok (m_structs M) (glnames M) tf tl te F eq_refl Hsim Hpt Hlower Hlit Hnan) as Hlits.
  (* the reference run against texec *)
  rewrite Hbody in Hex.
  destruct (simple_body_preserved M (genv_of M) (m_structs M) (glnames M) (argnames fn) (fn_consts F) l (fenv M fn) e tl te fuel (call_state fn ws g) fl st' [] [] (map v_of ws) vs
              Hs Hp Eb Hlen Hk Hkt) as (_ & _ & locals' & V' & A' & vs' & v & Ht & Hv & Hfl & Hag1); auto.
  { intros x Hx. apply Hlits. apply in_or_app. left. exact Hx. }
  { apply Hlits. apply in_or_app. right. left. reflexivity. }
  exists v, vs'. split; [exact Hfl|]. split.
  - exact (straight_function_correct (m_structs M) (glnames M) tf tl te F eq_refl Hsim Hpt Hlower P (map v_of ws) vs locals' V' A' vs' (v_of v) Ht Hv).
  - exists locals', V', A'. exact Hag1.
Qed.
