(** * C07 -- Every emitted WebAssembly binary is well-formed and valid. *)
From Coq Require Import String ZArith List Bool.
From NSL Require Import Model.IR Spec.Wasm Model.WasmGen Proofs.WasmProofs Proofs.WasmGenProofs.
From NSLDyn Require Gen_Shapes.
Import ListNotations.

(** Stack typing composes: a body built by concatenating instruction groups each of which type-checks from a stack to a
    stack type-checks as a whole -- the fact that lets the per-instruction lemmas below cover bodies of any length. *)
Theorem C07_check_app : forall locals results is1 is2 s,
  check_instrs locals results (is1 ++ is2) s =
  match check_instrs locals results is1 s with Some s1 => check_instrs locals results is2 s1 | None => None end.
Proof. exact check_instrs_app. Qed.

(** The group the generator emits for one binary IR instruction -- push a, push b, operate, local.set r -- maps the
    empty stack to the empty stack whenever the locals holding a, b and r have the types the IR gives them; likewise
    for the argument load (local.get i; local.set r). *)
Theorem C07_binary_group_valid : forall locals results (pa pb : instr) ta r op,
  push_type locals pa = Some ta -> push_type locals pb = Some ta ->
  op_types op = Some (ta, result_type op ta) -> nth_error locals r = Some (result_type op ta) ->
  check_instrs locals results [pa; pb; op; LocalSet r] {| vs_types := []; vs_poly := false |} = Some {| vs_types := []; vs_poly := false |}.
Proof. exact binary_group_valid. Qed.

Theorem C07_load_group_valid : forall locals results i r t,
  nth_error locals i = Some t -> nth_error locals r = Some t ->
  check_instrs locals results [LocalGet i; LocalSet r] {| vs_types := []; vs_poly := false |} = Some {| vs_types := []; vs_poly := false |}.
Proof. exact load_group_valid. Qed.

(** A body made of such groups followed by (push v; return) with v of the result type is valid for the signature. *)
Theorem C07_straight_line_body_valid : forall ft ls groups pv t,
  ft_results ft = [t] ->
  Forall (fun g => check_instrs (ft_params ft ++ ls) [t] g {| vs_types := []; vs_poly := false |} = Some {| vs_types := []; vs_poly := false |}) groups ->
  push_type (ft_params ft ++ ls) pv = Some t ->
  check_body ft ls (concat groups ++ [pv; Return]) = true.
Proof. exact straight_line_body_valid. Qed.

(** The generator as a function of the IR (Model.WasmGen, compared for equality with the decoded binary of the real
    compiler on every run): whatever it emits for an IR function whose instructions are typed (operands of one type,
    result type following the operator; checked on the real IR) is a valid body for the emitted signature -- for
    functions of any length, any number of parameters and locals of mixed type, any constants, any number of returns. *)
Theorem C07_generated_function_valid : forall F ft ls body,
  gen_function F = Some (ft, ls, body) -> ir_typed_b F = true -> check_body ft ls body = true.
Proof. exact gen_function_valid. Qed.

(** Full statement (PARTIAL): every module the compiler emits decodes and validates.  The theorems above are the typing
    part for bodies of any length; that the emitted sections decode with exact lengths rests on C19's round-trip
    theorems (integers, names, section framing) and on the per-binary check below: every emitted binary is decoded and
    validated inside Coq by [valid_binary] and independently by V8. *)
Definition C07_full_statement : Prop := forall (emitted : bytes), valid_binary emitted = 0%Z.

Theorem C07_writer_shape : Gen_Shapes.shape_wasm_writer_checked = true /\ Gen_Shapes.shape_wasm_generator_checked = true.
Proof. split; reflexivity. Qed.

Eval compute in "ASSUMPTIONS C07_generated_function_valid"%string. Print Assumptions C07_generated_function_valid.
Eval compute in "ASSUMPTIONS C07_straight_line_body_valid"%string. Print Assumptions C07_straight_line_body_valid.
Eval compute in "ASSUMPTIONS C07_binary_group_valid"%string. Print Assumptions C07_binary_group_valid.
Eval compute in "END"%string.
