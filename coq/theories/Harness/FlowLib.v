(** Boolean test of the hypotheses of [flow_function_correct] (C01, conditionals), evaluated on generated functions. *)
From Coq Require Import String ZArith List Bool PrimFloat Arith.
From NSL Require Import Base.Types Base.Syntax Model.PyNum Model.IR Model.VM Model.Elab Model.Lower Spec.RefSem
                        Proofs.LowerExprProofs Proofs.LowerStmtProofs Proofs.ReturnExprProofs Proofs.FlowLowerProofs Proofs.FlowFuncProofs Harness.FragLib Harness.FragLib2.
Import ListNotations.

Definition flow_depth : nat := 12.

Definition flow_static (M : module) (fn : func) : option (tfunc * ifunc * list tstmt * texpr) :=
  match elab_func (genv_of M) (genvl M) fn with
  | EOk tf =>
      match split_last_s (tf_body tf), lower_func (m_structs M) (glnames M) tf with
      | Some (tl, TRet (Some te)), LOk F => Some (tf, F, tl, te)
      | _, _ => None
      end
  | _ => None
  end.

Definition flow_in_fragment (M : module) (fn : func) : bool :=
  match flow_static M fn with
  | Some (tf, F, tl, te) => forallb (top_ok flow_depth) tl && tpure te
  | None => false
  end.

Fixpoint has_if (n : nat) (s : tstmt) : bool :=
  match n with O => false | S m => match s with TIf _ _ _ => true | TBlock l => existsb (has_if m) l | _ => false end end.

Lemma flow_in_fragment_sound M fn : flow_in_fragment M fn = true ->
  exists tf F tl te, elab_func (genv_of M) (genvl M) fn = EOk tf /\ lower_func (m_structs M) (glnames M) tf = LOk F /\
                     tf_body tf = tl ++ [TRet (Some te)] /\ forallb (top_ok flow_depth) tl = true /\ tpure te = true.
Proof.
  unfold flow_in_fragment, flow_static. intros H.
  destruct (elab_func (genv_of M) (genvl M) fn) as [tf| |] eqn:Ef; try discriminate.
  destruct (split_last_s (tf_body tf)) as [[tl [| | |[te|]| | | | | |]]|] eqn:Et; try discriminate. apply split_last_s_spec in Et.
  destruct (lower_func (m_structs M) (glnames M) tf) as [F| |] eqn:El; try discriminate.
  apply andb_prop in H as [H1 H2]. exists tf, F, tl, te. auto.
Qed.

(** 10000 * functions + 100 * inside the fragment + those among them that contain a conditional *)
Definition flow_case (M : module) : Z :=
  let inside := filter (flow_in_fragment M) (m_funcs M) in
  let withif := filter (fun fn => match flow_static M fn with Some (_, _, tl, _) => existsb (has_if flow_depth) tl | None => false end) inside in
  (Z.of_nat (length (m_funcs M)) * 10000 + Z.of_nat (length inside) * 100 + Z.of_nat (length withif))%Z.
