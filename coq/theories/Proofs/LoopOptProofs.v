(** * C02 with C01: a source function with conditionals and while loops, lowered and then optimised by BOTH passes (constant casts folded,
    loads after stores forwarded), returns the value the reference semantics gives. *)
From Coq Require Import String ZArith List Bool PrimFloat Arith Lia.
From NSL Require Import Base.Types Base.Syntax Model.PyNum Model.IR Model.VM Model.Elab Model.Lower Model.Opt Spec.RefSem Proofs.OpsAgree
                        Proofs.LowerExprProofs Proofs.ElabExprProofs Proofs.ReturnExprProofs Proofs.CallAgreeProofs Proofs.LowerStmtProofs Proofs.ElabStmtProofs
                        Proofs.FlowFuncProofs Proofs.FlowElabProofs Proofs.FlowTableProofs Proofs.FlowSimProofs Proofs.LoopLowerProofs Proofs.LoopElabProofs Proofs.LoopSimProofs Proofs.ForwardProofs Proofs.ForwardFlowProofs
                        Proofs.ForwardFlowFailProofs Proofs.ConstCastFlowProofs Harness.FwdLib Harness.FwdFlowLib Harness.CCLib.
Import ListNotations.

Theorem loop_source_to_fully_optimised :
  forall (M : module) (fn : func) (n : nat) (l : list stmt) (e : expr) (tf : tfunc) (F : ifunc),
    f_body fn = l ++ [SRet (Some e)] -> forallb (wstop n) l = true -> spure e = true ->
    elab_func (genv_of M) (genvl M) fn = EOk tf -> lower_func (m_structs M) (glnames M) tf = LOk F ->
    forall tl te, tf_body tf = tl ++ [TRet (Some te)] -> length tl = length l ->
    forallb tok (flat_map (wtopexprs n) tl ++ [te]) = true ->
    lits_exact (flat_map tflits (flat_map (wtopexprs n) tl ++ [te])) -> (forall q, In q (flat_map tflits (flat_map (wtopexprs n) tl ++ [te])) -> PrimFloat.eqb q q = true) ->
    Forall (fresh_decl (glnames M) (argnames fn)) l -> fors_fresh (glnames M) (argnames fn) (fenv M fn) l ->
    forall T N, cc_hyps_b F T N = true -> vals_exact (fold_vals F (fn_consts F ++ N)) -> flow_hyps_b (cc_apply T (fn_consts F ++ N) F) = true ->
    let F'' := opt_load_after_store (cc_apply T (fn_consts F ++ N) F) in
    forall (P : program) (ws : list rval) (g : RefSem.frame) (vs : vmstate),
      Forall2 (fun p w => has_ty w (fst p)) (f_args fn) ws ->
      (forall x, In x (map snd (f_args fn)) -> ~ In x (glnames M)) ->
      (forall x p, find (fun q => String.eqb (fst q) x) (genvl M) = Some p ->
         num_ty (snd p) /\ exists w, find (fun q => String.eqb (fst q) x) g = Some (fst p, SV w) /\ has_ty w (snd p) /\ slookup x (globals vs) = Some (v_of w)) ->
      forall fuel fl st', exec_list M fuel (f_body fn) (call_state fn ws g) = RefSem.ROk (fl, st') ->
        exists v vs', fl = OReturn (SV v) /\
          exists K, run K P F'' 0 (call_frame ws (init_regs F'')) vs = Done (v_of v) vs'.
Proof.
  intros M fn n l e tf F Hbody Hs Hp Helab Hlower tl te Htb Hlen Hk Hlit Hnan Hfr Hff T N Hc Hx Hf F'' P ws g vs Hargs Hdist Hglob fuel fl st' Hex.
  destruct (loop_function_simulation M fn n l e tf F Hbody Hs Hp Helab Hlower tl te Htb Hlen Hk Hlit Hnan Hfr Hff P ws g vs Hargs Hdist Hglob fuel fl st' Hex)
    as (v & vs' & Hfl & (K & Hrun) & _).
  exists v, vs'. split; [exact Hfl|].
  exact (optimiser_check_sound P F T N Hc Hx Hf K (map v_of ws) vs (Done (v_of v) vs') (Hrun K (le_n K)) Logic.I).
Qed.
