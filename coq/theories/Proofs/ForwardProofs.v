(** * C02: forwarding a stored value to the load that directly follows the store is sound on straight-line code.
    For every instruction list without branches (any mix of loads, stores, arithmetic, casts, element and member
    accesses, shuffles, constructors, declarations), with distinct references and operands defined earlier: if the
    list runs on the VM model from a state to a state, then the list [OptimizeLoadAfterStore] produces from it -- the
    forwarded loads removed, every use renamed -- runs from the same state to a state with the same variables, arguments,
    globals and heap, and the same value in every register that was not removed. *)
From Coq Require Import String ZArith List Bool PrimFloat Arith Lia.
From NSL Require Import Model.PyNum Model.IR Model.VM Model.WfIR Model.Lower Model.Opt Proofs.WfIRProofs Proofs.OptProofs.
Import ListNotations.

Inductive sruns (F : ifunc) : nat -> list instr -> frame -> vmstate -> frame -> vmstate -> Prop :=
  | sruns_nil pc fr vs : sruns F pc [] fr vs fr vs
  | sruns_cons pc i r fr vs fr1 vs1 fr2 vs2 :
      step F pc fr vs i = StNext (S pc) fr1 vs1 -> sruns F (S pc) r fr1 vs1 fr2 vs2 -> sruns F pc (i :: r) fr vs fr2 vs2.

Definition is_branch (i : instr) : bool := match i_body i with IBranch _ _ _ => true | _ => false end.
Definition keys (m : list (nat * nat)) : list nat := map fst m.
Definition targets (m : list (nat * nat)) : list nat := map snd m.

(** [D]: registers whose value in the optimised run is unknown (loads removed from other blocks, or from an earlier
    execution of this block); they are never read before they are written again *)
Record Inv (m : list (nat * nat)) (D : list nat) (fo fp : frame) : Prop := {
  inv_vars : vars fp = vars fo;
  inv_fargs : fargs fp = fargs fo;
  inv_same : forall r, ~ In r (keys m) -> ~ In r D -> rlookup r (regs fp) = rlookup r (regs fo);
  inv_fwd : forall r, In r (keys m) -> rlookup r (regs fo) = rlookup (subst_ref m r) (regs fo) /\ ~ In (subst_ref m r) (keys m) /\ ~ In (subst_ref m r) D }.

Lemma subst_ref_notin m r : ~ In r (keys m) -> subst_ref m r = r.
Proof.
  unfold subst_ref, keys. induction m as [|[k v] m IH]; cbn; intros H; [reflexivity|].
  destruct (Nat.eqb_spec k r); [exfalso; apply H; left; assumption|]. apply IH. intro; apply H; right; assumption.
Qed.
Lemma subst_ref_in m r : In r (keys m) -> In (subst_ref m r) (targets m).
Proof.
  unfold subst_ref, keys, targets. induction m as [|[k v] m IH]; cbn; intros H; [destruct H|].
  destruct (Nat.eqb_spec k r); [left; reflexivity|]. right. apply IH. destruct H; [contradiction|assumption].
Qed.

Definition readable (m : list (nat * nat)) (D : list nat) (r : nat) : Prop := In r (keys m) \/ ~ In r D.
Lemma subst_lookup m D fo fp r : Inv m D fo fp -> readable m D r -> rlookup (subst_ref m r) (regs fp) = rlookup r (regs fo).
Proof.
  intros I Hr. destruct (in_dec Nat.eq_dec r (keys m)) as [Hin|Hn].
  - destruct (inv_fwd _ _ _ _ I r Hin) as (H1 & H2 & H3). rewrite (inv_same _ _ _ _ I _ H2 H3). symmetry. exact H1.
  - rewrite (subst_ref_notin _ _ Hn). destruct Hr as [Hr|Hr]; [contradiction|]. apply (inv_same _ _ _ _ I _ Hn Hr).
Qed.
Lemma rget_subst m D fo fp r : Inv m D fo fp -> readable m D r -> rget fp (subst_ref m r) = rget fo r.
Proof. intros I Hr. unfold rget. rewrite (subst_lookup m D fo fp r I Hr). reflexivity. Qed.

Lemma Inv_rset m D fo fp ref w : Inv m D fo fp -> ~ In ref (keys m) -> ~ In ref (targets m) -> Inv m D (rset fo ref w) (rset fp ref w).
Proof.
  intros I Hk Ht. constructor; cbn; try apply I.
  - intros r Hr HrD. destruct (Nat.eq_dec r ref) as [->|Hne]; [rewrite !rlookup_update_same; reflexivity|].
    rewrite !rlookup_update_other by exact Hne. apply (inv_same _ _ _ _ I _ Hr HrD).
  - intros r Hr. destruct (inv_fwd _ _ _ _ I r Hr) as [H1 H2]. split; [|exact H2].
    assert (r <> ref) by (intro; subst; contradiction).
    assert (subst_ref m r <> ref) by (intro E; apply Ht; rewrite <- E; apply subst_ref_in; exact Hr).
    rewrite !rlookup_update_other by assumption. exact H1.
Qed.
Lemma Inv_mem m D fo fp V A : Inv m D fo fp ->
  Inv m D {| regs := regs fo; vars := V; fargs := A |} {| regs := regs fp; vars := V; fargs := A |}.
Proof. intros I. constructor; cbn; try reflexivity; apply I. Qed.

Lemma map_res_subst m D fo fp (I : Inv m D fo fp) : forall l, (forall r, In r l -> readable m D r) ->
  map_res (fun rv => match rv with VInt r => rget fp (Z.to_nat r) | _ => Unmodelled end) (map (fun r => VInt (Z.of_nat r)) (map (subst_ref m) l)) =
  map_res (fun rv => match rv with VInt r => rget fo (Z.to_nat r) | _ => Unmodelled end) (map (fun r => VInt (Z.of_nat r)) l).
Proof. induction l as [|a l IH]; cbn; intros Hl; [reflexivity|]. rewrite !Nat2Z.id, (rget_subst m D fo fp a I (Hl a (or_introl eq_refl))), IH; [reflexivity|]. intros r Hr. apply Hl. right. exact Hr. Qed.

Ltac inv_done I Hk Ht :=
  first [ apply Inv_rset; [exact I|exact Hk|exact Ht]
        | apply (Inv_mem _ _ (rset _ _ _) (rset _ _ _)); apply Inv_rset; [exact I|exact Hk|exact Ht] ].

Lemma step_subst F F' pc pc' m D fo fp vs i fo1 vs1 :
  Inv m D fo fp -> is_branch i = false -> ~ In (i_ref i) (keys m) -> ~ In (i_ref i) (targets m) ->
  (forall o, In o (operands (i_body i)) -> readable m D o) ->
  step F pc fo vs i = StNext (S pc) fo1 vs1 ->
  exists fp1, step F' pc' fp vs (subst_instr m i) = StNext (S pc') fp1 vs1 /\ Inv m D fo1 fp1.
Proof.
  intros I Hb Hk Ht Hops H. unfold is_branch in Hb. unfold step in *. cbn [subst_instr i_body i_ref i_ty].
  destruct (i_body i) as [sc vn|sc vn src|k arr idx|arr idx src|k arr idx src|o mem|o mem src|a b ix|o a b|pred t f|rv|fn args|name|src|vals|opc] eqn:Eb;
    cbn [subst_body]; try discriminate; cbn [operands opt_list] in Hops;
    repeat match goal with |- context [rget fp (subst_ref m ?o)] => rewrite (rget_subst m D fo fp o I) by (apply Hops; cbn; auto) end;
    rewrite ?(inv_vars _ _ _ _ I), ?(inv_fargs _ _ _ _ I), ?(map_res_subst m D fo fp I _ Hops).
  - (* load *)
    destruct sc, vn as [x|n]; try discriminate.
    + destruct (slookup x (globals vs)); [|discriminate]. inversion H; subst. eexists; split; [reflexivity|inv_done I Hk Ht].
    + destruct (nth_error (fargs fo) n); [|discriminate]. inversion H; subst. eexists; split; [reflexivity|inv_done I Hk Ht].
    + destruct (slookup x (vars fo)); [|discriminate]. inversion H; subst. eexists; split; [reflexivity|inv_done I Hk Ht].
  - (* store *)
    destruct (rget fo src) as [w| |]; cbn [lift] in *; try discriminate.
    destruct sc, vn as [x|n]; try discriminate.
    + inversion H; subst. eexists; split; [reflexivity|inv_done I Hk Ht].
    + cbn [rset fargs vars regs] in *. rewrite ?(inv_vars _ _ _ _ I), ?(inv_fargs _ _ _ _ I).
      destruct (Nat.ltb n (length (fargs fo))); [|discriminate]. inversion H; subst. eexists; split; [reflexivity|].
      apply (Inv_mem _ _ (rset fo (i_ref i) w) (rset fp (i_ref i) w)). inv_done I Hk Ht.
    + cbn [rset fargs vars regs] in *. rewrite ?(inv_vars _ _ _ _ I), ?(inv_fargs _ _ _ _ I). inversion H; subst. eexists; split; [reflexivity|].
      apply (Inv_mem _ _ (rset fo (i_ref i) w) (rset fp (i_ref i) w)). inv_done I Hk Ht.
  - (* indexed load *)
    destruct (rget fo arr) as [av| |]; cbn [lift] in *; try discriminate. destruct (rget fo idx) as [iv| |]; cbn [lift] in *; try discriminate.
    destruct (py_getitem (hp vs) av iv) as [w| |]; cbn [lift] in *; try discriminate. inversion H; subst. eexists; split; [reflexivity|inv_done I Hk Ht].
  - (* array store *)
    destruct (rget fo src) as [w| |]; cbn [lift] in *; try discriminate. destruct (rget fo arr) as [av| |]; cbn [lift] in *; try discriminate.
    destruct (rget fo idx) as [iv| |]; cbn [lift] in *; try discriminate. destruct (py_setitem (hp vs) av iv w) as [h'| |]; cbn [lift] in *; try discriminate.
    inversion H; subst. eexists; split; [reflexivity|inv_done I Hk Ht].
  - (* vector / matrix set *)
    destruct (rget fo src) as [w| |]; cbn [lift] in *; try discriminate. destruct (rget fo arr) as [av| |]; cbn [lift] in *; try discriminate.
    destruct (deepcopy 8 (hp vs) av) as [[h1 c]| |]; cbn [lift] in *; try discriminate.
    destruct (rget fo idx) as [iv| |]; cbn [lift] in *; try discriminate. destruct (py_setitem h1 c iv w) as [h2| |]; cbn [lift] in *; try discriminate.
    inversion H; subst. eexists; split; [reflexivity|inv_done I Hk Ht].
  - (* member load *)
    destruct (rget fo o) as [ov| |]; cbn [lift] in *; try discriminate. destruct ov as [| | |ad]; try discriminate.
    destruct (hget (hp vs) ad) as [[l|d]|]; try discriminate. destruct (slookup mem d); [|discriminate]. inversion H; subst. eexists; split; [reflexivity|inv_done I Hk Ht].
  - (* member store *)
    destruct (rget fo o) as [ov| |]; cbn [lift] in *; try discriminate. destruct (rget fo src) as [w| |]; cbn [lift] in *; try discriminate.
    destruct ov as [| | |ad]; try discriminate. destruct (hget (hp vs) ad) as [[l|d]|]; try discriminate. inversion H; subst. eexists; split; [reflexivity|inv_done I Hk Ht].
  - (* shuffle *)
    destruct (rget fo a) as [av| |]; cbn [lift] in *; try discriminate. destruct (rget fo b) as [bv| |]; cbn [lift] in *; try discriminate.
    match type of H with context [lift ?x _] => destruct x as [l1| |]; cbn [lift] in *; try discriminate end.
    match type of H with context [lift ?x _] => destruct x as [l2| |]; cbn [lift] in *; try discriminate end.
    match type of H with context [lift ?x _] => destruct x as [out| |]; cbn [lift] in *; try discriminate end.
    destruct (ty_is_scalar (i_ty i)).
    + destruct out; [discriminate|]. inversion H; subst. eexists; split; [reflexivity|inv_done I Hk Ht].
    + destruct (alloc (hp vs) (OList out)) as [h1 ad]. inversion H; subst. eexists; split; [reflexivity|inv_done I Hk Ht].
  - (* binary *)
    destruct (rget fo a) as [av| |]; cbn [lift] in *; try discriminate. destruct (rget fo b) as [bv| |]; cbn [lift] in *; try discriminate.
    destruct (binary_op o (i_ty i) (hp vs) av bv) as [[h1 w]| |]; cbn [lift] in *; try discriminate. inversion H; subst. eexists; split; [reflexivity|inv_done I Hk Ht].
  - (* return *) destruct rv; [destruct (rget fo n); cbn [lift] in H; discriminate|discriminate].
  - (* call *) match type of H with context [lift ?x _] => destruct x; cbn [lift] in H; discriminate end.
  - (* new variable *)
    destruct (create_instance (i_ty i) (hp vs)) as [h1 w]. inversion H; subst. eexists; split; [reflexivity|].
    cbn [rset regs vars fargs]. rewrite ?(inv_vars _ _ _ _ I), ?(inv_fargs _ _ _ _ I).
    apply (Inv_rset m D {| regs := regs fo; vars := supdate name w (vars fo); fargs := fargs fo |} {| regs := regs fp; vars := supdate name w (vars fo); fargs := fargs fo |});
      [apply Inv_mem; exact I|exact Hk|exact Ht].
  - (* cast *)
    destruct (rget fo src) as [w| |]; cbn [lift] in *; try discriminate. destruct (negb (ty_is_primitive (i_ty i))); [discriminate|].
    match type of H with context [lift ?x _] => destruct x as [[h1 c]| |]; cbn [lift] in *; try discriminate end. inversion H; subst. eexists; split; [reflexivity|inv_done I Hk Ht].
  - (* construct *)
    match type of H with context [lift ?x _] => destruct x as [vs0| |]; cbn [lift] in *; try discriminate end.
    destruct (i_ty i); try discriminate.
    + destruct vs0 as [|v0 [|]]; try discriminate. inversion H; subst. eexists; split; [reflexivity|inv_done I Hk Ht].
    + destruct vs0 as [|v0 [|]]; try discriminate. inversion H; subst. eexists; split; [reflexivity|inv_done I Hk Ht].
    + match type of H with context [if ?c then _ else _] => destruct c; try discriminate end.
      match type of H with context [alloc ?h ?o] => destruct (alloc h o) as [h1 ad] end. inversion H; subst. eexists; split; [reflexivity|inv_done I Hk Ht].
    + match type of H with context [if ?c then _ else _] => destruct c; try discriminate end.
      match type of H with context [alloc ?h ?o] => destruct (alloc h o) as [h1 ad] end. inversion H; subst. eexists; split; [reflexivity|inv_done I Hk Ht].
Qed.

Lemma find_app_some' (m d : list (nat * nat)) q : In q (keys m) -> find (fun p => Nat.eqb (fst p) q) (m ++ d) = find (fun p => Nat.eqb (fst p) q) m.
Proof.
  unfold keys. induction m as [|[k v] m IH]; cbn; intros H; [destruct H|]. destruct (Nat.eqb_spec k q); [reflexivity|].
  apply IH. destruct H; [contradiction|assumption].
Qed.
Lemma find_app_none' (m d : list (nat * nat)) q : ~ In q (keys m) -> find (fun p => Nat.eqb (fst p) q) (m ++ d) = find (fun p => Nat.eqb (fst p) q) d.
Proof.
  unfold keys. induction m as [|[k v] m IH]; cbn; intros H; [reflexivity|]. destruct (Nat.eqb_spec k q); [exfalso; apply H; left; assumption|].
  apply IH. intro; apply H; right; assumption.
Qed.
Lemma rget_rset_eq fr r v : rget (rset fr r v) r = Ok v.
Proof. unfold rget, rset. cbn. rewrite rlookup_update_same. reflexivity. Qed.

(** ** the pass, emitting code as it scans *)
Definition forwardable (prev : option instr) (i : instr) : option nat :=
  match i_body i, prev with
  | ILoad _ v, Some p => match i_body p with IStore _ v' src => if var_eqb v' v then Some src else None | _ => None end
  | _, _ => None
  end.

Fixpoint las_code (prev : option instr) (code : list instr) (m : list (nat * nat)) : list instr :=
  match code with
  | [] => []
  | i :: r =>
      match forwardable prev i with
      | Some src => las_code (Some i) r (m ++ [(i_ref i, resolve (length m) m src)])
      | None => subst_instr m i :: las_code (Some i) r m
      end
  end.
Fixpoint las_map (prev : option instr) (code : list instr) (m : list (nat * nat)) : list (nat * nat) :=
  match code with
  | [] => m
  | i :: r => match forwardable prev i with
              | Some src => las_map (Some i) r (m ++ [(i_ref i, resolve (length m) m src)])
              | None => las_map (Some i) r m
              end
  end.
Lemma las_scan_map : forall code prev m, las_scan prev code m = las_map prev code m.
Proof.
  induction code as [|i r IH]; intros prev m; cbn; [reflexivity|]. rewrite IH. unfold forwardable.
  destruct (i_body i); try reflexivity. destruct prev as [p|]; try reflexivity. destruct (i_body p); try reflexivity. destruct (var_eqb v0 v); reflexivity.
Qed.

Lemma var_eqb_eq a b : var_eqb a b = true -> a = b.
Proof. destruct a, b; cbn; intros H; try discriminate; [apply String.eqb_eq in H|apply Nat.eqb_eq in H]; congruence. Qed.

(** under the invariant a forwarded source needs one renaming step *)
Lemma resolve_notkey m r : ~ In r (keys m) -> forall n, resolve n m r = r.
Proof.
  intros H n. destruct n; cbn [resolve]; [reflexivity|].
  destruct (find (fun p => Nat.eqb (fst p) r) m) as [p|] eqn:Ef; [|reflexivity].
  exfalso. apply H. apply find_some in Ef as [H1 H2]. apply Nat.eqb_eq in H2. rewrite <- H2. apply in_map. exact H1.
Qed.
Lemma resolve_one m D fo fp src : Inv m D fo fp -> resolve (length m) m src = subst_ref m src.
Proof.
  intros I. destruct (in_dec Nat.eq_dec src (keys m)) as [Hin|Hn].
  - destruct m as [|e m']; [destruct Hin|]. cbn [length resolve]. unfold subst_ref.
    destruct (find (fun p => Nat.eqb (fst p) src) (e :: m')) as [p|] eqn:Ef; [|reflexivity].
    assert (Hp : snd p = subst_ref (e :: m') src) by (unfold subst_ref; rewrite Ef; reflexivity).
    destruct (inv_fwd _ _ _ _ I src Hin) as (_ & Hnot & _). rewrite <- Hp in Hnot. apply resolve_notkey. exact Hnot.
  - rewrite (subst_ref_notin _ _ Hn). apply resolve_notkey. exact Hn.
Qed.

Lemma step_load_shape F pc fr vs i sc v fr1 vs1 : i_body i = ILoad sc v -> step F pc fr vs i = StNext (S pc) fr1 vs1 ->
  vs1 = vs /\ exists w, fr1 = rset fr (i_ref i) w.
Proof.
  intros Hb H. unfold step in H. rewrite Hb in H. destruct sc, v as [x|n]; try discriminate.
  - destruct (slookup x (globals vs)); [|discriminate]. inversion H; subst. eauto.
  - destruct (nth_error (fargs fr) n); [|discriminate]. inversion H; subst. eauto.
  - destruct (slookup x (vars fr)); [|discriminate]. inversion H; subst. eauto.
Qed.

Lemma step_store_src F pc fr vs i sc v src pc1 fr1 vs1 : i_body i = IStore sc v src -> step F pc fr vs i = StNext pc1 fr1 vs1 ->
  exists w, rget fr src = Ok w /\ (src <> i_ref i -> rget fr1 src = Ok w).
Proof.
  intros Hb H. unfold step in H. rewrite Hb in H. destruct (rget fr src) as [w| |] eqn:Es; cbn [lift] in H; try discriminate.
  exists w. split; [reflexivity|]. intros Hne.
  assert (Hr : rlookup src (regs fr1) = rlookup src (regs fr)).
  { destruct sc, v as [x|n]; try discriminate.
    - inversion H; subst. cbn. apply rlookup_update_other. exact Hne.
    - cbn [rset fargs] in H. destruct (Nat.ltb n (length (fargs fr))); [|discriminate]. inversion H; subst. cbn. apply rlookup_update_other. exact Hne.
    - inversion H; subst. cbn. apply rlookup_update_other. exact Hne. }
  unfold rget in *. rewrite Hr. exact Es.
Qed.

(** what the remaining code may assume about its references and operands *)
Definition fresh_for (code : list instr) (m : list (nat * nat)) : Prop :=
  forall i, In i code -> ~ In (i_ref i) (keys m) /\ ~ In (i_ref i) (targets m).
Fixpoint operands_earlier (code : list instr) : Prop :=
  match code with
  | [] => True
  | i :: r => (forall o, In o (operands (i_body i)) -> ~ In o (map i_ref (i :: r))) /\ operands_earlier r
  end.
(** a store and the load that follows it name the variable in the same scope (names are unique across scopes, C12) *)
Fixpoint scopes_agree (prev : option instr) (code : list instr) : Prop :=
  match code with
  | [] => True
  | i :: r =>
      match i_body i, prev with
      | ILoad sc v, Some p => match i_body p with IStore sc' v' _ => var_eqb v' v = true -> sc' = sc | _ => True end
      | _, _ => True
      end /\ scopes_agree (Some i) r
  end.

Lemma las_map_grows : forall code prev m, exists d, las_map prev code m = m ++ d /\ forall k, In k (keys d) -> In k (map i_ref code).
Proof.
  induction code as [|i r IH]; intros prev m; cbn [las_map].
  - exists []. rewrite app_nil_r. split; [reflexivity|intros ? []].
  - destruct (forwardable prev i) as [src|].
    + destruct (IH (Some i) (m ++ [(i_ref i, resolve (length m) m src)])) as (d & Hd & Hk).
      exists ((i_ref i, resolve (length m) m src) :: d). rewrite Hd, <- app_assoc. split; [reflexivity|].
      intros k [<-|Hin]; [left; reflexivity|right; apply Hk; exact Hin].
    + destruct (IH (Some i) m) as (d & Hd & Hk). exists d. split; [exact Hd|]. intros k Hin. right. apply Hk. exact Hin.
Qed.

(** the members of [D] among the references of the code are exactly the loads the pass will remove, and an operand in
    [D] is one of those, already removed or still to come *)
Definition dead_ok (D : list nat) (prev : option instr) (code : list instr) (m : list (nat * nat)) : Prop :=
  (forall q, In q D -> In q (map i_ref code) -> In q (keys (las_map prev code m))) /\
  (forall i o, In i code -> In o (operands (i_body i)) -> In o D -> In o (keys m) \/ In o (map i_ref code)).

Lemma las_code_sound F F' D : forall code prev m pc pc' fo fp vs fo1 vs1,
  sruns F pc code fo vs fo1 vs1 -> Inv m D fo fp ->
  forallb (fun i => negb (is_branch i)) code = true -> NoDup (map i_ref code) -> fresh_for code m ->
  operands_earlier code -> scopes_agree prev code -> dead_ok D prev code m ->
  (forall p, prev = Some p -> (exists pc0 fo0 vs0, step F pc0 fo0 vs0 p = StNext (S pc0) fo vs) /\
                              (forall sc v src, i_body p = IStore sc v src -> src <> i_ref p /\ ~ In src (map i_ref code) /\ readable m D src)) ->
  exists fp1, sruns F' pc' (las_code prev code m) fp vs fp1 vs1 /\ Inv (las_map prev code m) D fo1 fp1.
Proof.
  induction code as [|i r IH]; intros prev m pc pc' fo fp vs fo1 vs1 Hrun I Hnb Hnd Hfresh Hop Hsc Hdead Hprev.
  - inversion Hrun; subst. exists fp. split; [constructor|exact I].
  - inversion Hrun as [|? ? ? ? ? fo' vs' ? ? Hstep Hrest]; subst. cbn [forallb] in Hnb. apply andb_prop in Hnb as [Hnbi Hnbr]. apply negb_true_iff in Hnbi.
    inversion Hnd as [|? ? Hni Hndr]; subst. destruct Hop as [Hopi Hopr]. cbn [scopes_agree] in Hsc. destruct Hsc as [Hsci Hscr].
    destruct (Hfresh i (or_introl eq_refl)) as [Hk Ht].
    assert (Hread : forall o, In o (operands (i_body i)) -> readable m D o).
    { intros o Ho. destruct (in_dec Nat.eq_dec o D) as [HoD|HoD]; [|right; exact HoD].
      destruct (proj2 Hdead i o (or_introl eq_refl) Ho HoD) as [X|X]; [left; exact X|exfalso; apply (Hopi o Ho); exact X]. }
    assert (Hprev' : forall m', (forall k, In k (keys m) -> In k (keys m')) -> forall p, Some i = Some p -> (exists pc0 fo0 vs0, step F pc0 fo0 vs0 p = StNext (S pc0) fo' vs') /\
                                   (forall sc v src, i_body p = IStore sc v src -> src <> i_ref p /\ ~ In src (map i_ref r) /\ readable m' D src)).
    { intros m' Hm' p Hp. inversion Hp; subst p. split; [exists pc, fo, vs; exact Hstep|].
      intros sc v src Hb. assert (Ho : In src (operands (i_body i))) by (rewrite Hb; left; reflexivity).
      pose proof (Hread src Ho) as Hrs. specialize (Hopi src Ho). cbn [map] in Hopi.
      split; [intro E; apply Hopi; left; congruence|]. split; [intro E; apply Hopi; right; exact E|].
      destruct Hrs as [X|X]; [left; apply Hm'; exact X|right; exact X]. }
    destruct Hdead as [HD HO]. cbn [las_code las_map] in *. revert HD. destruct (forwardable prev i) as [src|] eqn:Efw; intros HD.
    + (* a forwarded load: the optimised code does nothing *)
      unfold forwardable in Efw. destruct (i_body i) as [sc v| | | | | | | | | | | | | | | ] eqn:Eb; try discriminate.
      destruct prev as [p|]; [|discriminate]. destruct (i_body p) as [|sc' v' src'| | | | | | | | | | | | | | ] eqn:Ep; try discriminate.
      destruct (var_eqb v' v) eqn:Ev; [|discriminate]. inversion Efw; subst src'. clear Efw.
      try rewrite Eb in Hsci; try rewrite Ep in Hsci. specialize (Hsci eq_refl). subst sc'. apply var_eqb_eq in Ev. subst v'.
      destruct (Hprev p eq_refl) as ((pc0 & fo0 & vs0 & Hst) & Hsrc). destruct (Hsrc _ _ _ Ep) as (Hsrc1 & Hsrc2 & Hsrc3).
      destruct (step_store_src _ _ _ _ _ _ _ _ _ _ _ Ep Hst) as (w & Hw0 & Hw1). specialize (Hw1 Hsrc1).
      destruct (load_after_store_delivers_stored F pc0 fo0 vs0 sc v src w p i (S pc0) fo vs Ep Eb Hw0 Hst) as (fr2 & Hl & Hg).
      destruct (step_load_shape _ _ _ _ _ _ _ _ _ Eb Hstep) as (-> & w' & ->).
      assert (w' = w).
      { assert (Hfr : fr2 = rset fo (i_ref i) w').
        { clear -Eb Hstep Hl. unfold step in Hstep, Hl. rewrite Eb in Hstep, Hl. destruct sc, v as [x|n]; try discriminate.
          - destruct (slookup x (globals vs)); [|discriminate]. inversion Hstep. inversion Hl. congruence.
          - destruct (nth_error (fargs fo) n); [|discriminate]. inversion Hstep. inversion Hl. congruence.
          - destruct (slookup x (vars fo)); [|discriminate]. inversion Hstep. inversion Hl. congruence. }
        rewrite Hfr, rget_rset_eq in Hg. congruence. }
      subst w'.
      set (r' := resolve (length m) m src). assert (Hr' : r' = subst_ref m src) by (apply (resolve_one m D fo fp src I)).
      assert (Hr'k : ~ In r' (keys m)).
      { rewrite Hr'. destruct (in_dec Nat.eq_dec src (keys m)) as [Hin|Hn]; [apply (inv_fwd _ _ _ _ I src Hin)|rewrite (subst_ref_notin _ _ Hn); exact Hn]. }
      assert (Hr'D : ~ In r' D).
      { rewrite Hr'. destruct (in_dec Nat.eq_dec src (keys m)) as [Hin|Hn]; [apply (inv_fwd _ _ _ _ I src Hin)|]. rewrite (subst_ref_notin _ _ Hn). destruct Hsrc3 as [X|X]; [contradiction|exact X]. }
      assert (Hr'v : rlookup r' (regs fo) = Some w).
      { rewrite Hr'. destruct (in_dec Nat.eq_dec src (keys m)) as [Hin|Hn].
        - rewrite <- (proj1 (inv_fwd _ _ _ _ I src Hin)). unfold rget in Hw1. destruct (rlookup src (regs fo)); inversion Hw1; reflexivity.
        - rewrite (subst_ref_notin _ _ Hn). unfold rget in Hw1. destruct (rlookup src (regs fo)); inversion Hw1; reflexivity. }
      assert (Hr'i : r' <> i_ref i).
      { rewrite Hr'. destruct (in_dec Nat.eq_dec src (keys m)) as [Hin|Hn].
        - intro E. apply Ht. rewrite <- E. apply subst_ref_in. exact Hin.
        - rewrite (subst_ref_notin _ _ Hn). intro E. apply Hsrc2. left. congruence. }
      assert (I' : Inv (m ++ [(i_ref i, r')]) D (rset fo (i_ref i) w) fp).
      { constructor; cbn [rset regs vars fargs]; try apply I.
        - intros q Hq HqD. unfold keys in Hq. rewrite map_app in Hq. cbn in Hq.
          assert (q <> i_ref i) by (intro; subst; apply Hq; apply in_or_app; right; left; reflexivity).
          rewrite rlookup_update_other by assumption. apply (inv_same _ _ _ _ I); [|exact HqD]. intro; apply Hq; apply in_or_app; left; assumption.
        - intros q Hq. unfold keys in Hq. rewrite map_app in Hq. apply in_app_or in Hq as [Hq|Hq]; [|cbn in Hq; destruct Hq as [<-|[]]].
          + assert (Hs : subst_ref (m ++ [(i_ref i, r')]) q = subst_ref m q).
            { unfold subst_ref. rewrite (find_app_some' m _ q Hq). reflexivity. }
            rewrite Hs. destruct (inv_fwd _ _ _ _ I q Hq) as (H1 & H2 & H3). split; [|split; [|exact H3]].
            * assert (q <> i_ref i) by (intro; subst; contradiction).
              assert (subst_ref m q <> i_ref i) by (intro E; apply Ht; rewrite <- E; apply subst_ref_in; exact Hq).
              rewrite !rlookup_update_other by assumption. exact H1.
            * unfold keys. rewrite map_app. intro X. apply in_app_or in X as [X|[X|[]]]; [contradiction|].
              apply Ht. cbn in X. rewrite X. apply subst_ref_in. exact Hq.
          + assert (Hs : subst_ref (m ++ [(i_ref i, r')]) (i_ref i) = r').
            { unfold subst_ref. rewrite (find_app_none' _ _ _ Hk). cbn. rewrite Nat.eqb_refl. reflexivity. }
            rewrite Hs. split; [|split; [|exact Hr'D]].
            * rewrite rlookup_update_same. rewrite rlookup_update_other by exact Hr'i. symmetry. exact Hr'v.
            * unfold keys. rewrite map_app. intro X. apply in_app_or in X as [X|[X|[]]]; [contradiction|]. cbn in X. congruence. }
      apply (IH (Some i) (m ++ [(i_ref i, r')]) (S pc) pc' (rset fo (i_ref i) w) fp vs fo1 vs1 Hrest I' Hnbr Hndr); auto.
      * intros j Hj. destruct (Hfresh j (or_intror Hj)) as [Hjk Hjt]. unfold keys, targets. rewrite !map_app. cbn. split.
        -- intro X. apply in_app_or in X as [X|[X|[]]]; [contradiction|]. apply Hni. rewrite X. apply in_map. exact Hj.
        -- intro X. apply in_app_or in X as [X|[X|[]]]; [contradiction|].
           (* the forwarded source (or its earlier replacement) is not defined later *)
           rewrite Hr' in X. destruct (in_dec Nat.eq_dec src (keys m)) as [Hin|Hn].
           ++ apply Hjt. rewrite <- X. apply subst_ref_in. exact Hin.
           ++ rewrite (subst_ref_notin _ _ Hn) in X. apply Hsrc2. right. rewrite X. apply in_map. exact Hj.
      * split.
        -- intros q HqD Hq. apply HD; [exact HqD|right; exact Hq].
        -- intros j o Hj Ho HoD. destruct (HO j o (or_intror Hj) Ho HoD) as [X|[X|X]].
           ++ left. unfold keys. rewrite map_app. apply in_or_app. left. exact X.
           ++ left. unfold keys. rewrite map_app. apply in_or_app. right. left. exact X.
           ++ right. exact X.
      * apply Hprev'. intros k Hk'. unfold keys. rewrite map_app. apply in_or_app. left. exact Hk'.
    + (* an instruction that stays: renamed operands *)
      destruct (step_subst F F' pc pc' m D fo fp vs i fo' vs' I Hnbi Hk Ht Hread Hstep) as (fp' & Hstep' & I').
      destruct (IH (Some i) m (S pc) (S pc') fo' fp' vs' fo1 vs1 Hrest I' Hnbr Hndr) as (fp1 & Hr1 & I1); auto.
      { intros j Hj. apply Hfresh. right. exact Hj. }
      { split.
        - intros q HqD Hq. apply HD; [exact HqD|right; exact Hq].
        - intros j o Hj Ho HoD. destruct (HO j o (or_intror Hj) Ho HoD) as [X|[X|X]]; [left; exact X| |right; exact X].
          exfalso. subst o. specialize (HD (i_ref i) HoD (or_introl eq_refl)).
          destruct (las_map_grows r (Some i) m) as (d & Hd & Hkd). rewrite Hd in HD. unfold keys in HD. rewrite map_app in HD. apply in_app_or in HD as [X|X]; [exact (Hk X)|].
          apply Hni. apply Hkd. exact X. }
      exists fp1. split; [econstructor; eassumption|exact I1].
Qed.

(** ** the emitted code is what the pass produces: [apply_block] with the final map *)
Lemma subst_ref_app m d o : ~ In o (keys d) -> subst_ref (m ++ d) o = subst_ref m o.
Proof.
  intros H. unfold subst_ref. destruct (in_dec Nat.eq_dec o (keys m)) as [Hin|Hn].
  - rewrite (find_app_some' m d o Hin). reflexivity.
  - rewrite (find_app_none' m d o Hn).
    assert (Hd : find (fun p => Nat.eqb (fst p) o) d = None).
    { destruct (find (fun p => Nat.eqb (fst p) o) d) as [p|] eqn:E; [|reflexivity]. exfalso. apply H. apply find_some in E as [E1 E2]. apply Nat.eqb_eq in E2. rewrite <- E2. apply in_map. exact E1. }
    assert (Hm : find (fun p => Nat.eqb (fst p) o) m = None).
    { destruct (find (fun p => Nat.eqb (fst p) o) m) as [p|] eqn:E; [|reflexivity]. exfalso. apply Hn. apply find_some in E as [E1 E2]. apply Nat.eqb_eq in E2. rewrite <- E2. apply in_map. exact E1. }
    rewrite Hd, Hm. reflexivity.
Qed.

Lemma map_ext_in' {A B} (f g : A -> B) l : (forall x, In x l -> f x = g x) -> map f l = map g l.
Proof. induction l as [|a l IH]; cbn; intros H; [reflexivity|]. rewrite (H a (or_introl eq_refl)), IH; [reflexivity|]. intros x Hx. apply H. right. exact Hx. Qed.

Lemma subst_body_ext m1 m2 b : (forall o, In o (operands b) -> subst_ref m1 o = subst_ref m2 o) ->
  (match b with IBranch _ _ _ => False | _ => True end) -> subst_body m1 b = subst_body m2 b.
Proof.
  intros H Hb. destruct b; cbn [subst_body operands opt_list] in *; try reflexivity; try contradiction;
    repeat match goal with |- context [subst_ref m1 ?o] => rewrite (H o) by (cbn; auto) end; try reflexivity.
  - destruct v; cbn; [rewrite (H n) by (left; reflexivity)|]; reflexivity.
  - rewrite (map_ext_in' _ _ _ H). reflexivity.
  - rewrite (map_ext_in' _ _ _ H). reflexivity.
Qed.

Lemma apply_block_las : forall code prev m,
  forallb (fun i => negb (is_branch i)) code = true -> NoDup (map i_ref code) -> (forall i, In i code -> ~ In (i_ref i) (keys m)) -> operands_earlier code ->
  forall M d, M = las_map prev code m -> M = m ++ d -> (forall k, In k (keys d) -> In k (map i_ref code)) ->
  apply_block M code = las_code prev code m.
Proof.
  induction code as [|i r IH]; intros prev m Hnb Hnd Hfr Hop M d HM Hd Hk; [reflexivity|].
  cbn [forallb] in Hnb. apply andb_prop in Hnb as [Hnbi Hnbr]. apply negb_true_iff in Hnbi.
  inversion Hnd as [|? ? Hni Hndr]; subst. destruct Hop as [Hopi Hopr].
  unfold apply_block. cbn [filter las_code las_map] in *.
  destruct (forwardable prev i) as [src|] eqn:Efw.
  - (* removed *)
    destruct (las_map_grows r (Some i) (m ++ [(i_ref i, resolve (length m) m src)])) as (d' & Hd' & Hk').
    assert (Hin : existsb (fun p => Nat.eqb (fst p) (i_ref i)) (las_map (Some i) r (m ++ [(i_ref i, resolve (length m) m src)])) = true).
    { rewrite Hd'. apply existsb_exists. exists (i_ref i, resolve (length m) m src). split; [apply in_or_app; left; apply in_or_app; right; left; reflexivity|apply Nat.eqb_refl]. }
    rewrite Hin. cbn [negb]. fold (apply_block (las_map (Some i) r (m ++ [(i_ref i, resolve (length m) m src)])) r).
    apply (IH (Some i) (m ++ [(i_ref i, resolve (length m) m src)]) Hnbr Hndr) with (d := d'); auto.
    intros j Hj. unfold keys. rewrite map_app. cbn. intro X. apply in_app_or in X as [X|[X|[]]]; [apply (Hfr j (or_intror Hj)); exact X|].
    apply Hni. rewrite X. apply in_map. exact Hj.
  - (* kept *)
    destruct (las_map_grows r (Some i) m) as (d' & Hd' & Hk').
    assert (Hout : existsb (fun p => Nat.eqb (fst p) (i_ref i)) (las_map (Some i) r m) = false).
    { rewrite Hd'. apply not_true_is_false. intro X. apply existsb_exists in X as (p & Hp & Hpe). apply Nat.eqb_eq in Hpe.
      apply in_app_or in Hp as [Hp|Hp].
      - apply (Hfr i (or_introl eq_refl)). rewrite <- Hpe. apply in_map. exact Hp.
      - apply Hni. apply Hk'. rewrite <- Hpe. apply in_map. exact Hp. }
    rewrite Hout. cbn [negb map]. fold (apply_block (las_map (Some i) r m) r). f_equal.
    + unfold subst_instr. f_equal. rewrite Hd'. apply subst_body_ext.
      * intros o Ho. apply subst_ref_app. intro X. apply (Hopi o Ho). right. apply Hk'. exact X.
      * unfold is_branch in Hnbi. destruct (i_body i); try exact I. discriminate.
    + apply (IH (Some i) m Hnbr Hndr) with (d := d'); auto. intros j Hj. apply Hfr. right. exact Hj.
Qed.

(** ** the theorem *)
Theorem forwarding_sound_on_straight_line_code : forall (F F' : ifunc) code pc pc' fr vs fr1 vs1,
  forallb (fun i => negb (is_branch i)) code = true -> NoDup (map i_ref code) -> operands_earlier code -> scopes_agree None code ->
  sruns F pc code fr vs fr1 vs1 ->
  let m := las_scan None code [] in
  exists fr1', sruns F' pc' (apply_block m code) fr vs fr1' vs1 /\ vars fr1' = vars fr1 /\ fargs fr1' = fargs fr1 /\
               forall r, ~ In r (keys m) -> rlookup r (regs fr1') = rlookup r (regs fr1).
Proof.
  intros F F' code pc pc' fr vs fr1 vs1 Hnb Hnd Hop Hsc Hrun m.
  assert (I0 : Inv [] [] fr fr) by (constructor; [reflexivity|reflexivity|reflexivity|intros r []]).
  destruct (las_code_sound F F' [] code None [] pc pc' fr fr vs fr1 vs1 Hrun I0 Hnb Hnd) as (fp1 & Hr & I1); auto.
  - intros i _. split; intros [].
  - split; [intros q []|intros i o _ _ []].
  - intros p Hp. discriminate.
  - destruct (las_map_grows code None []) as (d & Hd & Hk).
    exists fp1. unfold m. rewrite las_scan_map. rewrite (apply_block_las code None [] Hnb Hnd (fun _ _ H => H) Hop _ d eq_refl Hd Hk).
    split; [exact Hr|]. split; [apply I1|]. split; [apply I1|]. intros r Hr'. apply (inv_same _ _ _ _ I1); [exact Hr'|intros []].
Qed.

(** ** whole single-block functions: the optimised function returns the same value and leaves the same state *)
Definition plain (i : instr) : bool := match i_body i with IBranch _ _ _ | IRet _ | ICall _ _ => false | _ => true end.

Lemma plain_step_next F pc fr vs i pc1 fr1 vs1 : plain i = true -> step F pc fr vs i = StNext pc1 fr1 vs1 -> pc1 = S pc.
Proof.
  intros Hp H. unfold plain in Hp. unfold step in H. destruct (i_body i) eqn:Eb; try discriminate;
    repeat match type of H with
           | context [lift ?x _] => destruct x; cbn [lift] in H; try discriminate
           | context [match ?x with _ => _ end] => destruct x; try discriminate
           end; inversion H; reflexivity.
Qed.

Lemma run_to_sruns P F : forall code pre post fuel fr vs w vs1,
  flat_code F = pre ++ code ++ post -> forallb plain code = true ->
  run fuel P F (length pre) fr vs = Done w vs1 ->
  exists k fr1 vs', sruns F (length pre) code fr vs fr1 vs' /\ run k P F (length pre + length code) fr1 vs' = Done w vs1 /\ fuel = length code + k.
Proof.
  induction code as [|i r IH]; intros pre post fuel fr vs w vs1 Hc Hp Hrun.
  - exists fuel, fr, vs. rewrite Nat.add_0_r. split; [constructor|]. split; [exact Hrun|reflexivity].
  - cbn [forallb] in Hp. apply andb_prop in Hp as [Hpi Hpr]. destruct fuel as [|fu]; [discriminate|]. cbn [run] in Hrun.
    assert (En : nth_error (flat_code F) (length pre) = Some i) by (rewrite Hc, nth_error_app2 by lia; rewrite Nat.sub_diag; reflexivity).
    rewrite En in Hrun. destruct (step F (length pre) fr vs i) as [pc1 fr' vs'|? ?|? ? ?|?|] eqn:Es; try discriminate.
    + pose proof (plain_step_next _ _ _ _ _ _ _ _ Hpi Es) as ->.
      destruct (IH (pre ++ [i]) post fu fr' vs' w vs1) as (k & fr1 & vs2 & Hs & Hr & Hf).
      { rewrite Hc, <- app_assoc. reflexivity. }
      { exact Hpr. }
      { rewrite app_length. cbn. rewrite Nat.add_1_r. exact Hrun. }
      exists k, fr1, vs2. split; [|split].
      * econstructor; [exact Es|]. rewrite app_length in Hs. cbn in Hs. rewrite Nat.add_1_r in Hs. exact Hs.
      * rewrite app_length in Hr. cbn in Hr. cbn [length]. replace (length pre + S (length r)) with (length pre + 1 + length r) by lia. exact Hr.
      * cbn [length]. lia.
    + (* a plain instruction never returns *) exfalso. unfold plain in Hpi. unfold step in Es. destruct (i_body i); try discriminate;
        repeat match type of Es with
               | context [lift ?x _] => destruct x; cbn [lift] in Es; try discriminate
               | context [match ?x with _ => _ end] => destruct x; try discriminate
               end.
    + exfalso. unfold plain in Hpi. unfold step in Es. destruct (i_body i); try discriminate;
        repeat match type of Es with
               | context [lift ?x _] => destruct x; cbn [lift] in Es; try discriminate
               | context [match ?x with _ => _ end] => destruct x; try discriminate
               end.
Qed.

Lemma run_sruns P F is : forall pc fr vs fr' vs' fuel pre post, sruns F pc is fr vs fr' vs' -> flat_code F = pre ++ is ++ post -> pc = length pre ->
  run (length is + fuel) P F pc fr vs = run fuel P F (pc + length is) fr' vs'.
Proof.
  induction is as [|i is IH]; intros pc fr vs fr' vs' fuel pre post H Hc Hpc; inversion H; subst.
  - cbn. rewrite Nat.add_0_r. reflexivity.
  - assert (En : nth_error (flat_code F) (length pre) = Some i) by (rewrite Hc, nth_error_app2 by lia; rewrite Nat.sub_diag; reflexivity).
    cbn [length Nat.add run]. rewrite En.
    match goal with Hs : step _ _ _ _ _ = _ |- _ => rewrite Hs end.
    rewrite (IH (S (length pre)) _ _ fr' vs' fuel (pre ++ [i]) post); auto.
    + f_equal. lia.
    + rewrite Hc, <- app_assoc. reflexivity.
    + rewrite app_length. cbn. lia.
Qed.

Lemma las_code_app_ret code ret : forall prev m, (match i_body ret with ILoad _ _ => False | _ => True end) ->
  las_code prev (code ++ [ret]) m = las_code prev code m ++ [subst_instr (las_map prev code m) ret] /\
  las_map prev (code ++ [ret]) m = las_map prev code m.
Proof.
  induction code as [|i r IH]; intros prev m Hr; cbn [app las_code las_map].
  - assert (forwardable prev ret = None) by (unfold forwardable; destruct (i_body ret); try reflexivity; contradiction). rewrite H. auto.
  - destruct (forwardable prev i) as [src|].
    + destruct (IH (Some i) (m ++ [(i_ref i, resolve (length m) m src)]) Hr) as [H1 H2]. rewrite H1, H2. auto.
    + destruct (IH (Some i) m Hr) as [H1 H2]. rewrite H1, H2. auto.
Qed.

Theorem forwarding_preserves_single_block_functions : forall (P : program) (F : ifunc) bref code ret rv,
  fn_blocks F = [{| b_ref := bref; b_code := code ++ [ret] |}] -> i_body ret = IRet rv -> forallb plain code = true ->
  NoDup (map i_ref (code ++ [ret])) -> operands_earlier (code ++ [ret]) -> scopes_agree None code ->
  forall fuel fr vs w vs1, run fuel P F 0 fr vs = Done w vs1 -> run fuel P (opt_load_after_store F) 0 fr vs = Done w vs1.
Proof.
  intros P F bref code ret rv Hb Hret Hplain Hnd Hop Hsc fuel fr vs w vs1 Hrun.
  assert (Hflat : flat_code F = [] ++ code ++ [ret]) by (unfold flat_code; rewrite Hb; cbn; rewrite app_nil_r; reflexivity).
  destruct (run_to_sruns P F code [] [ret] fuel fr vs w vs1 Hflat Hplain Hrun) as (k & fr1 & vs' & Hs & Hr & Hfuel). cbn [length Nat.add] in *.
  (* the return step of the original *)
  destruct k as [|k]; [discriminate|]. cbn [run] in Hr.
  assert (En : nth_error (flat_code F) (length code) = Some ret) by (rewrite Hflat; cbn [app]; rewrite nth_error_app2 by lia; rewrite Nat.sub_diag; reflexivity).
  rewrite En in Hr. unfold step in Hr. rewrite Hret in Hr.
  (* the optimised function *)
  set (F' := opt_load_after_store F).
  assert (Hnb : forallb (fun i => negb (is_branch i)) (code ++ [ret]) = true).
  { rewrite forallb_app. cbn. unfold is_branch at 2. rewrite Hret. cbn. rewrite andb_true_r. rewrite forallb_forall in *. intros i Hi. specialize (Hplain i Hi).
    unfold plain in Hplain. unfold is_branch. destruct (i_body i); try reflexivity; discriminate. }
  assert (Hnotload : match i_body ret with ILoad _ _ => False | _ => True end) by (rewrite Hret; exact I).
  destruct (las_code_app_ret code ret None [] Hnotload) as [Hlc Hlm].
  destruct (las_map_grows (code ++ [ret]) None []) as (d & Hd & Hk).
  assert (Hflat' : flat_code F' = [] ++ las_code None code [] ++ [subst_instr (las_map None code []) ret]).
  { unfold flat_code, F', opt_load_after_store. cbn [fn_blocks]. rewrite Hb. cbn [length las_blocks map app flat_map b_code b_ref]. rewrite app_nil_r.
    rewrite las_scan_map. rewrite (apply_block_las (code ++ [ret]) None [] Hnb Hnd (fun _ _ H => H) Hop _ d eq_refl Hd Hk). exact Hlc. }
  assert (I0 : Inv [] [] fr fr) by (constructor; [reflexivity|reflexivity|reflexivity|intros r []]).
  assert (Hnbc : forallb (fun i => negb (is_branch i)) code = true) by (rewrite forallb_app in Hnb; apply andb_prop in Hnb as [H _]; exact H).
  assert (Hndc : NoDup (map i_ref code)).
  { clear -Hnd. rewrite map_app in Hnd. induction (map i_ref code) as [|a l IH]; cbn in *; [constructor|]. inversion Hnd; subst. constructor.
    - intro X. match goal with H : ~ In a _ |- _ => apply H end. apply in_or_app. left. exact X.
    - apply IH. assumption. }
  assert (Hopc : operands_earlier code).
  { clear -Hop. induction code as [|i r IH]; cbn in *; [exact I|]. destruct Hop as [H1 H2]. split; [|apply IH; exact H2].
    intros o Ho X. apply (H1 o Ho). destruct X as [X|X]; [left; exact X|right; rewrite map_app; apply in_or_app; left; exact X]. }
  destruct (las_code_sound F F' [] code None [] 0 0 fr fr vs fr1 vs' Hs I0 Hnbc Hndc) as (fp1 & Hs' & I1); auto.
  { intros i _. split; intros []. }
  { split; [intros q []|intros i o _ _ []]. }
  { intros p Hp. discriminate. }
  assert (Hlen : length (las_code None code []) <= length code).
  { clear. generalize (@None instr) (@nil (nat * nat)). induction code as [|i r IH]; intros prev m; cbn; [lia|]. destruct (forwardable prev i); cbn; specialize (IH (Some i)); [specialize (IH (m ++ [(i_ref i, resolve (length m) m n)]))|specialize (IH m)]; lia. }
  replace fuel with (length (las_code None code []) + (S k + (length code - length (las_code None code [])))) by lia.
  rewrite (run_sruns P F' _ 0 fr vs fp1 vs' _ [] _ Hs' Hflat' eq_refl). cbn [Nat.add run].
  assert (En' : nth_error (flat_code F') (length (las_code None code [])) = Some (subst_instr (las_map None code []) ret))
    by (rewrite Hflat'; cbn [app]; rewrite nth_error_app2 by lia; rewrite Nat.sub_diag; reflexivity).
  rewrite En'. unfold step. cbn [subst_instr i_body]. rewrite Hret. cbn [subst_body].
  destruct rv as [r|]; cbn [option_map].
  - rewrite (rget_subst _ _ _ _ r I1) by (right; intros []). destruct (rget fr1 r) as [w0| |]; cbn [lift] in *; try discriminate. exact Hr.
  - exact Hr.
Qed.
