(** * C02 with C01: a source function with conditionals, lowered and then optimised by load-after-store forwarding, still
    returns the value the reference semantics gives. *)
From Coq Require Import String ZArith List Bool PrimFloat Arith Lia.
From NSL Require Import Base.Types Base.Syntax Model.PyNum Model.IR Model.VM Model.Elab Model.Lower Model.Opt Spec.RefSem Proofs.OpsAgree
                        Proofs.LowerExprProofs Proofs.ElabExprProofs Proofs.ReturnExprProofs Proofs.CallAgreeProofs Proofs.LowerStmtProofs Proofs.ElabStmtProofs
                        Proofs.FlowFuncProofs Proofs.FlowElabProofs Proofs.FlowTableProofs Proofs.FlowSimProofs Proofs.ForwardProofs Proofs.ForwardFlowProofs
                        Harness.FwdLib Harness.FwdFlowLib Harness.FragLib Harness.FragLib2 Harness.FlowLib Harness.FlowLib2 Proofs.FlowSimExample.
Import ListNotations.

Theorem flow_source_to_optimised :
  forall (M : module) (fn : func) (n : nat) (l : list stmt) (e : expr) (tf : tfunc) (F : ifunc),
    f_body fn = l ++ [SRet (Some e)] -> forallb (stop n) l = true -> spure e = true ->
    elab_func (genv_of M) (genvl M) fn = EOk tf -> lower_func (m_structs M) (glnames M) tf = LOk F ->
    forall tl te, tf_body tf = tl ++ [TRet (Some te)] -> length tl = length l ->
    forallb tok (flat_map (topexprs n) tl ++ [te]) = true ->
    lits_exact (flat_map tflits (flat_map (topexprs n) tl ++ [te])) -> (forall q, In q (flat_map tflits (flat_map (topexprs n) tl ++ [te])) -> PrimFloat.eqb q q = true) ->
    Forall (fresh_decl (glnames M) (argnames fn)) l ->
    flow_hyps_b F = true ->
    forall (P : program) (ws : list rval) (g : RefSem.frame) (vs : vmstate),
      Forall2 (fun p w => has_ty w (fst p)) (f_args fn) ws ->
      (forall x, In x (map snd (f_args fn)) -> ~ In x (glnames M)) ->
      (forall x p, find (fun q => String.eqb (fst q) x) (genvl M) = Some p ->
         num_ty (snd p) /\ exists w, find (fun q => String.eqb (fst q) x) g = Some (fst p, SV w) /\ has_ty w (snd p) /\ slookup x (globals vs) = Some (v_of w)) ->
      forall fuel fl st', exec_list M fuel (f_body fn) (call_state fn ws g) = RefSem.ROk (fl, st') ->
        exists v vs', fl = OReturn (SV v) /\
          exists N, run N P (opt_load_after_store F) 0 (call_frame ws (init_regs F)) vs = Done (v_of v) vs'.
Proof.
  intros M fn n l e tf F Hbody Hs Hp Helab Hlower tl te Htb Hlen Hk Hlit Hnan Hfr Hfw P ws g vs Hargs Hdist Hglob fuel fl st' Hex.
  destruct (flow_function_simulation M fn n l e tf F Hbody Hs Hp Helab Hlower tl te Htb Hlen Hk Hlit Hnan Hfr P ws g vs Hargs Hdist Hglob fuel fl st' Hex)
    as (v & vs' & Hfl & (N & Hrun) & _).
  exists v, vs'. split; [exact Hfl|]. exact (fwdflow_sound P F Hfw N (call_frame ws (init_regs F)) vs (v_of v) vs' (Hrun N (le_n N))).
Qed.

(** non-vacuity: the lowered function of [FlowSimExample] (nested conditionals, five blocks) satisfies the hypotheses of the
    forwarding theorem, the pass removes loads from it, and the optimised function returns 13.75 and leaves g = 7 *)
Example fs_fwd_hyps : flow_hyps_b fs_F = true.
Proof. vm_compute. reflexivity. Qed.
Example fs_fwd_active : (Nat.ltb 1 (length (fn_blocks fs_F)) && existsb (fun b => negb (Nat.eqb (length (las_scan None (b_code b) [])) 0)) (fn_blocks fs_F)) = true.
Proof. vm_compute. reflexivity. Qed.
Example fs_opt_value :
  run 80 {| p_funcs := [fs_F]; p_globals := ["g"%string] |} (opt_load_after_store fs_F) 0 (call_frame fs_ws (init_regs fs_F)) fs_vs = Done (VFloat 13.75%float) {| globals := [("g"%string, VInt 7)]; hp := [] |}.
Proof. vm_compute. reflexivity. Qed.
