"""C20 -- Reported source positions designate the text they talk about."""
import os, json, re
from common import TranslatorAbort, coq_list, parse_coq_values
from translate import t_srcloc
import nslgen
from nslgen import *

STATIC = ["Spec/SrcLoc.v", "Model/SrcLoc.v", "Proofs/SrcLocProofs.v"]

HEADER = """From Coq Require Import String ZArith List Bool.
From NSL Require Import Base.Util Spec.SrcLoc Model.SrcLoc.
Import ListNotations.
Open Scope Z_scope.
Definition oeqb (a b : option Z) : bool := match a, b with Some x, Some y => x =? y | None, None => true | _, _ => false end.
Definition fields_eqb (f : loc_fields) (p : option printed) : bool :=
  match f, p with
  | LSingle l c c', Some (PSingle l2 c2 c2') => (l =? l2) && (c =? c2) && (c' =? c2')
  | LMulti l c l' c', Some (PMulti l2 c2 l2' c2') => (l =? l2) && (c =? c2) && (l' =? l2') && (c' =? c2')
  | LUnknown, None => true
  | _, _ => false end.
Definition dec_eqb (s : list Z) (p : option printed) (b e : Z) : bool :=
  match p with
  | Some pr => match decode_printed s pr with Some (b', e') => (Z.of_nat b' =? b) && (Z.of_nat e' =? e) | None => false end
  | None => false end.
Definition spec_start_z (s : list Z) (l : Z) : option Z :=
  if l <? 0 then None else option_map Z.of_nat (spec_line_start s (Z.to_nat l)).
(* hull of a non-empty list of spans by the specification: (min begin, max end) *)
Definition spec_hull (l : list (Z * Z)) : option (Z * Z) :=
  match l with [] => None | x :: r => Some (fold_left (fun a y => (Z.min (fst a) (fst y), Z.max (snd a) (snd y))) r x) end.
Definition span_eqb (a b : option (Z * Z)) : bool :=
  match a, b with Some (x, y), Some (u, v) => (x =? u) && (y =? v) | None, None => true | _, _ => false end.
Fixpoint ltree_eqb (a b : ltree) : bool :=
  match a, b with LNode x cs, LNode y ds =>
    span_eqb x y && (fix go (l m : list ltree) : bool :=
       match l, m with [] , [] => true | c :: l', d :: m' => ltree_eqb c d && go l' m' | _, _ => false end) cs ds end.
(* one text case: offsets->lines, line->start, span->printed, merges *)
Definition chk_text (s : list Z) (offs lines : list Z) (lq : list Z) (starts : list (option Z))
           (strs : list (Z * Z * option printed)) (merges : list (list (Z * Z) * (Z * Z))) : Z :=
  verdict
    (zlist_eqb (map (line_from_offset s) offs) lines
     && forallb (fun p => oeqb (line_start_offset s (fst p)) (snd p)) (combine lq starts)
     && forallb (fun t => fields_eqb (loc_str s (fst (fst t)) (snd (fst t))) (snd t)) strs
     && forallb (fun m => match fst m with x :: r => span_eqb (Some (merge x r)) (Some (snd m)) | [] => false end) merges)
    (zlist_eqb (map (fun o => Z.of_nat (spec_line_of s (Z.to_nat o))) offs) lines
     && forallb (fun p => oeqb (spec_start_z s (fst p)) (snd p)) (combine lq starts)
     && forallb (fun t => dec_eqb s (snd t) (fst (fst t)) (snd (fst t))) strs
     && forallb (fun m => span_eqb (spec_hull (fst m)) (Some (snd m))) merges).
(* one program case *)
Definition chk_prog (s : list Z) (raw upd : ltree)
           (nodes : list (option (Z * Z) * option printed * list (Z * Z)))   (* impl span, impl printed, generator token spans below *)
           (idents : list (option printed * list Z))                          (* impl printed range of an identifier/literal, its characters *)
  : Z :=
  verdict
    (ltree_eqb (update_locs raw) upd
     && forallb (fun n => match fst (fst n) with
                          | Some (b, e) => fields_eqb (loc_str s b e) (snd (fst n))
                          | None => match snd (fst n) with None => true | _ => false end end) nodes)
    (forallb (fun n => span_eqb (spec_hull (snd n)) (fst (fst n))
                       && match fst (fst n) with Some (b, e) => dec_eqb s (snd (fst n)) b e | None => true end) nodes
     && forallb (fun i => match fst i with
                          | Some pr => match decode_printed s pr with
                                       | Some (b, e) => zlist_eqb (slice s b e) (snd i) | None => false end
                          | None => false end) idents).
"""


def parse_printed(txt):
    m = re.fullmatch(r"(\d+):(\d+)-(\d+)", txt)
    if m:
        return "(Some (PSingle %s %s %s))" % m.groups()
    m = re.fullmatch(r"(\d+):(\d+)-(\d+):(\d+)", txt)
    if m:
        return "(Some (PMulti %s %s %s %s))" % m.groups()
    if txt == "<unknown>":
        return "None"
    return "(Some (PSingle (-7) 0 0))"  # unparsable: never equal to anything


def ztext(s):
    return coq_list([str(ord(c)) for c in s])


def span(x):
    return "None" if x is None else "(Some (%d, %d))" % (x[0], x[1])


def zz(n):
    return "(%d)" % n if n < 0 else str(n)


ALPHABET = ["\n", "\n", "\n", " ", "a", "b", "\t", "\r", "\x0c", "\x0b", "\x1c", "\x1e", "\x85", " ", " ", "é", "\U0001F600", "x", ";"]


def gen_text_job(rng):
    n = rng.choice([0, 1, 2, 3, 5, 8, 13, 30, 60])
    text = "".join(rng.choice(ALPHABET) for _ in range(n))
    offs = list(range(0, n + 3))
    nl = text.count("\n")
    lq = list(range(0, nl + 3))
    spans = []
    for _ in range(12):
        b = rng.randint(0, n); e = rng.randint(b, n)
        spans.append([b, e])
    spans += [[0, 0], [n, n], [0, n]]
    merges = []
    for _ in range(4):
        merges.append([sorted([rng.randint(0, 50), rng.randint(0, 50)]) for _ in range(rng.choice([1, 2, 3, 5]))])
    return {"k": "text", "text": text, "offsets": offs, "lines_q": lq, "spans": spans, "merges": merges}


def text_case(j, r):
    strs = coq_list(["(%d, %d, %s)" % (b, e, parse_printed(st)) for (b, e), st in zip(j["spans"], r["strs"])])
    merges = coq_list(["(%s, (%d, %d))" % (coq_list(["(%d, %d)" % tuple(x) for x in g]), m[0], m[1])
                       for g, m in zip(j["merges"], r["merges"])])
    starts = coq_list(["None" if x is None else "(Some %s)" % zz(x) for x in r["starts"]])
    return "chk_text %s %s %s %s %s %s %s" % (ztext(j["text"]), coq_list(map(str, j["offsets"])), coq_list(map(zz, r["lines"])),
                                             coq_list(map(str, j["lines_q"])), starts, strs, merges)


# ---- program cases ---------------------------------------------------------------------------------
def located_toks(toks):
    return {id(t.node): t for t in toks if t.role in ("id", "lit", "member", "decl", "arg")}


def gen_spans(node, tokmap, acc=None):
    """spans of all located tokens in the generated subtree"""
    acc = [] if acc is None else acc
    if isinstance(node, dict):
        if id(node) in tokmap:
            t = tokmap[id(node)]
            acc.append((t.begin, t.end))
        for v in node.values():
            gen_spans(v, tokmap, acc)
    elif isinstance(node, list):
        for v in node:
            gen_spans(v, tokmap, acc)
    return acc


def impl_tree(n):
    """ltree of an implementation dump node (semantic children, the real AST nesting)"""
    if n is None:
        return None
    k = n.get("k")

    def node(loc, kids):
        return "LNode %s %s" % (span(loc), coq_list(["(%s)" % c for c in kids if c is not None]))
    if "items" in n:
        return node(n["loc"], [impl_tree(i) for i in n["items"]])
    if k == "struct":
        return node(n["loc"], [node(f["loc"], []) for f in n["fields"]])
    if k == "global":
        return node(n["stmt_loc"], [node(n["loc"], [])])
    if k == "func":
        return node(n["loc"], [node(a["loc"], []) for a in n["args"]] + [impl_tree(n["body"])])
    if k == "decl":
        inner = node(n["loc"], [impl_tree(n["init"])])
        return node(n["stmt_loc"], [inner]) if "stmt_loc" in n else inner
    if k in ("pre", "post"):
        return node(n["loc"], [impl_tree(n["inner"])])
    if k == "mem":
        return node(n["loc"], [impl_tree(n["p"]), impl_tree(n["member"])])
    kids = {"bin": ["l", "r"], "assign": ["l", "r"], "idx": ["p", "i"], "expr": ["e"], "ret": ["e"], "if": ["c", "t", "f"],
            "for": ["init", "c", "n", "b"], "while": ["b", "c"], "do": ["b", "c"], "cast": ["e"]}.get(k, [])
    cs = [impl_tree(n.get(x)) for x in kids]
    if k in ("call", "ctor"):
        cs = [impl_tree(a) for a in n["args"]]
    if k == "block":
        cs = [impl_tree(x) for x in n["b"]]
    return node(n["loc"], cs)


def pair_nodes(g, i, tokmap, nodes, idents, problems):
    """walk generated node g and implementation dump node i in parallel"""
    if g is None or i is None:
        if (g is None) != (i is None):
            problems.append("shape: %r vs %r" % (g and g.get("k"), i and i.get("k")))
        return
    if g.get("k") == "par":
        return pair_nodes(g["e"], i, tokmap, nodes, idents, problems)
    gk, ik = g.get("k", "module"), i.get("k", "module")
    if gk != ik:
        problems.append("shape: %s vs %s" % (gk, ik)); return
    nodes.append((i.get("loc"), i.get("locs"), gen_spans(g, tokmap)))
    if gk in ("id", "int", "float"):
        t = tokmap[id(g)]
        idents.append((i["locs"], t.text))
    elif gk in ("pre", "post"):
        t = tokmap[id(g)]
        idents.append((i["inner"]["locs"], t.text))
        nodes.append((i["inner"].get("loc"), i["inner"].get("locs"), [(t.begin, t.end)]))
    elif gk == "mem":
        t = tokmap[id(g)]
        idents.append((i["member"]["locs"], t.text))
        nodes.append((i["member"].get("loc"), i["member"].get("locs"), [(t.begin, t.end)]))
        pair_nodes(g["p"], i["p"], tokmap, nodes, idents, problems)
    if gk in ("bin", "assign"):
        pair_nodes(g["l"], i["l"], tokmap, nodes, idents, problems); pair_nodes(g["r"], i["r"], tokmap, nodes, idents, problems)
    elif gk in ("call", "ctor"):
        if len(g["args"]) != len(i["args"]):
            problems.append("shape: arity"); return
        for a, b in zip(g["args"], i["args"]):
            pair_nodes(a, b, tokmap, nodes, idents, problems)
    elif gk == "idx":
        pair_nodes(g["p"], i["p"], tokmap, nodes, idents, problems); pair_nodes(g["i"], i["i"], tokmap, nodes, idents, problems)
    elif gk == "decl":
        if "stmt_loc" in i:
            nodes.append((i["stmt_loc"], i["stmt_locs"], gen_spans(g, tokmap)))
        pair_nodes(g.get("init"), i.get("init"), tokmap, nodes, idents, problems)
    elif gk in ("expr", "ret"):
        pair_nodes(g["e"], i["e"], tokmap, nodes, idents, problems)
    elif gk == "block":
        if len(g["b"]) != len(i["b"]):
            problems.append("shape: block length"); return
        for a, b in zip(g["b"], i["b"]):
            pair_nodes(a, b, tokmap, nodes, idents, problems)
    elif gk == "if":
        for x in ("c", "t", "f"):
            pair_nodes(g[x], i[x], tokmap, nodes, idents, problems)
    elif gk == "for":
        for x in ("init", "c", "n", "b"):
            pair_nodes(g[x], i[x], tokmap, nodes, idents, problems)
    elif gk in ("while", "do"):
        pair_nodes(g["c"], i["c"], tokmap, nodes, idents, problems); pair_nodes(g["b"], i["b"], tokmap, nodes, idents, problems)


def prog_case(gmod, text, toks, r, extra_idents=()):
    """returns (coq line or None, problems)"""
    tokmap = located_toks(toks)
    nodes, idents, problems = [], [], []
    order = {"struct": 0, "global": 1, "func": 2}
    gitems = sorted([it for it in gmod["items"] if it["k"] != "import"], key=lambda it: order[it["k"]])
    iitems = r["upd"]["items"]
    if [x["k"] for x in gitems] != [x["k"] for x in iitems]:
        return None, ["shape: items %r vs %r" % ([x["k"] for x in gitems], [x["k"] for x in iitems])]
    nodes.append((r["upd"]["loc"], r["upd"]["locs"], gen_spans(gmod, tokmap)))
    for g, i in zip(gitems, iitems):
        if g["k"] == "struct":
            nodes.append((i["loc"], i["locs"], gen_spans(g, tokmap)))
            for gf, jf in zip(g["fields"], i["fields"]):
                t = tokmap[id(gf)]
                nodes.append((jf["loc"], jf["locs"], [(t.begin, t.end)])); idents.append((jf["locs"], t.text))
        elif g["k"] == "global":
            t = tokmap[id(g)]
            nodes.append((i["loc"], i["locs"], [(t.begin, t.end)])); idents.append((i["locs"], t.text))
        else:
            nodes.append((i["loc"], i["locs"], gen_spans(g, tokmap)))
            if len(g["args"]) != len(i["args"]):
                problems.append("shape: args")
                continue
            for ga, ia in zip(g["args"], i["args"]):
                t = tokmap[id(ga)]
                nodes.append((ia["loc"], ia["locs"], [(t.begin, t.end)])); idents.append((ia["locs"], t.text))
            pair_nodes(g["body"], i["body"], tokmap, nodes, idents, problems)
    if problems:
        return None, problems
    ns = coq_list(["(%s, %s, %s)" % (span(l), parse_printed(s), coq_list(["(%d, %d)" % x for x in sp])) for l, s, sp in nodes])
    ids = coq_list(["(%s, %s)" % (parse_printed(s), ztext(t)) for s, t in list(idents) + list(extra_idents)])
    return "chk_prog %s (%s) (%s) %s %s" % (ztext(text), impl_tree(r["raw"]), impl_tree(r["upd"]), ns, ids), []


def redecl_program(rng):
    """a function in which exactly one name is declared twice with the first still visible"""
    name = rng.choice(["count", "abc", "x_1", "value"])
    first_is_arg = rng.random() < 0.4
    d2 = Decl(rng.choice(["int", "float"]), name, rng.choice([None, I(2), B("+", V("k"), I(1)), Call("g", [V("k"), F("1.5")])]))
    inner = [ES(A(V("k"), I(1))), d2, Ret(V("k"))]
    for _ in range(rng.choice([0, 1, 2])):
        inner = [rng.choice([lambda b: Block(b), lambda b: While(V("k"), Block(b)), lambda b: If(V("k"), Block(b), None),
                             lambda b: For(None, V("k"), None, Block(b))])(inner)]
    d1 = Decl("int", name, rng.choice([None, I(7)]))
    body = ([] if first_is_arg else [d1]) + inner
    args = [Arg("int", "k")] + ([Arg("float", name)] if first_is_arg else [])
    m = Module([Func("f", args, "int", Block(body), export=True)])
    return m, (args[1] if first_is_arg else d1), d2, name


def run(ctx):
    ctx.static_obligations(STATIC)
    repo = ctx.sync_repo(1)[0]
    try:
        gen = t_srcloc.generate(repo)
        open(os.path.join(ctx.dyn, "Gen_SrcLoc.v"), "w").write(gen)
        ctx.compile_dyn(["Gen_SrcLoc", "Agree_SrcLoc", "Props_C20"])
    except TranslatorAbort as e:
        ctx.broken.append("translator T9 (location arithmetic) aborted: %s" % e)
        ctx.obligations.append({"name": "T9.translate", "ok": False})
    rng = ctx.rng
    quick = ctx.tier == "quick"
    jobs, info = [], []
    for _ in range(150 if quick else 2500):
        j = gen_text_job(rng); jobs.append(j); info.append(("text", j))
    loose = nslgen.Loose(rng)
    for k in range(60 if quick else 800):
        m = loose.module()
        mode = ["canonical", "dense", "wild", "wild", "lines", "tabs"][k % 6]
        prefix = rng.choice(["", "", "\n\n", "   \t", "\r\n \n"]) if mode == "wild" else ""
        text, toks = nslgen.render(m, mode, rng, prefix)
        jobs.append({"k": "prog", "text": text}); info.append(("prog", (m, text, toks, mode)))
    for k in range(30 if quick else 300):
        m, first, second, name = redecl_program(rng)
        mode = ["canonical", "wild", "lines"][k % 3]
        text, toks = nslgen.render(m, mode, rng)
        jobs.append({"k": "prog", "text": text}); info.append(("redecl", (m, text, toks, mode, first, second, name)))
    res = ctx.run_impl("c20_impl.py", jobs)
    lines, meta, direct_bad = [], [], []
    dist = {"text": 0, "prog": 0, "redecl": 0, "layout_modes": {}, "illegal_chars_skipped": 0, "located_nodes": 0, "identifier_checks": 0}
    for (kind, payload), j, r in zip(info, jobs, res):
        dist[kind] += 1
        if "error" in r:
            direct_bad.append((kind, j, r)); continue
        if kind == "text":
            lines.append(text_case(j, r)); meta.append((kind, j, r))
            continue
        m, text, toks, mode = payload[:4]
        dist["layout_modes"][mode] = dist["layout_modes"].get(mode, 0) + 1
        dist["illegal_chars_skipped"] += r.get("illegal", 0)
        extra = []
        if kind == "redecl":
            first, second, name = payload[4:]
            tokmap = located_toks(toks)
            msgs = [x for x in r["msgs"] if "already declared" in x]
            mm = re.fullmatch(r"The variable '(.*)' \((.*)\) is already declared here (.*)", msgs[0]) if len(msgs) == 1 else None
            if not mm or mm.group(1) != name:
                direct_bad.append((kind, {"text": text}, {"diagnostic": r["msgs"]})); continue
            b2, e2 = min(x[0] for x in gen_spans(second, tokmap)), max(x[1] for x in gen_spans(second, tokmap))
            b1, e1 = min(x[0] for x in gen_spans(first, tokmap)), max(x[1] for x in gen_spans(first, tokmap))
            # the two printed ranges must designate the new declaration and the visible one
            extra = [(mm.group(2), text[b2:e2]), (mm.group(3), text[b1:e1])]
        line, problems = prog_case(m, text, toks, r, extra)
        if problems:
            direct_bad.append((kind, {"text": text}, {"shape_problems": problems[:3]})); continue
        dist["located_nodes"] += line.count("PSingle") + line.count("PMulti")
        dist["identifier_checks"] += line.count("(Some (P") // 1
        lines.append(line); meta.append((kind, {"text": text, "mode": mode}, {k: r[k] for k in ("msgs", "valid")}))
    files, per = [], 60
    for k in range(0, len(lines), per):
        f = os.path.join(ctx.dyn, "cases_C20_%d.v" % (k // per))
        open(f, "w").write(HEADER + "Definition cases : list Z := [\n  " + ";\n  ".join(lines[k:k + per]) + "].\nEval vm_compute in cases.\n")
        files.append(f)
    outs = ctx.eval_cases(files)
    codes = []
    for f in files:
        ok, out, err = outs[f]
        vals = parse_coq_values(out) if ok else []
        if not ok or not vals or not isinstance(vals[0], list):
            ctx.broken.append("correspondence: case file %s did not evaluate: %s" % (os.path.basename(f), err[-300:]))
            codes.extend([None] * min(per, len(lines) - len(codes)))
        else:
            codes.extend(vals[0])
    bad_model = [(m_, c) for m_, c in zip(meta, codes) if c is not None and c & 1]
    bad_spec = [(m_, c) for m_, c in zip(meta, codes) if c is not None and c & 2]
    ctx.cov["evaluations"] = len(jobs)
    ctx.cov["distinct_nontrivial"] = len({json.dumps(j, sort_keys=True) for (k, j, r) in meta if (k != "text" or len(j["text"]) > 1)})
    ctx.cov["rule"] = ("random texts over an alphabet with LF, CR, tab, FF, VT, FS, RS, NEL, U+2028/9, non-ASCII: every offset 0..len+2, "
                       "every line index 0..lines+2, random spans and merges through SourceMapping/Location; random syntactically valid "
                       "programs (all located constructs) in canonical/dense/wild/lines/tabs layouts through parser + UpdateLocations: every "
                       "node's range compared with the hull of the generator's token spans, every identifier/literal range read back as text; "
                       "redeclaration diagnostics. Non-trivial: texts longer than one character, every program; distinct by content.")
    ctx.cov["samples"] = [{"kind": k, "text": j["text"][:120], "observed": (r.get("strs", r) if k == "text" else r)} for (k, j, r) in (meta[3:5] + meta[-2:])]
    ctx.extra["input_distribution"] = dist
    ctx.extra["disagreements_checked"] = len(codes)
    ctx.extra["impl_vs_model_disagreements"] = len(bad_model)
    ctx.extra["impl_vs_spec_disagreements"] = len(bad_spec) + len(direct_bad)
    if bad_spec or direct_bad:
        if bad_spec:
            (k, j, r), c = min(bad_spec, key=lambda x: len(x[0][1]["text"]))
            ctx.violation("failing-input", {"what": "a reported position does not designate the text it talks about (offset/line mapping, printed range, "
                                                    "identifier range or hull differs from the specification)", "kind_of_case": k, "input": j,
                                            "observed": r, "count": len(bad_spec) + len(direct_bad)})
        else:
            k, j, r = direct_bad[0]
            ctx.violation("failing-input", {"what": "parser/location pipeline failed or produced a different tree/diagnostic than the source text describes",
                                            "kind_of_case": k, "input": j, "observed": r, "count": len(direct_bad)})
    elif bad_model:
        (k, j, r), c = bad_model[0]
        ctx.broken.append("correspondence: implementation differs from NSL.Model.SrcLoc on %d case(s), e.g. %s" % (len(bad_model), json.dumps(j)[:300]))
