(** * Model of the packing functions of nsl/WebAssembly.py (PackInteger, PackSignedInteger, PackString,
    WriteString, section framing).  No proofs here.  The same definitions are regenerated from the
    source on every run (translator T7 -> NSLDyn.Gen_WasmPack) and shown equal in NSLDyn.Agree_WasmPack. *)
From Coq Require Import ZArith List Bool.
Import ListNotations.
Local Open Scope Z_scope.

(** Python's int.bit_length *)
Definition bit_length (v : Z) : Z := if v =? 0 then 0 else Z.log2 (Z.abs v) + 1.

(** PackInteger: [blockCount = ceil(bit_length / 7)] groups, low group first, continuation bit on all but the last. *)
Fixpoint pack_loop (n : nat) (i blockCount v : Z) : list Z :=
  match n with
  | O => []
  | S n' =>
      let b := Z.land v 127 in
      let v := Z.shiftr v 7 in
      let b := if (i + 1) <? blockCount then Z.lor b 128 else b in
      b :: pack_loop n' (i + 1) blockCount v
  end.

Definition pack_integer (v : Z) : list Z :=
  if v =? 0 then [0]
  else let blockCount := (bit_length v + (7 - 1)) / 7 in
       pack_loop (Z.to_nat blockCount) 0 blockCount v.

(** PackSignedInteger: `while True` with an exit test; the model runs on fuel that the theorem shows suffices. *)
Fixpoint pack_signed_loop (fuel : nat) (v : Z) : list Z :=
  match fuel with
  | O => []
  | S f =>
      let b := Z.land v 127 in
      let v := Z.shiftr v 7 in
      if ((v =? 0) && (Z.land b 64 =? 0)) || ((v =? -1) && negb (Z.land b 64 =? 0))
      then [b]
      else Z.lor b 128 :: pack_signed_loop f v
  end.

Definition pack_signed_fuel (v : Z) : nat := Z.to_nat (Z.log2 (Z.abs v) / 7 + 2).
Definition pack_signed (v : Z) : list Z := pack_signed_loop (pack_signed_fuel v) v.

(** UTF-8 encoding of one code point (str.encode("utf-8") is CPython's; this is the standard's encoder,
    used for the name round trip; the correspondence compares it with CPython on sampled strings). *)
Definition utf8_encode1 (c : Z) : list Z :=
  if c <? 128 then [c]
  else if c <? 2048 then [192 + c / 64; 128 + c mod 64]
  else if c <? 65536 then [224 + c / 4096; 128 + (c / 64) mod 64; 128 + c mod 64]
  else [240 + c / 262144; 128 + (c / 4096) mod 64; 128 + (c / 64) mod 64; 128 + c mod 64].
Definition utf8_encode (cs : list Z) : list Z := flat_map utf8_encode1 cs.

(** WriteString: length of the encoded bytes, then the bytes. *)
Definition write_bytes_vec (bs : list Z) : list Z := pack_integer (Z.of_nat (length bs)) ++ bs.
Definition write_string (cs : list Z) : list Z := write_bytes_vec (utf8_encode cs).

(** <X>Section.WriteTo: id byte, payload length, payload. *)
Definition write_section (id : Z) (payload : list Z) : list Z :=
  id :: pack_integer (Z.of_nat (length payload)) ++ payload.

(** Module.WriteTo: the preamble (Spec.Leb128.wasm_preamble), then the sections in order, each framed as above. *)
Definition write_sections (secs : list (Z * list Z)) : list Z :=
  flat_map (fun s => write_section (fst s) (snd s)) secs.

(** CodeSection.WriteTo payload: number of bodies, then each body behind its size.
    ExportSection.WriteTo payload: number of exports, then (name, kind byte, index) each. *)
Definition write_code_payload (bodies : list (list Z)) : list Z :=
  pack_integer (Z.of_nat (length bodies)) ++ flat_map write_bytes_vec bodies.
Definition write_export (e : list Z * Z * Z) : list Z :=
  write_string (fst (fst e)) ++ snd (fst e) :: pack_integer (snd e).
Definition write_export_payload (es : list (list Z * Z * Z)) : list Z :=
  pack_integer (Z.of_nat (length es)) ++ flat_map write_export es.
