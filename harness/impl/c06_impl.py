"""Implementation side of C06/C07: compile with the WebAssembly option; return the bytes, the IR dump, and the VM's results."""
import sys, json, io, contextlib, os
sys.path.insert(0, os.path.dirname(os.path.abspath(__file__)))
from nsl import Compiler, LinearIR, VM
import irdump
from compile_impl import classify_exc, jsonable, unjson


def run(job):
    buf = io.StringIO()
    res = {}
    try:
        with contextlib.redirect_stdout(buf), contextlib.redirect_stderr(buf):
            comp = Compiler.Compiler()
            for earlier in job.get("before", []):        # the same Compiler object has compiled other sources before (their outcome does not matter)
                try:
                    comp.Compile(earlier, {"wasm": True, "optimize": bool(job.get("optimize"))})
                except BaseException:
                    pass
            r = comp.Compile(job["src"], {"wasm": True, "optimize": bool(job.get("optimize"))})
        if r is None:
            return {"accept": False, "how": {"exc": None, "stage": "returned-none"}}
        b = io.BytesIO(); r.WasmModule.WriteTo(b)
        res = {"accept": True, "hex": b.getvalue().hex(), "ir": irdump.module(r.IRModule)}
    except BaseException as e:
        res = {"accept": False, "how": classify_exc(e)}
        if job.get("before"):       # a used Compiler object may refuse more than a fresh one (its validators keep their verdict): not a backend refusal
            res["front_end_ok"] = False
            return res
        # is the program fine without the wasm option?  (then the backend refused it; otherwise the front end did)
        try:
            with contextlib.redirect_stdout(buf), contextlib.redirect_stderr(buf):
                r2 = Compiler.Compiler().Compile(job["src"], {"optimize": bool(job.get("optimize"))})
            res["front_end_ok"] = r2 is not None
            if r2 is not None:
                res["ir"] = irdump.module(r2.IRModule)
        except BaseException:
            res["front_end_ok"] = False
        return res
    res["vm"] = []
    try:
        l = LinearIR.Linker(); l.AddModule(r.IRModule); prog = l.Link()
        for c in job.get("calls", []):
            try:
                vm = VM.VirtualMachine(prog)
                rv = vm.Invoke(c["fn"], **{k: unjson(v) for k, v in c["named"].items()})
                res["vm"].append({"ret": jsonable(rv)})
            except BaseException as e:
                res["vm"].append({"fail": classify_exc(e)})
    except BaseException as e:
        res["vm_error"] = classify_exc(e)
    return res


if __name__ == "__main__":
    jobs = json.load(open(sys.argv[1]))
    json.dump([run(j) for j in jobs], open(sys.argv[2], "w"))
