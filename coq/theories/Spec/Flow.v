(** * Specification for C11: where break and continue may stand. *)
From Coq Require Import String ZArith List Bool.
From NSL Require Import Base.Types Base.Syntax.
Import ListNotations.

(** [misplaced s]: some break/continue in [s] is reached from the top of [s] without crossing a loop. *)
Inductive misplaced : stmt -> Prop :=
  | MBreak : misplaced SBreak
  | MContinue : misplaced SContinue
  | MBlock b s : In s b -> misplaced s -> misplaced (SBlock b)
  | MIfT c t f : misplaced t -> misplaced (SIf c t f)
  | MIfF c t f : misplaced f -> misplaced (SIf c t (Some f)).

Definition misplaced_in_func (f : func) : Prop := exists s, In s (f_body f) /\ misplaced s.
Definition misplaced_in_module (m : module) : Prop := exists f, In f (m_funcs m) /\ misplaced_in_func f.

(** executable form: every break/continue site with, for each enclosing statement (innermost first),
    whether that statement is a loop *)
Fixpoint flow_sites (s : stmt) : list (list bool) :=
  match s with
  | SBreak | SContinue => [[]]
  | SBlock b => flat_map flow_sites b
  | SIf _ t f => map (fun p => p ++ [false]) (flow_sites t ++ match f with Some f' => flow_sites f' | None => [] end)
  | SFor _ _ _ b => map (fun p => p ++ [true]) (flow_sites b)
  | SWhile _ b => map (fun p => p ++ [true]) (match b with Some b' => flow_sites b' | None => [] end)
  | SDo b _ => map (fun p => p ++ [true]) (flat_map flow_sites b)
  | _ => []
  end.

Definition spec_flow_ok (s : stmt) : bool := forallb (existsb (fun x => x)) (flow_sites s).
Definition spec_flow_ok_module (m : module) : bool := forallb (fun f => forallb spec_flow_ok (f_body f)) (m_funcs m).
