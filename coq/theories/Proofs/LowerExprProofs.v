(** * C01, stage 1: the lowering of pure scalar expressions is correct.
    For every typed expression built from literals, variables, binary operators and casts (any size), the instructions
    [lower_expr] appends -- after RewriteFunctionArgAccess ([finish_instr]) -- run straight through on the VM model and
    leave in the result register exactly the value [teval] prescribes: operands evaluated left to right, the arm
    [scalar_opc] selects applied with the integer flag of the result type, literals read from the pooled constant
    table.  [teval] is the VM's own operators applied along the typed tree; stage 2 relates it to the reference semantics. *)
From Coq Require Import String ZArith List Bool PrimFloat Arith Lia.
From NSL Require Import Base.Types Base.Syntax Model.PyNum Model.IR Model.VM Model.Elab Model.Lower Proofs.WfIRProofs.
Import ListNotations.

Definition lcode (st : lstate) : list linstr := flat_map snd (l_blocks st).
Definition cref (c : nat * irty * cval) : nat := fst (fst c).

(** invariants of a lowering state *)
Record linv (st : lstate) : Prop := {
  inv_consts_below : forall c, In c (l_consts st) -> cref c < l_next st;
  inv_blocks : l_newblock st = true \/ l_blocks st <> [];
  inv_nodup : NoDup (map cref (l_consts st)) }.

Definition cmatch (t : irty) (v : cval) (c : nat * irty * cval) : bool := irty_eqb_simple (snd (fst c)) t && cval_pyeq (snd c) v.
Definition const_lookup (cs : list (nat * irty * cval)) (t : irty) (v : cval) : option (nat * irty * cval) := find (cmatch t v) cs.

Lemma find_app_some {A} (p : A -> bool) l m x : find p l = Some x -> find p (l ++ m) = Some x.
Proof. induction l as [|a l IH]; cbn; [discriminate|]. destruct (p a); auto. Qed.
Lemma find_app_none {A} (p : A -> bool) l m : find p l = None -> find p (l ++ m) = find p m.
Proof. induction l as [|a l IH]; cbn; [reflexivity|]. destruct (p a); [discriminate|auto]. Qed.

Lemma NoDup_app_single {A} (l : list A) x : NoDup l -> ~ In x l -> NoDup (l ++ [x]).
Proof.
  induction l as [|a l IH]; intros Hn Hx; cbn; [constructor; [intros []|constructor]|].
  inversion Hn; subst. constructor.
  - intros Hin. apply in_app_or in Hin as [Hin|[<-|[]]]; [contradiction|]. apply Hx. left. reflexivity.
  - apply IH; [assumption|]. intros Hin. apply Hx. right. exact Hin.
Qed.

Lemma create_const_spec st t v st' r : linv st -> create_const st t v = (st', r) ->
  linv st' /\ l_blocks st' = l_blocks st /\ l_newblock st' = l_newblock st /\ l_locals st' = l_locals st /\
  l_next st <= l_next st' /\ r < l_next st' /\
  (exists new, l_consts st' = l_consts st ++ new /\ forall c, In c new -> l_next st <= cref c < l_next st') /\
  (irty_eqb_simple t t = true -> cval_pyeq v v = true -> forall more, exists c, const_lookup (l_consts st' ++ more) t v = Some c /\ cref c = r).
Proof.
  intros I H. unfold create_const in H. fold (cmatch t v) in H. destruct (find (cmatch t v) (l_consts st)) as [c|] eqn:E.
  - inversion H; subst. pose proof (find_some _ _ E) as [Hin _].
    split; [exact I|]. do 4 (split; [reflexivity || lia|]). split; [apply (inv_consts_below _ I c Hin)|]. split.
    + exists []. rewrite app_nil_r. split; [reflexivity|intros ? []].
    + intros _ _ more. exists c. split; [apply find_app_some; exact E|reflexivity].
  - inversion H; subst; clear H. cbn.
    split; [|do 3 (split; [reflexivity|]); split; [lia|]; split; [lia|]; split].
    + constructor; cbn; [|apply I|].
      * intros c Hc. apply in_app_or in Hc as [Hc|[<-|[]]]; [pose proof (inv_consts_below _ I c Hc); lia|cbn; lia].
      * rewrite map_app. cbn. apply NoDup_app_single; [apply I|]. intros Hin. apply in_map_iff in Hin as (c & Hc1 & Hc2).
        pose proof (inv_consts_below _ I c Hc2). lia.
    + exists [(l_next st, t, v)]. split; [reflexivity|]. intros c [<-|[]]. cbn. lia.
    + intros Ht Hv more. exists (l_next st, t, v). split; [|reflexivity]. unfold const_lookup. rewrite <- app_assoc.
      rewrite find_app_none by exact E. cbn. unfold cmatch at 1. cbn. rewrite Ht, Hv. reflexivity.
Qed.

(** emitting one instruction *)
Lemma lcode_append_last bs i : bs <> [] -> flat_map snd (append_last bs i) = flat_map snd bs ++ [i].
Proof.
  intros Hne. unfold append_last. destruct (rev bs) as [|[r code] rest] eqn:E.
  - exfalso. apply Hne. rewrite <- (rev_involutive bs), E. reflexivity.
  - assert (Hb : bs = rev rest ++ [(r, code)]) by (rewrite <- (rev_involutive bs), E; reflexivity).
    rewrite Hb. rewrite !flat_map_app. cbn. rewrite !app_nil_r, app_assoc. reflexivity.
Qed.

Lemma emit_raw_spec st mk st' r : linv st -> emit_raw st mk = (st', r) ->
  linv st' /\ lcode st' = lcode st ++ [mk r] /\ l_consts st' = l_consts st /\ l_locals st' = l_locals st /\ l_depth st' = l_depth st /\
  l_newblock st' = false /\ l_next st <= r /\ r < l_next st' .
Proof.
  intros I H. unfold emit_raw in H. destruct (l_newblock st) eqn:En.
  - cbn in H. inversion H; subst; clear H. cbn.
    split; [|split; [|do 4 (split; [reflexivity|]); lia]].
    + constructor; cbn.
      * intros c Hc. pose proof (inv_consts_below _ I c Hc). lia.
      * right. unfold append_last. rewrite rev_app_distr. cbn. intro X. apply app_eq_nil in X as [_ X]. discriminate.
      * apply I.
    + unfold lcode. cbn. rewrite lcode_append_last by (intro X; apply app_eq_nil in X as [_ X]; discriminate).
      rewrite flat_map_app. cbn. rewrite app_nil_r. reflexivity.
  - inversion H; subst; clear H. cbn. destruct (inv_blocks _ I) as [X|Hne]; [congruence|].
    split; [|split; [|do 4 (split; [reflexivity|]); lia]].
    + constructor; cbn.
      * intros c Hc. pose proof (inv_consts_below _ I c Hc). lia.
      * right. unfold append_last. destruct (rev (l_blocks st)) as [|[r code] rest] eqn:Er; [|intro X; apply app_eq_nil in X as [_ X]; discriminate].
        exfalso. apply Hne. rewrite <- (rev_involutive (l_blocks st)), Er. reflexivity.
      * apply I.
    + unfold lcode. cbn. apply lcode_append_last. exact Hne.
Qed.

Lemma emit_spec st t b st' r : linv st -> emit st t b = (st', r) ->
  linv st' /\ lcode st' = lcode st ++ [LI {| i_ref := r; i_ty := t; i_body := b |}] /\ l_consts st' = l_consts st /\ l_locals st' = l_locals st /\
  l_depth st' = l_depth st /\ l_newblock st' = false /\ l_next st <= r /\ r < l_next st'.
Proof. intros I H. unfold emit in H. apply emit_raw_spec in H; auto. Qed.

(** straight-line execution *)
Inductive runs (F : ifunc) : nat -> list instr -> frame -> vmstate -> frame -> Prop :=
  | runs_nil pc fr vs : runs F pc [] fr vs fr
  | runs_cons pc i r fr vs fr1 fr2 : step F pc fr vs i = StNext (S pc) fr1 vs -> runs F (S pc) r fr1 vs fr2 -> runs F pc (i :: r) fr vs fr2.

Lemma runs_app F is1 : forall pc is2 fr vs fr1 fr2, runs F pc is1 fr vs fr1 -> runs F (pc + length is1) is2 fr1 vs fr2 -> runs F pc (is1 ++ is2) fr vs fr2.
Proof.
  induction is1 as [|i is1 IH]; intros pc is2 fr vs fr1 fr2 H1 H2; inversion H1; subst; cbn in *.
  - rewrite Nat.add_0_r in H2. exact H2.
  - econstructor; [eassumption|]. eapply IH; [eassumption|]. replace (S pc + length is1) with (pc + S (length is1)) by lia. exact H2.
Qed.

Lemma run_runs P F is : forall pc fr vs fr' fuel pre post, runs F pc is fr vs fr' -> flat_code F = pre ++ is ++ post -> pc = length pre ->
  run (length is + fuel) P F pc fr vs = run fuel P F (pc + length is) fr' vs.
Proof.
  induction is as [|i is IH]; intros pc fr vs fr' fuel pre post H Hc Hpc; inversion H; subst.
  - cbn. rewrite Nat.add_0_r. reflexivity.
  - assert (En : nth_error (flat_code F) (length pre) = Some i) by (rewrite Hc, nth_error_app2 by lia; rewrite Nat.sub_diag; reflexivity).
    cbn [length Nat.add run]. rewrite En.
    match goal with Hs : step _ _ _ _ _ = _ |- _ => rewrite Hs end.
    rewrite (IH (S (length pre)) _ _ fr' fuel (pre ++ [i]) post); auto.
    + f_equal. lia.
    + rewrite Hc, <- app_assoc. reflexivity.
    + rewrite app_length. cbn. lia.
Qed.

Lemma binary_op_scalar_opc o t h a b :
  binary_op (scalar_opc o) t h a b = (do v <- scalar_op (scalar_opc o) (match t with ITInt _ => true | _ => false end) a b; Ok (h, v)).
Proof. destruct o; reflexivity. Qed.
Lemma with_heap_same vs : with_heap vs (hp vs) = vs.
Proof. destruct vs; reflexivity. Qed.

Section Expr.
  Variable structs : list sdef.
  Variable gl args : list string.
  Notation lower := (lower_expr structs gl args).
  Notation adt := (adapt structs 8).

  Fixpoint tpure (e : texpr) : bool :=
    match e with
    | XInt _ => true
    | XFloat f => PrimFloat.eqb f f
    | XVar _ (TPrim (PScalar _)) => true
    | XBin _ (PScalar _) l r => tpure l && tpure r
    | XCast (PScalar _) a => tpure a
    | _ => false
    end.

  Definition arg_idx (x : string) : varname :=
    (fix go (l : list string) (k : nat) : varname := match l with [] => VName x | y :: r => if String.eqb x y then VIndex k else go r (S k) end) args 0.

  Definition var_val (locals : list string) (fr : frame) (vs : vmstate) (x : string) : res val :=
    if existsb (String.eqb x) gl then match slookup x (globals vs) with Some w => Ok w | None => Err (EKey KGlobal) end
    else if existsb (String.eqb x) args then
      match arg_idx x with VIndex n => match nth_error (fargs fr) n with Some w => Ok w | None => Err EIndex end | VName _ => Err EType end
    else if existsb (String.eqb x) locals then match slookup x (vars fr) with Some w => Ok w | None => Err (EKey KVar) end
    else Unmodelled.

  Definition is_int_irty (t : irty) : bool := match t with ITInt _ => true | _ => false end.

  Fixpoint teval (cs : list (nat * irty * cval)) (locals : list string) (fr : frame) (vs : vmstate) (e : texpr) : res val :=
    match e with
    | XInt z => match const_lookup cs (ITInt false) (KInt z) with Some c => Ok (const_val (snd c)) | None => Unmodelled end
    | XFloat f => match const_lookup cs ITFloat (KFloat f) with Some c => Ok (const_val (snd c)) | None => Unmodelled end
    | XVar x _ => var_val locals fr vs x
    | XBin o rt l r => do a <- teval cs locals fr vs l; do b <- teval cs locals fr vs r; scalar_op (scalar_opc o) (is_int_irty (adt (TPrim rt))) a b
    | XCast t a => do w <- teval cs locals fr vs a; match w with VRef _ => Unmodelled | _ => cast_scalar (adt (TPrim t)) w end
    | _ => Unmodelled
    end.

  Lemma teval_frame cs locals fr fr' vs e : vars fr' = vars fr -> fargs fr' = fargs fr -> teval cs locals fr' vs e = teval cs locals fr vs e.
  Proof.
    intros Hv Ha. induction e; cbn; try reflexivity.
    - unfold var_val. rewrite Hv, Ha. reflexivity.
    - rewrite IHe1, IHe2. reflexivity.
    - rewrite IHe. reflexivity.
  Qed.

  Lemma rget_rset_same fr r v : rget (rset fr r v) r = Ok v.
  Proof. unfold rget, rset. cbn. rewrite rlookup_update_same. reflexivity. Qed.
  Lemma rlookup_rset_other fr r v q : q <> r -> rlookup q (regs (rset fr r v)) = rlookup q (regs fr).
  Proof. intros H. unfold rset. cbn. apply rlookup_update_other. exact H. Qed.

  Definition sem_ok (st st' : lstate) (te : texpr) (r : nat) (is : list instr) : Prop :=
    forall F pc fr vs cs v,
      (exists more, cs = l_consts st' ++ more) ->
      (forall c, In c cs -> rlookup (cref c) (regs fr) = Some (const_val (snd c))) ->
      (forall c i, In c cs -> In i is -> cref c <> i_ref i) ->
      teval cs (l_locals st) fr vs te = Ok v ->
      exists fr', runs F pc (map (finish_instr args) (map LI is)) fr vs fr' /\ rget fr' r = Ok v /\ vars fr' = vars fr /\ fargs fr' = fargs fr /\
                  (forall q, (forall i, In i is -> i_ref i <> q) -> rlookup q (regs fr') = rlookup q (regs fr)).

  Lemma lower_pure_correct : forall te st r st', tpure te = true -> linv st -> lower te st = LOk (r, st') ->
    linv st' /\ l_locals st' = l_locals st /\ l_next st <= l_next st' /\ r < l_next st' /\
    (exists new, l_consts st' = l_consts st ++ new /\ forall c, In c new -> l_next st <= cref c) /\
    exists is, lcode st' = lcode st ++ map LI is /\ (forall i, In i is -> l_next st <= i_ref i < l_next st') /\
               (forall c i, In c (l_consts st') -> In i is -> cref c <> i_ref i) /\ sem_ok st st' te r is.
  Proof.
    induction te as [z|f|x t|o rt l IHl r0 IHr|t a IHa| | | | | | ]; intros st r st' Hp I H; try discriminate.
    - (* int literal *)
      cbn [lower_expr] in H. destruct (create_const st (ITInt false) (KInt z)) as [st1 r1] eqn:E. inversion H; subst; clear H.
      destruct (create_const_spec _ _ _ _ _ I E) as (I' & Hb & Hn & Hl & Hle & Hr & (new & Hnew & Hrng) & Hfind).
      split; [exact I'|]. split; [exact Hl|]. split; [exact Hle|]. split; [exact Hr|]. split; [exists new; split; [exact Hnew|intros c0 Hc0; apply Hrng; exact Hc0]|].
      exists []. split; [unfold lcode; rewrite Hb, app_nil_r; reflexivity|]. split; [intros ? []|]. split; [intros ? ? ? []|].
      intros F pc fr vs cs v [more ->] Hc _ Hv. cbn in Hv.
      destruct (Hfind eq_refl (Z.eqb_refl z) more) as (c & Hf & Hcr). rewrite Hf in Hv. inversion Hv; subst.
      exists fr. split; [constructor|]. split; [|auto]. unfold rget. rewrite Hc; [reflexivity|]. apply (find_some _ _ Hf).
    - (* float literal *)
      cbn [lower_expr] in H. destruct (create_const st ITFloat (KFloat f)) as [st1 r1] eqn:E. inversion H; subst; clear H.
      destruct (create_const_spec _ _ _ _ _ I E) as (I' & Hb & Hn & Hl & Hle & Hr & (new & Hnew & Hrng) & Hfind).
      split; [exact I'|]. split; [exact Hl|]. split; [exact Hle|]. split; [exact Hr|]. split; [exists new; split; [exact Hnew|intros c0 Hc0; apply Hrng; exact Hc0]|].
      exists []. split; [unfold lcode; rewrite Hb, app_nil_r; reflexivity|]. split; [intros ? []|]. split; [intros ? ? ? []|].
      intros F pc fr vs cs v [more ->] Hc _ Hv. cbn in Hv. cbn in Hp.
      destruct (Hfind eq_refl Hp more) as (c & Hf & Hcr). rewrite Hf in Hv. inversion Hv; subst.
      exists fr. split; [constructor|]. split; [|auto]. unfold rget. rewrite Hc; [reflexivity|]. apply (find_some _ _ Hf).
    - (* variable *)
      cbn [lower_expr lbind] in H. unfold scope_of in H.
      destruct t as [[c| |]| | |]; try discriminate.
      destruct (existsb (String.eqb x) gl) eqn:Eg; [|destruct (existsb (String.eqb x) args) eqn:Ea; [|destruct (existsb (String.eqb x) (l_locals st)) eqn:El; [|discriminate]]];
        cbn [lbind] in H;
        match type of H with context [emit st ?t ?b] => destruct (emit st t b) as [st1 r1] eqn:E end; inversion H; subst; clear H;
        destruct (emit_spec _ _ _ _ _ I E) as (I' & Hcode & Hcs & Hl & _ & _ & Hlo & Hhi);
        (split; [exact I'|]; split; [exact Hl|]; split; [lia|]; split; [exact Hhi|]; split; [exists []; split; [rewrite app_nil_r; exact Hcs|intros ? []]|]);
        eexists [_]; (split; [exact Hcode|]); (split; [intros i [<-|[]]; cbn; lia|]);
        (split; [intros c0 i Hc0 [<-|[]]; cbn; rewrite Hcs in Hc0; pose proof (inv_consts_below _ I c0 Hc0); lia|]);
        intros F pc fr vs cs v _ Hc _ Hv; cbn [teval] in Hv; unfold var_val in Hv; rewrite Eg, ?Ea, ?El in Hv.
      + destruct (slookup x (globals vs)) as [w|] eqn:Es; [|discriminate]. assert (w = v) by congruence; subst w.
        exists (rset fr r v). split; [|split; [apply rget_rset_same|split; [reflexivity|split; [reflexivity|]]]].
        * econstructor; [|constructor]. cbn. unfold step. cbn. rewrite Es. reflexivity.
        * intros q Hq. apply rlookup_rset_other. intro; subst. apply (Hq _ (or_introl eq_refl)). reflexivity.
      + fold (arg_idx x) in Hv. destruct (arg_idx x) as [s|n] eqn:Ei; [discriminate|]. destruct (nth_error (fargs fr) n) as [w|] eqn:En; [|discriminate]. assert (w = v) by congruence; subst w.
        exists (rset fr r v). split; [|split; [apply rget_rset_same|split; [reflexivity|split; [reflexivity|]]]].
        * econstructor; [|constructor]. cbn [map finish_instr i_body i_ref i_ty]. fold (arg_idx x). rewrite Ei. unfold step. cbn. rewrite En. reflexivity.
        * intros q Hq. apply rlookup_rset_other. intro; subst. apply (Hq _ (or_introl eq_refl)). reflexivity.
      + destruct (slookup x (vars fr)) as [w|] eqn:Es; [|discriminate]. assert (w = v) by congruence; subst w.
        exists (rset fr r v). split; [|split; [apply rget_rset_same|split; [reflexivity|split; [reflexivity|]]]].
        * econstructor; [|constructor]. cbn. unfold step. cbn. rewrite Es. reflexivity.
        * intros q Hq. apply rlookup_rset_other. intro; subst. apply (Hq _ (or_introl eq_refl)). reflexivity.
    - (* binary operator *)
      destruct rt as [c| |]; try discriminate. cbn [tpure] in Hp. apply andb_prop in Hp as [Hpl Hpr].
      cbn [lower_expr lbind] in H.
      destruct (lower l st) as [[a st1]| |] eqn:El; cbn [lbind] in H; try discriminate.
      destruct (lower r0 st1) as [[b st2]| |] eqn:Er; cbn [lbind] in H; try discriminate.
      match type of H with context [emit st2 ?t ?bd] => destruct (emit st2 t bd) as [st3 ref] eqn:Ee end. inversion H; subst; clear H.
      destruct (IHl _ _ _ Hpl I El) as (I1 & Hl1 & Hn1 & Ha & (new1 & Hc1 & Hg1) & is1 & Hcode1 & Hr1 & Hd1 & Hsem1).
      destruct (IHr _ _ _ Hpr I1 Er) as (I2 & Hl2 & Hn2 & Hb & (new2 & Hc2 & Hg2) & is2 & Hcode2 & Hr2 & Hd2 & Hsem2).
      destruct (emit_spec _ _ _ _ _ I2 Ee) as (I3 & Hcode3 & Hc3 & Hl3 & _ & _ & Hlo & Hhi).
      split; [exact I3|]. split; [congruence|]. split; [lia|]. split; [exact Hhi|].
      split; [exists (new1 ++ new2); split; [rewrite Hc3, Hc2, Hc1, app_assoc; reflexivity|
                                            intros c0 Hc0; apply in_app_or in Hc0 as [Hc0|Hc0]; [apply Hg1; exact Hc0|specialize (Hg2 c0 Hc0); lia]]|].
      set (bin := {| i_ref := r; i_ty := adapt structs 8 (TPrim (PScalar c)); i_body := IBin (scalar_opc o) a b |}) in *.
      exists (is1 ++ is2 ++ [bin]). split; [rewrite Hcode3, Hcode2, Hcode1, !map_app, <- !app_assoc; reflexivity|].
      split.
      { intros i Hi. apply in_app_or in Hi as [Hi|Hi]; [specialize (Hr1 i Hi); lia|]. apply in_app_or in Hi as [Hi|[<-|[]]]; [specialize (Hr2 i Hi); lia|cbn; lia]. }
      split.
      { intros c0 i Hc0 Hi. rewrite Hc3 in Hc0.
        assert (Hlt2 : cref c0 < l_next st2) by (apply (inv_consts_below _ I2); exact Hc0).
        rewrite Hc2 in Hc0. apply in_app_or in Hc0 as [Hc0|Hc0].
        - (* a constant that existed after the left operand *)
          pose proof (inv_consts_below _ I1 c0 Hc0) as Hlt1.
          apply in_app_or in Hi as [Hi|Hi]; [apply Hd1; assumption|]. apply in_app_or in Hi as [Hi|[<-|[]]]; [specialize (Hr2 i Hi); lia|cbn; lia].
        - (* a constant created by the right operand *)
          specialize (Hg2 c0 Hc0).
          apply in_app_or in Hi as [Hi|Hi]; [specialize (Hr1 i Hi); lia|]. apply in_app_or in Hi as [Hi|[<-|[]]]; [apply Hd2; [rewrite Hc2; apply in_or_app; right; exact Hc0|exact Hi]|cbn; lia]. }
      intros F pc fr vs cs v [more Hcs] Hc Hdisj Hv. cbn [teval] in Hv.
      destruct (teval cs (l_locals st) fr vs l) as [va| |] eqn:Eva; try discriminate. cbn [bind] in Hv.
      destruct (teval cs (l_locals st) fr vs r0) as [vb| |] eqn:Evb; try discriminate. cbn [bind] in Hv.
      destruct (Hsem1 F pc fr vs cs va) as (fr1 & Hrun1 & Hga & Hv1 & Ha1 & Hf1).
      { exists (new2 ++ more). rewrite Hcs, Hc3, Hc2, <- app_assoc. reflexivity. }
      { exact Hc. }
      { intros c0 i Hc0 Hi. apply Hdisj; [exact Hc0|]. apply in_or_app. left. exact Hi. }
      { exact Eva. }
      destruct (Hsem2 F (pc + length is1) fr1 vs cs vb) as (fr2 & Hrun2 & Hgb & Hv2 & Ha2 & Hf2).
      { exists more. rewrite Hcs, Hc3. reflexivity. }
      { intros c0 Hc0. rewrite Hf1; [apply Hc; exact Hc0|]. intros i Hi E. apply (Hdisj c0 i Hc0); [apply in_or_app; left; exact Hi|congruence]. }
      { intros c0 i Hc0 Hi. apply Hdisj; [exact Hc0|]. apply in_or_app. right. apply in_or_app. left. exact Hi. }
      { rewrite Hl1. rewrite (teval_frame cs (l_locals st) fr fr1 vs r0 Hv1 Ha1). exact Evb. }
      exists (rset fr2 r v). split; [|split; [apply rget_rset_same|split; [cbn; congruence|split; [cbn; congruence|]]]].
      + rewrite !map_app. eapply runs_app; [exact Hrun1|]. rewrite !map_length. eapply runs_app; [exact Hrun2|].
        rewrite !map_length. econstructor; [|constructor]. unfold bin. cbn [map finish_instr i_body i_ref i_ty]. unfold step. cbn [i_body i_ref i_ty].
        assert (Hga2 : rget fr2 a = Ok va).
        { unfold rget in *. rewrite Hf2; [exact Hga|]. intros i Hi E. specialize (Hr2 i Hi). lia. }
        rewrite Hga2, Hgb. cbn [lift]. rewrite binary_op_scalar_opc. unfold is_int_irty in Hv. rewrite Hv. cbn [bind lift]. rewrite with_heap_same. reflexivity.
      + intros q Hq. rewrite rlookup_rset_other by (intro; subst; apply (Hq bin); [apply in_or_app; right; apply in_or_app; right; left; reflexivity|reflexivity]).
        rewrite Hf2 by (intros i Hi; apply Hq; apply in_or_app; right; apply in_or_app; left; exact Hi).
        apply Hf1. intros i Hi. apply Hq. apply in_or_app. left. exact Hi.
    - (* cast *)
      destruct t as [c| |]; try discriminate. cbn [tpure] in Hp. cbn [lower_expr lbind] in H.
      destruct (lower a st) as [[v0 st1]| |] eqn:Ea; cbn [lbind] in H; try discriminate.
      match type of H with context [emit st1 ?t ?bd] => destruct (emit st1 t bd) as [st2 ref] eqn:Ee end. inversion H; subst; clear H.
      destruct (IHa _ _ _ Hp I Ea) as (I1 & Hl1 & Hn1 & Hv0 & (new1 & Hc1 & Hg1) & is1 & Hcode1 & Hr1 & Hd1 & Hsem1).
      destruct (emit_spec _ _ _ _ _ I1 Ee) as (I2 & Hcode2 & Hc2 & Hl2 & _ & _ & Hlo & Hhi).
      split; [exact I2|]. split; [congruence|]. split; [lia|]. split; [exact Hhi|]. split; [exists new1; split; [rewrite Hc2, Hc1; reflexivity|exact Hg1]|].
      set (cst := {| i_ref := r; i_ty := adapt structs 8 (TPrim (PScalar c)); i_body := ICast v0 |}) in *.
      exists (is1 ++ [cst]). split; [rewrite Hcode2, Hcode1, map_app, <- app_assoc; reflexivity|].
      split.
      { intros i Hi. apply in_app_or in Hi as [Hi|[<-|[]]]; [specialize (Hr1 i Hi); lia|cbn; lia]. }
      split.
      { intros c0 i Hc0 Hi. rewrite Hc2 in Hc0. apply in_app_or in Hi as [Hi|[<-|[]]]; [apply Hd1; assumption|].
        pose proof (inv_consts_below _ I1 c0 Hc0). cbn. lia. }
      intros F pc fr vs cs v [more Hcs] Hc Hdisj Hv. cbn [teval] in Hv.
      destruct (teval cs (l_locals st) fr vs a) as [w| |] eqn:Ew; try discriminate. cbn [bind] in Hv.
      destruct (Hsem1 F pc fr vs cs w) as (fr1 & Hrun1 & Hg & Hv1 & Ha1 & Hf1).
      { exists more. rewrite Hcs, Hc2. reflexivity. }
      { exact Hc. }
      { intros c0 i Hc0 Hi. apply Hdisj; [exact Hc0|]. apply in_or_app. left. exact Hi. }
      { exact Ew. }
      exists (rset fr1 r v). split; [|split; [apply rget_rset_same|split; [cbn; congruence|split; [cbn; congruence|]]]].
      + rewrite !map_app. eapply runs_app; [exact Hrun1|]. rewrite !map_length. econstructor; [|constructor].
        unfold cst. cbn [map finish_instr i_body i_ref i_ty]. unfold step. cbn [i_body i_ref i_ty]. rewrite Hg. cbn [lift].
        assert (Hcv : cast_value 4 (adapt structs 8 (TPrim (PScalar c))) (hp vs) w = Ok (hp vs, v)).
        { destruct w; try discriminate; cbn [cast_value]; rewrite Hv; reflexivity. }
        destruct c; cbn [adapt ty_is_primitive ty_is_scalar ty_is_vector ty_is_matrix orb negb] in *; rewrite Hcv; cbn [lift]; rewrite with_heap_same; reflexivity.
      + intros q Hq. rewrite rlookup_rset_other by (intro; subst; apply (Hq cst); [apply in_or_app; right; left; reflexivity|reflexivity]).
        apply Hf1. intros i Hi. apply Hq. apply in_or_app. left. exact Hi.
  Qed.
End Expr.

(** ** the constant table: literals are present, typed, and (for floats, under [lits_exact]) exact *)
Fixpoint tilits (e : texpr) : list Z :=
  match e with XInt z => [z] | XBin _ _ l r => tilits l ++ tilits r | XCast _ a => tilits a | _ => [] end.
Fixpoint tflits (e : texpr) : list float :=
  match e with XFloat f => [f] | XBin _ _ l r => tflits l ++ tflits r | XCast _ a => tflits a | _ => [] end.

(** no two float literals are equal as numbers but different as values (that is: not both +0.0 and -0.0; -0.0 is not writable in NSL) *)
Definition lits_exact (L : list float) : Prop := forall f f', In f L -> In f' L -> PrimFloat.eqb f' f = true -> f' = f.

Definition table_ok (L : list float) (cs : list (nat * irty * cval)) : Prop :=
  forall c, In c cs -> (forall u, snd (fst c) = ITInt u -> exists z, snd c = KInt z) /\ (snd (fst c) = ITFloat -> exists f, snd c = KFloat f /\ In f L).

Lemma lookup_exact_int L cs z c : table_ok L cs -> const_lookup cs (ITInt false) (KInt z) = Some c -> snd c = KInt z.
Proof.
  intros Ht Hf. apply find_some in Hf as [Hin Hm]. unfold cmatch in Hm. apply andb_prop in Hm as [Hty Hv].
  destruct c as [[r t] v]. cbn in *. destruct t; try discriminate. destruct (proj1 (Ht _ Hin) unsigned eq_refl) as [x Hx]. cbn in Hx. subst v.
  cbn in Hv. apply Z.eqb_eq in Hv. congruence.
Qed.
Lemma lookup_exact_float L cs f c : table_ok L cs -> lits_exact L -> In f L -> const_lookup cs ITFloat (KFloat f) = Some c -> snd c = KFloat f.
Proof.
  intros Ht Hl HfL Hf. apply find_some in Hf as [Hin Hm]. unfold cmatch in Hm. apply andb_prop in Hm as [Hty Hv].
  destruct c as [[r t] v]. cbn in *. destruct t; try discriminate. destruct (proj2 (Ht _ Hin) eq_refl) as (f' & Hx & Hf'). cbn in Hx. subst v.
  cbn in Hv. rewrite (Hl f f' HfL Hf' Hv). reflexivity.
Qed.

Section Table.
  Variable structs : list sdef.
  Variable gl args : list string.
  Variable L : list float.

  Lemma lower_table : forall te st r st', tpure te = true -> linv st -> lower_expr structs gl args te st = LOk (r, st') ->
    table_ok L (l_consts st) -> incl (tflits te) L ->
    linv st' /\ table_ok L (l_consts st') /\ (exists new, l_consts st' = l_consts st ++ new) /\
    (forall z, In z (tilits te) -> exists c, const_lookup (l_consts st') (ITInt false) (KInt z) = Some c) /\
    (forall f, In f (tflits te) -> exists c, const_lookup (l_consts st') ITFloat (KFloat f) = Some c).
  Proof.
    induction te as [z|f|x t|o rt l IHl r0 IHr|t a IHa| | | | | | ]; intros st r st' Hp I H Ht Hin; try discriminate.
    - cbn [lower_expr] in H. destruct (create_const st (ITInt false) (KInt z)) as [st1 r1] eqn:E. inversion H; subst; clear H.
      destruct (create_const_spec _ _ _ _ _ I E) as (I' & _ & _ & _ & _ & _ & (new & Hnew & _) & Hfind).
      split; [exact I'|]. split; [|split; [exists new; exact Hnew|split]].
      + intros c Hc. rewrite Hnew in Hc. apply in_app_or in Hc as [Hc|Hc]; [apply Ht; exact Hc|].
        unfold create_const in E. destruct (find _ (l_consts st)); inversion E; subst; cbn in Hnew.
        * assert (new = []) by (apply (app_inv_head (l_consts st')); rewrite <- Hnew, app_nil_r; reflexivity). subst. destruct Hc.
        * apply app_inv_head in Hnew. subst new. destruct Hc as [<-|[]]. cbn. split; [intros; eexists; reflexivity|discriminate].
      + intros z0 [<-|[]]. destruct (Hfind eq_refl (Z.eqb_refl z) []) as (c & Hc & _). rewrite app_nil_r in Hc. exists c. exact Hc.
      + intros ? [].
    - cbn [lower_expr] in H. destruct (create_const st ITFloat (KFloat f)) as [st1 r1] eqn:E. inversion H; subst; clear H.
      destruct (create_const_spec _ _ _ _ _ I E) as (I' & _ & _ & _ & _ & _ & (new & Hnew & _) & Hfind).
      split; [exact I'|]. split; [|split; [exists new; exact Hnew|split]].
      + intros c Hc. rewrite Hnew in Hc. apply in_app_or in Hc as [Hc|Hc]; [apply Ht; exact Hc|].
        unfold create_const in E. destruct (find _ (l_consts st)); inversion E; subst; cbn in Hnew.
        * assert (new = []) by (apply (app_inv_head (l_consts st')); rewrite <- Hnew, app_nil_r; reflexivity). subst. destruct Hc.
        * apply app_inv_head in Hnew. subst new. destruct Hc as [<-|[]]. cbn. split; [discriminate|]. intros _. exists f. split; [reflexivity|apply Hin; left; reflexivity].
      + intros ? [].
      + intros f0 [<-|[]]. cbn in Hp. destruct (Hfind eq_refl Hp []) as (c & Hc & _). rewrite app_nil_r in Hc. exists c. exact Hc.
    - cbn [lower_expr lbind] in H. destruct t as [[c| |]| | |]; try discriminate.
      destruct (scope_of gl args st x) as [sc| |]; cbn [lbind] in H; try discriminate.
      match type of H with context [emit st ?t ?b] => destruct (emit st t b) as [st1 r1] eqn:E end. inversion H; subst; clear H.
      destruct (emit_spec _ _ _ _ _ I E) as (I' & _ & Hcs & _).
      split; [exact I'|]. rewrite Hcs. split; [exact Ht|]. split; [exists []; rewrite app_nil_r; reflexivity|]. split; intros ? [].
    - destruct rt as [c| |]; try discriminate. cbn [tpure] in Hp. apply andb_prop in Hp as [Hpl Hpr]. cbn [lower_expr lbind] in H.
      destruct (lower_expr structs gl args l st) as [[a st1]| |] eqn:El; cbn [lbind] in H; try discriminate.
      destruct (lower_expr structs gl args r0 st1) as [[b st2]| |] eqn:Er; cbn [lbind] in H; try discriminate.
      match type of H with context [emit st2 ?t ?bd] => destruct (emit st2 t bd) as [st3 ref] eqn:Ee end. inversion H; subst; clear H.
      cbn [tflits] in Hin.
      destruct (IHl _ _ _ Hpl I El Ht (fun q Hq => Hin q (in_or_app _ _ _ (or_introl Hq)))) as (I1 & Ht1 & (new1 & Hn1) & Hi1 & Hf1).
      destruct (IHr _ _ _ Hpr I1 Er Ht1 (fun q Hq => Hin q (in_or_app _ _ _ (or_intror Hq)))) as (I2 & Ht2 & (new2 & Hn2) & Hi2 & Hf2).
      destruct (emit_spec _ _ _ _ _ I2 Ee) as (I3 & _ & Hcs & _).
      split; [exact I3|]. rewrite Hcs. split; [exact Ht2|]. split; [exists (new1 ++ new2); rewrite Hn2, Hn1, app_assoc; reflexivity|]. split.
      + intros z Hz. cbn [tilits] in Hz. apply in_app_or in Hz as [Hz|Hz]; [|apply Hi2; exact Hz].
        destruct (Hi1 z Hz) as [c0 Hc0]. exists c0. rewrite Hn2. apply find_app_some. exact Hc0.
      + intros f Hf. cbn [tflits] in Hf. apply in_app_or in Hf as [Hf|Hf]; [|apply Hf2; exact Hf].
        destruct (Hf1 f Hf) as [c0 Hc0]. exists c0. rewrite Hn2. apply find_app_some. exact Hc0.
    - destruct t as [c| |]; try discriminate. cbn [tpure] in Hp. cbn [lower_expr lbind] in H.
      destruct (lower_expr structs gl args a st) as [[v0 st1]| |] eqn:Ea; cbn [lbind] in H; try discriminate.
      match type of H with context [emit st1 ?t ?bd] => destruct (emit st1 t bd) as [st2 ref] eqn:Ee end. inversion H; subst; clear H.
      destruct (IHa _ _ _ Hp I Ea Ht Hin) as (I1 & Ht1 & Hn1 & Hi1 & Hf1).
      destruct (emit_spec _ _ _ _ _ I1 Ee) as (I2 & _ & Hcs & _).
      split; [exact I2|]. rewrite Hcs. auto.
  Qed.
End Table.

(** ** whole functions [-> t { return e; }] *)
Lemma init_regs_fold cs : forall d q, ~ In q (map cref cs) ->
  rlookup q (fold_left (fun d c => rupdate (fst (fst c)) (const_val (snd c)) d) cs d) = rlookup q d.
Proof.
  induction cs as [|c cs IH]; intros d q Hq; cbn; [reflexivity|]. rewrite IH by (intro X; apply Hq; right; exact X).
  apply rlookup_update_other. intro E. apply Hq. left. unfold cref. congruence.
Qed.
Lemma init_regs_lookup cs : NoDup (map cref cs) -> forall d c, In c cs ->
  rlookup (cref c) (fold_left (fun d c => rupdate (fst (fst c)) (const_val (snd c)) d) cs d) = Some (const_val (snd c)).
Proof.
  induction cs as [|c0 cs IH]; intros Hn d c Hc; [destruct Hc|]. inversion Hn; subst. cbn. destruct Hc as [<-|Hc].
  - rewrite init_regs_fold by assumption. apply rlookup_update_same.
  - apply IH; assumption.
Qed.

Lemma flat_code_lowered (args : list string) (bs : list (nat * list linstr)) :
  flat_map b_code (map (fun b => {| b_ref := fst b; b_code := map (finish_instr args) (snd b) |}) bs) = map (finish_instr args) (flat_map snd bs).
Proof. induction bs as [|b bs IH]; cbn; [reflexivity|]. rewrite map_app, IH. reflexivity. Qed.

Definition lstate0 : lstate := {| l_next := 0; l_consts := []; l_blocks := []; l_newblock := true; l_locals := []; l_depth := 0 |}.
Lemma linv0 : linv lstate0.
Proof. constructor; cbn; [intros ? []|left; reflexivity|constructor]. Qed.

Lemma lower_func_return_inv structs gl (f : tfunc) te F :
  tf_body f = [TRet (Some te)] -> lower_func structs gl f = LOk F ->
  exists r st1, lower_expr structs gl (map snd (tf_args f)) te lstate0 = LOk (r, st1) /\ fn_consts F = l_consts st1.
Proof.
  intros Hbody Hlow. unfold lower_func in Hlow. rewrite Hbody in Hlow. fold lstate0 in Hlow.
  cbn [lower_body lower_stmt lower_opt lbind] in Hlow.
  destruct (lower_expr structs gl (map snd (tf_args f)) te lstate0) as [[r st1]| |] eqn:El; cbn [lbind fst snd] in Hlow; try discriminate.
  match type of Hlow with context [emit st1 ?t ?bd] => destruct (emit st1 t bd) as [st2 ref] eqn:Ee end. cbn [lbind] in Hlow.
  inversion Hlow; subst F; clear Hlow. exists r, st1. split; [reflexivity|]. cbn [fn_consts end_block l_consts].
  unfold emit, emit_raw in Ee. inversion Ee; subst. cbn. destruct (l_newblock st1); reflexivity.
Qed.

Theorem return_function_correct structs gl (f : tfunc) te F :
  tf_body f = [TRet (Some te)] -> tpure te = true -> lower_func structs gl f = LOk F ->
  forall P argv vs v,
    teval structs gl (map snd (tf_args f)) (fn_consts F) [] {| regs := init_regs F; vars := []; fargs := argv |} vs te = Ok v ->
    exists n, forall fuel, n <= fuel -> run fuel P F 0 {| regs := init_regs F; vars := []; fargs := argv |} vs = Done v vs.
Proof.
  intros Hbody Hp Hlow P argv vs v Hv. unfold lower_func in Hlow. rewrite Hbody in Hlow.
  set (st0 := {| l_next := 0; l_consts := []; l_blocks := []; l_newblock := true; l_locals := []; l_depth := 0 |}) in *.
  assert (I0 : linv st0) by (constructor; cbn; [intros ? []|left; reflexivity|constructor]).
  cbn [lower_body lower_stmt lower_opt lbind] in Hlow.
  destruct (lower_expr structs gl (map snd (tf_args f)) te st0) as [[r st1]| |] eqn:El; cbn [lbind fst snd] in Hlow; try discriminate.
  match type of Hlow with context [emit st1 ?t ?bd] => destruct (emit st1 t bd) as [st2 ref] eqn:Ee end. cbn [lbind] in Hlow.
  inversion Hlow; subst F; clear Hlow.
  destruct (lower_pure_correct structs gl (map snd (tf_args f)) te st0 r st1 Hp I0 El) as (I1 & Hl1 & _ & Hr & (new & Hc1 & _) & is & Hcode1 & _ & Hd & Hsem).
  destruct (emit_spec _ _ _ _ _ I1 Ee) as (I2 & Hcode2 & Hc2 & _).
  cbn [fn_consts end_block l_consts] in *.
  set (F := {| fn_name := tf_name f; fn_args := _; fn_ret := _; fn_consts := l_consts st2; fn_blocks := _ |}) in *.
  set (fr0 := {| regs := init_regs F; vars := []; fargs := argv |}) in *.
  destruct (Hsem F 0 fr0 vs (l_consts st2) v) as (fr1 & Hrun & Hg & _).
  { exists []. rewrite app_nil_r. exact Hc2. }
  { intros c Hc. unfold fr0, init_regs. cbn [regs fn_consts F]. apply init_regs_lookup; [apply I2|exact Hc]. }
  { intros c i Hc Hi. apply Hd; [rewrite <- Hc2; exact Hc|exact Hi]. }
  { exact Hv. }
  assert (Hflat : flat_code F = map (finish_instr (map snd (tf_args f))) (map LI is) ++ [{| i_ref := ref; i_ty := match Some te with Some e' => adapt structs 8 (type_of e') | None => ITVoid end; i_body := IRet (Some r) |}] ++ []).
  { unfold flat_code, F. cbn [fn_blocks end_block l_blocks]. rewrite flat_code_lowered. fold (lcode st2). rewrite Hcode2, Hcode1. cbn [lcode st0 l_blocks flat_map app].
    rewrite map_app. reflexivity. }
  exists (length is + 1). intros fuel Hf. replace fuel with (length (map (finish_instr (map snd (tf_args f))) (map LI is)) + (fuel - length is)) by (rewrite !map_length; lia).
  rewrite (run_runs P F _ 0 fr0 vs fr1 (fuel - length is) [] _ Hrun Hflat eq_refl).
  destruct (fuel - length is) as [|k] eqn:Ek; [lia|]. cbn [run Nat.add]. rewrite Hflat, nth_error_app2 by lia. rewrite Nat.sub_diag. cbn [nth_error app].
  unfold step. cbn [i_body]. rewrite Hg. reflexivity.
Qed.
