(** Boolean membership test for the fragment of [flow_function_simulation] (C01, conditionals end to end), with its soundness
    lemma; evaluated on generated functions. *)
From Coq Require Import String ZArith List Bool PrimFloat Arith.
From NSL Require Import Base.Types Base.Syntax Model.PyNum Model.IR Model.VM Model.Elab Model.Lower Spec.RefSem
                        Proofs.LowerExprProofs Proofs.ElabExprProofs Proofs.LowerStmtProofs Proofs.ElabStmtProofs Proofs.ReturnExprProofs Proofs.CallAgreeProofs
                        Proofs.StraightLineProofs Proofs.FlowLowerProofs Proofs.FlowFuncProofs Proofs.FlowElabProofs Proofs.FlowTableProofs Proofs.FlowSimProofs
                        Harness.FragLib Harness.FragLib2 Harness.FlowLib.
Import ListNotations.

Definition flowsrc_in_fragment (M : module) (fn : func) : bool :=
  match straight_static M fn with
  | Some (l, e, tf, F, tl, te) =>
      forallb (stop flow_depth) l && spure e && Nat.eqb (length tl) (length l) &&
      forallb tok (flat_map (topexprs flow_depth) tl ++ [te]) &&
      forallb (fun q => PrimFloat.eqb q q) (flat_map tflits (flat_map (topexprs flow_depth) tl ++ [te])) &&
      forallb (fresh_decl_b (glnames M) (argnames fn)) l &&
      forallb (fun p => negb (existsb (String.eqb (snd p)) (glnames M))) (f_args fn)
  | None => false
  end.

Lemma flowsrc_in_fragment_sound M fn : flowsrc_in_fragment M fn = true ->
  exists l e tf F tl te,
    f_body fn = l ++ [SRet (Some e)] /\ forallb (stop flow_depth) l = true /\ spure e = true /\
    elab_func (genv_of M) (genvl M) fn = EOk tf /\ lower_func (m_structs M) (glnames M) tf = LOk F /\
    tf_body tf = tl ++ [TRet (Some te)] /\ length tl = length l /\ forallb tok (flat_map (topexprs flow_depth) tl ++ [te]) = true /\
    (forall q, In q (flat_map tflits (flat_map (topexprs flow_depth) tl ++ [te])) -> PrimFloat.eqb q q = true) /\
    Forall (fresh_decl (glnames M) (argnames fn)) l /\ (forall x, In x (map snd (f_args fn)) -> ~ In x (glnames M)).
Proof.
  unfold flowsrc_in_fragment, straight_static. intros H.
  destruct (split_last_s (f_body fn)) as [[l [| | |[e|]| | | | | |]]|] eqn:Eb; try discriminate. apply split_last_s_spec in Eb.
  destruct (elab_func (genv_of M) (genvl M) fn) as [tf| |] eqn:Ef; try discriminate.
  destruct (split_last_s (tf_body tf)) as [[tl [| | |[te|]| | | | | |]]|] eqn:Et; try discriminate. apply split_last_s_spec in Et.
  destruct (lower_func (m_structs M) (glnames M) tf) as [F| |] eqn:El; try discriminate.
  apply andb_prop in H as [H Hargs]. apply andb_prop in H as [H Hfresh]. apply andb_prop in H as [H Hnan]. apply andb_prop in H as [H Hk].
  apply andb_prop in H as [H Hlen]. apply andb_prop in H as [Hs Hp].
  exists l, e, tf, F, tl, te. split; [exact Eb|]. split; [exact Hs|]. split; [exact Hp|]. split; [reflexivity|]. split; [exact El|]. split; [exact Et|].
  split; [apply Nat.eqb_eq; exact Hlen|]. split; [exact Hk|]. split; [|split].
  - intros q Hq. rewrite forallb_forall in Hnan. apply Hnan. exact Hq.
  - rewrite forallb_forall in Hfresh. apply Forall_forall. intros s Hs'. specialize (Hfresh s Hs').
    destruct s; cbn in *; try exact I. apply andb_prop in Hfresh as [H1 H2]. apply negb_true_iff in H1, H2. auto.
  - intros x Hx Hg. rewrite forallb_forall in Hargs. apply in_map_iff in Hx as (p & <- & Hp'). specialize (Hargs p Hp').
    apply negb_true_iff in Hargs. rewrite (existsb_true_in _ _ Hg) in Hargs. discriminate.
Qed.

(** 1000000 * functions + 10000 * inside the lowering fragment + 100 * those among them with a conditional
    + those inside the end-to-end fragment whose literals are also exact *)
Definition flow_case2 (M : module) : Z :=
  let inside := filter (flow_in_fragment M) (m_funcs M) in
  let withif := filter (fun fn => match flow_static M fn with Some (_, _, tl, _) => existsb (has_if flow_depth) tl | None => false end) inside in
  let e2e := filter (fun fn => flowsrc_in_fragment M fn &&
                       match straight_static M fn with Some (_, _, _, _, tl, te) => lits_exact_b (flat_map tflits (flat_map (topexprs flow_depth) tl ++ [te])) | None => false end) (m_funcs M) in
  (Z.of_nat (length (m_funcs M)) * 1000000 + Z.of_nat (length inside) * 10000 + Z.of_nat (length withif) * 100 + Z.of_nat (length e2e))%Z.
