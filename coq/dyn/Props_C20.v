(** * C20 -- Reported source positions designate the text they talk about.  Statements only. *)
From Coq Require Import String ZArith List Bool Lia.
From NSL Require Import Spec.SrcLoc Model.SrcLoc Proofs.SrcLocProofs.
From NSLDyn Require Gen_SrcLoc Agree_SrcLoc.
Import ListNotations.

(** The offset-to-line mapping is correct for every offset of every text (any distribution of line breaks). *)
Theorem C20_line_of_offset_correct : forall (s : list Z) (off : nat),
    Gen_SrcLoc.line_from_offset s (Z.of_nat off) = Z.of_nat (spec_line_of s off).
Proof. intros. rewrite Agree_SrcLoc.agree_line_from_offset, line_from_offset_correct by lia. rewrite Nat2Z.id. reflexivity. Qed.

(** The line-start table holds exactly the positions where lines begin. *)
Theorem C20_line_start_correct : forall (s : list Z) (i o : nat),
    Gen_SrcLoc.line_start_offset s (Z.of_nat i) = Some (Z.of_nat o) -> is_line_start s i o.
Proof.
  intros s i o H. rewrite Agree_SrcLoc.agree_line_start_offset, line_start_offset_correct in H.
  destruct (spec_line_start s i) as [o'|] eqn:E; cbn in H; [|discriminate].
  inversion H as [H1]. apply Nat2Z.inj in H1. subst. apply spec_line_start_sound. exact E.
Qed.

(** The printed range of any span of the text, read as 1-based half-open line:column, designates exactly
    the characters of that span. *)
Theorem C20_range_designates : forall (s : list Z) (b e : nat), b <= e <= length s ->
    match Gen_SrcLoc.loc_str s (Z.of_nat b) (Z.of_nat e) with
    | LSingle l c c' => designates s (PSingle l c c') (slice s b e)
    | LMulti l c l' c' => designates s (PMulti l c l' c') (slice s b e)
    | _ => False
    end.
Proof. intros. rewrite Agree_SrcLoc.agree_loc_str. apply loc_str_designates_slice. assumption. Qed.

(** A token's span is exactly its characters. *)
Theorem C20_token_span : forall pos len, Gen_SrcLoc.token_span pos len = (pos, (pos + len)%Z).
Proof. exact Agree_SrcLoc.agree_token_span. Qed.

(** Merge covers every argument, tightly. *)
Theorem C20_hull_covers : forall first rest x, In x (first :: rest) -> covers (Gen_SrcLoc.merge first rest) x.
Proof. intros. rewrite Agree_SrcLoc.agree_merge. apply merge_covers. assumption. Qed.

(** After UpdateLocations the range of a composite covers the ranges of all its parts. *)
Theorem C20_update_locations_hull : forall t x, In x (known_spans t) ->
    exists l, node_loc (update_locs t) = Some l /\ covers l x.
Proof. exact update_locs_covers. Qed.

(** non-vacuity *)
Example C20_example :
  let s := [97; 10; 98; 99; 10; 10; 100]%Z in
  Gen_SrcLoc.loc_str s 2 4 = LSingle 2 1 3 /\ Gen_SrcLoc.loc_str s 0 7 = LMulti 1 1 4 2 /\
  map (fun o => Gen_SrcLoc.line_from_offset s (Z.of_nat o)) [0; 1; 2; 4; 5; 6; 7] = [0; 0; 1; 1; 2; 3; 3]%Z.
Proof. vm_compute. repeat split; reflexivity. Qed.

Eval compute in "ASSUMPTIONS C20_line_of_offset_correct"%string. Print Assumptions C20_line_of_offset_correct.
Eval compute in "ASSUMPTIONS C20_line_start_correct"%string. Print Assumptions C20_line_start_correct.
Eval compute in "ASSUMPTIONS C20_range_designates"%string. Print Assumptions C20_range_designates.
Eval compute in "ASSUMPTIONS C20_hull_covers"%string. Print Assumptions C20_hull_covers.
Eval compute in "ASSUMPTIONS C20_update_locations_hull"%string. Print Assumptions C20_update_locations_hull.
Eval compute in "END"%string.
