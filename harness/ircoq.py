"""IR JSON dump (harness/impl/irdump.py) -> Coq terms of NSL.Model.IR; Python values <-> Coq val/heap."""
CMP = {"CMP_LT": "CLt", "CMP_LE": "CLe", "CMP_GT": "CGt", "CMP_GE": "CGe", "CMP_EQ": "CEq", "CMP_NE": "CNe"}
BIN = {"ADD": "BAdd", "SUB": "BSub", "MUL": "BMul", "DIV": "BDiv", "MOD": "BMod", "LG_AND": "BLgAnd", "LG_OR": "BLgOr",
       "VECTOR_ADD": "BVAdd", "VECTOR_SUB": "BVSub", "VECTOR_MUL": "BVMul", "VECTOR_DIV": "BVDiv", "VECTOR_MOD": "BVMod",
       "VECTOR_LG_AND": "BVLgAnd", "VECTOR_LG_OR": "BVLgOr", "VECTOR_MUL_SCALAR": "BVMulS", "VECTOR_DIV_SCALAR": "BVDivS",
       "MATRIX_MUL_MATRIX": "BMatMul"}
SC = {"global": "SGlobal", "arg": "SArg", "local": "SLocal"}
OPCODE_VALUES = {}


def s(x):
    return '"%s"%%string' % x.replace('"', '""')


def ty(t):
    k = t["k"]
    if k == "int": return "(ITInt %s)" % ("true" if t["u"] else "false")
    if k == "float": return "ITFloat"
    if k == "vec": return "(ITVec %s %d)" % (ty(t["e"]), t["n"])
    if k == "mat": return "(ITMat %s %d %d)" % (ty(t["e"]), t["r"], t["c"])
    if k == "struct": return "(ITStruct %s [%s])" % (s(t["name"]), "; ".join("(%s, %s)" % (s(n), ty(f)) for n, f in t["fields"]))
    if k == "arr": return "(ITArr %s [%s])" % (ty(t["e"]), "; ".join("%d%%nat" % d for d in t["dims"]))
    return "ITVoid"


def opt(x):
    return "None" if x is None else "(Some %d%%nat)" % x


def var(v):
    return "(VIndex %d)" % v if isinstance(v, int) else "(VName %s)" % s(v)


def body(i):
    op = i["op"]
    i = dict(i)
    for k in ("store", "a", "b", "arr", "idx", "o", "v"):
        if k in i and i[k] is None and not (k == "v" and op == "RETURN"):
            i[k] = 9999       # a missing operand: a reference that is never defined
    if op == "LOAD": return "(ILoad %s %s)" % (SC[i["scope"]], var(i["var"]))
    if op == "STORE": return "(IStore %s %s %d)" % (SC[i["scope"]], var(i["var"]), i["store"])
    if op in ("LOAD_ARRAY", "VECTOR_GET", "MATRIX_GET"):
        return "(ILoadIdx %s %d %d)" % ({"LOAD_ARRAY": "KArray", "VECTOR_GET": "KVector", "MATRIX_GET": "KMatrix"}[op], i["arr"], i["idx"])
    if op == "STORE_ARRAY": return "(IStoreArray %d %d %d)" % (i["arr"], i["idx"], i["store"])
    if op in ("VECTOR_SET", "MATRIX_SET"):
        return "(ISetIdx %s %d %d %d)" % ("KVector" if op == "VECTOR_SET" else "KMatrix", i["arr"], i["idx"], i["store"])
    if op == "LOAD_MEMBER": return "(ILoadMember %d %s)" % (i["o"], s(i["m"]))
    if op == "STORE_MEMBER": return "(IStoreMember %d %s %d)" % (i["o"], s(i["m"]), i["store"])
    if op == "SHUFFLE": return "(IShuffle %d %d [%s])" % (i["a"], i["b"], "; ".join("%d%%nat" % x for x in i["indices"]))
    if op in BIN: return "(IBin %s %d %d)" % (BIN[op], i["a"], i["b"])
    if op in CMP: return "(IBin (BCmp %s) %d %d)" % (CMP[op], i["a"], i["b"])
    if op.startswith("VECTOR_CMP_"): return "(IBin (BVCmp %s) %d %d)" % (CMP[op[7:]], i["a"], i["b"])
    if op == "BRANCH": return "(IBranch %s %s %s)" % (opt(i["pred"]), opt(i["t"]), opt(i["f"]))
    if op == "RETURN": return "(IRet %s)" % opt(i["v"])
    if op == "CALL": return "(ICall %s [%s])" % (s(i["fn"]), "; ".join("%d%%nat" % x for x in i["args"]))
    if op == "NEW_VARIABLE": return "(INewVar %s)" % s(i["name"])
    if op == "CAST": return "(ICast %d)" % i["v"]
    if op == "CONSTRUCT_PRIMITIVE": return "(IConstruct [%s])" % "; ".join("%d%%nat" % x for x in i["vals"])
    if i.get("cls") == "BinaryInstruction": return "(IBin (BOther 0) %d %d)" % (i["a"], i["b"])
    return "(IUnknown 0)"


def instr(i):
    return "{| i_ref := %d; i_ty := %s; i_body := %s |}" % (i["ref"], ty(i["ty"]), body(i))


def cval(v):
    if isinstance(v, dict):
        return "(KFloat (%s)%%float)" % v["f"]
    return "(KInt (%d))" % v


def function(f):
    return ("{| fn_name := %s; fn_args := [%s]; fn_ret := %s; fn_consts := [%s]; fn_blocks := [%s] |}" % (
        s(f["name"]), "; ".join("(%s, %s)" % (s(n), ty(t)) for n, t in f["args"]), ty(f["ret"]),
        "; ".join("(%d%%nat, %s, %s)" % (r, ty(t), cval(v)) for r, t, v in f["consts"]),
        "; ".join("{| b_ref := %d; b_code := [%s] |}" % (b["ref"], "; ".join(instr(i) for i in b["instrs"])) for b in f["blocks"])))


def program(p):
    return "{| p_funcs := [%s]; p_globals := [%s] |}" % ("; ".join(function(f) for f in p["functions"]), "; ".join(s(g) for g in p["globals"]))


# ---- Python values (JSON-able, floats as {"f": hex}, dicts as {"d": {...}}) -> a Coq expression building them on a heap
def pyval(v):
    """term of type pv (tree-shaped Python value, see the case-file header)"""
    if v is None: return "PNone"
    if isinstance(v, bool): return "(PInt %d)" % int(v)
    if isinstance(v, int): return "(PInt (%d))" % v
    if isinstance(v, float): return "(PFloat (%s)%%float)" % v.hex()
    if isinstance(v, dict) and "big" in v: return "(PInt 1329227995784915872903807060280344576)"   # marker: |value| > 2^80 (outside every domain)
    if isinstance(v, dict) and "f" in v:
        if v["f"] in ("inf", "-inf", "nan"):
            return "(PFloat %s)" % {"inf": "infinity", "-inf": "neg_infinity", "nan": "nan"}[v["f"]]
        return "(PFloat (%s)%%float)" % v["f"]
    if isinstance(v, dict) and "d" in v:
        return "(PDict [%s])" % "; ".join("(%s, %s)" % (s(k), pyval(x)) for k, x in v["d"].items())
    if isinstance(v, list): return "(PList [%s])" % "; ".join(pyval(x) for x in v)
    raise ValueError(v)
