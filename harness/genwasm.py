"""Programs inside (and just outside) the WebAssembly backend's subset: exported functions whose body is one return of an
expression over parameters and literals with + - * / == < > (no locals, no conversions, no calls, no control flow)."""
from nslgen import *

ARITH = ["+", "-", "*", "/"]
CMPS = ["==", "<", ">"]


class WGen:
    def __init__(self, rng):
        self.rng = rng

    def lit(self, t):
        r = self.rng
        if t == "float":
            return F(r.choice(["0.5", "1.5", "2.0", "3.25", "100.0", "0.1", "16777216.0", "1.0e10", "7.0"]))
        if t == "uint":
            return I(r.choice([0, 1, 2, 3, 7, 100, 65535]))
        return I(r.choice([0, 1, 2, 3, 7, -1, -8, 63, 64, 127, 128, 255, 300, 8191, 8192, 65535, 100000, -65, -64, -129, 2147483647, -2147483647]))

    def expr(self, t, params, d, allow_cmp=True):
        r = self.rng
        same = [n for n, ty in params if ty == t]
        if d <= 0 or r.random() < 0.25:
            return V(r.choice(same)) if same and r.random() < 0.7 else self.lit(t)
        if t == "int" and allow_cmp and r.random() < 0.25:
            ct = r.choice(["int", "float", "uint"])
            return B(r.choice(CMPS), self.expr(ct, params, d - 1, False), self.expr(ct, params, d - 1, False))
        # no float subtraction: single precision cancels where the VM's doubles do not, which is not a disagreement about the program
        # no unsigned subtraction inside larger expressions either: the VM's uint goes negative where i32 wraps, and a later / or
        # comparison then sees different operands -- outside the domain the reference semantics covers
        ops = ["+", "*", "/"] if t in ("float", "uint") else ARITH
        return B(r.choice(ops), self.expr(t, params, d - 1, allow_cmp), self.expr(t, params, d - 1, allow_cmp))

    def module(self, nfuncs=None, outside=False):
        r = self.rng
        fs = []
        for fi in range(nfuncs or r.choice([1, 1, 2, 3, 4])):
            params = [("p%d" % i, r.choice(["int", "float", "int", "float", "uint"])) for i in range(r.choice([0, 1, 2, 3, 4]))]
            ret = r.choice(["int", "float", "uint"]) if not params else r.choice([t for _, t in params] + ["int", "float"])
            body = [Ret(self.expr(ret, params, r.choice([1, 2, 3, 4])))]
            if r.random() < 0.35:
                # expression statements of other types before the return: the function's value locals then alternate between
                # i32 and f32 in declaration order
                pre = []
                for _ in range(r.choice([1, 2, 3])):
                    t = r.choice(["int", "float", "uint"])
                    e = B(r.choice(["+", "*"]), self.expr(t, params, 1, False), self.expr(t, params, 1, False))
                    pre.append(ES(e))
                body = pre + body
            if outside:
                k = r.choice(["local", "mod", "mixed", "if", "call", "le", "logic", "global-read"])
                p0 = params[0][0] if params else None
                if k == "local":
                    body = [Decl(ret, "x", self.expr(ret, params, 1)), Ret(V("x"))]
                elif k == "mod":
                    body = [Ret(B("%", self.expr("int", params, 1, False), I(3)))]; ret = "int"
                elif k == "mixed":
                    body = [Ret(B("+", self.expr("float", params, 1), self.expr("int", params, 1, False)))]; ret = "float"
                elif k == "if":
                    body = [If(self.expr("int", params, 1), Block([Ret(self.lit(ret))])), Ret(self.expr(ret, params, 1))]
                elif k == "call" and fs:
                    callee = fs[0]
                    body = [Ret(Call(callee["n"], [self.lit(a["t"]) for a in callee["args"]]))]; ret = callee["ret"]
                elif k == "le":
                    body = [Ret(B(r.choice(["<=", ">=", "!="]), self.expr("int", params, 1, False), self.expr("int", params, 1, False)))]; ret = "int"
                elif k == "logic":
                    body = [Ret(B(r.choice(["&&", "||"]), self.expr("int", params, 1, False), self.expr("int", params, 1, False)))]; ret = "int"
            fs.append(Func("w%d" % fi, [Arg(t, n) for n, t in params], ret, Block(body), export=True))
        return Module(fs)

    def args(self, f):
        r = self.rng
        out = {}
        for a in f["args"]:
            if a["t"] == "float":
                out[a["n"]] = r.choice([0.0, 1.0, 1.5, 2.25, 1024.5, 0.1, 3.0e8, 7.75, 16777217.0])
            elif a["t"] == "uint":
                out[a["n"]] = r.choice([0, 1, 2, 9, 255, 70000, 2147483647, 2147483648, 3000000000, 4294967295])
            else:
                out[a["n"]] = r.choice([0, 1, -1, 2, 7, -9, 100, -128, 65536, 2147483647, -2147483648, 12345])
        return out
