(** Non-vacuity of [loop_function_simulation] for [do] loops: the body (a compound assignment, a conditional, the increment) runs before the condition is evaluated for the first time. *)
From Coq Require Import String ZArith List Bool PrimFloat.
From NSL Require Import Base.Types Base.Syntax Model.PyNum Model.IR Model.VM Model.Elab Model.Lower Spec.RefSem Proofs.OpsAgree
                        Proofs.LowerExprProofs Proofs.ElabExprProofs Proofs.ReturnExprProofs Proofs.CallAgreeProofs
                        Proofs.LowerStmtProofs Proofs.ElabStmtProofs Proofs.StraightLineProofs Proofs.FlowLowerProofs Proofs.FlowFuncProofs
                        Proofs.FlowElabProofs Proofs.FlowTableProofs Proofs.FlowSimProofs Proofs.LoopLowerProofs Proofs.LoopElabProofs Proofs.LoopSimProofs
                        Harness.FragLib Harness.FragLib2 Harness.FlowLib Harness.FlowLib2 Harness.LoopLib.
Import ListNotations.
Local Open Scope string_scope.

(** int g;
    export function f(int n, float b) -> float {
      float acc = b * 0.5; int i = 0;
      do { acc += i; if (i < g) { g = g - 1; } i = i + 1; } while (i < n);
      return acc + g; } *)
Definition dl_body : list stmt :=
  [ SDecl tfloat "acc" (Some (EBin OMul (EVar "b") (EFloat 0.5)));
    SDecl tint "i" (Some (EInt 0));
    SDo [ SExpr (EAssign AAddEq (EVar "acc") (EVar "i"));
          SIf (EBin OLt (EVar "i") (EVar "g")) (SBlock [SExpr (EAssign AAssign (EVar "g") (EBin OSub (EVar "g") (EInt 1)))]) None;
          SExpr (EAssign AAssign (EVar "i") (EBin OAdd (EVar "i") (EInt 1))) ]
        (EBin OLt (EVar "i") (EVar "n")) ].
Definition dl_e : expr := EBin OAdd (EVar "acc") (EVar "g").
Definition dl_fn : func := {| f_name := "f"; f_export := true; f_args := [(tint, "n"); (tfloat, "b")]; f_ret := tfloat; f_body := dl_body ++ [SRet (Some dl_e)] |}.
Definition dl_M : module := {| m_structs := []; m_globals := [(tint, "g")]; m_funcs := [dl_fn] |}.

Example dl_in_fragment : loopsrc_in_fragment dl_M dl_fn = true.
Proof. vm_compute. reflexivity. Qed.

Definition dl_static := Eval vm_compute in straight_static dl_M dl_fn.
Definition dl_F : ifunc := match dl_static with Some (_, _, _, F, _, _) => F | None => {| fn_name := ""; fn_args := []; fn_ret := ITVoid; fn_consts := []; fn_blocks := [] |} end.
Definition dl_tl : list tstmt := match dl_static with Some (_, _, _, _, tl, _) => tl | None => [] end.
Definition dl_te : texpr := match dl_static with Some (_, _, _, _, _, te) => te | None => XInt 0 end.
Definition dl_tf : tfunc := match dl_static with Some (_, _, tf, _, _, _) => tf | None => {| tf_name := ""; tf_args := []; tf_ret := TVoid; tf_body := [] |} end.

Example dl_lits_exact : lits_exact (flat_map tflits (flat_map (wtopexprs flow_depth) dl_tl ++ [dl_te])).
Proof. intros f f' Hf Hf' _. vm_compute in Hf, Hf'. destruct Hf as [<-|[]]; destruct Hf' as [<-|[]]; reflexivity. Qed.

Definition dl_ws : list rval := [RInt 3; RFloat 1%float].
Definition dl_g : RefSem.frame := [("g", SV (RInt 2))].
Definition dl_vs : vmstate := {| globals := [("g", VInt 2)]; hp := [] |}.

Example dl_conclusion : forall P,
  exists v vs', fst (match exec_list dl_M 30 (f_body dl_fn) (call_state dl_fn dl_ws dl_g) with RefSem.ROk p => p | _ => (ONormal, call_state dl_fn dl_ws dl_g) end) = OReturn (SV v) /\
                exists n, forall fuel', n <= fuel' -> run fuel' P dl_F 0 (call_frame dl_ws (init_regs dl_F)) dl_vs = Done (v_of v) vs'.
Proof.
  intros P.
  destruct (exec_list dl_M 30 (f_body dl_fn) (call_state dl_fn dl_ws dl_g)) as [[fl st']| | |] eqn:E; try (vm_compute in E; discriminate).
  assert (Hnan : forall q, In q (flat_map tflits (flat_map (wtopexprs flow_depth) dl_tl ++ [dl_te])) -> PrimFloat.eqb q q = true).
  { apply forallb_forall. vm_compute. reflexivity. }
  destruct (loop_function_simulation dl_M dl_fn flow_depth dl_body dl_e dl_tf dl_F eq_refl eq_refl eq_refl eq_refl eq_refl dl_tl dl_te eq_refl eq_refl eq_refl dl_lits_exact Hnan)
    with (P := P) (ws := dl_ws) (g := dl_g) (vs := dl_vs) (fuel := 30) (fl := fl) (st' := st') as (v & vs' & -> & Hrun & _).
  - repeat constructor; cbn; auto.
  - cbn; tauto.
  - repeat constructor.
  - intros x Hx Hg. cbn in Hx, Hg. destruct Hg as [Hg|[]]. subst x. destruct Hx as [Hx|[Hx|[]]]; inversion Hx.
  - intros x p H. unfold genvl in H. cbn [dl_M m_globals map find fst snd] in H. destruct (String.eqb_spec "g" x) as [<-|Hne]; [|discriminate]. inversion H; subst p. cbn.
    split; [left; reflexivity|]. exists (RInt 2). repeat split; reflexivity.
  - exact E.
  - exists v, vs'. split; [reflexivity|exact Hrun].
Qed.

(** both sides evaluated: acc = 0.5 + 0 + 1 + 2 = 3.5 (three executions of the body, the condition evaluated three times), g goes 2 -> 1, result 4.5 *)
Example dl_values :
  (match exec_list dl_M 30 (f_body dl_fn) (call_state dl_fn dl_ws dl_g) with RefSem.ROk (OReturn (SV (RFloat x)), _) => Some x | _ => None end) = Some 4.5%float /\
  run 200 {| p_funcs := [dl_F]; p_globals := ["g"] |} dl_F 0 (call_frame dl_ws (init_regs dl_F)) dl_vs = Done (VFloat 4.5%float) {| globals := [("g", VInt 1)]; hp := [] |}.
Proof. repeat split; vm_compute; reflexivity. Qed.
