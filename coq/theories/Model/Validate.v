(** * Model of the typing of access chains (ComputeTypes) and of the three validators
    ValidateArrayAccessType, ValidateArrayOutOfBoundsAccess, ValidateSwizzle, as written. *)
From Coq Require Import String Ascii ZArith List Bool Arith.
From NSL Require Import Base.Types Spec.Select.
Import ListNotations.

(** Type.GetSize(): arrays -> all dimensions, vectors -> (n,), matrices -> (rows, columns); absent on scalars/structs *)
Definition get_size (t : ty) : option (list nat) :=
  match t with
  | TArr _ ds => Some ds
  | TPrim (PVec _ n) => Some [n]
  | TPrim (PMat _ r k) => Some [r; k]
  | _ => None
  end.

(** ComputeTypes._ProcessExpression, ArrayExpression branch: the type of [parent[index]] *)
Definition typed_index (t : ty) : option ty :=
  match t with
  | TPrim (PMat c r k) => Some (TPrim (PVec c k))
  | _ => match get_size t with
         | Some (_ :: _ :: _) => match t with TArr e (d :: ds) => Some (TArr e ds) | _ => None end
         | Some [_] => match t with TArr e _ => Some e | TPrim (PVec c _) => Some (TPrim (PScalar c)) | _ => None end
         | _ => None
         end
  end.

(** "xyzwrgba".index(m) *)
Definition letter_index (c : ascii) : option nat :=
  match xyzw_pos c with Some p => Some p | None => match rgba_pos c with Some p => Some (4 + p) | None => None end end.
Definition contains_any (mask : list ascii) (pos : ascii -> option nat) : bool :=
  existsb (fun c => match pos c with Some _ => true | None => false end) mask.

(** ValidateSwizzleMask(mask, componentCount) *)
Definition validate_mask (mask : string) (count : nat) : bool :=
  let m := list_ascii_of_string mask in
  if existsb (fun c => match letter_index c with None => true | Some _ => false end) m then false
  else if existsb (fun c => match letter_index c with Some i => Nat.leb count (Nat.modulo i 4) | None => false end) m then false
  else if contains_any m xyzw_pos && contains_any m rgba_pos then false
  else true.

Definition is_scalar_ty (t : ty) : bool := match t with TPrim (PScalar _) => true | _ => false end.

(** ComputeTypes on an access chain: the type of every sub-expression, no validation of constants or masks.
    [None]: ComputeTypes raises (ERROR_ARRAY_ACCESS_WITH_NONSCALAR, CANNOT_SWIZZLE, AttributeError on GetSize/GetMembers). *)
Fixpoint type_step (t : ty) (s : sel_step) {struct s} : option ty :=
  match s with
  | IdxConst _ => typed_index t
  | IdxExpr it => if is_scalar_ty it then typed_index t else None
  | IdxSel b c =>
      match (fix go (t : ty) (c : list sel_step) : option ty :=
               match c with [] => Some t | s :: r => match type_step t s with Some e => go e r | None => None end end) b c with
      | Some it => if is_scalar_ty it then typed_index t else None
      | None => None
      end
  | Swizzle m => match swizzle_base t with Some (c, _) => Some (swizzle_result c m) | None => None end
  end.
Fixpoint type_chain (t : ty) (c : list sel_step) : option ty :=
  match c with [] => Some t | s :: r => match type_step t s with Some e => type_chain e r | None => None end end.

(** the three validator passes, each a traversal of the whole (typed) expression tree *)
Inductive vpass := PIndexType | PBounds | PSwizzle.

Section Pass.
Variable p : vpass.
Fixpoint pass_step (t : ty) (s : sel_step) {struct s} : bool :=
  match s with
  | IdxConst k =>
      match p with
      | PBounds => match get_size t with Some (d :: _) => negb ((k <? 0)%Z || (Z.of_nat d <=? k)%Z) | _ => true end
      | _ => true
      end
  | IdxExpr it => match p with PIndexType => is_integer_ty it | _ => true end
  | IdxSel b c =>
      (fix go (t : ty) (c : list sel_step) : bool :=
         match c with [] => true | s :: r => pass_step t s && match type_step t s with Some e => go e r | None => true end end) b c
      && match p with
         | PIndexType => match type_chain b c with Some it => is_integer_ty it | None => true end
         | _ => true
         end
  | Swizzle m =>
      match p with
      | PSwizzle => match swizzle_base t with Some (_, n) => validate_mask m n | None => true end
      | _ => true
      end
  end.
Fixpoint pass_chain (t : ty) (c : list sel_step) : bool :=
  match c with [] => true | s :: r => pass_step t s && match type_step t s with Some e => pass_chain e r | None => true end end.
End Pass.

Inductive vres := VAccept (t : ty) | VTypeError | VIndexType | VBounds | VSwizzle.

(** Compiler pass order: ComputeTypes, ValidateArrayAccessType, ValidateArrayOutOfBoundsAccess, ..., ValidateSwizzle *)
Definition model_select (t : ty) (chain : list sel_step) : vres :=
  match type_chain t chain with
  | None => VTypeError
  | Some r =>
      if negb (pass_chain PIndexType t chain) then VIndexType
      else if negb (pass_chain PBounds t chain) then VBounds
      else if negb (pass_chain PSwizzle t chain) then VSwizzle
      else VAccept r
  end.

Definition accepts (v : vres) : option ty := match v with VAccept t => Some t | _ => None end.
