(** * C01, loops, source side: the elaboration of [while (c) body] preserves the reference semantics.  The body (assignments,
    blocks, nested conditionals) runs in a frame of its own that stays empty; an execution of the reference semantics with
    fuel k evaluates the condition at most k times. *)
From Coq Require Import String ZArith List Bool PrimFloat Arith Lia.
From NSL Require Import Base.Types Base.Syntax Spec.Overload Model.PyNum Model.IR Model.VM Model.TypesBin Model.Elab Model.Lower Spec.RefSem
                        Proofs.OpsAgree Proofs.OptProofs Proofs.LowerExprProofs Proofs.ElabExprProofs Proofs.ReturnExprProofs Proofs.CallAgreeProofs
                        Proofs.LowerStmtProofs Proofs.ElabStmtProofs Proofs.StraightLineProofs Proofs.HistoryRefineProofs Proofs.FlowLowerProofs Proofs.FlowFuncProofs
                        Proofs.FlowElabProofs Proofs.LoopLowerProofs.
Import ListNotations.

Lemma exec_while_unfold M fu c body st :
  exec M (S fu) (SWhile c body) st =
  (let st0 := push_frame st in
   rdo p <- (rdo p <- eval M fu c st0; let '(v, st1) := p in rdo x <- scalar v; RefSem.ROk (truth x, st1)); let '(b, st1) := p in
   if negb b then RefSem.ROk (ONormal, pop_frame st1) else
   rdo r <- match body with Some bd => exec M fu bd st1 | None => RefSem.ROk (ONormal, st1) end;
   let '(fl, st2) := r in
   match fl with
   | OBreak => RefSem.ROk (ONormal, pop_frame st2)
   | OReturn v => RefSem.ROk (OReturn v, pop_frame st2)
   | _ => exec M fu (SWhile c body) (pop_frame st2)
   end).
Proof. reflexivity. Qed.

Lemma elab_while_unfold G env c b :
  elab_stmt G env (SWhile c b) =
  (let env1 := [] :: env in
   edo r <- match b with None => EOk (None, env1) | Some b0 => edo p <- elab_stmt G env1 b0; EOk (Some (fst p), snd p) end;
   let '(b', env2) := r in
   edo c' <- elab G COn env2 c;
   EOk (TWhile c' b', env)).
Proof. reflexivity. Qed.

Section WMono.
  Variable structs : list sdef.
  Variable gl args : list string.
  Lemma wloop_mono n cs locals c b : forall k V A vs r, wloop structs gl args n k cs locals c b V A vs = Some r -> forall k', k <= k' -> wloop structs gl args n k' cs locals c b V A vs = Some r.
  Proof.
    induction k as [|k IH]; intros V A vs r H k' Hle; [discriminate|]. destruct k' as [|k']; [lia|]. cbn [wloop] in *.
    destruct (teval structs gl args cs locals (mkfr V A) vs c) as [w| |]; try discriminate.
    destruct (truthy (hp vs) w) as [[|]| |]; try discriminate; [|exact H].
    destruct (bexec structs gl args n cs locals b V A vs) as [[[V1 A1] vs1]|]; [|discriminate]. apply (IH _ _ _ _ H). lia.
  Qed.
End WMono.

Section SrcWhile.
  Variable M : module.
  Variable G : genv.
  Variable structs : list sdef.
  Variable gl args : list string.
  Variable cs : list (nat * irty * cval).

  Lemma src_while n c b c' b' env : spure c = true -> bsrc n b = true ->
    elab_stmt G ([] :: env) b = EOk (b', [] :: env) -> elab G COn ([] :: env) c = EOk c' ->
    tok c' = true -> lit_ok cs c' -> bgood cs n b' ->
    forall fuel st fl st1 locals V A vs,
      exec M fuel (SWhile c (Some b)) st = RefSem.ROk (fl, st1) -> Agree gl args env st locals V A vs ->
      fl = ONormal /\ shape st1 = shape st /\
      exists V' A' vs', wloop structs gl args n fuel cs locals c' b' V A vs = Some (V', A', vs') /\ Agree gl args env st1 locals V' A' vs'.
  Proof.
    intros Hpc Hbb Eb Ec Hkc Hlc Hgb. induction fuel as [|fu IH]; intros st fl st1 locals V A vs Hex Hag; [discriminate|].
    pose proof (Agree_push gl args env st locals V A vs Hag) as Hagp.
    rewrite exec_while_unfold in Hex. cbn zeta in Hex.
    destruct (eval M fu c (push_frame st)) as [[v st0]| | |] eqn:Ev; cbn [rbind] in Hex; try discriminate.
    destruct (lit_teval structs gl args cs c' locals (mkfr V A) vs Hlc) as [Hli Hlf].
    destruct (elab_pure_correct M G structs gl args cs locals (mkfr V A) vs ([] :: env) (push_frame st) Hagp c c' Hpc Ec Hkc Hli Hlf) as (Hpt & Hsemc).
    destruct (Hsemc _ _ _ Ev) as (-> & w & -> & _ & Hvc). cbn [scalar rbind] in Hex.
    destruct (truth w) eqn:Etr; cbn [negb] in Hex.
    - destruct (exec M fu b (push_frame st)) as [[fl2 st2]| | |] eqn:Exb; cbn [rbind] in Hex; try discriminate.
      destruct (src_all M G structs gl args cs n b Hbb b' ([] :: env) ([] :: env) fu (push_frame st) fl2 st2 locals V A vs Eb Hgb Exb Hagp) as (-> & Hsh & V1 & A1 & vs1 & Hx & Hag2).
      rewrite shape_push in Hsh.
      destruct (IH (pop_frame st2) fl st1 locals V1 A1 vs1 Hex (Agree_pop gl args env st2 (shape st) locals V1 A1 vs1 Hsh Hag2)) as (Hfl & Hsh1 & V' & A' & vs' & Hw & Hag').
      split; [exact Hfl|]. split; [rewrite Hsh1; apply (shape_pop _ _ Hsh)|].
      exists V', A', vs'. split; [|exact Hag']. cbn [wloop]. rewrite Hvc, truthy_v_of, Etr, Hx.
      apply (wloop_mono structs gl args n cs locals c' b' fu V1 A1 vs1 _ Hw). lia.
    - inversion Hex; subst fl st1; clear Hex. split; [reflexivity|]. split; [apply (shape_pop _ (shape st)); apply shape_push|].
      exists V, A, vs. split; [cbn [wloop]; rewrite Hvc, truthy_v_of, Etr; reflexivity|].
      apply (Agree_pop gl args env (push_frame st) (shape st) locals V A vs (shape_push st) Hagp).
  Qed.
End SrcWhile.

(** ** [do body while (c)] *)
Lemma exec_do_unfold M fu body c st :
  exec M (S fu) (SDo body c) st =
  (rdo r <- exec_list M fu body (push_frame (push_frame st)); let '(fl, st1) := r in
   let st2 := pop_frame st1 in
   match fl with
   | OBreak => RefSem.ROk (ONormal, pop_frame st2)
   | OReturn v => RefSem.ROk (OReturn v, pop_frame st2)
   | _ => rdo p <- (rdo p <- eval M fu c st2; let '(v, st1) := p in rdo x <- scalar v; RefSem.ROk (truth x, st1)); let '(b, st3) := p in
          if b then exec M fu (SDo body c) (pop_frame st3) else RefSem.ROk (ONormal, pop_frame st3)
   end).
Proof. reflexivity. Qed.

Lemma elab_do_unfold G env b c :
  elab_stmt G env (SDo b c) =
  (let env1 := [] :: env in
   edo b' <- elab_body G ([] :: env1) b;
   edo c' <- elab G COn env1 c;
   EOk (TDo b' c', env)).
Proof. reflexivity. Qed.

Section DMono.
  Variable structs : list sdef.
  Variable gl args : list string.
  Lemma dloop_mono n cs locals b c : forall k V A vs r, dloop structs gl args n k cs locals b c V A vs = Some r -> forall k', k <= k' -> dloop structs gl args n k' cs locals b c V A vs = Some r.
  Proof.
    induction k as [|k IH]; intros V A vs r H k' Hle; [discriminate|]. destruct k' as [|k']; [lia|]. cbn [dloop] in *.
    destruct (bexec structs gl args (S n) cs locals (TBlock b) V A vs) as [[[V1 A1] vs1]|]; [|discriminate].
    destruct (teval structs gl args cs locals (mkfr V1 A1) vs1 c) as [w| |]; try discriminate.
    destruct (truthy (hp vs1) w) as [[|]| |]; try discriminate; [|exact H]. apply (IH _ _ _ _ H). lia.
  Qed.
End DMono.

Section FMono.
  Variable structs : list sdef.
  Variable gl args : list string.
  Lemma floop_mono n cs locals c nx b : forall k V A vs r, floop structs gl args n k cs locals c nx b V A vs = Some r -> forall k', k <= k' -> floop structs gl args n k' cs locals c nx b V A vs = Some r.
  Proof.
    induction k as [|k IH]; intros V A vs r H k' Hle; [discriminate|]. destruct k' as [|k']; [lia|]. cbn [floop] in *.
    destruct (teval structs gl args cs locals (mkfr V A) vs c) as [w| |]; try discriminate.
    destruct (truthy (hp vs) w) as [[|]| |]; try discriminate; [|exact H].
    destruct (bexec structs gl args n cs locals b V A vs) as [[[V1 A1] vs1]|]; [|discriminate].
    destruct (bexec structs gl args 1 cs locals (TExpr nx) V1 A1 vs1) as [[[V2 A2] vs2]|]; [|discriminate]. apply (IH _ _ _ _ H). lia.
  Qed.
End FMono.

Section SrcDo.
  Variable M : module.
  Variable G : genv.
  Variable structs : list sdef.
  Variable gl args : list string.
  Variable cs : list (nat * irty * cval).

  Lemma src_do n b c b' c' env : spure c = true -> forallb (bsrc n) b = true ->
    elab_body G ([] :: [] :: env) b = EOk b' -> elab G COn ([] :: env) c = EOk c' ->
    tok c' = true -> lit_ok cs c' -> bgood cs (S n) (TBlock b') ->
    forall fuel st fl st1 locals V A vs,
      exec M fuel (SDo b c) st = RefSem.ROk (fl, st1) -> Agree gl args env st locals V A vs ->
      fl = ONormal /\ shape st1 = shape st /\
      exists V' A' vs', dloop structs gl args n fuel cs locals b' c' V A vs = Some (V', A', vs') /\ Agree gl args env st1 locals V' A' vs'.
  Proof.
    intros Hpc Hbb Eb Ec Hkc Hlc Hgb. induction fuel as [|fu IH]; intros st fl st1 locals V A vs Hex Hag; [discriminate|].
    pose proof (Agree_push gl args env st locals V A vs Hag) as Hagp.
    pose proof (Agree_push gl args ([] :: env) (push_frame st) locals V A vs Hagp) as Hagpp.
    rewrite exec_do_unfold in Hex.
    destruct (exec_list M fu b (push_frame (push_frame st))) as [[fl1 st2]| | |] eqn:Exb; cbn [rbind] in Hex; try discriminate.
    destruct (src_list M G structs gl args cs n (src_all M G structs gl args cs n) b b' ([] :: [] :: env) fu (push_frame (push_frame st)) fl1 st2 locals V A vs Hbb Eb Hgb Exb Hagpp)
      as (-> & Hsh & V1 & A1 & vs1 & Hx & Hag2).
    rewrite !shape_push in Hsh. cbn zeta in Hex.
    pose proof (Agree_pop gl args ([] :: env) st2 ([] :: shape st) locals V1 A1 vs1 Hsh Hag2) as Hag3.
    pose proof (shape_pop st2 ([] :: shape st) Hsh) as Hsh3.
    destruct (eval M fu c (pop_frame st2)) as [[v st0]| | |] eqn:Ev; cbn [rbind] in Hex; try discriminate.
    destruct (lit_teval structs gl args cs c' locals (mkfr V1 A1) vs1 Hlc) as [Hli Hlf].
    destruct (elab_pure_correct M G structs gl args cs locals (mkfr V1 A1) vs1 ([] :: env) (pop_frame st2) Hag3 c c' Hpc Ec Hkc Hli Hlf) as (Hpt & Hsemc).
    destruct (Hsemc _ _ _ Ev) as (-> & w & -> & _ & Hvc). cbn [scalar rbind] in Hex.
    pose proof (Agree_pop gl args env (pop_frame st2) (shape st) locals V1 A1 vs1 Hsh3 Hag3) as Hag4.
    pose proof (shape_pop (pop_frame st2) (shape st) Hsh3) as Hsh4.
    destruct (truth w) eqn:Etr.
    - destruct (IH (pop_frame (pop_frame st2)) fl st1 locals V1 A1 vs1 Hex Hag4) as (Hfl & Hsh1 & V' & A' & vs' & Hw & Hag').
      split; [exact Hfl|]. split; [rewrite Hsh1; exact Hsh4|].
      exists V', A', vs'. split; [|exact Hag']. cbn [dloop]. rewrite bexec_block, Hx, Hvc, truthy_v_of, Etr. exact Hw.
    - inversion Hex; subst fl st1; clear Hex. split; [reflexivity|]. split; [exact Hsh4|].
      exists V1, A1, vs1. split; [cbn [dloop]; rewrite bexec_block, Hx, Hvc, truthy_v_of, Etr; reflexivity|exact Hag4].
  Qed.
End SrcDo.
