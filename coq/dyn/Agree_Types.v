(** Agreement of the pieces regenerated from nsl/op.py and nsl/types.py with the model. *)
From Coq Require Import String ZArith List Bool Lia.
From NSL Require Import Base.Types Model.TypesBin.
From NSLDyn Require Gen_Types.
Import ListNotations.
Open Scope Z_scope.

Lemma agree_is_comparison : forall o, Gen_Types.is_comparison_value (Gen_Types.op_value o) = is_comparison o.
Proof. destruct o; reflexivity. Qed.

Lemma agree_common_scalar : forall a b, Gen_Types.common_scalar a b = common_scalar a b.
Proof. destruct a, b; reflexivity. Qed.

Definition all_binops := [OLor; OLand; OEq; ONe; OLt; OLe; OGt; OGe; OAdd; OSub; OMul; ODiv; OMod].

Lemma agree_op_values_distinct : NoDup (map Gen_Types.op_value all_binops).
Proof. repeat constructor; cbn; intuition discriminate. Qed.

(** every binary operator has exactly the lexeme the language uses *)
Definition expected_spelling : list (string * binop) :=
  [("||", OLor); ("&&", OLand); ("==", OEq); ("!=", ONe); ("<", OLt); ("<=", OLe); (">", OGt); (">=", OGe);
   ("+", OAdd); ("-", OSub); ("*", OMul); ("/", ODiv); ("%", OMod)]%string.
Definition binop_eqb (a b : binop) : bool := Gen_Types.op_value a =? Gen_Types.op_value b.
Definition spelling_mem (l : list (string * binop)) (p : string * binop) : bool :=
  existsb (fun q => String.eqb (fst p) (fst q) && binop_eqb (snd p) (snd q)) l.
Lemma agree_op_spelling :
  forallb (spelling_mem Gen_Types.op_spelling) expected_spelling = true /\
  forallb (spelling_mem expected_spelling) Gen_Types.op_spelling = true.
Proof. split; vm_compute; reflexivity. Qed.

(** the spellable built-in types *)
Lemma agree_builtin_types :
  map snd Gen_Types.builtin_types =
  [TPrim (PScalar CFloat); TPrim (PVec CFloat 2); TPrim (PVec CFloat 3); TPrim (PVec CFloat 4);
   TPrim (PScalar CInt); TPrim (PVec CInt 2); TPrim (PVec CInt 3); TPrim (PVec CInt 4);
   TPrim (PScalar CUInt); TPrim (PVec CUInt 2); TPrim (PVec CUInt 3); TPrim (PVec CUInt 4);
   TPrim (PMat CFloat 3 3); TPrim (PMat CFloat 4 4); TPrim (PMat CFloat 3 3); TPrim (PMat CFloat 4 4); TVoid].
Proof. reflexivity. Qed.
