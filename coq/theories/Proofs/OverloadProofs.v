(** * C10: FindFunction (model) computes the specified resolution, and the outcome does not depend on the
    order of declaration.  Lists of any length, any arity. *)
From Coq Require Import String ZArith List Bool Arith Lia Permutation Sorted.
From NSL Require Import Base.Types Spec.Overload Model.Overload.
Import ListNotations.

(** ** per-candidate score = specified cost *)
Lemma compat_convertible a p : is_compatible a p = convertible a p.
Proof.
  destruct a as [x| | |], p as [y| | |]; cbn; try reflexivity;
    unfold reduce1; destruct x as [|c [|[|n]]|]; destruct y as [|d [|[|m]]|]; reflexivity.
Qed.

Definition score_of (c : option nat) : Z := match c with Some n => Z.of_nat n | None => (-1)%Z end.

Lemma fold_add_from : forall l z, fold_left Z.add l z = (z + fold_left Z.add l 0)%Z.
Proof. induction l as [|x l IH]; intros z; cbn; [lia|]. rewrite IH, (IH x). lia. Qed.

Lemma match_type_conv a p :
  match_type a p = if convertible a p then (if ty_eqb a p then 0 else 1)%Z else (-1)%Z.
Proof. unfold match_type. rewrite compat_convertible. destruct (convertible a p); reflexivity. Qed.

Lemma zip_scores_cost : forall args params, length args = length params ->
    match cost args params with
    | Some c => existsb (fun s => (s <? 0)%Z) (zip_scores args params) = false /\
                fold_left Z.add (zip_scores args params) 0%Z = Z.of_nat c
    | None => existsb (fun s => (s <? 0)%Z) (zip_scores args params) = true
    end.
Proof.
  induction args as [|a args IH]; intros [|p params] Hlen; cbn in Hlen; try discriminate.
  - cbn. auto.
  - cbn [cost zip_scores]. rewrite match_type_conv.
    specialize (IH params ltac:(lia)).
    destruct (convertible a p) eqn:Ec.
    + destruct (cost args params) as [c|].
      * destruct IH as [H1 H2].
        destruct (ty_eqb a p); cbn [existsb fold_left]; (split; [rewrite H1; reflexivity|rewrite fold_add_from, H2; lia]).
      * cbn [existsb]. rewrite IH. apply orb_true_r.
    + cbn. reflexivity.
Qed.

Lemma cost_length : forall args params c, cost args params = Some c -> length args = length params.
Proof.
  induction args as [|a args IH]; intros [|p params] c H; cbn in H; try discriminate; auto.
  destruct (convertible a p); [|discriminate]. destruct (cost args params) eqn:E; [|discriminate].
  cbn. f_equal. eapply IH; eauto.
Qed.

Lemma cost_none_length : forall args params, length args <> length params -> cost args params = None.
Proof.
  induction args as [|a args IH]; intros [|p params] H; cbn in *; try congruence.
  destruct (convertible a p); [|reflexivity]. rewrite IH by lia. reflexivity.
Qed.

Lemma fn_match_cost d args : fn_match d args = score_of (cost args (fd_params d)).
Proof.
  unfold fn_match. destruct (Nat.eqb_spec (length args) (length (fd_params d))) as [E|N]; cbn [negb].
  - pose proof (zip_scores_cost args (fd_params d) E) as H.
    destruct (cost args (fd_params d)); cbn [score_of].
    + destruct H as [H1 H2]. rewrite H1. exact H2.
    + rewrite H. reflexivity.
  - rewrite cost_none_length by exact N. reflexivity.
Qed.

(** ** the stable sort *)
Definition key (p : Z * fdecl) : Z := fst p.
Definition le_key (p q : Z * fdecl) : Prop := (key p <= key q)%Z.

Lemma insert_perm p l : Permutation (insert_by p l) (p :: l).
Proof.
  induction l as [|q r IH]; cbn; [apply Permutation_refl|].
  destruct (fst q <? fst p)%Z; [|apply Permutation_refl].
  eapply perm_trans; [apply perm_skip; exact IH|apply perm_swap].
Qed.

Lemma sort_perm l : Permutation (sort_by l) l.
Proof.
  induction l as [|p l IH]; cbn; [constructor|].
  eapply perm_trans; [apply insert_perm|apply perm_skip; exact IH].
Qed.

Lemma insert_sorted p l : StronglySorted le_key l -> StronglySorted le_key (insert_by p l).
Proof.
  induction l as [|q r IH]; intros Hs; cbn.
  - constructor; constructor.
  - inversion Hs as [|? ? Hs' Hall]; subst. destruct (Z.ltb_spec (fst q) (fst p)).
    + constructor; [apply IH; exact Hs'|].
      rewrite Forall_forall. intros x Hx. apply (Permutation_in _ (insert_perm p r)) in Hx.
      destruct Hx as [<-|Hx]; [unfold le_key, key; lia|]. rewrite Forall_forall in Hall. apply Hall. exact Hx.
    + constructor; [exact Hs|]. constructor; [unfold le_key, key; lia|].
      rewrite Forall_forall in *. intros x Hx. specialize (Hall x Hx). unfold le_key, key in *. lia.
Qed.

Lemma sort_sorted l : StronglySorted le_key (sort_by l).
Proof. induction l as [|p l IH]; cbn; [constructor|apply insert_sorted; exact IH]. Qed.

Lemma filter_sorted f l : StronglySorted le_key l -> StronglySorted le_key (filter f l).
Proof.
  induction l as [|p l IH]; intros Hs; cbn; [constructor|].
  inversion Hs as [|? ? Hs' Hall]; subst. destruct (f p); [|apply IH; exact Hs'].
  constructor; [apply IH; exact Hs'|]. rewrite Forall_forall in *. intros x Hx. apply filter_In in Hx. apply Hall. tauto.
Qed.

Lemma filter_perm {A} (f : A -> bool) l l' : Permutation l l' -> Permutation (filter f l) (filter f l').
Proof.
  induction 1; cbn.
  - constructor.
  - destruct (f x); [apply perm_skip|]; assumption.
  - destruct (f x), (f y); try apply perm_swap; try apply Permutation_refl.
  - eapply perm_trans; eassumption.
Qed.

(** ** selection of the unique minimum is permutation invariant and read off the head of a sorted list *)
Lemma min_cost_le : forall l p, In p l -> min_cost l <= snd p.
Proof.
  intros [|q r] p Hin; [contradiction|]. unfold min_cost.
  assert (G : forall (r : list (fdecl * nat)) m, fold_left (fun m q => Nat.min m (snd q)) r m <= m /\
                         forall x, In x r -> fold_left (fun m q => Nat.min m (snd q)) r m <= snd x).
  { clear. induction r as [|y r IH]; intros m; cbn; [split; [lia|intros x []]|].
    destruct (IH (Nat.min m (snd y))) as [A B]. split; [lia|].
    intros x [<-|Hx]; [lia|apply B; exact Hx]. }
  destruct (G r (snd q)) as [A B]. destruct Hin as [<-|Hin]; [exact A|apply B; exact Hin].
Qed.

Lemma min_cost_in : forall l, l <> [] -> exists p, In p l /\ snd p = min_cost l.
Proof.
  intros [|q r] H; [congruence|]. unfold min_cost. clear H.
  assert (G : forall (r : list (fdecl * nat)) m, fold_left (fun m q => Nat.min m (snd q)) r m = m \/
                         exists x, In x r /\ snd x = fold_left (fun m q => Nat.min m (snd q)) r m).
  { clear. induction r as [|y r IH]; intros m; cbn; [left; reflexivity|].
    destruct (IH (Nat.min m (snd y))) as [E|(x & Hx & E)].
    - rewrite E. destruct (Nat.min_spec m (snd y)) as [[_ M]|[_ M]]; rewrite M; [left; reflexivity|].
      right. exists y. split; [left; reflexivity|reflexivity].
    - right. exists x. split; [right; exact Hx|exact E]. }
  destruct (G r (snd q)) as [E|(x & Hx & E)].
  - exists q. split; [left; reflexivity|symmetry; exact E].
  - exists x. split; [right; exact Hx|exact E].
Qed.

Lemma min_cost_perm l l' : Permutation l l' -> min_cost l = min_cost l'.
Proof.
  intros HP. destruct l as [|q r].
  - apply Permutation_nil in HP. subst. reflexivity.
  - assert (Hne' : l' <> []) by (intro; subst; apply Permutation_sym, Permutation_nil in HP; discriminate).
    destruct (min_cost_in (q :: r) ltac:(discriminate)) as (p & Hp & Ep).
    destruct (min_cost_in l' Hne') as (p' & Hp' & Ep').
    pose proof (min_cost_le l' p (Permutation_in _ HP Hp)).
    pose proof (min_cost_le (q :: r) p' (Permutation_in _ (Permutation_sym HP) Hp')). lia.
Qed.

Lemma perm_singleton {A} (x : A) l : Permutation [x] l -> l = [x].
Proof. intros H. apply Permutation_length_1_inv. exact H. Qed.

Lemma select_min_perm l l' : Permutation l l' -> select_min l = select_min l'.
Proof.
  intros HP. unfold select_min. rewrite (min_cost_perm l l' HP).
  pose proof (filter_perm (fun p => Nat.eqb (snd p) (min_cost l')) l l' HP) as HF.
  destruct l as [|q r]; [apply Permutation_nil in HP; subst; reflexivity|].
  destruct l' as [|q' r']; [apply Permutation_sym, Permutation_nil in HP; discriminate|].
  remember (filter (fun p => Nat.eqb (snd p) (min_cost (q' :: r'))) (q :: r)) as F1.
  remember (filter (fun p => Nat.eqb (snd p) (min_cost (q' :: r'))) (q' :: r')) as F2.
  clear HeqF1 HeqF2.
  pose proof (Permutation_length HF) as HL.
  destruct F1 as [|a [|b t]].
  - apply Permutation_nil in HF. subst. reflexivity.
  - apply perm_singleton in HF. subst. reflexivity.
  - destruct F2 as [|a' [|b' t']]; cbn in HL; try lia. reflexivity.
Qed.

(** a list of (decl, cost) as the ranking sees it: (score, decl) with score = cost >= 0 *)
Definition to_rank (l : list (fdecl * nat)) : list (Z * fdecl) := map (fun p => (Z.of_nat (snd p), fst p)) l.
Definition of_rank (l : list (Z * fdecl)) : list (fdecl * nat) := map (fun p => (snd p, Z.to_nat (fst p))) l.

Definition head_decision (r : list (Z * fdecl)) : resolution :=
  match r with
  | [] => NoMatch
  | [p] => Found (snd p)
  | p :: q :: _ => if (fst p =? fst q)%Z then Ambiguous else Found (snd p)
  end.

Lemma sorted_head_select : forall r, StronglySorted le_key r -> Forall (fun p => (0 <= fst p)%Z) r ->
    head_decision r = select_min (of_rank r).
Proof.
  intros r Hs Hpos. destruct r as [|p [|q t]].
  - reflexivity.
  - cbn. rewrite Nat.eqb_refl. reflexivity.
  - inversion Hs as [|? ? Hs1 Hall1]; subst. inversion Hs1 as [|? ? Hs2 Hall2]; subst.
    inversion Hpos as [|? ? Hp0 Hpos1]; subst. inversion Hpos1 as [|? ? Hq0 Hpos2]; subst.
    assert (Hmin : min_cost (of_rank (p :: q :: t)) = Z.to_nat (fst p)).
    { destruct (min_cost_in (of_rank (p :: q :: t)) ltac:(discriminate)) as (x & Hx & Ex).
      pose proof (min_cost_le (of_rank (p :: q :: t)) (snd p, Z.to_nat (fst p)) ltac:(left; reflexivity)) as Hle. cbn [snd] in Hle.
      unfold of_rank in Hx. apply in_map_iff in Hx. destruct Hx as (y & <- & Hy). cbn [snd] in Ex.
      assert (key p <= key y)%Z.
      { destruct Hy as [<-|Hy]; [unfold key; lia|]. rewrite Forall_forall in Hall1. apply Hall1. exact Hy. }
      assert (0 <= fst y)%Z.
      { rewrite Forall_forall in Hpos. apply Hpos. exact Hy. }
      unfold key in *. lia. }
    unfold select_min. cbn [of_rank map]. fold (of_rank t).
    change ((snd p, Z.to_nat (fst p)) :: (snd q, Z.to_nat (fst q)) :: of_rank t) with (of_rank (p :: q :: t)).
    rewrite Hmin. cbn [of_rank map filter snd fst]. rewrite Nat.eqb_refl.
    cbn [head_decision].
    destruct (Z.eqb_spec (fst p) (fst q)) as [E|N].
    + rewrite E, Nat.eqb_refl. reflexivity.
    + assert (Hlt : (fst p < fst q)%Z).
      { rewrite Forall_forall in Hall1. specialize (Hall1 q ltac:(left; reflexivity)). unfold le_key, key in Hall1. lia. }
      destruct (Nat.eqb_spec (Z.to_nat (fst q)) (Z.to_nat (fst p))); [lia|].
      replace (filter (fun p0 : fdecl * nat => Nat.eqb (snd p0) (Z.to_nat (fst p))) (map (fun p0 : Z * fdecl => (snd p0, Z.to_nat (fst p0))) t)) with (@nil (fdecl * nat)); [reflexivity|].
      symmetry. clear -Hall2 Hpos2 Hlt Hq0 Hp0. induction t as [|y t IH]; cbn; [reflexivity|].
      inversion Hall2; subst. inversion Hpos2; subst. unfold le_key, key in *.
      destruct (Nat.eqb_spec (Z.to_nat (fst y)) (Z.to_nat (fst p))); [lia|]. apply IH; assumption.
Qed.

(** ** the main theorems *)
Lemma of_rank_scores : forall decls name args,
    of_rank (filter (fun p => (0 <=? fst p)%Z)
               (map (fun c => (fn_match c args, c)) (filter (fun d => String.eqb (fd_name d) name) decls)))
    = viable_costs decls name args.
Proof.
  induction decls as [|d decls IH]; intros name args; cbn; [reflexivity|].
  unfold viable_costs in *. cbn [flat_map].
  destruct (String.eqb (fd_name d) name); cbn [map filter]; [|apply IH].
  rewrite fn_match_cost. destruct (cost args (fd_params d)) as [c|]; cbn [score_of fst].
  - destruct (Z.leb_spec 0 (Z.of_nat c)); [|lia]. cbn [of_rank map app fst snd]. rewrite Nat2Z.id.
    f_equal. apply IH.
  - cbn. apply IH.
Qed.

Theorem find_function_correct : forall decls name args,
    find_function decls name args = spec_resolve decls name args.
Proof.
  intros decls name args. unfold find_function, spec_resolve.
  destruct (filter (fun d => String.eqb (fd_name d) name) decls) as [|c0 cs] eqn:Ef.
  - replace (existsb (fun d => String.eqb (fd_name d) name) decls) with false; [reflexivity|].
    symmetry. apply not_true_is_false. intro Hex. apply existsb_exists in Hex. destruct Hex as (d & Hin & Hd).
    assert (In d (filter (fun d => String.eqb (fd_name d) name) decls)) by (apply filter_In; auto).
    rewrite Ef in H. contradiction.
  - replace (existsb (fun d => String.eqb (fd_name d) name) decls) with true.
    2:{ symmetry. apply existsb_exists. exists c0.
        assert (In c0 (filter (fun d => String.eqb (fd_name d) name) decls)) by (rewrite Ef; left; reflexivity).
        apply filter_In in H. exact H. }
    set (scored := map (fun c => (fn_match c args, c)) (c0 :: cs)).
    set (ranking := filter (fun p => (0 <=? fst p)%Z) (sort_by scored)).
    change (head_decision ranking = select_min (viable_costs decls name args)).
    assert (Hs : StronglySorted le_key ranking) by (apply filter_sorted, sort_sorted).
    assert (Hpos : Forall (fun p => (0 <= fst p)%Z) ranking).
    { rewrite Forall_forall. intros x Hx. apply filter_In in Hx. destruct Hx as [_ Hx]. apply Z.leb_le. exact Hx. }
    rewrite (sorted_head_select ranking Hs Hpos).
    apply select_min_perm.
    rewrite <- of_rank_scores. rewrite Ef. fold scored.
    unfold of_rank. apply Permutation_map. apply filter_perm. apply sort_perm.
Qed.

Lemma viable_costs_perm decls decls' name args :
  Permutation decls decls' -> Permutation (viable_costs decls name args) (viable_costs decls' name args).
Proof.
  unfold viable_costs. induction 1; cbn [flat_map].
  - constructor.
  - apply Permutation_app_head. assumption.
  - rewrite !app_assoc. apply Permutation_app_tail. apply Permutation_app_comm.
  - eapply perm_trans; eassumption.
Qed.

Lemma existsb_perm {A} (f : A -> bool) l l' : Permutation l l' -> existsb f l = existsb f l'.
Proof.
  induction 1; cbn; auto.
  - rewrite IHPermutation. reflexivity.
  - destruct (f x), (f y); reflexivity.
  - congruence.
Qed.

(** The outcome does not depend on the order in which the overloads are declared. *)
Theorem find_function_order_independent : forall decls decls' name args,
    Permutation decls decls' -> find_function decls name args = find_function decls' name args.
Proof.
  intros decls decls' name args HP. rewrite !find_function_correct. unfold spec_resolve.
  rewrite (existsb_perm _ _ _ HP). destruct (existsb _ decls'); [|reflexivity].
  apply select_min_perm. apply viable_costs_perm. exact HP.
Qed.

(** what [Found] means: the candidate is viable and strictly cheaper than every other viable candidate *)
Theorem found_is_unique_best : forall decls name args d,
    spec_resolve decls name args = Found d ->
    exists c, In (d, c) (viable_costs decls name args) /\
              forall d' c', In (d', c') (viable_costs decls name args) -> c <= c' /\ (c' = c -> (d', c') = (d, c)).
Proof.
  intros decls name args d H. unfold spec_resolve in H.
  destruct (existsb _ decls); [|discriminate]. unfold select_min in H.
  set (vc := viable_costs decls name args) in *.
  destruct vc as [|v0 vr] eqn:Evc; [discriminate|]. rewrite <- Evc in *. 
  destruct (filter (fun p => Nat.eqb (snd p) (min_cost vc)) vc) as [|p [|q t]] eqn:Ef; try discriminate.
  inversion H; subst d. destruct p as [d c]. cbn [fst]. exists c.
  assert (Hp : In (d, c) (filter (fun p => Nat.eqb (snd p) (min_cost vc)) vc)) by (rewrite Ef; left; reflexivity).
  apply filter_In in Hp. destruct Hp as [Hin Hc]. apply Nat.eqb_eq in Hc. cbn [snd] in Hc.
  split; [exact Hin|]. intros d' c' Hin'. pose proof (min_cost_le vc (d', c') Hin') as Hle. cbn [snd] in Hle.
  split; [lia|]. intros ->.
  assert (Hq : In (d', c) (filter (fun p => Nat.eqb (snd p) (min_cost vc)) vc)).
  { apply filter_In. split; [exact Hin'|]. cbn [snd]. apply Nat.eqb_eq. exact Hc. }
  rewrite Ef in Hq. destruct Hq as [Hq|[]]. symmetry. exact Hq.
Qed.
