"""Shared machinery: compile generated programs with the real compiler, run host-call histories on the real VM,
and print Coq case lines that replay them on the VM model (over the dumped IR) and on the reference semantics."""
import json
import nslgen, ircoq
from common import coq_list

HEADER = """From Coq Require Import String ZArith List Bool PrimFloat.
From NSL Require Import Base.Util Base.Types Base.Syntax Model.PyNum Model.IR Model.VM Model.PyTree Spec.RefSem Harness.RunLib.
Import ListNotations.
Open Scope Z_scope.
Definition fuel : nat := Z.to_nat 60000.
"""

ERR = {"ZeroDivisionError": "EZeroDiv", "IndexError": "EIndex", "KeyError": "EKey", "TypeError": "EType", "AssertionError": "EAssert",
       "CompileException": "EICE", "AttributeError": "EAttr", "ValueError": "EValue", "OverflowError": "EOverflow"}


def jsonify(v):
    if isinstance(v, float):
        return {"f": v.hex()}
    if isinstance(v, list):
        return [jsonify(x) for x in v]
    if isinstance(v, dict):
        return {"d": {k: jsonify(x) for k, x in v.items()}}
    return v


def job(text, calls, optimize=False, want=("ir",)):
    return {"src": text, "opts": {"optimize": optimize}, "want": list(want),
            "calls": [{"fn": c["fn"], "args": {k: jsonify(v) for k, v in c["args"].items()},
                       "globals": {k: jsonify(v) for k, v in c.get("globals", {}).items()}, "read_globals": c.get("read_globals", [])} for c in calls]}


def coq_call(c):
    return "{| c_fn := %s; c_args := [%s]; c_set := [%s]; c_read := [%s] |}" % (
        ircoq.s(c["fn"]), "; ".join("(%s, %s)" % (ircoq.s(k), ircoq.pyval(jsonify(v))) for k, v in c["args"].items()),
        "; ".join("(%s, %s)" % (ircoq.s(k), ircoq.pyval(jsonify(v))) for k, v in c.get("globals", {}).items()),
        "; ".join(ircoq.s(g) for g in c.get("read_globals", [])))


def coq_obs(r, read_globals):
    if "fail" in r:
        e = r["fail"]["exc"]
        if e == "Exception" and "Unhandled opcode" in r["fail"].get("msg", ""):
            return "(OFail EUnhandledOpcode)"
        if e == "RecursionError":
            return "(OSkip 2)"
        if e in ERR:
            return "(OFail %s)" % ERR[e]
        return "(OSkip 9)"
    return "(ORet %s [%s])" % (ircoq.pyval(r["ret"]), "; ".join("(%s, %s)" % (ircoq.s(g), ircoq.pyval(r["globals"][g])) for g in read_globals))


def case_line(module_json, result, calls, with_spec=True):
    """result: output of compile_impl for an accepted program with 'ir' and 'calls'"""
    prog = ircoq.program({"functions": result["ir"]["functions"], "globals": result["ir"]["globals"]})
    obs = []
    for c, r in zip(calls, result["calls"]):
        obs.append(coq_obs(r, c.get("read_globals", [])))
        if "fail" in r:
            break
    cs = coq_list([coq_call(c) for c in calls])
    if with_spec:
        return "run_case fuel %s %s %s %s" % (nslgen.coq_module(module_json), prog, cs, coq_list(obs))
    return "run_case_model fuel %s %s %s" % (prog, cs, coq_list(obs))
