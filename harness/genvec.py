"""Typed generator of vector / matrix programs for C04 (and C05): every expression is well typed by construction,
dynamic indices are parameters whose call-site values are in range, masks name existing components, swizzle
writes never repeat a component."""
from nslgen import *

XYZW, RGBA = "xyzw", "rgba"
MATS = {"float3x3": 3, "float4x4": 4}


def comp(t):
    return "float" if t.startswith("float") else "int"
def size(t):
    return int(t[-1]) if t[-1].isdigit() and t not in MATS else 1
def vec(c, n):
    return c if n == 1 else "%s%d" % (c, n)
def is_vec(t):
    return isinstance(t, str) and t not in MATS and t[-1].isdigit()
def is_mat(t):
    return isinstance(t, str) and t in MATS
def row_t(t):
    return "float%d" % MATS[t]


class VGen:
    def __init__(self, rng, arrays=True, structs=True, mats=True, loops=True):
        self.rng = rng
        self.o = dict(arrays=arrays, structs=structs, mats=mats, loops=loops)
        self.n = 0

    def fresh(self, p="v"):
        self.n += 1
        return "%s%d" % (p, self.n)

    # ------------------------------------------------------------ expressions
    def vars_of(self, env, t):
        return [x for x, ty in env.items() if ty == t]

    def lit(self, c):
        r = self.rng
        if c == "int":
            return I(r.choice([0, 1, 2, 3, 5, 7, -1, -4]))
        return F(r.choice(["0.5", "1.0", "2.0", "0.25", "3.0", "1.5", "4.0", "8.0", "0.0"]))

    def index(self, env, n):
        """an index expression in range for dimension n: a constant or the parameter k<n>"""
        r = self.rng
        if r.random() < 0.7 or ("k%d" % n) not in env:
            return I(r.randrange(n))
        return V("k%d" % n)

    def mask(self, m, n, repeat=True):
        r = self.rng
        letters = r.choice([XYZW, RGBA])[:m]
        if repeat:
            return "".join(r.choice(letters) for _ in range(n))
        return "".join(r.sample(letters, n))

    def access_source(self, env, c, n):
        """an access chain (the only thing the grammar lets `.mask` and `[i]` follow) of type vec(c, n), or None"""
        r = self.rng
        t = vec(c, n)
        cands = [V(x) for x in self.vars_of(env, t)]
        for x, ty in env.items():
            if isinstance(ty, tuple) and ty[0] == "arr" and ty[1] == t:
                cands.append(Idx(V(x), I(r.randrange(ty[2]))))
            if isinstance(ty, tuple) and ty[0] == "struct":
                cands += [Mem(V(x), f) for f, ft in ty[2] if ft == t]
            if isinstance(ty, str) and is_mat(ty) and c == "float" and MATS[ty] == n:
                cands.append(Idx(V(x), self.index(env, n)))
            if isinstance(ty, str) and is_vec(ty) and comp(ty) == c and size(ty) != n and r.random() < 0.3:
                cands.append(Mem(V(x), self.mask(size(ty), n)))       # a swizzle of a swizzle / an index into a swizzle
        return r.choice(cands) if cands else None

    def scalar(self, env, c, d):
        r = self.rng
        x = r.random()
        vs = self.vars_of(env, c)
        if d <= 0 or x < 0.25:
            return V(r.choice(vs)) if vs and r.random() < 0.7 else self.lit(c)
        if x < 0.45:
            # component of a vector, by index or by letter
            n = r.choice([2, 3, 4])
            src = self.access_source(env, c, n)
            if src is not None:
                return Idx(src, self.index(env, n)) if r.random() < 0.5 else Mem(src, self.mask(n, 1))
        if x < 0.55 and c == "float" and self.o["mats"]:
            ms = [v for v, t in env.items() if is_mat(t)]
            if ms:
                m = r.choice(ms); n = MATS[env[m]]
                return Idx(Idx(V(m), self.index(env, n)), self.index(env, n))
        if x < 0.9:
            op = r.choice(["+", "-", "*"])
            return B(op, self.scalar(env, c, d - 1), self.scalar(env, c, d - 1))
        if c == "int":
            cc = r.choice(["float", "int"])
            return B(r.choice(["<", "<=", ">", ">=", "==", "!="]), self.scalar(env, cc, d - 1), self.scalar(env, cc, d - 1))
        return B("/", self.scalar(env, c, d - 1), F(r.choice(["2.0", "4.0", "0.5", "3.0", "0.3"])))

    def ctor(self, env, c, n, d):
        r = self.rng
        parts, left = [], n
        while left > 0:
            k = r.choice([1, 1, 2, 3])
            k = min(k, left)
            if k == n:
                k = 1
            parts.append(k); left -= k
        args = []
        for k in parts:
            if k == 1:
                # an int expression may initialise a float component (converted)
                cc = "int" if (c == "float" and r.random() < 0.15) else c
                args.append(self.scalar(env, cc, d - 1))
            else:
                args.append(self.vector(env, "int" if (c == "float" and r.random() < 0.15) else c, k, d - 1))
        return Ctor(vec(c, n), args)

    def vector(self, env, c, n, d, simple=False):
        r = self.rng
        t = vec(c, n)
        vs = self.vars_of(env, t)
        x = r.random()
        if d <= 0 or x < 0.25 or simple:
            if vs and (simple or r.random() < 0.75):
                return V(r.choice(vs))
            if simple and self.o["arrays"]:
                arrs = [v for v, ty in env.items() if isinstance(ty, tuple) and ty[0] == "arr" and ty[1] == t]
                if arrs and r.random() < 0.5:
                    a = r.choice(arrs)
                    return Idx(V(a), I(r.randrange(env[a][2])))
            return self.ctor(env, c, n, 1)
        if x < 0.40:
            return self.ctor(env, c, n, d)
        if x < 0.55:
            op = r.choice(["+", "-"])
            # an int vector may meet a float vector (converted component-wise)
            c2 = "int" if (c == "float" and r.random() < 0.2) else c
            a, b = self.vector(env, c, n, d - 1), self.vector(env, c2, n, d - 1)
            return B(op, a, b) if r.random() < 0.5 else B(op, b, a)
        if x < 0.68:
            k = r.random()
            s = self.scalar(env, c if r.random() < 0.85 else "int", d - 1)
            v = self.vector(env, c, n, d - 1)
            if k < 0.45:
                return B("*", v, s)
            if k < 0.75:
                return B("*", s, v)
            return B("/", v, F(r.choice(["2.0", "4.0", "0.5", "3.0", "7.0", "0.3", "1.1"])) if c == "float" else I(r.choice([2, 3, -2])))
        if x < 0.86:
            # swizzle read: any order and repetition over the components of a source of any size
            m = r.choice([2, 3, 4])
            src = self.access_source(env, c, m)
            if src is not None:
                return Mem(src, self.mask(m, n))
        if x < 0.93 and c == "int":
            cc = r.choice(["float", "int"])
            k = r.random()
            if k < 0.6:
                return B(r.choice(["<", "<=", ">", ">=", "==", "!="]), self.vector(env, cc, n, d - 1), self.vector(env, cc, n, d - 1))
            if k < 0.85:
                return B(r.choice(["&&", "||"]), self.vector(env, "int", n, d - 1), self.vector(env, "int", n, d - 1))
            return B("%", Ctor(t, [I(r.choice([3, 5, 7, 9, 12])) for _ in range(n)]), Ctor(t, [I(r.choice([2, 3, 4])) for _ in range(n)]))
        if c == "float" and n in (3, 4) and self.o["mats"]:
            mt = "float%dx%d" % (n, n)
            ms = self.vars_of(env, mt)
            if ms:
                m = r.choice(ms)
                if r.random() < 0.5:
                    return Idx(V(m), self.index(env, n))
                return B("*", self.matrix(env, mt, d - 1), self.vector(env, c, n, d - 1, simple=True))
        return self.ctor(env, c, n, d)

    def matrix(self, env, t, d):
        r = self.rng
        n = MATS[t]
        vs = self.vars_of(env, t)
        x = r.random()
        if d <= 0 or x < 0.35:
            if vs and r.random() < 0.8:
                return V(r.choice(vs))
            return Ctor(t, [self.vector(env, "float", n, 1, simple=r.random() < 0.5) for _ in range(n)])
        if x < 0.5:
            return Ctor(t, [self.vector(env, "float", n, d - 1) for _ in range(n)])
        if x < 0.65:
            return B(r.choice(["+", "-"]), self.matrix(env, t, d - 1), self.matrix(env, t, d - 1))
        if x < 0.8:
            k = r.random()
            s = self.scalar(env, "float", d - 1)
            m = self.matrix(env, t, d - 1)
            return B("*", m, s) if k < 0.4 else B("*", s, m) if k < 0.7 else B("/", m, F(r.choice(["2.0", "4.0", "3.0", "1.5", "0.7"])))
        return B("*", self.matrix(env, t, d - 1), self.matrix(env, t, d - 1))

    def expr(self, env, t, d):
        if is_mat(t):
            return self.matrix(env, t, d)
        if is_vec(t):
            return self.vector(env, comp(t), size(t), d)
        return self.scalar(env, t, d)

    # ------------------------------------------------------------ statements
    def writes(self, env, ro):
        """one statement that writes part of a variable"""
        r = self.rng
        cands = [(x, t) for x, t in env.items() if x not in ro and not x.startswith("k")]
        if not cands:
            return None
        x, t = r.choice(cands)
        if isinstance(t, tuple) and t[0] == "arr":
            et, n = t[1], t[2]
            i = I(r.randrange(n)) if r.random() < 0.6 or ("k%d" % n) not in env else V("k%d" % n)
            k = r.random()
            if k < 0.4:
                return ES(A(Idx(V(x), i), self.expr(env, et, 2)))
            if k < 0.7:
                return ES(A(Idx(Idx(V(x), i), self.index(env, size(et))), self.scalar(env, comp(et), 1)))
            m = self.mask(size(et), r.randrange(1, size(et) + 1), repeat=False)
            return ES(A(Mem(Idx(V(x), i), m), self.expr(env, vec(comp(et), len(m)), 1)))
        if isinstance(t, tuple) and t[0] == "struct":
            f, ft = r.choice(t[2])
            k = r.random()
            if is_vec(ft) and k < 0.5:
                m = self.mask(size(ft), r.randrange(1, size(ft) + 1), repeat=False)
                return ES(A(Mem(Mem(V(x), f), m), self.expr(env, vec(comp(ft), len(m)), 1)))
            if is_vec(ft) and k < 0.75:
                return ES(A(Idx(Mem(V(x), f), self.index(env, size(ft))), self.scalar(env, comp(ft), 1)))
            return ES(A(Mem(V(x), f), self.expr(env, ft, 2)))
        if is_mat(t):
            n = MATS[t]
            k = r.random()
            if k < 0.3:
                return ES(A(V(x), self.matrix(env, t, 2), r.choice(["=", "=", "+=", "-="])))
            if k < 0.6:
                return ES(A(Idx(V(x), self.index(env, n)), self.vector(env, "float", n, 2)))
            if k < 0.9:
                return ES(A(Idx(Idx(V(x), self.index(env, n)), self.index(env, n)), self.scalar(env, "float", 2)))
            return ES(A(V(x), self.scalar(env, "float", 1), "*="))
        if is_vec(t):
            c, n = comp(t), size(t)
            k = r.random()
            if k < 0.25:
                return ES(A(V(x), self.vector(env, c, n, 2), r.choice(["=", "=", "+=", "-="])))
            if k < 0.5:
                return ES(A(Idx(V(x), self.index(env, n)), self.scalar(env, c, 2)))
            if k < 0.92:
                m = self.mask(n, r.randrange(1, n + 1), repeat=False)
                return ES(A(Mem(V(x), m), self.expr(env, vec(c, len(m)), 2)))
            return ES(A(V(x), self.scalar(env, c, 1), "*="))
        if t in ("float", "int"):
            return ES(A(V(x), self.scalar(env, t, 2), r.choice(["=", "+=", "-="])))
        return None

    def stmts(self, env, ro, depth, count):
        r = self.rng
        out = []
        for _ in range(count):
            x = r.random()
            if x < 0.30:
                # a new local, sometimes a copy of an existing variable that is modified afterwards
                t = r.choice(self.types)
                name = self.fresh()
                srcs = self.vars_of(env, t)
                if srcs and r.random() < 0.4:
                    out.append(Decl(t, name, V(r.choice(srcs))))
                elif r.random() < 0.15:
                    out.append(Decl(t, name, None))
                else:
                    out.append(Decl(t, name, self.expr(env, t, 2)))
                env[name] = t
            elif x < 0.36 and self.o["arrays"]:
                et = r.choice([t for t in self.types if is_vec(t)] or ["float3"])
                n = r.choice([2, 3])
                name = self.fresh("a")
                out.append(Decl(et, name, None, dims=[n])); env[name] = ("arr", et, n)
            elif x < 0.40 and self.o["structs"] and self.structs:
                sn = r.choice(sorted(self.structs))
                name = self.fresh("s")
                out.append(Decl(sn, name, None)); env[name] = ("struct", sn, self.structs[sn])
            elif x < 0.85 or depth <= 0:
                s = self.writes(env, ro)
                if s:
                    out.append(s)
            elif x < 0.93 and self.o["loops"]:
                n = r.choice([2, 3, 4])
                i = self.fresh("i")
                inner = dict(env); inner[i] = "int"
                body = []
                vs = [v for v, t in env.items() if isinstance(t, str) and is_vec(t) and size(t) >= n and v not in ro]
                if vs:
                    v = r.choice(vs)
                    body.append(ES(A(Idx(V(v), V(i)), B("+", Idx(V(v), V(i)), self.scalar(inner, comp(env[v]), 1)))))
                body += self.stmts(inner, ro | {i}, depth - 1, 1)
                out.append(For(Decl("int", i, I(0)), B("<", V(i), I(n)), Pre("++", i), Block(body)))
            else:
                c = self.scalar(env, "int", 1)
                t = Block(self.stmts(dict(env), ro, depth - 1, r.choice([1, 2])))
                f = Block(self.stmts(dict(env), ro, depth - 1, 1)) if r.random() < 0.5 else None
                out.append(If(c, t, f))
        return out

    def program(self):
        r = self.rng
        self.n = 0
        base = ["float2", "float3", "float4", "int2", "int3", "int4", "float", "int"]
        if self.o["mats"]:
            base += ["float3x3", "float4x4"]
        self.types = r.sample(base, r.choice([3, 4, 5]))
        if not any(is_vec(t) for t in self.types):
            self.types.append("float3")
        self.structs = {}
        items = []
        if self.o["structs"] and r.random() < 0.35:
            fields = [("m%d" % k, r.choice([t for t in self.types if not is_mat(t)])) for k in range(r.choice([1, 2]))]
            self.structs["S0"] = fields
            items.append(Struct("S0", [{"t": t, "n": n} for n, t in fields]))
        env, globs = {}, []
        for k in range(r.choice([0, 0, 1, 2])):
            t = r.choice(self.types); g = "g%d" % k
            env[g] = t; globs.append((g, t)); items.append(Global(t, g))
        params = []
        for k in range(r.choice([1, 2, 3])):
            t = r.choice(self.types); p = "p%d" % k
            env[p] = t; params.append((p, t))
        for n in (2, 3, 4):
            env["k%d" % n] = "int"; params.append(("k%d" % n, "int"))
        ret = r.choice(self.types)
        body = self.stmts(env, set(), 2, r.choice([2, 3, 4, 5]))
        body.append(Ret(self.expr(env, ret, 2)))
        items.append(Func("f", [Arg(t, n) for n, t in params], ret, Block(body), export=True))
        return Module(items), params, globs, ret

    def value(self, t):
        r = self.rng
        if t == "int":
            return r.choice([-7, -3, -1, 0, 1, 2, 3, 5, 9])
        if t == "float":
            if getattr(self, "rough", False):
                # not exactly representable / cancelling: the order and the rounding of every single operation become visible
                return r.choice([0.1, 0.2, 0.3, 0.7, 1.1, -2.3, 3.3, 0.001, 1e16, -1e16, 1.0, 123456.789])
            return r.randrange(-24, 25) / 4.0
        if is_mat(t):
            n = MATS[t]
            if getattr(self, "rough", False):
                return [[self.value("float") for _ in range(n)] for _ in range(n)]
            return [[r.randrange(-12, 13) / 4.0 for _ in range(n)] for _ in range(n)]
        return [self.value(comp(t)) for _ in range(size(t))]

    def calls(self, params, globs, n):
        out = []
        for _ in range(n):
            args = {}
            self.rough = self.rng.random() < 0.35
            for p, t in params:
                if p in ("k2", "k3", "k4"):
                    args[p] = self.rng.randrange(int(p[1]))
                else:
                    args[p] = self.value(t)
            out.append({"fn": "f", "args": args, "globals": {g: self.value(t) for g, t in globs}, "read_globals": [g for g, _ in globs]})
        self.rough = False
        return out
