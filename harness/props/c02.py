"""C02 -- Optimisation never changes observable behaviour."""
import os, json
import shapes, nslgen, gentyped, vmcases, ircoq
from nslgen import *
from props import c01

STATIC = ["Model/IR.v", "Model/VM.v", "Model/WfIR.v", "Model/Opt.v", "Proofs/WfIRProofs.v", "Proofs/OptProofs.v", "Proofs/ForwardProofs.v", "Harness/FwdLib.v", "Proofs/LowerWfProofs.v", "Proofs/StraightOptProofs.v",
          "Proofs/ForwardFlowProofs.v", "Harness/FwdFlowLib.v", "Proofs/FlowOptProofs.v",
          "Proofs/ForwardFlowFailProofs.v", "Proofs/ConstCastFlowProofs.v", "Harness/CCLib.v", "Proofs/OptPipelineExample.v"]


def targeted(rng):
    """(store, load) adjacency patterns x the kind of user of the forwarded load, chains, loops, constant casts"""
    out = []
    def prog(body, ret="int", args=(("int", "a"), ("float", "b")), extra=()):
        return Module(list(extra) + [Func("f", [Arg(t, n) for t, n in args], ret, Block(body), export=True)])
    a, b = V("a"), V("b")
    users = {
        "return": lambda x: [Ret(V(x))],
        "binary": lambda x: [Ret(B("+", V(x), I(1)))],
        "branch": lambda x: [If(V(x), Block([Ret(I(1))])), Ret(I(0))],
        "store": lambda x: [Decl("int", "z", None), ES(A(V("z"), V(x))), Ret(V("z"))],
        "index": lambda x: [Decl("int", "arr", None, dims=[4]), ES(A(Idx(V("arr"), I(1)), I(7))), Ret(Idx(V("arr"), B("%", V(x), I(2))))] ,
        "call": lambda x: [Ret(Call("g", [V(x)]))],
        "cast": lambda x: [Decl("float", "q", B("+", V(x), F("0.5"))), Ret(B("<", V("q"), F("2.0")))],
        "loopcond": lambda x: [Decl("int", "n", I(0)), While(B("<", V("n"), V(x)), Block([ES(A(V("n"), B("+", V("n"), I(1))))])), Ret(V("n"))],
    }
    g = Func("g", [Arg("int", "p")], "int", Block([ES(A(V("p"), B("+", V("p"), I(1)))), Ret(V("p"))]))
    for uname, mk in users.items():
        extra = [g] if uname == "call" else []
        out.append(("pair-" + uname, prog([Decl("int", "x", a)] + mk("x"), extra=extra)))
        out.append(("chain-" + uname, prog([Decl("int", "x", None), Decl("int", "y", None), ES(A(V("x"), a)), ES(A(V("y"), V("x")))] + mk("y"), extra=extra)))
        out.append(("triple-" + uname, prog([Decl("int", "x", a), Decl("int", "y", V("x")), Decl("int", "w", V("y"))] + mk("w"), extra=extra)))
        out.append(("argstore-" + uname, prog([ES(A(a, B("-", a, I(1)))), ES(A(a, a))] + mk("a"), extra=extra)))
        out.append(("loop-" + uname, prog([Decl("int", "x", I(0)), For(Decl("int", "i", I(0)), B("<", V("i"), I(3)), Pre("++", "i"),
                                                                      Block([ES(A(V("x"), B("+", V("x"), V("i")))), ES(A(V("x"), V("x")))]))] + mk("x"), extra=extra)))
    # member / global / array flavours
    S = Struct("S", [{"t": "int", "n": "m"}, {"t": "float", "n": "k"}])
    out.append(("member", prog([Decl("S", "s", None), ES(A(Mem(V("s"), "m"), a)), Decl("S", "t", None), ES(A(Mem(V("t"), "m"), Mem(V("s"), "m"))), Ret(Mem(V("t"), "m"))], extra=[S])))
    out.append(("global", Module([Global("int", "g0"), Func("f", [Arg("int", "a")], "int", Block([ES(A(V("g0"), a)), Decl("int", "x", V("g0")), ES(A(V("g0"), B("+", V("x"), I(1)))), Ret(V("g0"))]), export=True)])))
    out.append(("struct-copy-member", prog([Decl("S", "s", None), ES(A(Mem(V("s"), "m"), a)), Decl("S", "t", None), ES(A(V("t"), V("s"))), Ret(B("+", Mem(V("t"), "m"), I(1)))], extra=[S])))
    out.append(("struct-copy-member-store", prog([Decl("S", "s", None), Decl("S", "t", None), ES(A(V("t"), V("s"))), ES(A(Mem(V("t"), "m"), a)), Ret(Mem(V("t"), "m"))], extra=[S])))
    # an aggregate is copied, the copy is written in place, and BOTH are read afterwards (a forwarded load must not make the copy an alias)
    for nm, val in (("const", I(7)), ("arg", B("+", a, I(1)))):
        out.append(("struct-copy-store-both-" + nm, prog([Decl("S", "s", None), Decl("S", "t", None), ES(A(Mem(V("s"), "m"), a)), ES(A(V("t"), V("s"))), ES(A(Mem(V("t"), "m"), val)),
                                                          Ret(B("+", B("*", Mem(V("s"), "m"), I(100)), Mem(V("t"), "m")))], extra=[S])))
        out.append(("struct-init-copy-store-both-" + nm, prog([Decl("S", "s", None), ES(A(Mem(V("s"), "m"), a)), Decl("S", "t", V("s")), ES(A(Mem(V("t"), "m"), val)),
                                                               Ret(B("+", B("*", Mem(V("s"), "m"), I(100)), Mem(V("t"), "m")))], extra=[S])))
        out.append(("array-copy-store-both-" + nm, prog([Decl("int", "x", None, dims=[3]), ES(A(Idx(V("x"), I(1)), a)), Decl("int", "y", None, dims=[3]), ES(A(V("y"), V("x"))), ES(A(Idx(V("y"), I(1)), val)),
                                                         Ret(B("+", B("*", Idx(V("x"), I(1)), I(100)), Idx(V("y"), I(1))))])))
        out.append(("array-param-copy-store-both-" + nm, Module([Func("f", [{"t": "int", "n": "arr", "dims": [2]}, Arg("int", "a")], "int",
                                                                      Block([Decl("int", "c", None, dims=[2]), ES(A(V("c"), V("arr"))), ES(A(Idx(V("c"), I(0)), val)),
                                                                             Ret(B("+", B("*", Idx(V("arr"), I(0)), I(100)), Idx(V("c"), I(0))))]), export=True)])))
        out.append(("global-array-copy-store-both-" + nm, Module([Global("int", "g", [3]), Global("int", "h", [3]),
                                                                  Func("f", [Arg("int", "a")], "int", Block([ES(A(Idx(V("g"), I(1)), a)), ES(A(V("h"), V("g"))), ES(A(Idx(V("h"), I(1)), val)),
                                                                                                             Ret(B("+", B("*", Idx(V("g"), I(1)), I(100)), Idx(V("h"), I(1))))]), export=True)])))
        out.append(("vector-copy-store-both-" + nm, prog([Decl("int3", "v", Ctor("int3", [a, a, a])), Decl("int3", "w", V("v")), ES(A(Mem(V("w"), "x"), val)),
                                                          Ret(B("+", B("*", Mem(V("v"), "x"), I(100)), Mem(V("w"), "x")))])))
    # a call between the store and the reload: the callee may write the variable
    bump = Func("bump", [Arg("int", "d")], "int", Block([ES(A(V("g0"), B("+", V("g0"), V("d")))), Ret(V("g0"))]))
    nop = Func("nop", [], "int", Block([Ret(I(0))]))
    for nm, callst in (("lit", ES(Call("bump", [I(10)]))), ("noargs", ES(Call("nop", []))), ("binop", ES(B("+", Call("bump", [I(3)]), I(1))))):
        out.append(("global-call-reload-" + nm, Module([Global("int", "g0"), bump, nop,
                    Func("f", [Arg("int", "a")], "int", Block([ES(A(V("g0"), a)), callst, Ret(V("g0"))]), export=True)])))
        out.append(("global-call-reload2-" + nm, Module([Global("int", "g0"), bump, nop,
                    Func("f", [Arg("int", "a")], "int", Block([ES(A(V("g0"), a)), callst, Decl("int", "x", V("g0")), Ret(B("+", V("x"), V("g0")))]), export=True)])))
    # constant casts: to float and to int, through calls and mixed arithmetic
    gi = Func("g", [Arg("int", "p")], "int", Block([Ret(V("p"))]))
    gf = Func("h", [Arg("float", "p")], "float", Block([Ret(V("p"))]))
    out.append(("constcast-int", prog([Ret(Call("g", [F("1.5")]))], extra=[gi])))
    out.append(("constcast-float", prog([Ret(Call("h", [I(3)]))], ret="float", extra=[gf])))
    out.append(("constcast-mixed", prog([Ret(B("+", B("*", b, I(2)), B("+", I(1), F("0.5"))))], ret="float")))
    out.append(("constcast-reuse", prog([Decl("float", "x", B("+", I(3), F("3.0"))), Ret(B("+", V("x"), B("*", I(3), b)))], ret="float")))
    return out


def run(ctx):
    ctx.static_obligations(STATIC)
    repo = ctx.sync_repo(1)[0]
    shapes.write(ctx, repo, ["optload", "optcast", "argrewrite", "compiler", "pass", "visitor"])
    ctx.compile_dyn(["Gen_Shapes", "Props_C02"])
    rng = ctx.rng
    progs = []
    for name, m in targeted(rng):
        text, _ = nslgen.render(m, "canonical", rng)
        f = [it for it in m["items"] if it["k"] == "func" and it["export"]][0]
        globs = [it for it in m["items"] if it["k"] == "global"]
        shaped = lambda x, dims: x if not dims else [shaped(x, dims[1:]) for _ in range(dims[0])]
        calls = [{"fn": "f", "args": {a_["n"]: shaped(v if a_["t"] == "int" else float(v) + 0.5, a_.get("dims")) for a_ in f["args"]},
                  "globals": {g_["n"]: shaped(1, g_.get("dims")) for g_ in globs}, "read_globals": [g_["n"] for g_ in globs]} for v in (0, 2, 5)]
        progs.append((m, calls, text, name))
    for (m, calls, text) in c01.gen_programs(ctx, 120 if ctx.tier == "quick" else 3000):
        progs.append((m, calls, text, "random"))
    # every language feature, not only the scalar core: vector / matrix programs (a forwarded load may feed both operands of a
    # shuffle, a component-wise operator, an element write, a constructor ...)
    import genvec
    vg = genvec.VGen(rng)
    for name, body, ret, args in (
            ("vec-store-swizzle", [Decl("float3", "v", None), ES(A(V("v"), V("p"))), Ret(Mem(V("v"), "zx"))], "float2", {"p": [1.5, 2.5, 3.5]}),
            ("vec-store-swizzle-rep", [Decl("float3", "v", None), ES(A(V("v"), B("+", V("p"), V("p")))), Ret(Mem(V("v"), "yyy"))], "float3", {"p": [1.5, 2.5, 3.5]}),
            ("vec-store-binop", [Decl("float3", "v", None), ES(A(V("v"), V("p"))), Ret(B("+", V("v"), V("v")))], "float3", {"p": [1.5, 2.5, 3.5]}),
            ("vec-store-index", [Decl("float3", "v", None), ES(A(V("v"), V("p"))), Ret(Idx(V("v"), I(2)))], "float", {"p": [1.5, 2.5, 3.5]}),
            ("vec-store-elemwrite", [Decl("float3", "v", None), ES(A(V("v"), V("p"))), ES(A(Idx(V("v"), I(1)), F("9.0"))), Ret(V("v"))], "float3", {"p": [1.5, 2.5, 3.5]}),
            ("vec-store-swizzlewrite", [Decl("float3", "v", None), ES(A(V("v"), V("p"))), ES(A(Mem(V("v"), "zy"), Mem(V("v"), "xy"))), Ret(V("v"))], "float3", {"p": [1.5, 2.5, 3.5]}),
            ("vec-store-ctor", [Decl("float3", "v", None), ES(A(V("v"), V("p"))), Ret(Ctor("float4", [V("v"), Idx(V("v"), I(0))]))], "float4", {"p": [1.5, 2.5, 3.5]})):
        m = Module([Func("f", [Arg("float3", "p")], ret, Block(body), export=True)])
        text, _ = nslgen.render(m, "canonical", rng)
        progs.append((m, [{"fn": "f", "args": dict(args), "globals": {}, "read_globals": []}], text, name))
    for k in range(50 if ctx.tier == "quick" else 1200):
        vg.o["mats"] = k % 3 != 0
        m, params, globs, ret = vg.program()
        text, _ = nslgen.render(m, "canonical", rng)
        progs.append((m, vg.calls(params, globs, 2), text, "vector"))
    # straight-line functions (one block: declarations, assignments to locals / parameters / globals / elements, a return): the fragment of the
    # preservation theorem; every assignment is followed by a read of the assigned variable so that the pass forwards
    for k in range(40 if ctx.tier == "quick" else 1000):
        tg = gentyped.TGen(rng, floats=(k % 4 != 0), arrays=(k % 3 == 0), structs=False, calls=False, side_effects=False, max_depth=2)
        genv = gentyped.Env(); genv.vars = {"g0": "int", "g1": "float"}
        env = gentyped.Env(genv); env.bounds = {}
        params = [("int", "a"), ("float", "b")]
        for t, nm in params:
            env.vars[nm] = t
        body = []
        for j in range(rng.choice([2, 3, 4, 5])):
            t = rng.choice(["int", "float"]) if k % 4 != 0 else "int"
            c = rng.random()
            if c < 0.45:
                x = "v%d" % j
                body.append(Decl(t, x, tg.expr(env, t, 2, pure=True))); env.vars[x] = t
            else:
                cands = [n for n, ty in env.all().items() if ty == t]
                if cands:
                    x = rng.choice(cands)
                    body.append(ES(A(V(x), tg.expr(env, t, 2, pure=True), rng.choice(["=", "=", "+=", "*="]))))
        rt = rng.choice(["int", "float"]) if k % 4 != 0 else "int"
        body.append(Ret(tg.expr(env, rt, 2, pure=True)))
        m = Module([Global("int", "g0"), Global("float", "g1"), Func("f", [Arg(t, nm) for t, nm in params], rt, Block(body), export=True)])
        text, _ = nslgen.render(m, "canonical", rng)
        calls = [{"fn": "f", "args": {"a": rng.randrange(-5, 8), "b": rng.choice([0.5, -1.25, 3.0, 0.1])}, "globals": {"g0": rng.randrange(-3, 6), "g1": rng.choice([0.25, 1.5])} if c_ == 0 else {},
                  "read_globals": ["g0", "g1"]} for c_ in range(2)]
        progs.append((m, calls, text, "straight-line"))
    # constant casts to unsigned types, negative and beyond 32 bits (the folded constant must be what the VM's CAST computes); raw sources,
    # compared at the two optimisation settings only
    for src, args, globs in (("export function f(uint a) -> uint { uint b = a + uint(2.5); return b + uint(7); }", {"a": 3}, []),
                             ("export function f() -> uint { return uint(-3); }", {}, []),
                             ("uint g; export function f(uint a) -> uint { g = uint(-1); uint x = a; return x + g; }", {"a": 5}, ["g"]),
                             ("export function f(uint a) -> uint2 { uint2 v = uint2(-1, a); return v; }", {"a": 2}, []),
                             ("export function f() -> uint { return uint(4294967298); }", {}, []),
                             ("export function f(float a) -> float { return a + float(-3) + float(4294967298); }", {"a": 0.5}, []),
                             ("export function f() -> int { return int(2.5) + int(4294967298.5) + int(0 - 2.5); }", {}, []),
                             ("export function f() -> uint3 { return uint3(-1, 2.5, -7); }", {}, [])):
        progs.append((None, [{"fn": "f", "args": dict(args), "globals": {g_: 1 for g_ in globs}, "read_globals": list(globs)}], src, "constcast-raw"))
    jobs = []
    for (m, calls, text, name) in progs:
        jobs.append(vmcases.job(text, calls, optimize=False))
        jobs.append(vmcases.job(text, calls, optimize=True))
    res = ctx.run_impl("compile_impl.py", jobs, nworkers=16)
    blocks, meta, direct_bad, diff_bad = [], [], [], []
    stats = {"programs": len(progs), "targeted": sum(1 for p in progs if p[3] != "random"), "accept_differs": 0, "result_differs": 0, "optimised_ir_changed": 0}
    for k, (m, calls, text, name) in enumerate(progs):
        r0, r1 = res[2 * k], res[2 * k + 1]
        if r0["accept"] != r1["accept"]:
            stats["accept_differs"] += 1
            diff_bad.append((text, calls, {"unoptimised": {x: y for x, y in r0.items() if x != "ir"}, "optimised": {x: y for x, y in r1.items() if x != "ir"}})); continue
        if not r0["accept"]:
            direct_bad.append((text, r0)); continue
        if r0.get("calls") != r1.get("calls"):
            stats["result_differs"] += 1
            diff_bad.append((text, calls, {"unoptimised": r0.get("calls"), "optimised": r1.get("calls")})); continue
        if json.dumps(r0["ir"]) != json.dumps(r1["ir"]):
            stats["optimised_ir_changed"] += 1
        if m is None:
            continue
        p0 = ircoq.program({"functions": r0["ir"]["functions"], "globals": r0["ir"]["globals"]})
        p1 = ircoq.program({"functions": r1["ir"]["functions"], "globals": r1["ir"]["globals"]})
        # whole-array / whole-structure assignment has reference semantics in the VM (no property speaks of it: C03 and C04 name scalars, vectors and
        # matrices); the reference semantics, which copies, is not compared on those programs -- optimised vs unoptimised and the VM model are
        aliasing = "-copy-store-both-" in name and not name.startswith("vector")
        defs, run_expr = vmcases.case_block(k, m, r1, calls, with_spec=not aliasing, with_ir=False)     # optimised module vs VM model and reference semantics
        defs += "Definition U_%d : program := %s.\n" % (k, p0)
        blocks.append((defs, "(%s + opt_case U_%d P_%d + wf_case P_%d + 1000 * fwd_case U_%d + 1000000000000 * fwdflow_case U_%d + 1000000000000000000000 * optfull_case U_%d)" % (run_expr, k, k, k, k, k, k))); meta.append((text, calls, r1, name))
    files = vmcases.write_case_files(ctx, "C02", blocks)
    outs = ctx.eval_cases(files, timeout=900)
    codes = vmcases.collect_codes(ctx, files, outs, len(blocks))
    frag = {"functions": 0, "inside_proved_fragment": 0, "of_which_the_pass_forwards": 0}
    ffrag = {"functions": 0, "inside_proved_fragment": 0, "of_which_with_several_blocks": 0, "in_which_the_pass_forwards": 0}
    ofrag = {"functions": 0, "whole_optimiser_theorem_applies": 0, "of_which_with_a_folded_cast": 0, "of_which_with_several_blocks": 0}
    for n_, c in enumerate(codes):
        if c is not None and c >= 10 ** 21:
            of = c // 10 ** 21
            c = codes[n_] = c % 10 ** 21
            ofrag["functions"] += of // 1000000; ofrag["whole_optimiser_theorem_applies"] += (of // 10000) % 100
            ofrag["of_which_with_a_folded_cast"] += (of // 100) % 100; ofrag["of_which_with_several_blocks"] += of % 100
        if c is not None and c >= 10 ** 12:
            ff = c // 10 ** 12
            c = codes[n_] = c % 10 ** 12
            ffrag["functions"] += ff // 1000000; ffrag["inside_proved_fragment"] += (ff // 10000) % 100
            ffrag["of_which_with_several_blocks"] += (ff // 100) % 100; ffrag["in_which_the_pass_forwards"] += ff % 100
        if c is not None and c >= 1000:
            fc = c // 1000
            codes[n_] = c % 1000
            frag["functions"] += fc // 10000; frag["inside_proved_fragment"] += (fc // 100) % 100; frag["of_which_the_pass_forwards"] += fc % 100
    stats["single_block_functions"] = frag
    stats["functions_any_control_flow"] = ffrag
    stats["whole_optimiser"] = ofrag
    bad_spec = [x for x, c in zip(meta, codes) if c is not None and (c & 2 or c & 32)]
    bad_model = [x for x, c in zip(meta, codes) if c is not None and (c & 1 or c & 128)]
    stats["optimiser_model_unmodelled"] = sum(1 for c in codes if c is not None and c & 256)
    ctx.cov["evaluations"] = 2 * sum(len(c) for _, c, _, _ in progs)
    ctx.cov["distinct_nontrivial"] = len({t for _, _, t, _ in progs})
    ctx.cov["programs"] = len(progs)
    ctx.cov["rule"] = ("a grid of (store, load) adjacency patterns {one pair, chain through two variables, triple chain, store to an argument, pair inside a loop} x the kind of user of the "
                       "forwarded load {return, binary operand, branch predicate, store source, index, call argument, cast, loop condition}, member/global flavours, constant casts to float and to "
                       "int; plus the C01 generator's random programs, targeted vector store/load patterns (swizzle, repeated swizzle, component-wise operator, index, element write, swizzle write, constructor after a store) and the C04 generator's vector/matrix programs, and straight-line functions (declarations and assignments followed by reads, one block) for which the hypotheses of the preservation theorem are decided inside Coq on the real IR. Every program is compiled with optimisation off and on: accept/reject equal, VM results and globals equal on three "
                       "inputs; inside Coq the optimised IR is compared with the optimiser model applied to the real unoptimised IR, checked well-formed, and run on the VM model against "
                       "the reference semantics. Every program is distinct; all contain at least one store or cast and are counted non-trivial.")
    ctx.cov["samples"] = [{"name": n, "source": t[:300]} for t, c, r, n in meta[:3]]
    ctx.extra["input_distribution"] = stats
    ctx.extra["disagreements_checked"] = len(codes) + len(progs)
    if diff_bad:
        t, c, o = min(diff_bad, key=lambda x: len(x[0]))
        ctx.violation("failing-input", {"what": "optimisation changed the accept/reject decision, the returned value or the globals", "source": t, "calls": c, "observed": o, "count": len(diff_bad)})
    elif bad_spec or direct_bad:
        if bad_spec:
            t, c, r, n = min(bad_spec, key=lambda x: len(x[0]))
            ctx.violation("failing-input", {"what": "the optimised module is ill-formed or its result differs from the reference semantics", "source": t, "calls": c, "observed": r.get("calls"), "count": len(bad_spec)})
        else:
            t, r = direct_bad[0]
            ctx.violation("failing-input", {"what": "a well-typed program was rejected at both settings", "source": t, "observed": r, "count": len(direct_bad)})
    elif bad_model:
        t, c, r, n = bad_model[0]
        ctx.broken.append("correspondence (optimiser/VM model): differs from the implementation on %d program(s), e.g. [%s] %s" % (len(bad_model), n, t[:300]))
