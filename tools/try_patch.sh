#!/bin/bash
# usage: tools/try_patch.sh <patch.diff> <prop> [tier]  -- apply to /repo, run the check, undo.
# The evidence file of the property is saved and restored: committed evidence must come from runs on /repo itself.
P=$(realpath "$1"); PROP=$2; TIER=${3:-quick}
cd /repo && git diff --quiet || { echo "/repo dirty"; exit 2; }
git -C /repo apply "$P" || { echo "patch does not apply"; exit 3; }
EV=/verif/evidence/$PROP.json; BAK=$(mktemp)
[ -f "$EV" ] && cp "$EV" "$BAK"
cd /verif && ./check $PROP --tier $TIER; RC=$?
[ -s "$BAK" ] && cp "$BAK" "$EV"; rm -f "$BAK"
git -C /repo checkout -- . ; echo "check rc=$RC"
exit $RC
