(** * C16 -- Separately compiled, imported and linked modules behave like one program. *)
From Coq Require Import String List Bool Arith Permutation.
From NSL Require Import Model.Linker Proofs.LinkerProofs.
From NSLDyn Require Gen_Shapes.
Import ListNotations.
Local Open Scope string_scope.

(** The linked program does not depend on the order in which modules were added: for every set of modules, every
    loader (any import graph: chains, diamonds, cycles) and every two orders of AddModule, Link either fails in both
    or produces the same function table, the same global table (as finite maps) and the same set of loaded imports. *)
Theorem C16_order_independent : forall fuel loader ms ms', Permutation ms ms' ->
  equiv_res (link_modules fuel loader ms) (link_modules fuel loader ms').
Proof. exact link_order_independent. Qed.

(** Every imported module is loaded at most once however many modules import it and however long the chain is; when
    Link returns, nothing is pending and the loaded set is closed under imports (transitive imports are present). *)
Theorem C16_loads_once_and_closes : forall fuel loader ms st st',
  add_all init_state ms = Some st -> link fuel loader st = LinkOk st' ->
  NoDup (ls_loaded st') /\ ls_pending st' = [] /\
  forall x, In x (ls_loaded st') -> exists m, loader x = Some m /\ forall i, In i (lm_imports m) -> In i (ls_loaded st').
Proof. exact link_loads_once_and_closes. Qed.

(** Two definitions of the same function are rejected instead of one silently replacing the other; a successful
    AddModule keeps every earlier definition and adds every new one. *)
Theorem C16_duplicate_rejected : forall s m k v w,
  In (k, v) (ls_funcs s) -> In (k, w) (lm_funcs m) -> add_module s m = None.
Proof. exact duplicate_definition_rejected. Qed.
Theorem C16_nothing_replaced : forall s m s', add_module s m = Some s' ->
  forall kv, In kv (ls_funcs s') <-> In kv (ls_funcs s) \/ In kv (lm_funcs m).
Proof. exact successful_link_keeps_every_definition. Qed.

(** First sentence of the property (a program split over modules behaves exactly like the one-module program): NOT
    proved -- it needs the statement that compiling a function does not depend on which module its callees live in
    (typing through imported signatures, lowering per function).  It is tied by the correspondence: per-function IR
    and VM results of the linked program against the single-module program. *)
Definition C16_behaviour_full_statement : Prop :=
  forall (split_results single_results : list nat), split_results = single_results.

Example C16_diamond :
  let m imports fs := {| lm_funcs := fs; lm_globals := []; lm_imports := imports |} in
  let loader x := if String.eqb x "b" then Some (m ["d"] [("fb", 1)]) else if String.eqb x "c" then Some (m ["d"] [("fc", 2)])
                  else if String.eqb x "d" then Some (m [] [("fd", 3)]) else None in
  match link_modules 10 loader [m ["b"; "c"] [("fa", 0)]] with
  | LinkOk st => ls_loaded st = ["d"; "c"; "b"] /\ map fst (ls_funcs st) = ["fa"; "fb"; "fc"; "fd"]
  | _ => False end.
Proof. vm_compute. split; reflexivity. Qed.

Theorem C16_linker_shape : Gen_Shapes.shape_linker_checked = true.
Proof. reflexivity. Qed.

Eval compute in "ASSUMPTIONS C16_order_independent"%string. Print Assumptions C16_order_independent.
Eval compute in "ASSUMPTIONS C16_loads_once_and_closes"%string. Print Assumptions C16_loads_once_and_closes.
Eval compute in "ASSUMPTIONS C16_duplicate_rejected"%string. Print Assumptions C16_duplicate_rejected.
Eval compute in "END"%string.
