(** * C01, loops: the function-level simulation.  A source function whose body is a list of scalar declarations, assignments
    (plain or compound), blocks, conditionals and [while] loops (loop bodies: assignments, blocks, nested conditionals; no
    declarations inside blocks, branches and loop bodies; no break / continue), followed by [return e], returns on the VM --
    after elaboration and lowering -- the value the reference semantics gives. *)
From Coq Require Import String ZArith List Bool PrimFloat Arith Lia.
From NSL Require Import Base.Types Base.Syntax Spec.Overload Model.PyNum Model.IR Model.VM Model.TypesBin Model.Elab Model.Lower Spec.RefSem
                        Proofs.OpsAgree Proofs.OptProofs Proofs.LowerExprProofs Proofs.ElabExprProofs Proofs.ReturnExprProofs Proofs.CallAgreeProofs
                        Proofs.LowerStmtProofs Proofs.ElabStmtProofs Proofs.StraightLineProofs Proofs.HistoryRefineProofs Proofs.LowerWfProofs Proofs.LowerAllocProofs
                        Proofs.FlowLowerProofs Proofs.FlowFuncProofs Proofs.FlowElabProofs Proofs.FlowTableProofs Proofs.FlowSimProofs Proofs.LoopLowerProofs Proofs.LoopElabProofs Proofs.ForElabProofs.
Import ListNotations.

Definition is_swhile (n : nat) (s : stmt) : bool := match s with SWhile c (Some b) => spure c && bsrc n b | _ => false end.
Definition is_sdo (n : nat) (s : stmt) : bool := match s with SDo b c => spure c && forallb (bsrc n) b | _ => false end.
Definition is_sfor (n : nat) (s : stmt) : bool :=
  match s with
  | SFor (Some (t, x, i)) (Some c) (Some (EAssign AAssign (EVar y) r)) b =>
      ssimple0 (SDecl t x i) && spure c && ssimple (SExpr (EAssign AAssign (EVar y) r)) && bsrc n b
  | _ => false
  end.
Definition wstop (n : nat) (s : stmt) : bool := stop n s || is_swhile n s || is_sdo n s || is_sfor n s.

(** the variable of a for header is not visible where the loop stands (the name validator rejects the program otherwise: C12) *)
Definition for_fresh (gl args : list string) (env : tenv) (s : stmt) : Prop :=
  match s with
  | SFor (Some (_, x, _)) _ _ _ => existsb (String.eqb x) gl = false /\ existsb (String.eqb x) args = false /\ tlookup env x = None
  | _ => True
  end.
Fixpoint fors_fresh (gl args : list string) (env : tenv) (l : list stmt) : Prop :=
  match l with [] => True | s :: r => for_fresh gl args env s /\ fors_fresh gl args (env_step env s) r end.
Definition wtopexprs (n : nat) (ts : tstmt) : list texpr :=
  match ts with
  | TWhile c (Some b) => c :: bexprs n b
  | TDo b c => c :: bexprs (S n) (TBlock b)
  | TFor (Some (t, x, i)) (Some c) (Some nx) b => stexprs (TDecl t x i) ++ c :: bexprs 1 (TExpr nx) ++ bexprs n b
  | _ => topexprs n ts
  end.

(** ** the constant table *)
Section WTable.
  Variable structs : list sdef.
  Variable gl args : list string.
  Variable L : list float.

  Lemma linv_set_depth st d : linv st -> linv (set_depth st d).
  Proof. intros I. destruct I. constructor; assumption. Qed.

  Lemma lower_w_table n c b st st' : tpure c = true -> bstmt n b = true -> linv st -> lower_stmt structs gl args (TWhile c (Some b)) st = LOk st' ->
    table_ok L (l_consts st) -> (forall x, In x (c :: bexprs n b) -> incl (tflits x) L) -> tres_tab L st st' (c :: bexprs n b).
  Proof.
    intros Hpc Hbb I H Ht Hin. cbn [lower_stmt lbind] in H.
    destruct (create_block st) as [st1 startb] eqn:Esb.
    destruct (lower_expr structs gl args c st1) as [[cv st2]| |] eqn:Ec; cbn [lbind] in H; try discriminate.
    destruct (emit_branch st2 (Some cv) LNone LNone) as [st3 br] eqn:Eb.
    destruct (create_block st3) as [st4 bodyb] eqn:Ebb.
    destruct (lower_stmt structs gl args b (set_depth st4 (S (l_depth st3)))) as [st5| |] eqn:Et; cbn [lbind] in H; try discriminate.
    destruct (emit_branch (set_depth st5 (l_depth st3)) None (LRef startb) LNone) as [st7 jb] eqn:Ejb.
    destruct (create_block st7) as [st8 endb] eqn:Eeb. inversion H; subst st'; clear H.
    destruct (create_block_consts _ _ _ Esb I) as [I1 Hc1].
    destruct (lower_table structs gl args L c st1 cv st2 Hpc I1 Ec) as (I2 & Ht2 & (n2 & Hn2) & Hpi & Hpf); [rewrite Hc1; exact Ht|apply Hin; left; reflexivity|].
    destruct (emit_branch_consts _ _ _ _ _ _ Eb I2) as [I3 Hc3]. destruct (create_block_consts _ _ _ Ebb I3) as [I4 Hc4].
    destruct (lower_b_table structs gl args L n b (set_depth st4 (S (l_depth st3))) st5 Hbb (linv_set_depth _ _ I4) Et) as (I5 & Ht5 & (n5 & Hn5) & Hp5).
    { change (l_consts (set_depth st4 (S (l_depth st3)))) with (l_consts st4). rewrite Hc4, Hc3. exact Ht2. }
    { intros y Hy. apply Hin. right. exact Hy. }
    change (l_consts (set_depth st4 (S (l_depth st3)))) with (l_consts st4) in Hn5.
    destruct (emit_branch_consts _ _ _ _ _ _ Ejb (linv_set_depth _ _ I5)) as [I7 Hc7]. change (l_consts (set_depth st5 (l_depth st3))) with (l_consts st5) in Hc7.
    destruct (create_block_consts _ _ _ Eeb I7) as [I8 Hc8].
    assert (Hfin : l_consts (patch (set_targets st8 br (Some (LRef bodyb)) (Some (LRef endb))) (l_depth st3) endb startb) = l_consts st5) by (cbn; rewrite Hc8, Hc7; reflexivity).
    assert (H52 : l_consts st5 = l_consts st2 ++ n5) by (rewrite Hn5, Hc4, Hc3; reflexivity).
    split.
    { assert (I9 : linv (set_targets st8 br (Some (LRef bodyb)) (Some (LRef endb)))) by (apply set_targets_linv; exact I8).
      destruct I9 as [J1 J2 J3]. constructor; cbn in *; [exact J1| |exact J3].
      destruct J2 as [X|X]; [left; exact X|right]. intro Y. apply X. destruct (l_blocks st8); [reflexivity|discriminate]. }
    rewrite Hfin. split; [exact Ht5|]. split; [exists (n2 ++ n5); rewrite H52, Hn2, Hc1, <- app_assoc; reflexivity|].
    intros y [<-|Hy].
    - rewrite H52. apply present_app. split; assumption.
    - apply Hp5. exact Hy.
  Qed.

  Lemma lower_d_table n b c st st' : tpure c = true -> forallb (bstmt n) b = true -> linv st -> lower_stmt structs gl args (TDo b c) st = LOk st' ->
    table_ok L (l_consts st) -> (forall x, In x (c :: bexprs (S n) (TBlock b)) -> incl (tflits x) L) -> tres_tab L st st' (c :: bexprs (S n) (TBlock b)).
  Proof.
    intros Hpc Hbb I H Ht Hin. rewrite lower_do_unfold in H.
    destruct (create_block st) as [st1 startb] eqn:Esb.
    destruct (lower_stmt structs gl args (TBlock b) (set_depth st1 (S (l_depth st1)))) as [st2| |] eqn:Et; cbn [lbind] in H; try discriminate.
    destruct (create_block (set_depth st2 (l_depth st1))) as [st4 condb] eqn:Ecb.
    destruct (lower_expr structs gl args c st4) as [[cv st5]| |] eqn:Ec; cbn [lbind] in H; try discriminate.
    destruct (emit_branch st5 (Some cv) (LRef startb) LNone) as [st6 br] eqn:Eb.
    destruct (create_block st6) as [st7 endb] eqn:Eeb. inversion H; subst st'; clear H.
    destruct (create_block_consts _ _ _ Esb I) as [I1 Hc1].
    assert (Hbb' : bstmt (S n) (TBlock b) = true) by exact Hbb.
    destruct (lower_b_table structs gl args L (S n) (TBlock b) (set_depth st1 (S (l_depth st1))) st2 Hbb' (linv_set_depth _ _ I1) Et) as (I2 & Ht2 & (n2 & Hn2) & Hp2).
    { change (l_consts (set_depth st1 (S (l_depth st1)))) with (l_consts st1). rewrite Hc1. exact Ht. }
    { intros y Hy. apply Hin. right. exact Hy. }
    change (l_consts (set_depth st1 (S (l_depth st1)))) with (l_consts st1) in Hn2.
    destruct (create_block_consts _ _ _ Ecb (linv_set_depth _ _ I2)) as [I4 Hc4]. change (l_consts (set_depth st2 (l_depth st1))) with (l_consts st2) in Hc4.
    destruct (lower_table structs gl args L c st4 cv st5 Hpc I4 Ec) as (I5 & Ht5 & (n5 & Hn5) & Hpi & Hpf); [rewrite Hc4; exact Ht2|apply Hin; left; reflexivity|].
    destruct (emit_branch_consts _ _ _ _ _ _ Eb I5) as [I6 Hc6]. destruct (create_block_consts _ _ _ Eeb I6) as [I7 Hc7].
    assert (Hfin : l_consts (patch (set_targets st7 br None (Some (LRef endb))) (l_depth st1) endb condb) = l_consts st5) by (cbn; rewrite Hc7, Hc6; reflexivity).
    split.
    { assert (I9 : linv (set_targets st7 br None (Some (LRef endb)))) by (apply set_targets_linv; exact I7).
      destruct I9 as [J1 J2 J3]. constructor; cbn in *; [exact J1| |exact J3].
      destruct J2 as [X|X]; [left; exact X|right]. intro Y. apply X. destruct (l_blocks st7); [reflexivity|discriminate]. }
    rewrite Hfin. split; [exact Ht5|]. split; [exists (n2 ++ n5); rewrite Hn5, Hc4, Hn2, Hc1, <- app_assoc; reflexivity|].
    intros y [<-|Hy].
    - split; assumption.
    - rewrite Hn5, Hc4. apply present_app. apply Hp2. exact Hy.
  Qed.

  Lemma lower_f_table n t x i c nx b st st' :
    simple (TDecl t x i) = true -> tpure c = true -> bstmt 1 (TExpr nx) = true -> bstmt n b = true -> linv st ->
    lower_stmt structs gl args (TFor (Some (t, x, i)) (Some c) (Some nx) b) st = LOk st' ->
    table_ok L (l_consts st) -> (forall y, In y (stexprs (TDecl t x i) ++ c :: bexprs 1 (TExpr nx) ++ bexprs n b) -> incl (tflits y) L) ->
    tres_tab L st st' (stexprs (TDecl t x i) ++ c :: bexprs 1 (TExpr nx) ++ bexprs n b).
  Proof.
    intros Hd Hpc Hbn Hbb I H Ht Hin. rewrite lower_for_split in H.
    destruct (lower_stmt structs gl args (TDecl t x i) st) as [st0| |] eqn:Ed; cbn [lbind] in H; try discriminate.
    destruct (lower_simple_table structs gl args L (TDecl t x i) st st0 Hd I Ed Ht) as (I0 & Ht0 & (n0 & Hn0) & Hp0).
    { intros y Hy. apply Hin. apply in_or_app. left. exact Hy. }
    rewrite lower_for_unfold in H.
    destruct (create_block st0) as [st1 startb] eqn:Esb.
    destruct (lower_expr structs gl args c st1) as [[cv st2]| |] eqn:Ec; cbn [lbind] in H; try discriminate.
    destruct (emit_branch st2 (Some cv) LNone LNone) as [st3 br] eqn:Eb.
    destruct (create_block st3) as [st4 bodyb] eqn:Ebb.
    destruct (lower_stmt structs gl args b (set_depth st4 (S (l_depth st4)))) as [st5| |] eqn:Et; cbn [lbind] in H; try discriminate.
    destruct (create_block (set_depth st5 (l_depth st4))) as [st6 incb] eqn:Eib.
    destruct (lower_stmt structs gl args (TExpr nx) st6) as [st6n| |] eqn:En; cbn [lbind] in H; try discriminate.
    destruct (emit_branch st6n None (LRef startb) LNone) as [st7 jb] eqn:Ejb.
    destruct (create_block st7) as [st8 endb] eqn:Eeb. inversion H; subst st'; clear H.
    destruct (create_block_consts _ _ _ Esb I0) as [I1 Hc1].
    destruct (lower_table structs gl args L c st1 cv st2 Hpc I1 Ec) as (I2 & Ht2 & (n2 & Hn2) & Hpi & Hpf); [rewrite Hc1; exact Ht0|apply Hin; apply in_or_app; right; left; reflexivity|].
    destruct (emit_branch_consts _ _ _ _ _ _ Eb I2) as [I3 Hc3]. destruct (create_block_consts _ _ _ Ebb I3) as [I4 Hc4].
    destruct (lower_b_table structs gl args L n b (set_depth st4 (S (l_depth st4))) st5 Hbb (linv_set_depth _ _ I4) Et) as (I5 & Ht5 & (n5 & Hn5) & Hp5).
    { change (l_consts (set_depth st4 (S (l_depth st4)))) with (l_consts st4). rewrite Hc4, Hc3. exact Ht2. }
    { intros y Hy. apply Hin. apply in_or_app. right. right. apply in_or_app. right. exact Hy. }
    change (l_consts (set_depth st4 (S (l_depth st4)))) with (l_consts st4) in Hn5.
    destruct (create_block_consts _ _ _ Eib (linv_set_depth _ _ I5)) as [I6 Hc6]. change (l_consts (set_depth st5 (l_depth st4))) with (l_consts st5) in Hc6.
    destruct (lower_b_table structs gl args L 1 (TExpr nx) st6 st6n Hbn I6 En) as (I6n & Ht6n & (n6 & Hn6) & Hp6).
    { rewrite Hc6. exact Ht5. }
    { intros y Hy. apply Hin. apply in_or_app. right. right. apply in_or_app. left. exact Hy. }
    destruct (emit_branch_consts _ _ _ _ _ _ Ejb I6n) as [I7 Hc7]. destruct (create_block_consts _ _ _ Eeb I7) as [I8 Hc8].
    assert (Hfin : l_consts (patch (set_targets st8 br (Some (LRef bodyb)) (Some (LRef endb))) (l_depth st4) endb incb) = l_consts st6n) by (cbn; rewrite Hc8, Hc7; reflexivity).
    assert (H52 : l_consts st5 = l_consts st2 ++ n5) by (rewrite Hn5, Hc4, Hc3; reflexivity).
    assert (H62 : l_consts st6n = l_consts st5 ++ n6) by (rewrite Hn6, Hc6; reflexivity).
    split.
    { assert (I9 : linv (set_targets st8 br (Some (LRef bodyb)) (Some (LRef endb)))) by (apply set_targets_linv; exact I8).
      destruct I9 as [J1 J2 J3]. constructor; cbn in *; [exact J1| |exact J3].
      destruct J2 as [X|X]; [left; exact X|right]. intro Y. apply X. destruct (l_blocks st8); [reflexivity|discriminate]. }
    rewrite Hfin. split; [exact Ht6n|]. split; [exists (n0 ++ n2 ++ n5 ++ n6); rewrite H62, H52, Hn2, Hc1, Hn0, <- !app_assoc; reflexivity|].
    intros y Hy. apply in_app_or in Hy as [Hy|[<-|Hy]].
    - rewrite H62, H52, Hn2, Hc1. rewrite <- !app_assoc. apply present_app. apply Hp0. exact Hy.
    - rewrite H62, H52. rewrite <- app_assoc. apply present_app. split; assumption.
    - apply in_app_or in Hy as [Hy|Hy]; [apply Hp6; exact Hy|rewrite H62; apply present_app; apply Hp5; exact Hy].
  Qed.

  Lemma lower_wtop_table n s st st' : wtop_ok n s = true -> linv st -> lower_stmt structs gl args s st = LOk st' ->
    table_ok L (l_consts st) -> (forall x, In x (wtopexprs n s) -> incl (tflits x) L) -> tres_tab L st st' (wtopexprs n s).
  Proof.
    intros Hs I H Ht Hin. unfold wtop_ok in Hs. destruct (top_ok n s) eqn:Et.
    - assert (E : wtopexprs n s = topexprs n s)
        by (destruct s as [| | | | |[[[t0 x0] i0]|] [c1|] [n1|] b1|c [b|]|b0 c0| |]; try reflexivity; unfold top_ok in Et; cbn in Et; destruct n; discriminate).
      rewrite E in *. apply (lower_top_table structs gl args L n s st st' Et I H Ht Hin).
    - cbn [orb] in Hs. destruct s as [| | | | |[[[t0 x0] i0]|] [c1|] [n1|] b1|c [b|]|b0 c0| |]; try discriminate.
      + cbn [is_while is_do is_for orb] in Hs. apply andb_prop in Hs as [Hs Hbb]. apply andb_prop in Hs as [Hs Hbn]. apply andb_prop in Hs as [Hd Hpc].
        apply (lower_f_table n t0 x0 i0 c1 n1 b1 st st' Hd Hpc Hbn Hbb I H Ht Hin).
      + cbn [is_while is_do is_for orb] in Hs. rewrite !orb_false_r in Hs. apply andb_prop in Hs as [Hpc Hbb].
        apply (lower_w_table n c b st st' Hpc Hbb I H Ht Hin).
      + cbn [is_while is_do is_for orb] in Hs. rewrite orb_false_r in Hs. apply andb_prop in Hs as [Hpc Hbb].
        apply (lower_d_table n b0 c0 st st' Hpc Hbb I H Ht Hin).
  Qed.

  Lemma lower_wtoplist_table n : forall l st st', forallb (wtop_ok n) l = true -> linv st -> lower_body structs gl args l st = LOk st' ->
    table_ok L (l_consts st) -> (forall x, In x (flat_map (wtopexprs n) l) -> incl (tflits x) L) -> tres_tab L st st' (flat_map (wtopexprs n) l).
  Proof.
    induction l as [|s0 r IHl]; intros st0 st1 Hl I0 Hl0 Ht0 Hin0.
    - cbn in Hl0. inversion Hl0; subst. split; [exact I0|]. split; [exact Ht0|]. split; [exists []; rewrite app_nil_r; reflexivity|intros ? []].
    - cbn [forallb] in Hl. apply andb_prop in Hl as [Hl1 Hl2]. cbn [lower_body lbind] in Hl0.
      destruct (lower_stmt structs gl args s0 st0) as [stm| |] eqn:Em; cbn [lbind] in Hl0; try discriminate.
      destruct (lower_wtop_table n s0 st0 stm Hl1 I0 Em Ht0) as (Im & Htm & (nm & Hnm) & Hpm); [intros y Hy; apply Hin0; cbn [flat_map]; apply in_or_app; left; exact Hy|].
      destruct (IHl stm st1 Hl2 Im Hl0 Htm) as (I1 & Ht1 & (n1 & Hn1) & Hp1); [intros y Hy; apply Hin0; cbn [flat_map]; apply in_or_app; right; exact Hy|].
      split; [exact I1|]. split; [exact Ht1|]. split; [exists (nm ++ n1); rewrite Hn1, Hnm, app_assoc; reflexivity|].
      intros y Hy. cbn [flat_map] in Hy. apply in_app_or in Hy as [Hy|Hy]; [rewrite Hn1; apply present_app; apply Hpm; exact Hy|apply Hp1; exact Hy].
  Qed.
End WTable.

Lemma loop_function_lits_ok structs gl (f : tfunc) n tl te F :
  tf_body f = tl ++ [TRet (Some te)] -> forallb (wtop_ok n) tl = true -> tpure te = true -> lower_func structs gl f = LOk F ->
  let L := flat_map tflits (flat_map (wtopexprs n) tl ++ [te]) in
  lits_exact L -> (forall q, In q L -> PrimFloat.eqb q q = true) ->
  forall x, In x (flat_map (wtopexprs n) tl ++ [te]) -> lit_ok (fn_consts F) x.
Proof.
  intros Hbody Hs Hp Hlow L Hex Hnan x Hx.
  destruct (lower_func_straight_inv structs gl f tl te F Hbody Hlow) as (st1 & r & st2 & E1 & E2 & Hcs).
  assert (HinL : forall y, In y (flat_map (wtopexprs n) tl ++ [te]) -> incl (tflits y) L).
  { intros y Hy q Hq. unfold L. apply in_flat_map. exists y. split; assumption. }
  destruct (lower_wtoplist_table structs gl (map snd (tf_args f)) L n tl lstate0 st1 Hs linv0 E1) as (I1 & Ht1 & (new1 & Hn1) & Hp1).
  { intros c []. }
  { intros y Hy. apply HinL. apply in_or_app. left. exact Hy. }
  destruct (lower_table structs gl (map snd (tf_args f)) L te st1 r st2 Hp I1 E2 Ht1) as (I2 & Ht2 & (new2 & Hn2) & Hpi & Hpf).
  { apply HinL. apply in_or_app. right. left. reflexivity. }
  assert (Hpres : present (fn_consts F) x).
  { rewrite Hcs. apply in_app_or in Hx as [Hx|[<-|[]]]; [rewrite Hn2; apply present_app; apply Hp1; exact Hx|split; assumption]. }
  destruct Hpres as [Hpi' Hpf']. rewrite Hcs in *. split.
  - intros z Hz. destruct (Hpi' z Hz) as [c Hc]. exists c. split; [exact Hc|apply (lookup_exact_int L _ _ _ Ht2 Hc)].
  - intros q Hq. assert (HqL : In q L) by (apply (HinL x Hx); exact Hq). split; [|apply Hnan; exact HqL].
    destruct (Hpf' q Hq) as [c Hc]. exists c. split; [exact Hc|apply (lookup_exact_float L _ _ _ Ht2 Hex HqL Hc)].
Qed.

(** ** static part *)
Section WStatic.
  Variable G : genv.
  Definition wtnonan (n : nat) (ts : tstmt) : Prop := forall x, In x (wtopexprs n ts) -> forall f, In f (tflits x) -> PrimFloat.eqb f f = true.

  Lemma while_elab_inv n env c b ts env' : spure c = true -> bsrc n b = true -> env_num env ->
    elab_stmt G env (SWhile c (Some b)) = EOk (ts, env') ->
    (forall b', elab_stmt G ([] :: env) b = EOk (b', [] :: env) -> bnonan n b') ->
    exists c' b', ts = TWhile c' (Some b') /\ env' = env /\ elab_stmt G ([] :: env) b = EOk (b', [] :: env) /\ elab G COn ([] :: env) c = EOk c' /\ bstmt n b' = true.
  Proof.
    intros Hpc Hbb Hn He Hnan. rewrite elab_while_unfold in He. cbn zeta in He.
    destruct (elab_stmt G ([] :: env) b) as [[b' env2]| |] eqn:Eb; cbn [ebind fst snd] in He; try discriminate.
    destruct (elab G COn env2 c) as [c'| |] eqn:Ec; cbn [ebind] in He; try discriminate. inversion He; subst ts env'; clear He.
    (* the environment after the body is the one before it *)
    assert (Henv : env2 = [] :: env).
    { destruct n as [|n']; [discriminate|]. clear Hnan Ec. revert Eb. generalize ([] :: env). intros e1 Eb.
      assert (K : forall m s ts e e', bsrc m s = true -> elab_stmt G e s = EOk (ts, e') -> e' = e).
      { clear. induction m as [|m IHm]; intros s ts e e' Hs He; [discriminate|].
        destruct s as [| e0 | l | | c0 t f | | | | |]; cbn [bsrc] in Hs; try discriminate.
        - destruct e0 as [| | | |o l0 r0| | | | | |]; try discriminate. destruct l0; try discriminate. apply (elab_stmt_env G e _ ts e' Hs He).
        - rewrite elab_block_unfold in He. destruct (elab_body G ([] :: e) l); cbn [ebind] in He; try discriminate. inversion He; reflexivity.
        - rewrite elab_if_unfold in He. cbv zeta in He. destruct (elab G COn ([] :: e) c0); cbn [ebind] in He; try discriminate.
          destruct (elab_stmt G ([] :: e) t) as [[t' e2]| |]; cbn [ebind] in He; try discriminate.
          destruct f as [f0|]; [destruct (elab_stmt G e2 f0) as [q| |]; cbn [ebind] in He; try discriminate|cbn [ebind] in He]; inversion He; reflexivity. }
      apply (K (S n') b b' e1 env2 Hbb Eb). }
    subst env2. exists c', b'. split; [reflexivity|]. split; [reflexivity|]. split; [reflexivity|]. split; [exact Ec|].
    apply (proj1 (bsrc_static G n b b' ([] :: env) ([] :: env) Hbb Eb (env_num_push env Hn) (Hnan b' eq_refl))).
  Qed.

  Lemma stop_elab_not_while n s ts env env' : stop n s = true -> elab_stmt G env s = EOk (ts, env') -> forall c0 b0, ts <> TWhile c0 (Some b0).
  Proof.
    intros Est He.
    intros c0 b0 E. subst ts. unfold stop in Est. destruct (ssimple s) eqn:Ess.
        - destruct s as [t x i| e0 | | | | | | | |]; try discriminate.
          + cbn [elab_stmt] in He. destruct i; cbn [elab_opt ebind] in He; [destruct (elab G COn (tdeclare env x t) e); cbn [ebind] in He; try discriminate; destruct (ty_eqb _ _); discriminate|discriminate].
          + cbn [elab_stmt ebind] in He. destruct (elab G COn env e0); cbn [ebind] in He; discriminate.
        - cbn in Est. pose proof (bsrc_nonsimple G n s _ env env' Ess Est He) as X. destruct n as [|n']; [discriminate|].
          destruct s as [| e0 | l | | c1 t f | | | | |]; cbn [bsrc] in Est; try discriminate.
          + destruct e0 as [| | | |o l0 r0| | | | | |]; try discriminate. destruct l0; try discriminate. rewrite Ess in Est. discriminate.
          + rewrite elab_block_unfold in He. destruct (elab_body G ([] :: env) l); cbn [ebind] in He; discriminate.
          + rewrite elab_if_unfold in He. cbv zeta in He. destruct (elab G COn ([] :: env) c1); cbn [ebind] in He; try discriminate.
            destruct (elab_stmt G ([] :: env) t) as [[t' e2]| |]; cbn [ebind] in He; try discriminate.
            destruct f as [f0|]; [destruct (elab_stmt G e2 f0) as [q| |]; cbn [ebind] in He; try discriminate|cbn [ebind] in He]; discriminate.
  Qed.

  Lemma do_elab_inv n env b c ts env' : spure c = true -> forallb (bsrc n) b = true -> env_num env ->
    elab_stmt G env (SDo b c) = EOk (ts, env') ->
    (forall b', elab_body G ([] :: [] :: env) b = EOk b' -> bnonan (S n) (TBlock b')) ->
    exists b' c', ts = TDo b' c' /\ env' = env /\ elab_body G ([] :: [] :: env) b = EOk b' /\ elab G COn ([] :: env) c = EOk c' /\ forallb (bstmt n) b' = true.
  Proof.
    intros Hpc Hbb Hn He Hnan. rewrite elab_do_unfold in He. cbn zeta in He.
    destruct (elab_body G ([] :: [] :: env) b) as [b'| |] eqn:Eb; cbn [ebind] in He; try discriminate.
    destruct (elab G COn ([] :: env) c) as [c'| |] eqn:Ec; cbn [ebind] in He; try discriminate. inversion He; subst ts env'; clear He.
    exists b', c'. split; [reflexivity|]. split; [reflexivity|]. split; [reflexivity|]. split; [reflexivity|].
    assert (Hbb' : bsrc (S n) (SBlock b) = true) by exact Hbb.
    assert (Eblk : elab_stmt G ([] :: env) (SBlock b) = EOk (TBlock b', [] :: env)) by (rewrite elab_block_unfold, Eb; reflexivity).
    apply (proj1 (bsrc_static G (S n) (SBlock b) (TBlock b') ([] :: env) ([] :: env) Hbb' Eblk (env_num_push env Hn) (Hnan b' eq_refl))).
  Qed.

  Lemma stop_elab_not_do n s ts env env' : stop n s = true -> elab_stmt G env s = EOk (ts, env') -> forall b0 c0, ts <> TDo b0 c0.
  Proof.
    intros Est He.
    intros b0 c0 E. subst ts. unfold stop in Est. destruct (ssimple s) eqn:Ess.
        - destruct s as [t x i| e0 | | | | | | | |]; try discriminate.
          + cbn [elab_stmt] in He. destruct i; cbn [elab_opt ebind] in He; [destruct (elab G COn (tdeclare env x t) e); cbn [ebind] in He; try discriminate; destruct (ty_eqb _ _); discriminate|discriminate].
          + cbn [elab_stmt ebind] in He. destruct (elab G COn env e0); cbn [ebind] in He; discriminate.
        - cbn in Est. pose proof (bsrc_nonsimple G n s _ env env' Ess Est He) as X. destruct n as [|n']; [discriminate|].
          destruct s as [| e0 | l | | c1 t f | | | | |]; cbn [bsrc] in Est; try discriminate.
          + destruct e0 as [| | | |o l0 r0| | | | | |]; try discriminate. destruct l0; try discriminate. rewrite Ess in Est. discriminate.
          + rewrite elab_block_unfold in He. destruct (elab_body G ([] :: env) l); cbn [ebind] in He; discriminate.
          + rewrite elab_if_unfold in He. cbv zeta in He. destruct (elab G COn ([] :: env) c1); cbn [ebind] in He; try discriminate.
            destruct (elab_stmt G ([] :: env) t) as [[t' e2]| |]; cbn [ebind] in He; try discriminate.
            destruct f as [f0|]; [destruct (elab_stmt G e2 f0) as [q| |]; cbn [ebind] in He; try discriminate|cbn [ebind] in He]; discriminate.
  Qed.

  Lemma stop_elab_not_for n s ts env env' : stop n s = true -> elab_stmt G env s = EOk (ts, env') -> forall a0 b0 c0 d0, ts <> TFor a0 b0 c0 d0.
  Proof.
    intros Est He.
    intros a0 b0 c0 d0 E. subst ts. unfold stop in Est. destruct (ssimple s) eqn:Ess.
        - destruct s as [t x i| e0 | | | | | | | |]; try discriminate.
          + cbn [elab_stmt] in He. destruct i; cbn [elab_opt ebind] in He; [destruct (elab G COn (tdeclare env x t) e); cbn [ebind] in He; try discriminate; destruct (ty_eqb _ _); discriminate|discriminate].
          + cbn [elab_stmt ebind] in He. destruct (elab G COn env e0); cbn [ebind] in He; discriminate.
        - cbn in Est. pose proof (bsrc_nonsimple G n s _ env env' Ess Est He) as X. destruct n as [|n']; [discriminate|].
          destruct s as [| e0 | l | | c1 t f | | | | |]; cbn [bsrc] in Est; try discriminate.
          + destruct e0 as [| | | |o l0 r0| | | | | |]; try discriminate. destruct l0; try discriminate. rewrite Ess in Est. discriminate.
          + rewrite elab_block_unfold in He. destruct (elab_body G ([] :: env) l); cbn [ebind] in He; discriminate.
          + rewrite elab_if_unfold in He. cbv zeta in He. destruct (elab G COn ([] :: env) c1); cbn [ebind] in He; try discriminate.
            destruct (elab_stmt G ([] :: env) t) as [[t' e2]| |]; cbn [ebind] in He; try discriminate.
            destruct f as [f0|]; [destruct (elab_stmt G e2 f0) as [q| |]; cbn [ebind] in He; try discriminate|cbn [ebind] in He]; discriminate.
  Qed.

  Lemma wtop_stmt_static n s ts env env' : env_num env -> wstop n s = true -> elab_stmt G env s = EOk (ts, env') -> wtnonan n ts ->
    wtop_ok n ts = true /\ env_num env'.
  Proof.
    intros Hn Hs He Hnan. unfold wstop in Hs. destruct (stop n s) eqn:Est.
    - pose proof (stop_elab_not_while n s ts env env' Est He) as Hnw. pose proof (stop_elab_not_do n s ts env env' Est He) as Hnd.
      pose proof (stop_elab_not_for n s ts env env' Est He) as Hnf.
      assert (E : wtopexprs n ts = topexprs n ts)
        by (destruct ts as [| | | | |a1 b1 c1 d1|c0 [b0|]|b0 c0| |]; try reflexivity; exfalso; [apply (Hnf a1 b1 c1 d1)|apply (Hnw c0 b0)|apply (Hnd b0 c0)]; reflexivity).
      destruct (top_stmt_static G n s ts env env' Hn Est He) as [Hok Hn']; [unfold wtnonan in Hnan; rewrite E in Hnan; exact Hnan|].
      split; [unfold wtop_ok; rewrite Hok; reflexivity|exact Hn'].
    - cbn [orb] in Hs. destruct s as [| | | | |[[[t0 x0] i0]|] [c1|] [[| | | |[] [| |y0| | | | | | | |] r0| | | | | |]|] b1|c [b|]|b c| |]; try discriminate.
      + cbn [is_swhile is_sdo is_sfor orb] in Hs. apply andb_prop in Hs as [Hs Hbb]. apply andb_prop in Hs as [Hs Hsn]. apply andb_prop in Hs as [Hd Hpc].
        destruct (for_elab_inv G n env t0 x0 i0 c1 y0 r0 b1 ts env' Hd Hpc Hsn Hbb Hn He) as (i' & c' & nx & b' & -> & -> & _ & _ & _ & _ & _ & Hsd & Hpt & Hbn & Hbs).
        { intros i' c' nx b' -> e Hin f Hf. apply (Hnan e); [exact Hin|exact Hf]. }
        split; [|exact Hn]. unfold wtop_ok. cbn [is_while is_do is_for]. rewrite Hsd, Hpt, Hbn, Hbs. apply orb_true_r.
      + cbn [is_swhile is_sdo is_sfor orb] in Hs. rewrite !orb_false_r in Hs. apply andb_prop in Hs as [Hpc Hbb].
        destruct (while_elab_inv n env c b ts env' Hpc Hbb Hn He) as (c' & b' & -> & -> & Eb & Ec & Hbs).
        { intros b' Eb x Hx f Hf. rewrite elab_while_unfold in He. cbn zeta in He. rewrite Eb in He. cbn [ebind fst snd] in He.
          destruct (elab G COn ([] :: env) c) as [c'| |]; cbn [ebind] in He; try discriminate. inversion He; subst ts. apply (Hnan x); [right; exact Hx|exact Hf]. }
        split; [|exact Hn]. unfold wtop_ok. cbn [is_while is_do is_for]. rewrite Hbs, andb_true_r, !orb_false_r.
        rewrite (elab_tpure_static G ([] :: env) (env_num_push env Hn) c c' Hpc Ec); [apply orb_true_r|]. intros f Hf. apply (Hnan c'); [left; reflexivity|exact Hf].
      + cbn [is_swhile is_sdo is_sfor orb] in Hs. rewrite orb_false_r in Hs. apply andb_prop in Hs as [Hpc Hbb].
        destruct (do_elab_inv n env b c ts env' Hpc Hbb Hn He) as (b' & c' & -> & -> & Eb & Ec & Hbs).
        { intros b' Eb x Hx f Hf. rewrite elab_do_unfold in He. cbn zeta in He. rewrite Eb in He. cbn [ebind] in He.
          destruct (elab G COn ([] :: env) c) as [c'| |]; cbn [ebind] in He; try discriminate. inversion He; subst ts. apply (Hnan x); [right; exact Hx|exact Hf]. }
        split; [|exact Hn]. unfold wtop_ok. cbn [is_while is_do is_for]. rewrite Hbs, andb_true_r, orb_false_r.
        rewrite (elab_tpure_static G ([] :: env) (env_num_push env Hn) c c' Hpc Ec); [apply orb_true_r|]. intros f Hf. apply (Hnan c'); [left; reflexivity|exact Hf].
  Qed.

  Lemma wtop_body_static n : forall l env e tl te, env_num env -> forallb (wstop n) l = true -> spure e = true ->
    elab_body G env (l ++ [SRet (Some e)]) = EOk (tl ++ [TRet (Some te)]) -> length tl = length l ->
    (forall x, In x (flat_map (wtopexprs n) tl ++ [te]) -> forall f, In f (tflits x) -> PrimFloat.eqb f f = true) ->
    forallb (wtop_ok n) tl = true /\ tpure te = true.
  Proof.
    induction l as [|s r IH]; intros env e tl te Hn Hs Hp He Hlen Hnan.
    - destruct tl; [|discriminate]. cbn [app] in *. cbn [elab_body elab_stmt elab_opt ebind] in He.
      destruct (elab G COn env e) as [te'| |] eqn:Ee; cbn [ebind elab_body] in He; try discriminate. inversion He; subst te'.
      split; [reflexivity|]. apply (elab_tpure_static G env Hn e te Hp Ee). intros f Hf. apply (Hnan te (or_introl eq_refl) f Hf).
    - destruct tl as [|ts tl]; [discriminate|]. cbn [app] in *. cbn [elab_body] in He.
      destruct (elab_stmt G env s) as [[ts' env']| |] eqn:Es; cbn [ebind] in He; try discriminate.
      destruct (elab_body G env' (r ++ [SRet (Some e)])) as [tb'| |] eqn:Er; cbn [ebind] in He; try discriminate. inversion He; subst ts' tb'; clear He.
      cbn [forallb] in Hs. apply andb_prop in Hs as [Hs1 Hsr].
      destruct (wtop_stmt_static n s ts env env' Hn Hs1 Es) as [Hsim Hn'].
      { intros x Hx f Hf. apply (Hnan x); [|exact Hf]. cbn [flat_map]. apply in_or_app. left. apply in_or_app. left. exact Hx. }
      destruct (IH env' e tl te Hn' Hsr Hp Er) as [Hsim' Hpt]; auto.
      { intros x Hx f Hf. apply (Hnan x); [|exact Hf]. cbn [flat_map]. rewrite <- app_assoc. apply in_or_app. right. exact Hx. }
      split; [cbn [forallb]; rewrite Hsim, Hsim'; reflexivity|exact Hpt].
  Qed.
End WStatic.

(** ** dynamic part *)
Section WSrc.
  Variable M : module.
  Variable G : genv.
  Variable structs : list sdef.
  Variable gl args : list string.
  Variable cs : list (nat * irty * cval).

  Definition wtgood (n : nat) (ts : tstmt) : Prop := forall x, In x (wtopexprs n ts) -> tok x = true /\ lit_ok cs x.

  Lemma wtopexec_mono n ts : forall k locals V A vs r, wtopexec structs gl args n k cs locals ts V A vs = Some r -> forall k', k <= k' -> wtopexec structs gl args n k' cs locals ts V A vs = Some r.
  Proof.
    intros k locals V A vs r H k' Hle. destruct ts as [| | | | |[[[t0 x0] i0]|] [c1|] [n1|] b1|c [b|]|b c| |]; try exact H; cbn [wtopexec] in *.
    - unfold forspec in *. destruct (topexec structs gl args n cs locals (TDecl t0 x0 i0) V A vs) as [[[[l1 V1] A1] vs1]|]; [|discriminate].
      unfold fspec in *. destruct (floop structs gl args n k cs l1 c1 n1 b1 V1 A1 vs1) as [[[V2 A2] vs2]|] eqn:E; [|discriminate].
      rewrite (floop_mono structs gl args n cs l1 c1 n1 b1 k V1 A1 vs1 _ E k' Hle). exact H.
    - unfold wspec in *. destruct (wloop structs gl args n k cs locals c b V A vs) as [[[V1 A1] vs1]|] eqn:E; [|discriminate].
      rewrite (wloop_mono structs gl args n cs locals c b k V A vs _ E k' Hle). exact H.
    - unfold dspec in *. destruct (dloop structs gl args n k cs locals b c V A vs) as [[[V1 A1] vs1]|] eqn:E; [|discriminate].
      rewrite (dloop_mono structs gl args n cs locals b c k V A vs _ E k' Hle). exact H.
  Qed.
  Lemma wtopexec_list_mono n : forall l k locals V A vs r, wtopexec_list structs gl args n k cs locals l V A vs = Some r -> forall k', k <= k' -> wtopexec_list structs gl args n k' cs locals l V A vs = Some r.
  Proof.
    induction l as [|s l IH]; intros k locals V A vs r H k' Hle; [exact H|]. cbn [wtopexec_list] in *.
    destruct (wtopexec structs gl args n k cs locals s V A vs) as [[[[l1 V1] A1] vs1]|] eqn:E; [|discriminate].
    rewrite (wtopexec_mono n s k locals V A vs _ E k' Hle). apply (IH k l1 V1 A1 vs1 r H k' Hle).
  Qed.

  Theorem wtop_stmt_preserved n s ts env env' fuel st fl st1 locals V A vs :
    wstop n s = true -> elab_stmt G env s = EOk (ts, env') -> wtgood n ts -> fresh_decl gl args s -> for_fresh gl args env s ->
    exec M fuel s st = RefSem.ROk (fl, st1) -> Agree gl args env st locals V A vs ->
    fl = ONormal /\ env' = env_step env s /\ (forall y, In y (locals_names st1) -> In y (decl_name s) \/ In y (locals_names st)) /\
    exists locals' V' A' vs', wtopexec structs gl args n fuel cs locals ts V A vs = Some (locals', V', A', vs') /\ Agree gl args env' st1 locals' V' A' vs'.
  Proof.
    intros Hs He Hg Hfr Hff Hex Hag. unfold wstop in Hs. destruct (stop n s) eqn:Est.
    - pose proof (stop_elab_not_while G n s ts env env' Est He) as Hnw. pose proof (stop_elab_not_do G n s ts env env' Est He) as Hnd.
      pose proof (stop_elab_not_for G n s ts env env' Est He) as Hnf.
      assert (E : wtopexprs n ts = topexprs n ts)
        by (destruct ts as [| | | | |a1 b1 c1 d1|c0 [b0|]|b0 c0| |]; try reflexivity; exfalso; [apply (Hnf a1 b1 c1 d1)|apply (Hnw c0 b0)|apply (Hnd b0 c0)]; reflexivity).
      assert (Ex : wtopexec structs gl args n fuel cs locals ts V A vs = topexec structs gl args n cs locals ts V A vs)
        by (destruct ts as [| | | | |a1 b1 c1 d1|c0 [b0|]|b0 c0| |]; try reflexivity; exfalso; [apply (Hnf a1 b1 c1 d1)|apply (Hnw c0 b0)|apply (Hnd b0 c0)]; reflexivity).
      rewrite Ex. apply (top_stmt_preserved M G structs gl args cs n s ts env env' fuel st fl st1 locals V A vs Est He); try assumption.
      unfold tgood. unfold wtgood in Hg. rewrite E in Hg. exact Hg.
    - cbn [orb] in Hs. destruct s as [| | | | |[[[t0 x0] i0]|] [c1|] [[| | | |[] [| |y0| | | | | | | |] r0| | | | | |]|] b1|c [b|]|b c| |]; try discriminate.
      { cbn [is_swhile is_sdo is_sfor orb] in Hs. apply andb_prop in Hs as [Hs Hbb]. apply andb_prop in Hs as [Hs Hsn]. apply andb_prop in Hs as [Hd Hpc].
        destruct Hff as (Hxg & Hxa & Hxe).
        destruct (for_elab_inv G n env t0 x0 i0 c1 y0 r0 b1 ts env' Hd Hpc Hsn Hbb (Agree_env_num gl args _ _ _ _ _ _ Hag) He) as (i' & c' & nx & b' & -> & -> & Ed & Ec & En & Eb & _).
        { intros i' c' nx b' -> e Hin f Hf. destruct (Hg e Hin) as [_ [_ Hfl]]. apply (Hfl f Hf). }
        destruct (src_for M G structs gl args cs n t0 x0 i0 c1 y0 r0 b1 i' c' nx b' env fuel st fl st1 locals V A vs Hd Hpc Hsn Hbb Hxg Hxa Hxe Ed Ec En Eb Hg Hex Hag)
          as (Hfl & Hsh & locals' & V' & A' & vs' & Hw & Hag').
        split; [exact Hfl|]. split; [reflexivity|].
        split; [intros y Hy; right; unfold locals_names in *; rewrite !flat_map_concat_map in *; unfold shape in Hsh; rewrite <- Hsh; exact Hy|].
        exists locals', V', A', vs'. split; [exact Hw|exact Hag']. }
      2:{ cbn [is_swhile is_sdo is_sfor orb] in Hs. rewrite orb_false_r in Hs. apply andb_prop in Hs as [Hpc Hbb].
          destruct (do_elab_inv G n env b c ts env' Hpc Hbb (Agree_env_num gl args _ _ _ _ _ _ Hag) He) as (b' & c' & -> & -> & Eb & Ec & Hbs).
          { intros b' Eb x Hx f Hf. rewrite elab_do_unfold in He. cbn zeta in He. rewrite Eb in He. cbn [ebind] in He.
            destruct (elab G COn ([] :: env) c) as [c'| |]; cbn [ebind] in He; try discriminate. inversion He; subst ts.
            destruct (Hg x (or_intror Hx)) as [_ [_ Hfl]]. apply (Hfl f Hf). }
          destruct (Hg c' (or_introl eq_refl)) as [Hkc Hlc].
          assert (Hgb : bgood cs (S n) (TBlock b')) by (intros x Hx; apply Hg; right; exact Hx).
          destruct (src_do M G structs gl args cs n b c b' c' env Hpc Hbb Eb Ec Hkc Hlc Hgb fuel st fl st1 locals V A vs Hex Hag) as (Hfl & Hsh & V' & A' & vs' & Hw & Hag').
          split; [exact Hfl|]. split; [reflexivity|].
          split; [intros y Hy; right; unfold locals_names in *; rewrite !flat_map_concat_map in *; unfold shape in Hsh; rewrite <- Hsh; exact Hy|].
          exists locals, V', A', vs'. split; [cbn [wtopexec]; unfold dspec; rewrite Hw; reflexivity|exact Hag']. }
      cbn [is_swhile is_sdo is_sfor orb] in Hs. rewrite !orb_false_r in Hs. apply andb_prop in Hs as [Hpc Hbb].
      destruct (while_elab_inv G n env c b ts env' Hpc Hbb (Agree_env_num gl args _ _ _ _ _ _ Hag) He) as (c' & b' & -> & -> & Eb & Ec & Hbs).
      { intros b' Eb x Hx f Hf. rewrite elab_while_unfold in He. cbn zeta in He. rewrite Eb in He. cbn [ebind fst snd] in He.
        destruct (elab G COn ([] :: env) c) as [c'| |]; cbn [ebind] in He; try discriminate. inversion He; subst ts.
        destruct (Hg x (or_intror Hx)) as [_ [_ Hfl]]. apply (Hfl f Hf). }
      destruct (Hg c' (or_introl eq_refl)) as [Hkc Hlc].
      assert (Hgb : bgood cs n b') by (intros x Hx; apply Hg; right; exact Hx).
      destruct (src_while M G structs gl args cs n c b c' b' env Hpc Hbb Eb Ec Hkc Hlc Hgb fuel st fl st1 locals V A vs Hex Hag) as (Hfl & Hsh & V' & A' & vs' & Hw & Hag').
      split; [exact Hfl|]. split; [reflexivity|].
      split; [intros y Hy; right; unfold locals_names in *; rewrite !flat_map_concat_map in *; unfold shape in Hsh; rewrite <- Hsh; exact Hy|].
      exists locals, V', A', vs'. split; [cbn [wtopexec]; unfold wspec; rewrite Hw; reflexivity|exact Hag'].
  Qed.

  Theorem wtop_body_preserved n : forall l env e tl te fuel st fl st1 locals V A vs,
    forallb (wstop n) l = true -> spure e = true ->
    elab_body G env (l ++ [SRet (Some e)]) = EOk (tl ++ [TRet (Some te)]) -> length tl = length l ->
    Forall (wtgood n) tl -> tok te = true -> lit_ok cs te ->
    Forall (fresh_decl gl args) l -> fors_fresh gl args env l ->
    exec_list M fuel (l ++ [SRet (Some e)]) st = RefSem.ROk (fl, st1) -> Agree gl args env st locals V A vs ->
    exists locals' V' A' vs' v,
      wtopexec_list structs gl args n fuel cs locals tl V A vs = Some (locals', V', A', vs') /\
      teval structs gl args cs locals' (mkfr V' A') vs' te = Ok (v_of v) /\ fl = OReturn (SV v) /\
      Agree gl args (env_after env l) st1 locals' V' A' vs' /\
      (forall y, In y (locals_names st1) -> In y (flat_map decl_name l) \/ In y (locals_names st)).
  Proof.
    induction l as [|s r IH]; intros env e tl te fuel st fl st1 locals V A vs Hs Hp He Hlen Hg Hkt Hlt Hfr Hff Hex Hag.
    - destruct tl; [|discriminate]. cbn [app] in *. cbn [elab_body elab_stmt elab_opt ebind] in He.
      destruct (elab G COn env e) as [te'| |] eqn:Ee; cbn [ebind elab_body] in He; try discriminate. inversion He; subst te'; clear He.
      apply exec_list_return in Hex as (fu & s0 & Hev & ->).
      destruct (lit_teval structs gl args cs te locals (mkfr V A) vs Hlt) as [Hli Hlf].
      destruct (elab_pure_correct M G structs gl args cs locals (mkfr V A) vs env st Hag e te Hp Ee Hkt Hli Hlf) as (Hpt & Hsem).
      destruct (Hsem _ _ _ Hev) as (-> & v & -> & _ & Hv).
      exists locals, V, A, vs, v. cbn [wtopexec_list]. split; [reflexivity|]. split; [exact Hv|]. split; [reflexivity|]. split; [exact Hag|].
      intros y Hy. right. apply (eval_pure_state M e fu _ _ _ Hp) in Hev. subst. exact Hy.
    - destruct tl as [|ts tl]; [discriminate|]. cbn [app] in *. cbn [elab_body] in He.
      destruct (elab_stmt G env s) as [[ts' env']| |] eqn:Es; cbn [ebind] in He; try discriminate.
      destruct (elab_body G env' (r ++ [SRet (Some e)])) as [tb'| |] eqn:Er; cbn [ebind] in He; try discriminate. inversion He; subst ts' tb'; clear He.
      cbn [forallb] in Hs. apply andb_prop in Hs as [Hs1 Hsr]. inversion Hg as [|? ? Hg1 Hgr]; subst. inversion Hfr as [|? ? Hf1 Hfr']; subst.
      destruct fuel as [|fu]; [discriminate|]. rewrite exec_list_cons in Hex.
      destruct (exec M fu s st) as [[fl1 st2]| | |] eqn:Ex; cbn [rbind] in Hex; try discriminate.
      cbn [fors_fresh] in Hff. destruct Hff as [Hff1 Hffr].
      destruct (wtop_stmt_preserved n s ts env env' fu st fl1 st2 locals V A vs Hs1 Es Hg1 Hf1 Hff1 Ex Hag) as (-> & Henv' & Hnm1 & locals1 & V1 & A1 & vs1 & Ht1 & Hag1).
      rewrite <- Henv' in Hffr.
      destruct (IH env' e tl te fu st2 fl st1 locals1 V1 A1 vs1 Hsr Hp Er) as (locals' & V' & A' & vs' & v & Ht2 & Hv & Hfl & Henv & Hnm); auto.
      rewrite Henv' in Henv.
      exists locals', V', A', vs', v. cbn [wtopexec_list]. rewrite (wtopexec_mono n ts fu locals V A vs _ Ht1 (S fu) (Nat.le_succ_diag_r fu)).
      split; [apply (wtopexec_list_mono n tl fu locals1 V1 A1 vs1 _ Ht2 (S fu) (Nat.le_succ_diag_r fu))|]. split; [exact Hv|]. split; [exact Hfl|]. split; [exact Henv|].
      intros y Hy. cbn [flat_map]. destruct (Hnm y Hy) as [Hd|Hn]; [left; apply in_or_app; right; exact Hd|].
      destruct (Hnm1 y Hn) as [Hd|Hn']; [left; apply in_or_app; left; exact Hd|right; exact Hn'].
  Qed.
End WSrc.

(** ** the function-level statement *)
Theorem loop_function_simulation :
  forall (M : module) (fn : func) (n : nat) (l : list stmt) (e : expr) (tf : tfunc) (F : ifunc),
    f_body fn = l ++ [SRet (Some e)] -> forallb (wstop n) l = true -> spure e = true ->
    elab_func (genv_of M) (genvl M) fn = EOk tf -> lower_func (m_structs M) (glnames M) tf = LOk F ->
    forall tl te, tf_body tf = tl ++ [TRet (Some te)] -> length tl = length l ->
    forallb tok (flat_map (wtopexprs n) tl ++ [te]) = true ->
    lits_exact (flat_map tflits (flat_map (wtopexprs n) tl ++ [te])) -> (forall q, In q (flat_map tflits (flat_map (wtopexprs n) tl ++ [te])) -> PrimFloat.eqb q q = true) ->
    Forall (fresh_decl (glnames M) (argnames fn)) l -> fors_fresh (glnames M) (argnames fn) (fenv M fn) l ->
    forall (P : program) (ws : list rval) (g : RefSem.frame) (vs : vmstate),
      Forall2 (fun p w => has_ty w (fst p)) (f_args fn) ws ->
      (forall x, In x (map snd (f_args fn)) -> ~ In x (glnames M)) ->
      (forall x p, find (fun q => String.eqb (fst q) x) (genvl M) = Some p ->
         num_ty (snd p) /\ exists w, find (fun q => String.eqb (fst q) x) g = Some (fst p, SV w) /\ has_ty w (snd p) /\ slookup x (globals vs) = Some (v_of w)) ->
      forall fuel fl st', exec_list M fuel (f_body fn) (call_state fn ws g) = RefSem.ROk (fl, st') ->
        exists v vs', fl = OReturn (SV v) /\
          (exists N, forall fuel', N <= fuel' -> run fuel' P F 0 (call_frame ws (init_regs F)) vs = Done (v_of v) vs') /\
          (exists locals' V' A', Agree (glnames M) (argnames fn) (env_after (fenv M fn) l) st' locals' V' A' vs') /\
          (forall y, In y (locals_names st') -> In y (flat_map decl_name l) \/ In y (locals_names (call_state fn ws g))).
Proof.
  intros M fn n l e tf F Hbody Hs Hp Helab Hlower tl te Htb Hlen Hk Hlit Hnan Hfr Hff P ws g vs Hargs Hdist Hglob fuel fl st' Hex.
  unfold elab_func in Helab. rewrite Hbody in Helab. fold (fenv M fn) in Helab.
  destruct (elab_body (genv_of M) (fenv M fn) (l ++ [SRet (Some e)])) as [tb| |] eqn:Eb; cbn [ebind] in Helab; try discriminate.
  inversion Helab; subst tf; clear Helab. cbn [tf_body tf_args] in *. subst tb.
  pose proof (call_agreement M fn ws g vs [] Hargs Hdist Hglob) as Hag0.
  assert (Hn0 : env_num (fenv M fn)) by (intros x t Hx; apply (Hag0 x t Hx)).
  destruct (wtop_body_static (genv_of M) n l (fenv M fn) e tl te Hn0 Hs Hp Eb Hlen) as [Hsim Hpt].
  { intros x Hx f Hf. apply Hnan. apply in_flat_map. exists x. split; assumption. }
  set (tf := {| tf_name := if f_export fn then f_name fn else mangle (f_name fn) (f_ret fn) (map fst (f_args fn)); tf_args := f_args fn; tf_ret := f_ret fn; tf_body := tl ++ [TRet (Some te)] |}) in *.
  pose proof (loop_function_lits_ok (m_structs M) (glnames M) tf n tl te F eq_refl Hsim Hpt Hlower Hlit Hnan) as Hlits.
  assert (Hkall : forall x, In x (flat_map (wtopexprs n) tl ++ [te]) -> tok x = true) by (apply forallb_forall; exact Hk).
  rewrite Hbody in Hex.
  destruct (wtop_body_preserved M (genv_of M) (m_structs M) (glnames M) (argnames fn) (fn_consts F) n l (fenv M fn) e tl te fuel (call_state fn ws g) fl st' [] [] (map v_of ws) vs
              Hs Hp Eb Hlen) as (locals' & V' & A' & vs' & v & Ht & Hv & Hfl & Hag1 & Hnm); auto.
  { apply Forall_forall. intros ts Hts x Hx. assert (Hin : In x (flat_map (wtopexprs n) tl ++ [te])) by (apply in_or_app; left; apply in_flat_map; exists ts; split; assumption).
    split; [apply Hkall; exact Hin|apply Hlits; exact Hin]. }
  { apply Hkall. apply in_or_app. right. left. reflexivity. }
  { apply Hlits. apply in_or_app. right. left. reflexivity. }
  exists v, vs'. split; [exact Hfl|]. split.
  - exact (loop_function_correct (m_structs M) (glnames M) tf n fuel tl te F eq_refl Hsim Hpt Hlower P (map v_of ws) vs locals' V' A' vs' (v_of v) Ht Hv).
  - split; [exists locals', V', A'; exact Hag1|exact Hnm].
Qed.
