(** Induction principle for statements that reaches through lists and options. *)
From Coq Require Import String ZArith List Bool.
From NSL Require Import Base.Types Base.Syntax.
Import ListNotations.

Section StmtInd.
  Variable P : stmt -> Prop.
  Hypothesis HDecl : forall t x i, P (SDecl t x i).
  Hypothesis HExpr : forall e, P (SExpr e).
  Hypothesis HBlock : forall b, Forall P b -> P (SBlock b).
  Hypothesis HRet : forall e, P (SRet e).
  Hypothesis HIf : forall c t f, P t -> (forall f', f = Some f' -> P f') -> P (SIf c t f).
  Hypothesis HFor : forall i c n b, P b -> P (SFor i c n b).
  Hypothesis HWhile : forall c b, (forall b', b = Some b' -> P b') -> P (SWhile c b).
  Hypothesis HDo : forall b c, Forall P b -> P (SDo b c).
  Hypothesis HBreak : P SBreak.
  Hypothesis HContinue : P SContinue.

  Fixpoint stmt_ind2 (s : stmt) : P s :=
    let go := fix go (l : list stmt) : Forall P l :=
                match l with [] => Forall_nil P | x :: r => Forall_cons x (stmt_ind2 x) (go r) end in
    match s with
    | SDecl t x i => HDecl t x i
    | SExpr e => HExpr e
    | SBlock b => HBlock b (go b)
    | SRet e => HRet e
    | SIf c t f => HIf c t f (stmt_ind2 t)
                       (match f as f0 return forall f', f0 = Some f' -> P f' with
                        | Some f1 => fun f' E => match E in _ = y return match y with Some z => P z | None => True end with eq_refl => stmt_ind2 f1 end
                        | None => fun f' E => match E in _ = y return match y with Some z => P z | None => True end with eq_refl => I end
                        end)
    | SFor i c n b => HFor i c n b (stmt_ind2 b)
    | SWhile c b => HWhile c b
                       (match b as b0 return forall b', b0 = Some b' -> P b' with
                        | Some b1 => fun b' E => match E in _ = y return match y with Some z => P z | None => True end with eq_refl => stmt_ind2 b1 end
                        | None => fun b' E => match E in _ = y return match y with Some z => P z | None => True end with eq_refl => I end
                        end)
    | SDo b c => HDo b c (go b)
    | SBreak => HBreak
    | SContinue => HContinue
    end.
End StmtInd.
