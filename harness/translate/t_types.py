"""T1 + T6: regenerate from nsl/op.py the Operation values, the operator spellings and IsComparison; from
nsl/types.py _GetCommonScalarType, Match, the score combination of Function.Match and BuiltinTypeFactory."""
import ast, sys
from common import TranslatorAbort
from translate.pyx import Ex, abort, find_def, strip_doc, is_call, read_source, dict_literal, zlit

BINOP_CTOR = {"LG_OR": "OLor", "LG_AND": "OLand", "CMP_EQ": "OEq", "CMP_NE": "ONe", "CMP_LT": "OLt", "CMP_LE": "OLe",
              "CMP_GT": "OGt", "CMP_GE": "OGe", "ADD": "OAdd", "SUB": "OSub", "MUL": "OMul", "DIV": "ODiv", "MOD": "OMod"}
COMP = {"Float": "CFloat", "Integer": "CInt", "UnsignedInteger": "CUInt"}


def gen_op(repo):
    tree, _ = read_source(repo, "nsl/op.py")
    cls = [n for n in tree.body if isinstance(n, ast.ClassDef) and n.name == "Operation"]
    if len(cls) != 1:
        abort("op.Operation not found")
    vals = {}
    for s in cls[0].body:
        if isinstance(s, ast.Assign) and isinstance(s.targets[0], ast.Name) and isinstance(s.value, ast.Constant) and isinstance(s.value.value, int):
            vals[s.targets[0].id] = s.value.value
        elif isinstance(s, (ast.Expr, ast.Pass)):
            continue
        else:
            abort("op.Operation: unexpected member", s)
    missing = [k for k in BINOP_CTOR if k not in vals]
    if missing:
        abort("op.Operation lacks %s" % missing)
    f = find_def(tree, "IsComparison")
    body = strip_doc(f.body)
    if len(body) != 1 or not isinstance(body[0], ast.Return):
        abort("IsComparison shape", f)
    ex = Ex({"op.value": "v"})
    out = "Definition op_value (o : binop) : Z :=\n  match o with\n" + "".join(
        "  | %s => %s\n" % (c, zlit(vals[k])) for k, c in BINOP_CTOR.items()) + "  end.\n"
    out += "Definition is_comparison_value (v : Z) : bool := %s.\n" % ex.b(body[0].value)
    # spellings
    d = dict_literal(tree, "_op_str_map")
    rows = []
    for k, v in zip(d.keys, d.values):
        if not (isinstance(k, ast.Constant) and isinstance(v, ast.Attribute) and ast.unparse(v.value) == "Operation"):
            abort("_op_str_map entry", d)
        if v.attr in BINOP_CTOR:
            rows.append((k.value, BINOP_CTOR[v.attr]))
    out += "Definition op_spelling : list (string * binop) :=\n  [" + "; ".join('("%s"%%string, %s)' % r for r in rows) + "].\n"
    return out


def gen_common_scalar(tree):
    f = find_def(tree, "_GetCommonScalarType")
    body = [s for s in strip_doc(f.body) if not isinstance(s, ast.Assert)]
    # if isinstance(left, X) or isinstance(right, X): return X()   (twice) ; return UnsignedInteger()
    if len(body) != 3:
        abort("_GetCommonScalarType: expected two tests and a default", f)
    arms = []
    for s in body[:2]:
        if not (isinstance(s, ast.If) and not s.orelse and len(s.body) == 1 and isinstance(s.body[0], ast.Return)
                and isinstance(s.test, ast.BoolOp) and isinstance(s.test.op, ast.Or) and len(s.test.values) == 2):
            abort("_GetCommonScalarType: arm shape", s)
        names = []
        for v, who in zip(s.test.values, ("left", "right")):
            if not (is_call(v, "isinstance", 2) and ast.unparse(v.args[0]) == who and isinstance(v.args[1], ast.Name)):
                abort("_GetCommonScalarType: isinstance test", v)
            names.append(v.args[1].id)
        ret = s.body[0].value
        if not (isinstance(ret, ast.Call) and isinstance(ret.func, ast.Name) and not ret.args):
            abort("_GetCommonScalarType: return", s)
        if names[0] not in COMP or names[1] not in COMP or ret.func.id not in COMP:
            abort("_GetCommonScalarType: unknown scalar class", s)
        arms.append((COMP[names[0]], COMP[names[1]], COMP[ret.func.id]))
    last = body[2]
    if not (isinstance(last, ast.Return) and isinstance(last.value, ast.Call) and isinstance(last.value.func, ast.Name)
            and last.value.func.id in COMP):
        abort("_GetCommonScalarType: default", last)
    out = "Definition common_scalar (a b : comp) : comp :=\n"
    for (x, y, r) in arms:
        out += "  if comp_eqb a %s || comp_eqb b %s then %s else\n" % (x, y, r)
    out += "  %s.\n" % COMP[last.value.func.id]
    return out


def gen_match(tree):
    f = find_def(tree, "Match")
    body = [s for s in strip_doc(f.body) if not isinstance(s, ast.Assert)]
    txt = "\n".join(ast.unparse(s) for s in body)
    if txt != "if not IsCompatible(leftType, rightType):\n    return -1\nelif leftType == rightType:\n    return 0\nelse:\n    return 1":
        abort("types.Match changed shape", f)
    f = find_def(tree, "Match", "Function")
    body = strip_doc(f.body)
    tail = "\n".join(ast.unparse(s) for s in body[-3:])
    expect = ("scores = [Match(e[0], e[1]) for e in zip(parameterList, matchingArgumentTypes)]\n"
              "if any([score < 0 for score in scores]):\n    return -1\nreturn sum(scores)")
    if tail != expect:
        abort("Function.Match: score combination changed shape", f)
    return ("(* types.Match: -1 incompatible, 0 equal, 1 convertible; Function.Match: -1 if any argument is incompatible,\n"
            "   otherwise the sum -- shapes checked by the translator *)\n"
            "Definition match_scores_shape_checked : bool := true.\n")


def gen_builtin(tree):
    f = find_def(tree, "BuiltinTypeFactory")
    d = dict_literal(tree, "typeDict", scope=f)
    rows = []
    for k, v in zip(d.keys, d.values):
        name = k.value
        t = ast.unparse(v)
        import re
        m = re.fullmatch(r"(Float|Integer|UnsignedInteger)\(\)", t)
        if m:
            rows.append((name, "TPrim (PScalar %s)" % COMP[m.group(1)])); continue
        m = re.fullmatch(r"VectorType\((Float|Integer|UnsignedInteger)\(\), (\d+)\)", t)
        if m:
            rows.append((name, "TPrim (PVec %s %s)" % (COMP[m.group(1)], m.group(2)))); continue
        m = re.fullmatch(r"MatrixType\((Float|Integer|UnsignedInteger)\(\), (\d+), (\d+)\)", t)
        if m:
            rows.append((name, "TPrim (PMat %s %s %s)" % (COMP[m.group(1)], m.group(2), m.group(3)))); continue
        if t == "Void()":
            rows.append((name, "TVoid")); continue
        abort("BuiltinTypeFactory: unknown entry %s" % t, d)
    return "Definition builtin_types : list (string * ty) :=\n  [" + ";\n   ".join('("%s"%%string, %s)' % r for r in rows) + "].\n"


def generate(repo):
    tree, _ = read_source(repo, "nsl/types.py")
    return "\n".join(["""(* GENERATED by harness/translate/t_types.py from nsl/op.py and nsl/types.py -- do not edit *)
From Coq Require Import String ZArith List Bool.
From NSL Require Import Base.Types.
Import ListNotations.
Open Scope Z_scope.
""", gen_op(repo), gen_common_scalar(tree), gen_match(tree), gen_builtin(tree)])


if __name__ == "__main__":
    sys.stdout.write(generate(sys.argv[1]))
