(** Non-vacuity of [loop_function_correct] for [for] loops (typed AST to IR): the header declaration, the condition block, the body
    with a conditional, the increment block and the jump back are run by the VM model exactly as the typed semantics prescribes. *)
From Coq Require Import String ZArith List Bool PrimFloat.
From NSL Require Import Base.Types Base.Syntax Model.PyNum Model.IR Model.VM Model.Elab Model.Lower Spec.RefSem Proofs.OpsAgree
                        Proofs.LowerExprProofs Proofs.ElabExprProofs Proofs.ReturnExprProofs Proofs.CallAgreeProofs
                        Proofs.LowerStmtProofs Proofs.ElabStmtProofs Proofs.StraightLineProofs Proofs.FlowLowerProofs Proofs.FlowFuncProofs
                        Proofs.FlowElabProofs Proofs.FlowTableProofs Proofs.FlowSimProofs Proofs.LoopLowerProofs
                        Harness.FragLib Harness.FragLib2 Harness.FlowLib Harness.FlowLib2.
Import ListNotations.
Local Open Scope string_scope.

(** int g;
    export function f(int n, float b) -> float {
      float acc = b * 0.5;
      for (int i = 0; i < n; i = i + 1) { acc += i; if (i < g) { g = g - 1; } }
      return acc + g; } *)
Definition fl_body : list stmt :=
  [ SDecl tfloat "acc" (Some (EBin OMul (EVar "b") (EFloat 0.5)));
    SFor (Some (tint, "i", Some (EInt 0))) (Some (EBin OLt (EVar "i") (EVar "n"))) (Some (EAssign AAssign (EVar "i") (EBin OAdd (EVar "i") (EInt 1))))
         (SBlock [ SExpr (EAssign AAddEq (EVar "acc") (EVar "i"));
                   SIf (EBin OLt (EVar "i") (EVar "g")) (SBlock [SExpr (EAssign AAssign (EVar "g") (EBin OSub (EVar "g") (EInt 1)))]) None ]) ].
Definition fl_e : expr := EBin OAdd (EVar "acc") (EVar "g").
Definition fl_fn : func := {| f_name := "f"; f_export := true; f_args := [(tint, "n"); (tfloat, "b")]; f_ret := tfloat; f_body := fl_body ++ [SRet (Some fl_e)] |}.
Definition fl_M : module := {| m_structs := []; m_globals := [(tint, "g")]; m_funcs := [fl_fn] |}.

Definition fl_static := Eval vm_compute in straight_static fl_M fl_fn.
Definition fl_F : ifunc := match fl_static with Some (_, _, _, F, _, _) => F | None => {| fn_name := ""; fn_args := []; fn_ret := ITVoid; fn_consts := []; fn_blocks := [] |} end.
Definition fl_tl : list tstmt := match fl_static with Some (_, _, _, _, tl, _) => tl | None => [] end.
Definition fl_te : texpr := match fl_static with Some (_, _, _, _, _, te) => te | None => XInt 0 end.
Definition fl_tf : tfunc := match fl_static with Some (_, _, tf, _, _, _) => tf | None => {| tf_name := ""; tf_args := []; tf_ret := TVoid; tf_body := [] |} end.

Example fl_in_typed_fragment : forallb (wtop_ok flow_depth) fl_tl = true /\ existsb (fun s => match s with TFor _ _ _ _ => true | _ => false end) fl_tl = true.
Proof. split; vm_compute; reflexivity. Qed.

Definition fl_argv : list val := [VInt 3; VFloat 1%float].
Definition fl_vs : vmstate := {| globals := [("g", VInt 2)]; hp := [] |}.

(** acc = 0.5 + 0 + 1 + 2 = 3.5, g goes 2 -> 1 (only i = 0 is below g before it drops to 1... then i = 1 < 1 fails), result 4.5 *)
Example fl_conclusion : forall P,
  exists N, forall fuel, N <= fuel ->
    run fuel P fl_F 0 {| regs := init_regs fl_F; vars := []; fargs := fl_argv |} fl_vs = Done (VFloat 4.5%float) {| globals := [("g", VInt 1)]; hp := [] |}.
Proof.
  intros P.
  pose proof (loop_function_correct [] ["g"] fl_tf flow_depth 30 fl_tl fl_te fl_F eq_refl (proj1 fl_in_typed_fragment) eq_refl eq_refl P fl_argv fl_vs) as T.
  destruct (wtopexec_list [] ["g"] (map snd (tf_args fl_tf)) flow_depth 30 (fn_consts fl_F) [] fl_tl [] fl_argv fl_vs) as [[[[l' V'] A'] vs']|] eqn:E; [|vm_compute in E; discriminate].
  destruct (teval [] ["g"] (map snd (tf_args fl_tf)) (fn_consts fl_F) l' (mkfr V' A') vs' fl_te) as [v| |] eqn:Ev.
  - specialize (T l' V' A' vs' v eq_refl Ev). vm_compute in E. inversion E; subst l' V' A' vs'. vm_compute in Ev. inversion Ev; subst v. exact T.
  - vm_compute in E. inversion E; subst l' V' A' vs'. vm_compute in Ev. discriminate.
  - vm_compute in E. inversion E; subst l' V' A' vs'. vm_compute in Ev. discriminate.
Qed.
