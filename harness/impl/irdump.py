"""Structural dump of nsl.LinearIR modules/programs as JSON (the IR counterpart of NSL-JSON)."""
from nsl import LinearIR
from nsl.LinearIR import OpCode

NONE_REF = 9999   # an operand that is None (or not a Value) is dumped as this never-defined reference


def ty(t):
    if isinstance(t, LinearIR.IntegerType): return {"k": "int", "u": bool(t.Unsigned)}
    if isinstance(t, LinearIR.FloatType): return {"k": "float"}
    if isinstance(t, LinearIR.VectorType): return {"k": "vec", "e": ty(t.ElementType), "n": t.Size}
    if isinstance(t, LinearIR.MatrixType): return {"k": "mat", "e": ty(t.ElementType), "r": t.RowCount, "c": t.ColumnCount}
    if isinstance(t, LinearIR.StructureType): return {"k": "struct", "name": t.Name, "fields": [[n, ty(f)] for n, f in t.Fields.items()]}
    if isinstance(t, LinearIR.ArrayType): return {"k": "arr", "e": ty(t.ElementType), "dims": list(t.Size)}
    if isinstance(t, LinearIR.VoidType): return {"k": "void"}
    if isinstance(t, LinearIR.FunctionType): return {"k": "func"}
    return {"k": "unknown", "repr": repr(t)}


def ref(v):
    if isinstance(v, LinearIR.Value):
        return v.Reference if v.Reference >= 0 else NONE_REF
    return NONE_REF


def kind(v):
    if v is None: return "none"
    if isinstance(v, LinearIR.ConstantValue): return "const"
    if isinstance(v, LinearIR.BasicBlock): return "block"
    if isinstance(v, LinearIR.Instruction): return "instr"
    return "other:" + type(v).__name__


SCOPE = {LinearIR.VariableAccessScope.GLOBAL: "global", LinearIR.VariableAccessScope.FUNCTION_ARGUMENT: "arg",
         LinearIR.VariableAccessScope.FUNCTION_LOCAL: "local"}


def instr(i):
    d = {"ref": i.Reference, "ty": ty(i.Type), "op": i.OpCode.name, "cls": type(i).__name__}
    ops = []
    if isinstance(i, LinearIR.BinaryInstruction):
        ops = list(i.Values)
        d["a"], d["b"] = ref(ops[0]), ref(ops[1])
    elif isinstance(i, LinearIR.BranchInstruction):
        d["pred"] = None if i.Predicate is None else ref(i.Predicate)
        d["t"] = None if i.TrueBlock is None else ref(i.TrueBlock)
        d["f"] = None if i.FalseBlock is None else ref(i.FalseBlock)
        ops = [x for x in (i.Predicate, i.TrueBlock, i.FalseBlock) if x is not None]
    elif isinstance(i, LinearIR.ReturnInstruction):
        d["v"] = None if i.Value is None else ref(i.Value)
        ops = [i.Value] if i.Value is not None else []
    elif isinstance(i, LinearIR.UnaryInstruction):
        d["v"] = ref(i.Value); ops = [i.Value]
    elif isinstance(i, LinearIR.ConstructPrimitiveInstruction):
        d["vals"] = [ref(v) for v in i.Values]; ops = list(i.Values)
    elif isinstance(i, LinearIR.MemberAccessInstruction):
        d["o"], d["m"] = ref(i.Variable), i.Member
        d["store"] = None if i.Store is None else ref(i.Store)
        ops = [i.Variable] + ([i.Store] if i.Store is not None else [])
    elif isinstance(i, LinearIR.ShuffleInstruction):
        d["a"], d["b"], d["indices"] = ref(i.First), ref(i.Second), list(i.Indices)
        ops = [i.First, i.Second]
    elif isinstance(i, LinearIR.VariableAccessInstruction):
        d["scope"], d["var"] = SCOPE[i.Scope], i.Variable
        d["store"] = None if i.Store is None else ref(i.Store)
        ops = [i.Store] if i.Store is not None else []
    elif isinstance(i, LinearIR.CallInstruction):
        d["fn"], d["args"] = i.Function, [ref(a) for a in i.Arguments]; ops = list(i.Arguments)
    elif isinstance(i, LinearIR._IndexedAccessBase):
        d["arr"], d["idx"] = ref(i.Array), ref(i.Index)
        d["store"] = None if i.Store is None else ref(i.Store)
        ops = [i.Array, i.Index] + ([i.Store] if i.Store is not None else [])
    elif isinstance(i, LinearIR.DeclareVariableInstruction):
        d["name"], d["scope"] = i.Name, SCOPE[i.Scope]
    d["opkinds"] = [kind(o) for o in ops]
    return d


def function(f):
    ft = f.Type
    consts = []
    for c in f.Constants:
        v = c.Value
        consts.append([c.Reference, ty(c.Type), {"f": v.hex()} if isinstance(v, float) else int(v)])
    return {"name": f.Name, "args": [[n, ty(t)] for n, t in ft.Arguments.items()], "ret": ty(ft.ReturnType), "consts": consts,
            "blocks": [{"ref": bb.Reference, "instrs": [instr(i) for i in bb.Instructions]} for bb in f.BasicBlocks]}


def module(m):
    imports = sorted(i if isinstance(i, str) else "<%s>" % type(i).__name__ for i in m.Imports)
    return {"functions": [function(f) for f in m.Functions.values()], "fnkeys": list(m.Functions.keys()),
            "globals": list(m.Globals.keys()), "imports": imports}


def program(p):
    return {"functions": [function(f) for f in p.Functions.values()], "fnkeys": list(p.Functions.keys()), "globals": list(p.Globals.keys())}
