import sys, os, argparse, importlib, traceback
sys.path.insert(0, os.path.dirname(os.path.abspath(__file__)))
import common

def main():
    ap = argparse.ArgumentParser()
    ap.add_argument("prop")
    ap.add_argument("--tier", default=os.environ.get("VERIF_TIER", "quick"), choices=["quick", "thorough"])
    ap.add_argument("--replay", default=None)
    a = ap.parse_args()
    seed = int(os.environ.get("VERIF_SEED", "20260923"))
    mod = importlib.import_module("props." + a.prop.lower())
    ctx = common.Run(a.prop, a.tier, seed, level=getattr(mod, "CHECK_LEVEL", "proof"))
    try:
        ctx.ensure_static()
        mod.run(ctx)
    except Exception:
        traceback.print_exc()
        ctx.broken.append("internal error of the check machinery (see traceback)")
        ctx.notes.append("check crashed: " + traceback.format_exc()[-1500:])
    rc = ctx.finish()
    sys.exit(rc)

main()
