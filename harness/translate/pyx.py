"""Fail-closed translation of a small subset of Python expressions/statements to Gallina text.

Only integer/boolean expressions over named variables are supported; anything else raises
TranslatorAbort.  Used by the per-file translators (T1..T13 of DESIGN.md section 2.1)."""
import ast
from common import TranslatorAbort

BINOPS = {ast.BitAnd: "Z.land", ast.BitOr: "Z.lor", ast.BitXor: "Z.lxor", ast.RShift: "Z.shiftr",
          ast.LShift: "Z.shiftl", ast.Add: "Z.add", ast.Sub: "Z.sub", ast.Mult: "Z.mul",
          ast.FloorDiv: "Z.div", ast.Mod: "Z.modulo"}
CMPOPS = {ast.Eq: "(%s =? %s)", ast.NotEq: "(negb (%s =? %s))", ast.Lt: "(%s <? %s)",
          ast.LtE: "(%s <=? %s)", ast.Gt: "(%s >? %s)", ast.GtE: "(%s >=? %s)"}


def abort(msg, node=None):
    where = ""
    if node is not None and hasattr(node, "lineno"):
        where = " (line %d)" % node.lineno
    raise TranslatorAbort(msg + where)


def zlit(n):
    return "(%d)" % n if n < 0 else "%d" % n


class Ex:
    """Expression translator.  env maps Python names (or 'self.attr') to Coq terms; boolean-valued
    names are listed in `bools`.  mode 'Z' or 'bool' is inferred."""

    def __init__(self, env, consts=None):
        self.env = env
        self.consts = consts or {}

    def name_of(self, node):
        if isinstance(node, ast.Name):
            return node.id
        if isinstance(node, ast.Attribute) and isinstance(node.value, ast.Name):
            return node.value.id + "." + node.attr
        return None

    def z(self, node):
        key = ast.unparse(node)
        if key in self.env:
            return self.env[key]
        if isinstance(node, ast.Call) and isinstance(node.func, ast.Name) and node.func.id in ("max", "min") \
                and len(node.args) == 2 and not node.keywords:
            return "(Z.%s %s %s)" % (node.func.id, self.z(node.args[0]), self.z(node.args[1]))
        if isinstance(node, ast.Constant) and isinstance(node.value, bool):
            abort("boolean constant in integer position", node)
        if isinstance(node, ast.Constant) and isinstance(node.value, int):
            return zlit(node.value)
        nm = self.name_of(node)
        if nm is not None:
            if nm in self.env:
                return self.env[nm]
            abort("unknown name %s" % nm, node)
        if isinstance(node, ast.Subscript):
            # NAME["key"] lookups into a regenerated constant table
            base = self.name_of(node.value)
            if base in self.consts and isinstance(node.slice, ast.Constant):
                tbl = self.consts[base]
                if node.slice.value not in tbl:
                    abort("key %r not in table %s" % (node.slice.value, base), node)
                return zlit(tbl[node.slice.value])
            abort("unsupported subscript", node)
        if isinstance(node, ast.UnaryOp) and isinstance(node.op, ast.USub):
            return "(Z.opp %s)" % self.z(node.operand)
        if isinstance(node, ast.BinOp):
            t = type(node.op)
            if t not in BINOPS:
                abort("unsupported integer operator %s" % t.__name__, node)
            return "(%s %s %s)" % (BINOPS[t], self.z(node.left), self.z(node.right))
        if isinstance(node, ast.IfExp):
            return "(if %s then %s else %s)" % (self.b(node.test), self.z(node.body), self.z(node.orelse))
        abort("unsupported integer expression %s" % type(node).__name__, node)

    def b(self, node):
        if isinstance(node, ast.Constant) and isinstance(node.value, bool):
            return "true" if node.value else "false"
        if isinstance(node, ast.BoolOp):
            opn = "andb" if isinstance(node.op, ast.And) else "orb"
            parts = [self.b(v) for v in node.values]
            r = parts[0]
            for p in parts[1:]:
                r = "(%s %s %s)" % (opn, r, p)
            return r
        if isinstance(node, ast.UnaryOp) and isinstance(node.op, ast.Not):
            return "(negb %s)" % self.b(node.operand)
        if isinstance(node, ast.Compare):
            if len(node.ops) == 1:
                t = type(node.ops[0])
                if t not in CMPOPS:
                    abort("unsupported comparison %s" % t.__name__, node)
                return CMPOPS[t] % (self.z(node.left), self.z(node.comparators[0]))
            # chained comparison a < b < c
            parts = []
            left = node.left
            for o, c in zip(node.ops, node.comparators):
                t = type(o)
                if t not in CMPOPS:
                    abort("unsupported comparison", node)
                parts.append(CMPOPS[t] % (self.z(left), self.z(c)))
                left = c
            r = parts[0]
            for p in parts[1:]:
                r = "(andb %s %s)" % (r, p)
            return r
        abort("unsupported boolean expression %s" % type(node).__name__, node)


def find_def(tree, name, cls=None):
    """Return the FunctionDef `name` at module level, or in class `cls`."""
    body = tree.body
    if cls is not None:
        cs = [n for n in tree.body if isinstance(n, ast.ClassDef) and n.name == cls]
        if len(cs) != 1:
            abort("class %s not found exactly once" % cls)
        body = cs[0].body
    fs = [n for n in body if isinstance(n, ast.FunctionDef) and n.name == name]
    if len(fs) != 1:
        abort("function %s%s not found exactly once" % ((cls + ".") if cls else "", name))
    return fs[0]


def strip_doc(body):
    if body and isinstance(body[0], ast.Expr) and isinstance(body[0].value, ast.Constant) and isinstance(body[0].value.value, str):
        return body[1:]
    return body


def is_call(node, fname, nargs=None):
    """fname like 'bytes', 'math.ceil', 'output.append'."""
    if not isinstance(node, ast.Call) or node.keywords:
        return False
    f = node.func
    if isinstance(f, ast.Name):
        nm = f.id
    elif isinstance(f, ast.Attribute) and isinstance(f.value, ast.Name):
        nm = f.value.id + "." + f.attr
    else:
        return False
    if nm != fname:
        return False
    return nargs is None or len(node.args) == nargs


def read_source(repo, rel):
    raw = open(repo + "/" + rel, "rb").read().decode("utf-8-sig").replace("\r\n", "\n")
    return ast.parse(raw), raw


def dict_literal(tree, name, scope=None):
    """Module-level (or inside function/class `scope`) assignment  name = { "k": int, ... }."""
    body = tree.body if scope is None else scope.body
    hits = [n for n in ast.walk(ast.Module(body=body, type_ignores=[])) if isinstance(n, ast.Assign)
            and len(n.targets) == 1 and isinstance(n.targets[0], ast.Name) and n.targets[0].id == name]
    if len(hits) != 1 or not isinstance(hits[0].value, ast.Dict):
        abort("dict literal %s not found exactly once" % name)
    return hits[0].value
