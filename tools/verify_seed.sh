#!/bin/bash
# usage: tools/verify_seed.sh <dir containing patch.diff demo.py>   -- confirms: applies, 82 tests pass, demo FAILs with / PASSes without
set -u
D=$(realpath "$1"); WT=/tmp/vseed.$$
git -C /repo worktree add -q --detach $WT HEAD || exit 2
cd $WT
echo "== without patch"; PYTHONPATH=$WT /venv/bin/python $D/demo.py > /tmp/vseed.$$.a 2>&1; A=$?; tail -2 /tmp/vseed.$$.a
git apply $D/patch.diff || { echo "PATCH DOES NOT APPLY"; cd /; git -C /repo worktree remove --force $WT; exit 3; }
echo "== with patch"; PYTHONPATH=$WT /venv/bin/python $D/demo.py > /tmp/vseed.$$.b 2>&1; B=$?; tail -3 /tmp/vseed.$$.b
T=$(/venv/bin/python -m pytest -q -p no:cacheprovider 2>&1 | tail -1); echo "tests: $T"
cd /; git -C /repo worktree remove --force $WT; rm -f /tmp/vseed.$$.*
echo "RESULT without=$A with=$B tests=[$T]"
case "$T" in *"82 passed"*) [ $A -eq 0 ] && [ $B -ne 0 ] && { echo CONFIRMED; exit 0; };; esac
echo NOT-CONFIRMED; exit 1
