(** * C14 for straight-line functions: the function the lowering model produces passes the verified well-formedness
    check [wf_func_b] -- references of constants, blocks and instructions pairwise distinct, every operand a constant or
    the result of an earlier instruction of the block, no dangling branch or call. *)
From Coq Require Import String ZArith List Bool PrimFloat Arith Lia.
From NSL Require Import Base.Types Base.Syntax Model.PyNum Model.IR Model.VM Model.WfIR Model.Elab Model.Lower Model.Opt
                        Proofs.WfIRProofs Proofs.OptProofs Proofs.LowerExprProofs Proofs.ForwardProofs Proofs.LowerStmtProofs Proofs.CallAgreeProofs Proofs.LowerWfProofs.
Import ListNotations.

Definition lref (li : linstr) : nat := match li with LI i => i_ref i | LBr r _ _ _ => r end.

(** the primitive moves of the lowering state *)
Inductive lstep : lstate -> lstate -> Prop :=
  | ls_const st t v st' r : create_const st t v = (st', r) -> lstep st st'
  | ls_emit st mk st' r : (forall q, lref (mk q) = q) -> emit_raw st mk = (st', r) -> lstep st st'
  | ls_local st x : lstep st (register_local st x).
Inductive lsteps : lstate -> lstate -> Prop :=
  | lss_refl st : lsteps st st
  | lss_step st st1 st2 : lstep st st1 -> lsteps st1 st2 -> lsteps st st2.
Lemma lsteps_trans a b c : lsteps a b -> lsteps b c -> lsteps a c.
Proof. induction 1; intros; [assumption|econstructor; eauto]. Qed.
Lemma lsteps_one a b : lstep a b -> lsteps a b.
Proof. intros. econstructor; [eassumption|constructor]. Qed.

Section Steps.
  Variable structs : list sdef.
  Variable gl args : list string.

  Lemma lower_pure_steps : forall te st r st', tpure te = true -> lower_expr structs gl args te st = LOk (r, st') -> lsteps st st'.
  Proof.
    induction te as [z|f|x t|o rt l IHl r0 IHr|t a IHa| | | | | | ]; intros st r st' Hp H; try discriminate.
    - cbn [lower_expr] in H. destruct (create_const st (ITInt false) (KInt z)) eqn:E. inversion H; subst. apply lsteps_one. econstructor; eassumption.
    - cbn [lower_expr] in H. destruct (create_const st ITFloat (KFloat f)) eqn:E. inversion H; subst. apply lsteps_one. econstructor; eassumption.
    - cbn [lower_expr lbind] in H. destruct (scope_of gl args st x); cbn [lbind] in H; try discriminate.
      match type of H with context [emit st ?t ?b] => destruct (emit st t b) eqn:E end. inversion H; subst. apply lsteps_one. unfold emit in E. eapply ls_emit; [|eassumption]; reflexivity.
    - destruct rt as [c| |]; try discriminate. cbn [tpure] in Hp. apply andb_prop in Hp as [Hpl Hpr]. cbn [lower_expr lbind] in H.
      destruct (lower_expr structs gl args l st) as [[a st1]| |] eqn:El; cbn [lbind] in H; try discriminate.
      destruct (lower_expr structs gl args r0 st1) as [[b st2]| |] eqn:Er; cbn [lbind] in H; try discriminate.
      match type of H with context [emit st2 ?t ?bd] => destruct (emit st2 t bd) eqn:Ee end. inversion H; subst.
      eapply lsteps_trans; [eapply IHl; eassumption|]. eapply lsteps_trans; [eapply IHr; eassumption|]. apply lsteps_one. unfold emit in Ee. eapply ls_emit; [|eassumption]; reflexivity.
    - destruct t as [c| |]; try discriminate. cbn [tpure] in Hp. cbn [lower_expr lbind] in H.
      destruct (lower_expr structs gl args a st) as [[v0 st1]| |] eqn:Ea; cbn [lbind] in H; try discriminate.
      match type of H with context [emit st1 ?t ?bd] => destruct (emit st1 t bd) eqn:Ee end. inversion H; subst.
      eapply lsteps_trans; [eapply IHa; eassumption|]. apply lsteps_one. unfold emit in Ee. eapply ls_emit; [|eassumption]; reflexivity.
  Qed.

  Lemma lower_simple_steps s st st' : simple s = true -> lower_stmt structs gl args s st = LOk st' -> lsteps st st'.
  Proof.
    intros Hs H. destruct s as [t x init|e| | | | | | | | ]; try discriminate.
    - destruct t as [[c| |]| | |]; try discriminate. cbn [lower_stmt] in H. unfold lower_decl in H.
      match type of H with context [emit ?s0 ?t ?b] => destruct (emit s0 t b) as [st1 r1] eqn:E1 end.
      assert (H1 : lsteps st st1) by (econstructor; [apply ls_local|]; apply lsteps_one; unfold emit in E1; eapply ls_emit; [|eassumption]; reflexivity).
      destruct init as [e|].
      + cbn [simple] in Hs. cbn [lbind] in H. destruct (lower_expr structs gl args e st1) as [[v st2]| |] eqn:Ee; cbn [lbind] in H; try discriminate.
        match type of H with context [emit st2 ?t ?b] => destruct (emit st2 t b) as [st3 r3] eqn:E3 end. inversion H; subst.
        eapply lsteps_trans; [exact H1|]. eapply lsteps_trans; [eapply lower_pure_steps; eassumption|]. apply lsteps_one. unfold emit in E3. eapply ls_emit; [|eassumption]; reflexivity.
      + inversion H; subst. exact H1.
    - destruct e as [| | | | |l r0| | | | |]; try discriminate. destruct l as [| |x t| | | | | | | |]; try discriminate.
      destruct t as [[c| |]| | |]; try discriminate. cbn [simple] in Hs. cbn [lower_stmt lower_expr lbind] in H.
      destruct (lower_expr structs gl args r0 st) as [[v st1]| |] eqn:Ee; cbn [lbind] in H; try discriminate.
      destruct (scope_of gl args st1 x) as [sc| |]; cbn [lbind] in H; try discriminate.
      match type of H with context [emit st1 ?t ?b] => destruct (emit st1 t b) as [st2 r2] eqn:E2 end. cbn [lbind snd] in H. inversion H; subst.
      eapply lsteps_trans; [eapply lower_pure_steps; eassumption|]. apply lsteps_one. unfold emit in E2. eapply ls_emit; [|eassumption]; reflexivity.
  Qed.

  Lemma lower_body_steps : forall l st st', forallb simple l = true -> lower_body structs gl args l st = LOk st' -> lsteps st st'.
  Proof.
    induction l as [|s r IH]; intros st st' Hs H; [cbn in H; inversion H; constructor|].
    cbn [forallb] in Hs. apply andb_prop in Hs as [Hs1 Hsr]. cbn [lower_body lbind] in H.
    destruct (lower_stmt structs gl args s st) as [st1| |] eqn:E1; cbn [lbind] in H; try discriminate.
    eapply lsteps_trans; [eapply lower_simple_steps; eassumption|]. eapply IH; eassumption.
  Qed.
End Steps.

(** ** all references handed out so far are pairwise distinct and below the counter *)
Definition brefs (st : lstate) : list nat := map fst (l_blocks st).
Definition irefs (st : lstate) : list nat := map lref (lcode st).
Record alloc_ok (st : lstate) : Prop := {
  ao_consts : NoDup (crefs st);
  ao_code : NoDup (irefs st);
  ao_bound : forall q, In q (crefs st) \/ In q (brefs st) \/ In q (irefs st) -> q < l_next st;
  ao_cc : forall q, In q (crefs st) -> ~ In q (irefs st);
  ao_b : forall b, In b (brefs st) -> ~ In b (crefs st) /\ ~ In b (irefs st);
  ao_one : one_block st }.

Lemma lstep_alloc st st' : lstep st st' -> alloc_ok st -> alloc_ok st'.
Proof.
  intros Hs A. destruct Hs as [st t v st' r E|st mk st' r Hmk E|st x].
  - unfold create_const in E. destruct (find _ (l_consts st)); inversion E; subst; [exact A|].
    assert (Hc : crefs {| l_next := S (l_next st); l_consts := l_consts st ++ [(l_next st, t, v)]; l_blocks := l_blocks st; l_newblock := l_newblock st; l_locals := l_locals st; l_depth := l_depth st |} = crefs st ++ [l_next st])
      by (unfold crefs; cbn; rewrite map_app; reflexivity).
    constructor; unfold brefs, irefs, lcode in *; cbn [l_blocks l_next] in *; rewrite ?Hc.
    + apply NoDup_app_single; [apply A|]. intro X. pose proof (ao_bound _ A _ (or_introl X)). lia.
    + apply A.
    + intros q [Hq|[Hq|Hq]]; [apply in_app_or in Hq as [Hq|[<-|[]]]; [pose proof (ao_bound _ A q (or_introl Hq)); lia|lia]|pose proof (ao_bound _ A q (or_intror (or_introl Hq))); lia|pose proof (ao_bound _ A q (or_intror (or_intror Hq))); lia].
    + intros q Hq X. apply in_app_or in Hq as [Hq|[<-|[]]]; [exact (ao_cc _ A q Hq X)|]. pose proof (ao_bound _ A _ (or_intror (or_intror X))). lia.
    + intros b Hb. destruct (ao_b _ A b Hb) as [H1 H2]. split; [|exact H2]. intro X. apply in_app_or in X as [X|[X|[]]]; [exact (H1 X)|]. pose proof (ao_bound _ A b (or_intror (or_introl Hb))). lia.
    + destruct (ao_one _ A) as [[H1 H2]|(b & code & H1 & H2 & H3)]; [left; cbn; auto|right; exists b, code; cbn; repeat split; auto].
  - unfold emit_raw in E. destruct (ao_one _ A) as [[H1 H2]|(b & code & H1 & H2 & H3)].
    + rewrite H2 in E. cbn in E. rewrite H1 in E. cbn in E. inversion E; subst; clear E.
      assert (Hi0 : irefs st = []) by (unfold irefs, lcode; rewrite H1; reflexivity). assert (Hb0 : brefs st = []) by (unfold brefs; rewrite H1; reflexivity).
      constructor; unfold brefs, irefs, lcode, crefs in *; cbn [l_blocks l_next l_consts map fst snd flat_map app] in *; rewrite ?Hmk.
      * apply A.
      * constructor; [intros []|constructor].
      * intros q [Hq|[[<-|[]]|[<-|[]]]]; [pose proof (ao_bound _ A q (or_introl Hq)); lia|lia|lia].
      * intros q Hq [<-|[]]. pose proof (ao_bound _ A _ (or_introl Hq)). lia.
      * intros b0 Hb0'. destruct Hb0' as [Hb0'|[]]. subst b0. split; [intro X; pose proof (ao_bound _ A _ (or_introl X)); lia|intros [X|[]]; lia].
      * right. exists (l_next st), [mk (S (l_next st))]. cbn. repeat split; auto.
    + rewrite H2 in E. rewrite H1 in E. cbn in E. inversion E; subst; clear E.
      assert (Hi0 : irefs st = map lref code) by (unfold irefs, lcode; rewrite H1; cbn; rewrite app_nil_r; reflexivity). assert (Hb0 : brefs st = [b]) by (unfold brefs; rewrite H1; reflexivity).
      assert (Hi1 : irefs {| l_next := S (l_next st); l_consts := l_consts st; l_blocks := [(b, code ++ [mk (l_next st)])]; l_newblock := false; l_locals := l_locals st; l_depth := l_depth st |} = irefs st ++ [l_next st])
        by (unfold irefs, lcode; cbn; rewrite H1; cbn; rewrite !app_nil_r, map_app; cbn; rewrite Hmk; reflexivity).
      constructor; rewrite ?Hi1; unfold brefs, crefs in *; cbn [l_blocks l_next l_consts map fst] in *.
      * apply A.
      * apply NoDup_app_single; [apply A|]. intro X. pose proof (ao_bound _ A _ (or_intror (or_intror X))). lia.
      * intros q [Hq|[[<-|[]]|Hq]]; [pose proof (ao_bound _ A q (or_introl Hq)); lia|lia|]. apply in_app_or in Hq as [Hq|[<-|[]]]; [pose proof (ao_bound _ A q (or_intror (or_intror Hq))); lia|lia].
      * intros q Hq X. apply in_app_or in X as [X|[<-|[]]]; [exact (ao_cc _ A q Hq X)|]. pose proof (ao_bound _ A _ (or_introl Hq)). lia.
      * intros b0 Hb0'. destruct Hb0' as [Hb0'|[]]. subst b0. destruct (ao_b _ A b) as [G1 G2]; [unfold brefs; rewrite H1; left; reflexivity|]. split; [exact G1|]. intro X. apply in_app_or in X as [X|[X|[]]]; [exact (G2 X)|lia].
      * right. exists b, (code ++ [mk (l_next st)]). cbn. repeat split; auto.
  - constructor; apply A.
Qed.
Lemma lsteps_alloc st st' : lsteps st st' -> alloc_ok st -> alloc_ok st'.
Proof. induction 1; intros; [assumption|]. apply IHlsteps. eapply lstep_alloc; eassumption. Qed.

(** ** the shape of a lowered straight-line function *)
Lemma alloc0 : alloc_ok lstate0.
Proof.
  constructor.
  - constructor.
  - constructor.
  - intros q [[]|[[]|[]]].
  - intros q [].
  - intros b [].
  - left. split; reflexivity.
Qed.

Lemma straight_lowered_shape structs gl (f : tfunc) tl te F :
  tf_body f = tl ++ [TRet (Some te)] -> forallb simple tl = true -> tpure te = true ->
  Forall (fresh_tdecl gl (map snd (tf_args f))) tl -> lower_func structs gl f = LOk F ->
  exists st3 b is r ref rty,
    let reti := {| i_ref := ref; i_ty := rty; i_body := IRet (Some r) |} in
    fn_consts F = l_consts st3 /\
    fn_blocks F = [{| b_ref := b; b_code := map (finish_instr (map snd (tf_args f))) (map LI is ++ [LI reti]) |}] /\
    l_blocks st3 = [(b, map LI is ++ [LI reti])] /\ alloc_ok st3 /\
    code_ok (crefs st3) [] 0 is /\ forallb plain is = true /\ (In r (crefs st3) \/ In r (map i_ref is)) /\ hi 0 is <= ref.
Proof.
  intros Hbody Hs Hp Hfr Hlow. unfold lower_func in Hlow. rewrite Hbody in Hlow. fold lstate0 in Hlow. rewrite lower_body_app in Hlow.
  set (args := map snd (tf_args f)) in *.
  destruct (lower_body structs gl args tl lstate0) as [st1| |] eqn:E1; cbn [lbind] in Hlow; try discriminate.
  cbn [lower_body lower_stmt lower_opt lbind] in Hlow.
  destruct (lower_expr structs gl args te st1) as [[r st2]| |] eqn:El; cbn [lbind fst snd] in Hlow; try discriminate.
  match type of Hlow with context [emit st2 ?t ?bd] => destruct (emit st2 t bd) as [st3 ref] eqn:Ee end. cbn [lbind] in Hlow.
  inversion Hlow; subst F; clear Hlow. cbn [fn_blocks fn_consts end_block l_blocks l_consts].
  destruct (lower_body_struct structs gl args tl lstate0 st1 Hs Hfr linv0 E1 [] (fun _ X => match X with end)) as (is1 & Hc1 & Hok1 & Hh1 & Hsub1 & I1 & Hn1 & Hpl1 & Hacc1).
  assert (Hold1 : forall o, In o (olds [] is1) -> o < l_next st1).
  { intros q Ho. apply in_olds in Ho as [Ho|[]]. apply in_map_iff in Ho as (i & <- & Hi). pose proof (code_ok_refs _ _ _ _ Hok1 i Hi). lia. }
  destruct (lower_pure_struct structs gl args te st1 r st2 Hp I1 El (olds [] is1) Hold1) as (is2 & Hc2 & Hok2 & Hh2 & Hr & Hsub2 & I2 & Hn2 & Hpl2).
  destruct (emit_spec _ _ _ _ _ I2 Ee) as (I3 & Hc3 & Hcs3 & _ & _ & _ & Hlo3 & Hhi3).
  assert (Hsteps : lsteps lstate0 st3).
  { eapply lsteps_trans; [eapply lower_body_steps; eassumption|]. eapply lsteps_trans; [eapply lower_pure_steps; eassumption|]. apply lsteps_one. unfold emit in Ee. eapply ls_emit; [|eassumption]; reflexivity. }
  pose proof (lsteps_alloc _ _ Hsteps alloc0) as A3.
  destruct (ao_one _ A3) as [[X1 X2]|(b & code3 & Hb3 & _)].
  { exfalso. unfold emit, emit_raw in Ee. inversion Ee; subst. cbn in X2. discriminate. }
  exists st3, b, (is1 ++ is2), r, ref, (ad structs (type_of te)). cbn zeta.
  assert (Hcode3 : code3 = map LI (is1 ++ is2) ++ [LI {| i_ref := ref; i_ty := ad structs (type_of te); i_body := IRet (Some r) |}]).
  { assert (Hl3 : code3 = lcode st3) by (unfold lcode; rewrite Hb3; cbn; rewrite app_nil_r; reflexivity).
    rewrite Hl3, Hc3, Hc2, Hc1. cbn [lcode lstate0 l_blocks flat_map app]. rewrite map_app. reflexivity. }
  subst code3. rewrite Hb3. cbn [map fst snd].
  split; [reflexivity|]. split; [reflexivity|]. split; [reflexivity|]. split; [exact A3|].
  assert (Hcr : crefs st3 = crefs st2) by (unfold crefs; rewrite Hcs3; reflexivity). rewrite Hcr.
  split.
  { apply code_ok_app; [apply (code_ok_weaken (crefs st1) (crefs st2)) with (old := []) (lo := l_next lstate0); auto|].
    apply (code_ok_weaken (crefs st2) (crefs st2)) with (old := olds [] is1) (lo := l_next st1); auto. }
  split; [rewrite forallb_app, Hpl1, Hpl2; reflexivity|].
  split; [destruct Hr as [Hr|Hr]; [left; exact Hr|right; rewrite map_app; apply in_or_app; right; exact Hr]|].
  rewrite hi_app. pose proof (hi_mono is2 _ _ Hh1). cbn [lstate0 l_next] in *. lia.
Qed.

(** ** the verified check accepts the lowered function *)
Lemma NoDup_nodupb l : NoDup l -> nodupb l = true.
Proof.
  induction 1 as [|x l Hx Hn IH]; cbn; [reflexivity|]. rewrite IH, andb_true_r. apply negb_true_iff. apply not_true_is_false. intro X.
  apply Hx. unfold memn in X. apply existsb_exists in X as (y & Hy & E). apply Nat.eqb_eq in E. subst. exact Hy.
Qed.
Lemma NoDup_app_intro {A} (a b : list A) : NoDup a -> NoDup b -> (forall x, In x a -> ~ In x b) -> NoDup (a ++ b).
Proof.
  induction a as [|x a IH]; cbn; intros Ha Hb Hd; [exact Hb|]. inversion Ha; subst. constructor.
  - intro X. apply in_app_or in X as [X|X]; [contradiction|]. apply (Hd x (or_introl eq_refl) X).
  - apply IH; [assumption|assumption|]. intros y Hy. apply Hd. right. exact Hy.
Qed.
Lemma in_memn x l : In x l -> memn x l = true.
Proof. intros H. unfold memn. apply existsb_exists. exists x. split; [exact H|apply Nat.eqb_refl]. Qed.

Lemma finish_defines args i : defines (finish_instr args (LI i)) = defines i.
Proof. unfold defines. cbn. destruct (i_body i) as [[] []| [] [] ?| | | | | | | | | | | | | |] eqn:Eb; cbn; rewrite ?Eb; reflexivity. Qed.

Lemma scan_code args cs : forall is old acc lo tail,
  (forall o, In o old -> In o acc) -> code_ok cs old lo is ->
  (forall acc', (forall o, In o (olds old is) -> In o acc') -> scan_ok cs acc' tail = true) ->
  scan_ok cs acc (map (fun i => (false, finish_instr args (LI i))) is ++ tail) = true.
Proof.
  induction is as [|i r IH]; intros old acc lo tail Hacc Hok Htail; cbn [map app].
  - apply Htail. intros o Ho. apply in_olds in Ho as [[]|Ho]. apply Hacc. exact Ho.
  - cbn in Hok. destruct Hok as (_ & Hd & Hops & Hr). cbn [scan_ok]. rewrite finish_operands, finish_defines, Hd, finish_ref. apply andb_true_intro. split.
    + apply forallb_forall. intros o Ho. destruct (Hops o Ho) as [X|X]; [rewrite (in_memn _ _ X); reflexivity|rewrite (in_memn _ _ (Hacc o X)); apply orb_true_r].
    + apply (IH (i_ref i :: old) (i_ref i :: acc) (S (i_ref i)) tail); [intros o [->|Ho]; [left; reflexivity|right; apply Hacc; exact Ho]|exact Hr|].
      intros acc' Ha'. apply Htail. intros o Ho. apply Ha'. apply in_olds. apply in_olds in Ho as [Ho|Ho]; [destruct Ho as [<-|Ho]; [right; left; reflexivity|left; exact Ho]|right; right; exact Ho].
Qed.

Lemma plain_ok P F i : plain i = true -> branch_ok F i && call_ok P i = true.
Proof. unfold plain, branch_ok, call_ok. destruct (i_body i); try discriminate; reflexivity. Qed.

Theorem straight_lowered_wellformed structs gl (f : tfunc) tl te F P :
  tf_body f = tl ++ [TRet (Some te)] -> forallb simple tl = true -> tpure te = true ->
  Forall (fresh_tdecl gl (map snd (tf_args f))) tl -> lower_func structs gl f = LOk F -> wf_func_b P F = true.
Proof.
  intros Hbody Hs Hp Hfr Hlow.
  destruct (straight_lowered_shape structs gl f tl te F Hbody Hs Hp Hfr Hlow) as (st3 & b & is & r & ref & rty & Hcs & Hbl & Hb3 & A3 & Hok & Hpl & Hr & Hhi).
  cbn zeta in *. set (args := map snd (tf_args f)) in *. set (reti := {| i_ref := ref; i_ty := rty; i_body := IRet (Some r) |}) in *.
  assert (Hcr : const_refs F = crefs st3) by (unfold const_refs, crefs; rewrite Hcs; reflexivity).
  assert (Hbr : block_refs F = [b]) by (unfold block_refs; rewrite Hbl; reflexivity).
  assert (Hir : instr_refs F = irefs st3).
  { unfold instr_refs, irefs, lcode. rewrite Hbl, Hb3. cbn [flat_map b_code snd]. rewrite !app_nil_r, !map_map. apply map_ext. intros a. destruct a; [apply finish_ref|reflexivity]. }
  assert (Hmk : marked F = match map (finish_instr args) (map LI is ++ [LI reti]) with [] => [] | i :: rr => (true, i) :: map (fun j => (false, j)) rr end).
  { unfold marked. rewrite Hbl. cbn [flat_map mark_block b_code]. rewrite app_nil_r. reflexivity. }
  unfold wf_func_b. apply andb_true_intro. split; [apply andb_true_intro; split|].
  - (* distinct references *)
    rewrite Hcr, Hbr, Hir. apply NoDup_nodupb. apply NoDup_app_intro; [apply A3| |].
    + cbn [app]. constructor; [apply (ao_b _ A3 b); unfold brefs; rewrite Hb3; left; reflexivity|apply A3].
    + intros x Hx HX. destruct HX as [HX|HX]; [|exact (ao_cc _ A3 x Hx HX)]. subst x.
      assert (Hbb : In b (brefs st3)) by (unfold brefs; rewrite Hb3; left; reflexivity). apply (proj1 (ao_b _ A3 b Hbb)). exact Hx.
  - (* operands *)
    rewrite Hcr, Hmk. rewrite map_app. cbn [map].
    assert (Htail : forall acc', (forall o, In o (olds [] is) -> In o acc') -> scan_ok (crefs st3) acc' [(false, finish_instr args (LI reti))] = true).
    { intros acc' Ha. cbn [scan_ok]. rewrite finish_operands. cbn [reti i_body operands opt_list forallb]. rewrite andb_true_r.
      destruct Hr as [Hr|Hr]; [rewrite (in_memn _ _ Hr); reflexivity|].
      rewrite (in_memn r acc') by (apply Ha; apply in_olds; left; exact Hr). rewrite orb_true_r. reflexivity. }
    destruct is as [|i0 rest].
    + cbn [map app]. cbn [scan_ok]. rewrite finish_operands. cbn [reti i_body operands opt_list forallb]. rewrite andb_true_r.
      destruct Hr as [Hr|[]]. rewrite (in_memn _ _ Hr). reflexivity.
    + cbn [map app]. rewrite map_app. cbn [map].
      replace (map (fun j => (false, j)) (map (finish_instr args) (map LI rest))) with (map (fun i => (false, finish_instr args (LI i))) rest) by (rewrite !map_map; reflexivity).
      change ((true, finish_instr args (LI i0)) :: map (fun i => (false, finish_instr args (LI i))) rest ++ [(false, finish_instr args (LI reti))])
        with (((true, finish_instr args (LI i0)) :: map (fun i => (false, finish_instr args (LI i))) rest) ++ [(false, finish_instr args (LI reti))]).
      pose proof (scan_code args (crefs st3) (i0 :: rest) [] [] 0 [(false, finish_instr args (LI reti))] (fun _ X => X) Hok Htail) as Hsc.
      cbn [map app scan_ok] in Hsc |- *. exact Hsc.
  - (* no dangling branch or call *)
    rewrite Hmk. rewrite map_app. cbn [map].
    assert (Hall : forall j, In j (map (finish_instr args) (map LI is) ++ [finish_instr args (LI reti)]) -> branch_ok F j && call_ok P j = true).
    { intros j Hj. apply in_app_or in Hj as [Hj|[<-|[]]].
      - apply in_map_iff in Hj as (li & <- & Hli). apply in_map_iff in Hli as (i & <- & Hi). apply plain_ok. rewrite finish_plain. rewrite forallb_forall in Hpl. apply Hpl. exact Hi.
      - reflexivity. }
    destruct (map (finish_instr args) (map LI is) ++ [finish_instr args (LI reti)]) as [|i0 rr] eqn:El; [reflexivity|].
    cbn [forallb snd]. rewrite (Hall i0 (or_introl eq_refl)). cbn [andb]. apply forallb_forall. intros [fl j] Hj. apply in_map_iff in Hj as (j' & E & Hj'). inversion E; subst. cbn [snd]. apply Hall. right. exact Hj'.
Qed.
