(** * Proofs for C20. *)
From Coq Require Import ZArith List Lia Bool Arith.
From NSL Require Import Spec.SrcLoc Model.SrcLoc.
Import ListNotations.
Local Open Scope nat_scope.

Lemma split_on_nonempty sep s : split_on sep s <> [].
Proof. destruct s as [|c r]; cbn; [discriminate|]. destruct (Z.eqb c sep); [discriminate|]. destruct (split_on sep r); discriminate. Qed.

Lemma bisect_offsets_lt : forall ls c' x, (x < c')%Z -> bisect_right (offsets c' ls) x = 0%Z.
Proof. intros [|l ls] c' x H; cbn; [reflexivity|]. destruct (Z.leb_spec c' x); [lia|reflexivity]. Qed.

Lemma count_nl_cons c r : count_nl (c :: r) = (if is_nl c then 1 else 0) + count_nl r.
Proof. unfold count_nl. cbn. destruct (is_nl c); reflexivity. Qed.

Lemma bisect_offsets : forall s cur off, (cur <= off)%Z ->
    bisect_right (offsets cur (split_on 10 s)) off = (1 + Z.of_nat (count_nl (firstn (Z.to_nat (off - cur)) s)))%Z.
Proof.
  induction s as [|c r IH]; intros cur off H.
  - cbn. destruct (Z.leb_spec cur off); [|lia]. rewrite firstn_nil. reflexivity.
  - cbn [split_on]. destruct (Z.eqb_spec c 10) as [->|Hne].
    + cbn [offsets length]. cbn [bisect_right]. destruct (Z.leb_spec cur off); [|lia].
      destruct (Z.eq_dec off cur) as [->|Hgt].
      * rewrite bisect_offsets_lt by lia. rewrite Z.sub_diag. cbn. reflexivity.
      * rewrite IH by lia. replace (Z.to_nat (off - cur)) with (S (Z.to_nat (off - (cur + Z.of_nat 0 + 1)))) by lia.
        cbn [firstn]. rewrite count_nl_cons. unfold is_nl, NL. rewrite Z.eqb_refl. lia.
    + pose proof (split_on_nonempty 10 r) as Hn. destruct (split_on 10 r) as [|l ls] eqn:E; [congruence|].
      cbn [offsets]. cbn [bisect_right]. destruct (Z.leb_spec cur off); [|lia].
      specialize (IH (cur + 1)%Z off). cbn [offsets bisect_right] in IH.
      replace (cur + Z.of_nat (length (c :: l)) + 1)%Z with (cur + 1 + Z.of_nat (length l) + 1)%Z by (cbn [length]; lia).
      destruct (Z.eq_dec off cur) as [->|Hgt].
      * rewrite bisect_offsets_lt by lia. rewrite Z.sub_diag. cbn. reflexivity.
      * specialize (IH ltac:(lia)). destruct (Z.leb_spec (cur + 1) off); [|lia].
        rewrite IH. replace (Z.to_nat (off - cur)) with (S (Z.to_nat (off - (cur + 1)))) by lia.
        cbn [firstn]. rewrite count_nl_cons. unfold is_nl, NL. destruct (Z.eqb_spec c 10); [congruence|]. lia.
Qed.

(** Offset-to-line mapping: correct for every text and every offset. *)
Theorem line_from_offset_correct : forall s off, (0 <= off)%Z ->
    line_from_offset s off = Z.of_nat (spec_line_of s (Z.to_nat off)).
Proof.
  intros s off H. unfold line_from_offset, line_offsets, spec_line_of.
  rewrite bisect_offsets by lia. rewrite Z.sub_0_r. lia.
Qed.

Lemma nth_offsets : forall s cur i,
    nth_error (offsets cur (split_on 10 s)) i = option_map (fun o => (cur + Z.of_nat o)%Z) (spec_line_start s i).
Proof.
  induction s as [|c r IH]; intros cur i.
  - cbn. destruct i as [|i]; cbn; [f_equal; lia|]. destruct i; reflexivity.
  - cbn [split_on]. destruct (Z.eqb_spec c 10) as [->|Hne].
    + cbn [offsets length]. destruct i as [|i]; cbn [nth_error spec_line_start]; [cbn; f_equal; lia|].
      unfold is_nl, NL. rewrite Z.eqb_refl. rewrite IH.
      destruct (spec_line_start r i); cbn; [f_equal; lia|reflexivity].
    + pose proof (split_on_nonempty 10 r) as Hn. destruct (split_on 10 r) as [|l ls] eqn:E; [congruence|].
      cbn [offsets]. destruct i as [|i]; cbn [nth_error spec_line_start]; [cbn; f_equal; lia|].
      unfold is_nl, NL. destruct (Z.eqb_spec c 10); [congruence|].
      specialize (IH (cur + 1)%Z (S i)). cbn [offsets nth_error] in IH.
      replace (cur + Z.of_nat (length (c :: l)) + 1)%Z with (cur + 1 + Z.of_nat (length l) + 1)%Z by (cbn [length]; lia).
      rewrite IH. destruct (spec_line_start r (S i)); cbn; [f_equal; lia|reflexivity].
Qed.

(** the table of line starts is the specification's: entry i is where line i begins (and there is no entry
    for lines the text does not have) *)
Theorem line_start_offset_correct : forall s i,
    line_start_offset s (Z.of_nat i) = option_map Z.of_nat (spec_line_start s i).
Proof.
  intros s i. unfold line_start_offset, line_offsets. destruct (Z.ltb_spec (Z.of_nat i) 0); [lia|].
  rewrite Nat2Z.id. rewrite nth_offsets. destruct (spec_line_start s i); reflexivity.
Qed.

Lemma firstn_count_le s : forall o, count_nl (firstn o s) <= count_nl s.
Proof.
  induction s as [|c r IH]; intros [|o]; cbn [firstn]; try (unfold count_nl; cbn; lia).
  rewrite !count_nl_cons. specialize (IH o). lia.
Qed.

Theorem spec_line_start_sound : forall s i o, spec_line_start s i = Some o -> is_line_start s i o.
Proof.
  induction s as [|c r IH]; intros i o H.
  - destruct i; cbn in H; [|discriminate]. inversion H; subst. unfold is_line_start. cbn. auto.
  - destruct i as [|i].
    + cbn in H. inversion H; subst. unfold is_line_start. cbn. repeat split; auto; lia.
    + cbn [spec_line_start] in H. destruct (is_nl c) eqn:En.
      * destruct (spec_line_start r i) as [o'|] eqn:E; cbn in H; [|discriminate]. inversion H; subst.
        apply IH in E. destruct E as (A & B & C). unfold is_line_start. cbn [length firstn].
        rewrite count_nl_cons, En. repeat split; try lia. right. exists o'. split; [reflexivity|].
        destruct C as [->|(o'' & -> & C)].
        -- cbn. unfold is_nl in En. apply Z.eqb_eq in En. rewrite En. reflexivity.
        -- cbn. exact C.
      * destruct (spec_line_start r (S i)) as [o'|] eqn:E; cbn in H; [|discriminate]. inversion H; subst.
        apply IH in E. destruct E as (A & B & C). unfold is_line_start. cbn [length firstn].
        rewrite count_nl_cons, En. repeat split; try lia. right. exists o'. split; [reflexivity|].
        destruct C as [->|(o'' & -> & C)].
        -- cbn in B. unfold count_nl in B. cbn in B. discriminate.
        -- cbn. exact C.
Qed.

Lemma line_start_le : forall s b, b <= length s ->
    exists o, spec_line_start s (spec_line_of s b) = Some o /\ o <= b.
Proof.
  induction s as [|c r IH]; intros b H.
  - cbn in H. assert (b = 0) by lia. subst. exists 0. cbn. auto.
  - destruct b as [|b].
    + exists 0. cbn. auto.
    + unfold spec_line_of. cbn [firstn]. rewrite count_nl_cons. cbn [length] in H.
      destruct (IH b ltac:(lia)) as (o & E & L). unfold spec_line_of in E.
      destruct (is_nl c) eqn:En.
      * cbn [Nat.add]. cbn [spec_line_start]. rewrite En, E. exists (S o). cbn. split; [reflexivity|lia].
      * cbn [Nat.add]. destruct (count_nl (firstn b r)) as [|k] eqn:Ek.
        -- exists 0. cbn. split; [reflexivity|lia].
        -- cbn [spec_line_start]. rewrite En, E. exists (S o). cbn. split; [reflexivity|lia].
Qed.

Lemma line_of_mono s : forall b e, b <= e -> spec_line_of s b <= spec_line_of s e.
Proof.
  unfold spec_line_of. induction s as [|c r IH]; intros b e H.
  - rewrite !firstn_nil. lia.
  - destruct b as [|b]; destruct e as [|e]; cbn [firstn]; try lia.
    + unfold count_nl. cbn. lia.
    + rewrite !count_nl_cons. specialize (IH b e ltac:(lia)). lia.
Qed.

Definition loc_ok (s : list Z) (f : loc_fields) (b e : nat) : Prop :=
  match f with
  | LSingle l c c' => decode_printed s (PSingle l c c') = Some (b, e)
  | LMulti l c l' c' => decode_printed s (PMulti l c l' c') = Some (b, e)
  | _ => False
  end.

(** The printed range of any span inside the text, read back as 1-based half-open, is that span. *)
Theorem loc_str_designates : forall s b e, b <= e <= length s ->
    loc_ok s (loc_str s (Z.of_nat b) (Z.of_nat e)) b e.
Proof.
  intros s b e [Hbe He]. unfold loc_str.
  destruct (Z.eqb_spec (Z.of_nat b) (-1)); [lia|]. cbn [andb].
  rewrite !line_from_offset_correct by lia. rewrite !Nat2Z.id.
  destruct (line_start_le s b ltac:(lia)) as (ob & Eb & Lb).
  destruct (line_start_le s e ltac:(lia)) as (oe & Ee & Le).
  pose proof (line_of_mono s b e Hbe) as Hm.
  rewrite !line_start_offset_correct, Eb, Ee. cbn [option_map].
  destruct (Z.eqb_spec (Z.of_nat (spec_line_of s b)) (Z.of_nat (spec_line_of s e))) as [El|Nl].
  - apply Nat2Z.inj in El. cbn [loc_ok decode_printed]. rewrite El in Eb. rewrite Ee in Eb. inversion Eb; subst ob.
    replace (Z.of_nat (spec_line_of s b) + 1 - 1)%Z with (Z.of_nat (spec_line_of s e)) by lia. rewrite Nat2Z.id, Ee.
    repeat match goal with |- context [(?a <=? ?b)%Z] => destruct (Z.leb_spec a b); try lia end. cbn [andb].
    f_equal. f_equal; lia.
  - cbn [loc_ok decode_printed].
    replace (Z.of_nat (spec_line_of s b) + 1 - 1)%Z with (Z.of_nat (spec_line_of s b)) by lia.
    replace (Z.of_nat (spec_line_of s e) + 1 - 1)%Z with (Z.of_nat (spec_line_of s e)) by lia.
    rewrite !Nat2Z.id, Eb, Ee.
    repeat match goal with |- context [(?a <=? ?b)%Z] => destruct (Z.leb_spec a b); try lia end.
    repeat match goal with |- context [(?a <? ?b)%Z] => destruct (Z.ltb_spec a b); try lia end. cbn [andb].
    f_equal. f_equal; lia.
Qed.

Corollary loc_str_designates_slice : forall s b e, b <= e <= length s ->
    match loc_str s (Z.of_nat b) (Z.of_nat e) with
    | LSingle l c c' => designates s (PSingle l c c') (slice s b e)
    | LMulti l c l' c' => designates s (PMulti l c l' c') (slice s b e)
    | _ => False
    end.
Proof.
  intros s b e H. pose proof (loc_str_designates s b e H) as K.
  destruct (loc_str s (Z.of_nat b) (Z.of_nat e)); cbn [loc_ok] in K; try contradiction;
    exists b, e; repeat split; auto; lia.
Qed.

(** ** Hulls *)
Lemma covers_refl a : covers a a.
Proof. unfold covers. lia. Qed.
Lemma covers_trans a b c : covers a b -> covers b c -> covers a c.
Proof. unfold covers. lia. Qed.
Lemma merge2_covers_l a b : covers (merge2 a b) a.
Proof. unfold covers, merge2. cbn. lia. Qed.
Lemma merge2_covers_r a b : covers (merge2 a b) b.
Proof. unfold covers, merge2. cbn. lia. Qed.

Lemma fold_merge_covers : forall rest acc,
    covers (fold_left merge2 rest acc) acc /\ forall x, In x rest -> covers (fold_left merge2 rest acc) x.
Proof.
  induction rest as [|y rest IH]; intros acc; cbn.
  - split; [apply covers_refl|intros x []].
  - destruct (IH (merge2 acc y)) as [A B]. split.
    + eapply covers_trans; [exact A|apply merge2_covers_l].
    + intros x [<-|Hin]; [eapply covers_trans; [exact A|apply merge2_covers_r]|apply B; exact Hin].
Qed.

(** Location.Merge covers every argument. *)
Theorem merge_covers : forall first rest x, In x (first :: rest) -> covers (merge first rest) x.
Proof.
  intros first rest x [<-|Hin]; unfold merge; destruct (fold_merge_covers rest first) as [A B]; auto.
Qed.

(** the hull is tight: its two ends are ends of arguments *)
Theorem merge_tight : forall first rest,
    (exists x, In x (first :: rest) /\ fst (merge first rest) = fst x) /\
    (exists x, In x (first :: rest) /\ snd (merge first rest) = snd x).
Proof.
  intros first rest. unfold merge. revert first.
  induction rest as [|y rest IH]; intros first; cbn [fold_left].
  - split; exists first; cbn; auto.
  - destruct (IH (merge2 first y)) as [(x1 & I1 & E1) (x2 & I2 & E2)]. split.
    + destruct I1 as [<-|I1].
      * assert (Hf : fst (merge2 first y) = Z.min (fst first) (fst y)) by reflexivity. rewrite Hf in E1.
        destruct (Z.min_spec (fst first) (fst y)) as [[_ M]|[_ M]]; rewrite M in E1.
        -- exists first. split; [left; reflexivity|exact E1].
        -- exists y. split; [right; left; reflexivity|exact E1].
      * exists x1. split; [right; right; exact I1|exact E1].
    + destruct I2 as [<-|I2].
      * assert (Hf : snd (merge2 first y) = Z.max (snd first) (snd y)) by reflexivity. rewrite Hf in E2.
        destruct (Z.max_spec (snd first) (snd y)) as [[_ M]|[_ M]]; rewrite M in E2.
        -- exists y. split; [right; left; reflexivity|exact E2].
        -- exists first. split; [left; reflexivity|exact E2].
      * exists x2. split; [right; right; exact I2|exact E2].
Qed.

(** ** UpdateLocations: the range of a composite covers the ranges of all its parts. *)
Fixpoint known_spans (t : ltree) : list (Z * Z) :=
  match t with
  | LNode own cs => (match own with Some l => [l] | None => [] end) ++ flat_map known_spans cs
  end.

Section LtreeInd.
  Variable P : ltree -> Prop.
  Hypothesis H : forall own cs, Forall P cs -> P (LNode own cs).
  Fixpoint ltree_ind2 (t : ltree) : P t :=
    match t with
    | LNode own cs => H own cs ((fix go (l : list ltree) : Forall P l :=
                                   match l with [] => Forall_nil P | c :: r => Forall_cons c (ltree_ind2 c) (go r) end) cs)
    end.
End LtreeInd.

Lemma update_root_covers_known_list : forall own (cs' : list ltree) x,
    In x ((match own with Some l => [l] | None => [] end)
          ++ flat_map (fun c => match node_loc c with Some l => [l] | None => [] end) cs') ->
    exists l, node_loc (match (match own with Some l => [l] | None => [] end)
                              ++ flat_map (fun c => match node_loc c with Some l => [l] | None => [] end) cs' with
                        | [] => LNode own cs'
                        | l :: ls => LNode (Some (merge l ls)) cs' end) = Some l /\ covers l x.
Proof.
  intros own cs' x Hin.
  destruct ((match own with Some l => [l] | None => [] end)
            ++ flat_map (fun c => match node_loc c with Some l => [l] | None => [] end) cs') as [|l ls] eqn:E; [contradiction|].
  cbn [node_loc]. eexists; split; [reflexivity|]. apply merge_covers. exact Hin.
Qed.

Theorem update_locs_covers : forall t x, In x (known_spans t) ->
    exists l, node_loc (update_locs t) = Some l /\ covers l x.
Proof.
  induction t as [own cs IH] using ltree_ind2. intros x Hin.
  cbn [update_locs]. cbn [known_spans] in Hin. apply in_app_or in Hin.
  destruct Hin as [Hin|Hin].
  - apply update_root_covers_known_list. apply in_or_app. left. exact Hin.
  - apply in_flat_map in Hin. destruct Hin as (c & Hc & Hx).
    rewrite Forall_forall in IH. destruct (IH c Hc x Hx) as (lc & Elc & Clc).
    assert (Hk : In lc ((match own with Some l => [l] | None => [] end)
          ++ flat_map (fun c => match node_loc c with Some l => [l] | None => [] end) (map update_locs cs))).
    { apply in_or_app. right. apply in_flat_map. exists (update_locs c). split; [apply in_map; exact Hc|].
      rewrite Elc. cbn. auto. }
    destruct (update_root_covers_known_list own (map update_locs cs) lc Hk) as (l & El & Cl).
    exists l. split; [exact El|]. eapply covers_trans; eauto.
Qed.
