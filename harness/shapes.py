"""Writes NSLDyn.Gen_Shapes from the shape fingerprints needed by a property."""
import os
from common import TranslatorAbort
from translate import t_shape

def write(ctx, repo, keys):
    """returns True if all fingerprints matched; records broken ties otherwise (Gen_Shapes is still written for the rest)"""
    parts = ["(* GENERATED: shape fingerprints of hand-modelled visitors (harness/translate/t_shape.py) *)\n"]
    ok = True
    for k in keys:
        try:
            parts.append(t_shape.check(repo, k))
            ctx.obligations.append({"name": "T-shape.%s" % k, "ok": True})
        except TranslatorAbort as e:
            ok = False
            ctx.broken.append("translator T-shape (%s) aborted: %s" % (k, e))
            ctx.obligations.append({"name": "T-shape.%s" % k, "ok": False})
    open(os.path.join(ctx.dyn, "Gen_Shapes.v"), "w").write("".join(parts))
    return ok
