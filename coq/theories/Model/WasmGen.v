(** * Model of the WebAssembly generator (passes/GenerateWasm.py) on the IR: one wasm local per IR value after the
    parameters, operands pushed by local.get / const, results stored by local.set, opcode chosen from the type of
    the first operand; everything else is refused (None). *)
From Coq Require Import String ZArith List Bool PrimFloat.
From NSL Require Import Model.PyNum Model.IR Model.VM Spec.Wasm.
Import ListNotations.
Local Open Scope Z_scope.

Definition vt_of (t : irty) : option valtype := match t with ITInt _ => Some I32 | ITFloat => Some F32 | _ => None end.
Definition is_void (t : irty) : bool := match t with ITVoid => true | _ => false end.
Definition is_ret (i : IR.instr) : bool := match i_body i with IRet _ => true | _ => false end.

(** valueReferenceTypes: every instruction with a non-void type that is not a RETURN, first occurrence of a reference *)
Fixpoint value_refs_from (seen : list (nat * irty)) (code : list IR.instr) : list (nat * irty) :=
  match code with
  | [] => seen
  | i :: r => if is_void (i_ty i) || is_ret i || existsb (fun p => Nat.eqb (fst p) (i_ref i)) seen then value_refs_from seen r
              else value_refs_from (seen ++ [(i_ref i, i_ty i)]) r
  end.
Definition value_refs (code : list IR.instr) : list (nat * irty) := value_refs_from [] code.

Fixpoint index_of (r : nat) (l : list (nat * irty)) : option nat :=
  match l with [] => None | (x, _) :: rest => if Nat.eqb x r then Some O else option_map S (index_of r rest) end.

Section Fn.
  Variable F : ifunc.
  Definition code := flat_code F.
  Definition refs := value_refs code.
  Definition argc := length (fn_args F).

  Definition const_of (v : nat) : option (irty * cval) :=
    match find (fun c => Nat.eqb (fst (fst c)) v) (fn_consts F) with Some (_, t, c) => Some (t, c) | None => None end.
  Definition operand_type (v : nat) : option irty :=
    match const_of v with
    | Some (t, _) => Some t
    | None => match find (fun p => Nat.eqb (fst p) v) refs with Some (_, t) => Some t | None => None end
    end.
  Definition loc (r : nat) : option nat := option_map (fun k => (argc + k)%nat) (index_of r refs).

  (** __PushValueOntoStack / _GenerateConstant (after the range check on i32 immediates); the writer stores f32
      immediates with struct.pack("<f"): the value is rounded to single, an overflow is an error *)
  Definition push_value (v : nat) : option Wasm.instr :=
    match const_of v with
    | Some (ITInt _, KInt z) => if (-2147483648 <=? z) && (z <? 4294967296) then Some (I32Const (if 2147483648 <=? z then z - 4294967296 else z)) else None
    | Some (ITFloat, KFloat f) => let g := f32_round f in
                                  if PrimFloat.eqb f f && negb (PrimFloat.ltb (PrimFloat.abs f) infinity) then Some (F32Const g)
                                  else if PrimFloat.ltb (PrimFloat.abs g) infinity || negb (PrimFloat.eqb f f) then Some (F32Const g) else None
    | Some _ => None
    | None => option_map LocalGet (loc v)
    end.

  Definition binary_opcode (o : binopc) (t : irty) : option Wasm.instr :=
    match t, o with
    | ITInt _, BAdd => Some (I32Bin 106) | ITInt _, BSub => Some (I32Bin 107) | ITInt _, BMul => Some (I32Bin 108)
    | ITInt u, BDiv => Some (I32Bin (if u then 110 else 109))
    | ITInt u, BCmp CLt => Some (I32Rel (if u then 73 else 72))
    | ITInt u, BCmp CGt => Some (I32Rel (if u then 75 else 74))
    | ITFloat, BAdd => Some (F32Bin 146) | ITFloat, BSub => Some (F32Bin 147) | ITFloat, BMul => Some (F32Bin 148) | ITFloat, BDiv => Some (F32Bin 149)
    | _, _ => None        (* KeyError in opCodeMap / opcodes: i32.eq_s, f32.lt, ... do not exist *)
    end.

  Definition results : option (list valtype) :=
    if is_void (fn_ret F) then Some [] else option_map (fun t => [t]) (vt_of (fn_ret F)).

  Definition gen_instr (i : IR.instr) : option (list Wasm.instr) :=
    match i_body i with
    | ILoad SArg (VIndex n) => match loc (i_ref i) with Some l => Some [LocalGet n; LocalSet l] | None => None end
    | IBin o a b =>
        match operand_type a with
        | Some t =>
            match push_value a, push_value b, binary_opcode o t, loc (i_ref i) with
            | Some pa, Some pb, Some op, Some l => Some [pa; pb; op; LocalSet l]
            | _, _, _, _ => None
            end
        | None => None
        end
    | IRet (Some v) =>
        match operand_type v, results with
        | Some t, Some rs => match vt_of t with
                             | Some w => if (match rs with [x] => valtype_eqb x w | _ => false end)
                                         then match push_value v with Some pv => Some [pv; Return] | None => None end else None
                             | None => None end
        | _, _ => None
        end
    | IRet None => match results with Some [] => Some [Return] | _ => None end
    | _ => None
    end.

  Fixpoint gen_code (c : list IR.instr) : option (list (list Wasm.instr)) :=
    match c with [] => Some [] | i :: r => match gen_instr i, gen_code r with Some g, Some gs => Some (g :: gs) | _, _ => None end end.

  Fixpoint all_some {A} (l : list (option A)) : option (list A) :=
    match l with [] => Some [] | Some x :: r => option_map (cons x) (all_some r) | None :: _ => None end.

  Definition ends_with_return : bool := match rev code with i :: _ => is_ret i | [] => false end.

  (** (signature, declared locals, body) *)
  Definition gen_function : option (functype * list valtype * list Wasm.instr) :=
    match all_some (map (fun a => vt_of (snd a)) (fn_args F)), results, all_some (map (fun p => vt_of (snd p)) refs), gen_code code with
    | Some ps, Some rs, Some ls, Some groups =>
        if (match rs with [] => true | _ => ends_with_return end)
        then Some ({| ft_params := ps; ft_results := rs |}, ls, concat groups) else None
    | _, _, _, _ => None
    end.
End Fn.

Fixpoint bytes_of_string (s : string) : list Z :=
  match s with EmptyString => [] | String c r => Z.of_N (Ascii.N_of_ascii c) :: bytes_of_string r end.

(** the module: one type per function in order, every function exported under its name, one empty table *)
Definition gen_module (fs : list ifunc) : option wmodule :=
  match all_some (map gen_function fs) with
  | Some gs =>
      Some {| wm_types := map (fun g => fst (fst g)) gs;
              wm_funcs := seq 0 (length gs);
              wm_tables := 1; wm_mems := 0;
              wm_exports := map (fun p => (bytes_of_string (fn_name (snd p)), 0, fst p)) (combine (seq 0 (length fs)) fs);
              wm_codes := map (fun g => (snd (fst g), snd g)) gs |}
  | None => None
  end.
