(** * C18 -- Compilation is deterministic and independent of earlier compilations. *)
From Coq Require Import String ZArith List Bool.
From NSL Require Import Base.Types Base.Syntax Model.IR Model.Elab Model.Lower Model.IREq.
From NSLDyn Require Gen_Shapes.
Import ListNotations.

(** PARTIAL, and necessarily so: hash seeds, mutable default arguments, objects shared between compilations and the
    parser-table cache are behaviour of the Python runtime and of object identity; a Gallina model is a function of
    the source by construction, so "the model is deterministic" (below) carries no information about the runtime.
    The check therefore rests on the correspondence: for every (hash seed, history, compiler reuse) combination
    explored, the listing and the WebAssembly bytes of the real compiler are compared with each other, and on the
    fragment the lowering model covers the real IR is additionally compared with the model's IR for the source. *)
Theorem C18_model_is_a_function : forall M P1 P2, compile M = COk P1 -> compile M = COk P2 -> P1 = P2.
Proof. intros M P1 P2 H1 H2. congruence. Qed.

Theorem C18_gate_shapes : Gen_Shapes.shape_compiler_checked = true /\ Gen_Shapes.shape_pass_checked = true.
Proof. split; reflexivity. Qed.

Eval compute in "ASSUMPTIONS C18_model_is_a_function"%string. Print Assumptions C18_model_is_a_function.
Eval compute in "END"%string.
