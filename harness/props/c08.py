"""C08 -- Binary operators group by the declared precedence, left to right."""
import os, itertools, json, re
from common import parse_coq_values, TranslatorAbort, coq_list
import shapes, vmcases, ircoq
from translate import t_parser

STATIC = ["Base/Types.v", "Spec/Prec.v", "Model/ParserSR.v", "Proofs/SRParser.v", "Harness/PrecLib.v", "Model/Lexer.v", "Proofs/LexerProofs.v"]

LHEADER = """From Coq Require Import String Ascii ZArith List Bool.
From NSL Require Import Base.Util Base.Types Model.Lexer Harness.LexLib.
Import ListNotations.
Open Scope Z_scope.
Definition cs (s : string) : list ascii := list_ascii_of_string s.
"""
LEXMAP = {"PLUS": "LOp OAdd", "MINUS": "LOp OSub", "TIMES": "LOp OMul", "DIVIDE": "LOp ODiv", "MOD": "LOp OMod", "LOR": "LOp OLor", "LAND": "LOp OLand",
          "EQ": "LOp OEq", "NE": "LOp ONe", "LT": "LOp OLt", "LE": "LOp OLe", "GT": "LOp OGt", "GE": "LOp OGe", "EQUALS": "LAssign", "(": "LParL", ")": "LParR"}


def coq_str(t):
    return '"%s"%%string' % t.replace('"', '""')


def impl_ltoks(toks, keywords):
    """the real token stream as Coq ltok list, or None when a token is outside the model's alphabet"""
    out = []
    for ty, val in toks:
        if ty == "ID":
            out.append("LId (cs %s)" % coq_str(val))
        elif ty == "INT_CONST_DEC" and val.lstrip("+-").isdigit():
            sg = "None" if val[0].isdigit() else ("(Some true)" if val[0] == "-" else "(Some false)")
            out.append("LInt %s (cs %s)" % (sg, coq_str(val.lstrip("+-"))))
        elif ty == "INT_CONST_OCT" and val == "0":
            out.append("LInt None (cs %s)" % coq_str("0"))
        elif ty in LEXMAP:
            out.append(LEXMAP[ty])
        else:
            return None
    return "(Some [%s])" % "; ".join(out)

OPS = ["||", "&&", "==", "!=", "<", "<=", ">", ">=", "+", "-", "*", "/", "%"]
COQ_OP = dict(zip(OPS, ["OLor", "OLand", "OEq", "ONe", "OLt", "OLe", "OGt", "OGe", "OAdd", "OSub", "OMul", "ODiv", "OMod"]))

HEADER = """From Coq Require Import String ZArith List Bool Arith.
From NSL Require Import Base.Util Base.Types Spec.Prec Model.ParserSR Harness.PrecLib.
From NSLDyn Require Gen_ParserTables.
Import ListNotations.
Open Scope Z_scope.
Definition chk := pchk Gen_ParserTables.decide.
"""

VHEADER = vmcases.HEADER + """From NSL Require Import Spec.Prec Model.ParserSR Harness.PrecLib.
Definition vchk (names : list string) (toks : list token) (P : program) (cs : list call) (impl : list obs) : Z :=
  match module_of names toks with Some M => run_case fuel M P cs impl | None => 64 end.
"""

# ---- token-level expressions: items are ("a", atom) | ("o", op) | "(" | ")" | "="
# atom = {"kind": "id"|"int"|"float"|"call"|"idx"|"mem"|"ctor", "name":..., "nested": [items, ...]}

def atom_id(n): return ("a", {"kind": "id", "name": n, "nested": []})


class Gen:
    def __init__(self, rng):
        self.rng = rng
        self.k = 0

    def atom(self, depth, simple=False):
        r = self.rng
        c = r.random()
        self.k += 1
        if simple or c < 0.55 or depth <= 0:
            return atom_id("v%d" % (self.k % 7))
        if c < 0.65:
            return ("a", {"kind": "int", "name": str(r.randrange(0, 50)), "nested": []})
        if c < 0.70:
            return ("a", {"kind": "float", "name": r.choice(["1.5", "0.25", "2.0f"]), "nested": []})
        if c < 0.80:
            return ("a", {"kind": "call", "name": "fn%d" % r.randrange(3), "nested": [self.seq(depth - 1, r.randrange(0, 3)) for _ in range(r.randrange(0, 3))]})
        if c < 0.88:
            return ("a", {"kind": "idx", "name": "arr", "nested": [self.seq(depth - 1, r.randrange(0, 3))]})
        if c < 0.94:
            return ("a", {"kind": "mem", "name": "vec." + r.choice(["x", "xy", "rgb"]), "nested": []})
        return ("a", {"kind": "ctor", "name": "float2", "nested": [self.seq(depth - 1, r.randrange(0, 2)) for _ in range(2)]})

    def operand(self, depth, simple):
        r = self.rng
        if depth > 0 and r.random() < 0.22:
            return ["("] + self.seq(depth - 1, r.randrange(1, 4), simple, allow_asg=False) + [")"]
        return [self.atom(depth, simple)]

    def seq(self, depth, nops, simple=False, allow_asg=True):
        r = self.rng
        out = []
        ops = [r.choice(OPS) for _ in range(nops)]
        for i in range(nops + 1):
            if allow_asg and r.random() < 0.06:
                out += [atom_id("t%d" % r.randrange(3)), "="]
            out += self.operand(depth, simple)
            if i < nops:
                out.append(("o", ops[i]))
        return out


def lexemes(items):
    out = []
    for it in items:
        if it in ("(", ")", "="):
            out.append(it)
        elif it[0] == "o":
            out.append(it[1])
        else:
            a = it[1]
            k = a["kind"]
            if k in ("id", "int", "float"):
                out.append(a["name"])
            elif k == "mem":
                b, m = a["name"].split(".")
                out += [b, ".", m]
            elif k in ("call", "ctor"):
                out += [a["name"], "("]
                for i, n in enumerate(a["nested"]):
                    if i:
                        out.append(",")
                    out += lexemes(n)
                out.append(")")
            elif k == "idx":
                out += [a["name"], "["] + lexemes(a["nested"][0]) + ["]"]
    return out


def needs_sep(p, n):
    w = lambda c: c.isalnum() or c in "_."
    if w(p[-1]) and w(n[0]):
        return True
    if p in ("+", "-") and n[0].isdigit():     # signed integer literals are single tokens
        return True
    return False


LAYOUTS = ["spaces", "dense", "lines", "tabs", "wild"]
def render(lex, layout, rng):
    out = [lex[0]]
    for p, n in zip(lex, lex[1:]):
        if layout == "spaces":
            s = " "
        elif layout == "dense":
            s = " " if needs_sep(p, n) else ""
        elif layout == "lines":
            s = "\n"
        elif layout == "tabs":
            s = "\t"
        else:
            s = rng.choice(["", " ", "\n", "\t", "  \n\t ", " \n\n"]) if not needs_sep(p, n) else rng.choice([" ", "\n", "\t \n"])
        out.append(s); out.append(n)
    return "".join(out)


def coq_toks(items):
    out, k = [], 0
    for it in items:
        if it == "(":
            out.append("KL")
        elif it == ")":
            out.append("KR")
        elif it == "=":
            out.append("KAsg")
        elif it[0] == "o":
            out.append("KOp %s" % COQ_OP[it[1]])
        else:
            out.append("KAtom %d%%nat" % k); k += 1
    return "[" + "; ".join(out) + "]"


def atoms_of(items):
    return [it[1] for it in items if isinstance(it, tuple) and it[0] == "a"]


def impl_etree(e, atoms, sub):
    """impl expression JSON -> Coq etree text; leaves numbered in order and matched with the generated atoms;
    nested expressions are queued in sub as (items, impl json)"""
    counter = [0]
    bad = [False]
    def leaf(n):
        i = counter[0]; counter[0] += 1
        if i >= len(atoms):
            bad[0] = True; return "ELeaf 999%nat"
        a = atoms[i]
        k = n["k"] if n is not None else None
        ok = False
        if a["kind"] == "id":
            ok = k == "id" and n["n"] == a["name"]
        elif a["kind"] == "int":
            ok = k == "int" and n["v"] == int(a["name"])
        elif a["kind"] == "float":
            ok = k == "float"
        elif a["kind"] == "call":
            ok = k == "call" and n["f"] == a["name"] and len(n["args"]) == len(a["nested"])
            if ok:
                sub.extend(zip(a["nested"], n["args"]))
        elif a["kind"] == "ctor":
            ok = k == "ctor" and len(n["args"]) == len(a["nested"])
            if ok:
                sub.extend(zip(a["nested"], n["args"]))
        elif a["kind"] == "idx":
            ok = k == "idx" and n["p"]["k"] == "id" and n["p"]["n"] == a["name"]
            if ok:
                sub.append((a["nested"][0], n["i"]))
        elif a["kind"] == "mem":
            ok = k == "mem" and n["p"]["k"] == "id" and (n["p"]["n"] + "." + n["m"]) == a["name"]
        if not ok:
            bad[0] = True
        return "ELeaf %d%%nat" % i
    def go(n):
        if n is not None and n["k"] == "bin":
            l = go(n["l"]); r = go(n["r"])
            return "ENode %s (%s) (%s)" % (COQ_OP.get(n["op"], "OAdd"), l, r)
        if n is not None and n["k"] == "assign" and n["op"] == "=" and n["l"]["k"] == "id":
            i = counter[0]; leaf(n["l"])
            return "EAsgn %d%%nat (%s)" % (i, go(n["r"]))
        return leaf(n)
    t = go(e)
    if bad[0] or counter[0] != len(atoms):
        return "Some (ELeaf 999%nat)"
    return "Some (%s)" % t


def grid(quick, rng):
    """(kind, items) for the exhaustive part: all pairs, all triples (sampled in quick), with and without parentheses"""
    a = [atom_id(n) for n in ("a0", "a1", "a2", "a3", "a4", "a5")]
    o = lambda x: ("o", x)
    out = []
    for o1, o2 in itertools.product(OPS, repeat=2):
        out.append(("pair", [a[0], o(o1), a[1], o(o2), a[2]]))
        out.append(("pair-par-left", ["(", a[0], o(o1), a[1], ")", o(o2), a[2]]))
        out.append(("pair-par-right", [a[0], o(o1), "(", a[1], o(o2), a[2], ")"]))
        out.append(("pair-asg", [a[3], "=", a[0], o(o1), a[1], o(o2), a[2]]))
        out.append(("pair-asg-mid", [a[0], o(o1), a[3], "=", a[1], o(o2), a[2]]))
    triples = list(itertools.product(OPS, repeat=3))
    if quick:
        triples = rng.sample(triples, 400)
    for o1, o2, o3 in triples:
        out.append(("triple", [a[0], o(o1), a[1], o(o2), a[2], o(o3), a[3]]))
        v = rng.randrange(4)
        par = [["(", a[0], o(o1), a[1], ")", o(o2), a[2], o(o3), a[3]], [a[0], o(o1), "(", a[1], o(o2), a[2], ")", o(o3), a[3]],
               [a[0], o(o1), a[1], o(o2), "(", a[2], o(o3), a[3], ")"], [a[0], o(o1), "(", a[1], o(o2), a[2], o(o3), a[3], ")"]][v]
        out.append(("triple-par", par))
    # every parenthesisation of short chains
    def parens(lo, hi, ops):
        if lo == hi:
            return [[a[lo]]]
        res = []
        for m in range(lo, hi):
            for l in parens(lo, m, ops):
                for r in parens(m + 1, hi, ops):
                    ll = l if len(l) == 1 else ["("] + l + [")"]
                    rr = r if len(r) == 1 else ["("] + r + [")"]
                    res.append(ll + [o(ops[m])] + rr)
        return res
    for n in ((2, 3) if quick else (2, 3, 4, 5)):
        for _ in range(3 if quick else 12):
            ops = [rng.choice(OPS) for _ in range(n)]
            for p in parens(0, n, ops):
                out.append(("all-parens-%d" % n, p))
    # rejected shapes
    out += [("reject", ["(", a[0], ")"]), ("reject", ["(", a[0], "=", a[1], o("+"), a[2], ")"]), ("reject", [a[0], o("+"), "(", a[1], ")"]),
            ("nested-parens", ["(", "(", a[0], o("-"), a[1], ")", ")", o("-"), a[2]])]
    return out


def run(ctx):
    ctx.static_obligations(STATIC)
    repo = ctx.sync_repo(1)[0]
    rng = ctx.rng
    quick = ctx.tier == "quick"
    # ---- T2: the decision table from PLY's LALR tables for the current grammar
    tab = ctx.run_impl("c08_impl.py", [{"k": "tables"}], nworkers=1)[0]
    try:
        if "error" in tab:
            raise TranslatorAbort("could not read the parser tables: %s" % tab["error"])
        gen = t_parser.translate(tab)
        ctx.obligations.append({"name": "T2.parser-tables", "ok": True})
    except TranslatorAbort as e:
        ctx.broken.append("translator T2 (parser tables) aborted: %s" % e)
        ctx.obligations.append({"name": "T2.parser-tables", "ok": False})
        # fall back to the specified table so that the correspondence can still look for a failing input
        gen = ("From Coq Require Import Arith.\nFrom NSL Require Import Base.Types Spec.Prec.\n"
               "Definition decide (o1 o2 : binop) : bool := Nat.leb (lvl o2) (lvl o1).\nDefinition asg_shifts (o : binop) : bool := true.\n")
    open(os.path.join(ctx.dyn, "Gen_ParserTables.v"), "w").write(gen)
    ctx.compile_dyn(["Gen_ParserTables", "Props_C08"])

    # ---- tree correspondence
    g = Gen(rng)
    cases = grid(quick, rng)
    for _ in range(300 if quick else 6000):
        cases.append(("random", g.seq(rng.choice([1, 2, 2, 3]), rng.randrange(1, 13 if rng.random() < 0.2 else 7), simple=rng.random() < 0.4)))
    jobs, meta = [], []
    for k, (kind, items) in enumerate(cases):
        lex = lexemes(items)
        nl = 2 if quick and kind in ("triple", "triple-par", "pair-par-left", "pair-par-right", "pair-asg", "pair-asg-mid") else (len(LAYOUTS) if not quick or kind in ("pair", "random") else 3)
        lays = LAYOUTS[:] if nl == len(LAYOUTS) else [LAYOUTS[(k + i * 2) % len(LAYOUTS)] for i in range(nl)]
        for lay in lays:
            body = render(["return"] + lex + [";"], lay, rng)
            text = "function f(int q)->int{ %s }" % body if lay == "dense" else "function f ( int q ) -> int\n{\n  %s\n}\n" % body
            jobs.append({"k": "parse", "text": text}); meta.append((kind, items, lay))
    res = ctx.run_impl("c08_impl.py", jobs, nworkers=16)
    lines, lmeta, dist = [], [], {}
    def add(kind, items, lay, impl_expr, text):
        sub = []
        if impl_expr is None:
            it = "None"
        else:
            it = impl_etree(impl_expr, atoms_of(items), sub)
        lines.append("chk %s (%s)" % (coq_toks(items), it)); lmeta.append((kind, lay, text, lexemes(items)))
        for s_items, s_impl in sub:
            add("nested", s_items, lay, s_impl, text)
    for (kind, items, lay), j, r in zip(meta, jobs, res):
        dist["%s/%s" % (kind, lay)] = dist.get("%s/%s" % (kind, lay), 0) + 1
        if r.get("syntax_error"):
            add(kind, items, lay, None, j["text"])
        elif "error" in r or r.get("illegal"):
            lines.append("3"); lmeta.append((kind, lay, j["text"], "parser failed: %s" % r))
        else:
            st = r["body"]["b"][0]
            add(kind, items, lay, st["e"], j["text"])
    files, per = [], 500
    for k in range(0, len(lines), per):
        f = os.path.join(ctx.dyn, "cases_C08_%d.v" % (k // per))
        open(f, "w").write(HEADER + "Definition cases : list Z := [\n  " + ";\n  ".join(lines[k:k + per]) + "].\nEval vm_compute in cases.\n")
        files.append(f)

    # ---- lexer: the token stream of the real lexer against the lexer model, on layouts and on strings where neighbours merge
    ltexts = []
    pure = [it for k, it in cases if k in ("pair", "triple", "pair-par-left", "pair-par-right", "pair-asg", "triple-par") or k.startswith("all-parens")]
    for it in (rng.sample(pure, min(len(pure), 250 if quick else 3000))):
        lx = lexemes(it)
        lx = [x if not x.startswith("a") or rng.random() < 0.7 else str(rng.choice([0, 1, 7, 10, 42, 305])) for x in lx]
        for lay in LAYOUTS:
            ltexts.append(("layout", render(lx, lay, rng)))
    pieces = ["a", "b1", "_x", "0", "7", "12", "+", "-", "*", "/", "%", "<", ">", "<=", ">=", "==", "!=", "&&", "||", "=", "(", ")", " ", "  ", "\n", "\t", "", "", ""]
    for _ in range(600 if quick else 8000):
        ltexts.append(("adjacent", "".join(rng.choice(pieces) for _ in range(rng.randrange(2, 9)))))
    lres = ctx.run_impl("c08_impl.py", [{"k": "lex", "text": t} for _, t in ltexts], nworkers=8)
    llines, lmeta2 = [], []
    for (kind, t), r in zip(ltexts, lres):
        if "error" in r or r.get("illegal"):
            continue
        it = impl_ltoks(r["tokens"], None)
        # keywords are identifiers for the model; the caller tells them apart
        llines.append("lchk %s %s" % (coq_str(t), it if it is not None else "None")); lmeta2.append((kind, t, r["tokens"]))
    lfiles = []
    for k in range(0, len(llines), 500):
        f = os.path.join(ctx.dyn, "cases_C08l_%d.v" % (k // 500))
        open(f, "w").write(LHEADER + "Definition cases : list Z := [\n  " + ";\n  ".join(llines[k:k + 500]) + "].\nEval vm_compute in cases.\n")
        lfiles.append(f)

    # ---- values: what the VM computes for operand values, against the reference semantics on the prescribed grouping
    names = ["a0", "a1", "a2", "a3", "a4"]
    vcases = [(k, it) for k, it in grid(True, rng) if k in ("pair", "triple", "pair-par-left", "pair-par-right", "triple-par", "pair-asg")]
    if quick:
        vcases = [c for c in vcases if c[0] == "pair"] + rng.sample([c for c in vcases if c[0] != "pair"], 250)
    vjobs = []
    for kind, items in vcases:
        text = "export function f(int a0, int a1, int a2, int a3, int a4) -> int { return %s; }" % render(lexemes(items), "spaces", rng)
        calls = [{"fn": "f", "args": {n: rng.choice([1, 2, 3, 5, 7, 11, 13, 4, 9, -3, 0] if rng.random() < 0.8 else [1, 2, 3, 5, 7]) for n in names}} for _ in range(3)]
        vjobs.append(vmcases.job(text, calls))
    vres = ctx.run_impl("compile_impl.py", vjobs, nworkers=16)
    # ---- a binary minus written tight against a literal (`a0 -7 % a1`, `a0-7*a1`, a line break before the minus): the lexer may read a signed
    #      literal and the parser then rejects the text; if the text is accepted it must group like `a0 - 7 % a1`
    tgroups = []
    for o2 in ["%", "*", "/", "+", "<"]:
        for lit in ("7", "2"):
            ref = "a0 - %s %s a1" % (lit, o2)
            tgroups.append((ref, ["a0 -%s %s a1" % (lit, o2), "a0-%s%sa1" % (lit, o2), "a0\n-%s %s a1" % (lit, o2), "a0 -%s%sa1" % (lit, o2), "a0 * 3 -%s %s a1" % (lit, o2)],
                            "a0 * 3 - %s %s a1" % (lit, o2)))
    tcalls = [{"fn": "f", "args": {"a0": x, "a1": y}} for x, y in ((10, 3), (-5, 4), (7, 7), (0, 2))]
    tjobs, tmeta = [], []
    for ref, variants, ref2 in tgroups:
        for which, texts in ((ref, variants[:4]), (ref2, variants[4:])):
            for t in [which] + texts:
                tjobs.append(vmcases.job("export function f(int a0, int a1) -> int { return %s; }" % t, tcalls)); tmeta.append((which, t))
    tres = ctx.run_impl("compile_impl.py", tjobs, nworkers=8)
    tight_bad, tight = [], {"texts": len(tjobs), "accepted": 0, "rejected_as_syntax_error": 0}
    refres = {}
    for (which, t), r in zip(tmeta, tres):
        if t == which:
            refres[which] = r
    for (which, t), j, r in zip(tmeta, tjobs, tres):
        if t == which:
            continue
        if not r["accept"]:
            if r["how"].get("stage") in ("parser", "lexer", "parse", "syntax") or r.get("syntax_error") or "yntax" in json.dumps(r["how"]):
                tight["rejected_as_syntax_error"] += 1
            else:
                tight_bad.append((t, which, j, r, "rejected for another reason than syntax: %s" % json.dumps(r["how"])[:200]))
            continue
        tight["accepted"] += 1
        if not refres[which]["accept"] or r.get("calls") != refres[which].get("calls"):
            tight_bad.append((t, which, j, r, "groups differently from `%s`: %s vs %s" % (which, json.dumps(r.get("calls"))[:200], json.dumps(refres[which].get("calls"))[:200])))
    # ---- compound assignments: `r op= e` is `r = r op (e)` whatever operators e contains (the right-hand side is one operand)
    cjobs2, cmeta2 = [], []
    ccalls = [{"fn": "f", "args": {"r": x, "a": y, "b": z}} for x, y, z in ((100, 7, 3), (-20, 5, 9), (64, 2, 4), (9, 9, 1))]
    for aop in ("+", "-", "*", "/"):
        for o2 in ("+", "-", "*", "/", "%", "<"):
            for rhs in ("a %s b" % o2, "(a %s b)" % o2, "a %s b %s a" % (o2, o2)):
                for ty in ("int", "float"):
                    if ty == "float" and o2 in ("%", "<"):
                        continue
                    mk = lambda stmt: "export function f(%s r, %s a, %s b) -> %s { %s return r; }" % (ty, ty, ty, ty, stmt)
                    cc = ccalls if ty == "int" else [{"fn": c["fn"], "args": {k_: float(v_) + 0.5 for k_, v_ in c["args"].items()}} for c in ccalls]
                    cjobs2.append(vmcases.job(mk("r %s= %s;" % (aop, rhs)), cc)); cjobs2.append(vmcases.job(mk("r = r %s (%s);" % (aop, rhs)), cc)); cmeta2.append((aop, rhs, ty))
    cres2 = ctx.run_impl("compile_impl.py", cjobs2, nworkers=16)
    compound_bad, compound = [], {"pairs": len(cmeta2), "compared": 0}
    for n_, (aop, rhs, ty) in enumerate(cmeta2):
        ra, rb = cres2[2 * n_], cres2[2 * n_ + 1]
        if ra["accept"] != rb["accept"]:
            compound_bad.append((cjobs2[2 * n_], ra, rb, "accepted / rejected differently from the expanded form")); continue
        if not ra["accept"]:
            continue
        compound["compared"] += 1
        if ra.get("calls") != rb.get("calls"):
            compound_bad.append((cjobs2[2 * n_], ra, rb, "result differs from `r = r %s (%s)`" % (aop, rhs)))
    blocks, vmeta, rejected = [], [], 0
    for k, ((kind, items), j, r) in enumerate(zip(vcases, vjobs, vres)):
        if not r["accept"] or "ir" not in r:
            rejected += 1; continue
        prog = ircoq.program({"functions": r["ir"]["functions"], "globals": r["ir"]["globals"]})
        obs = []
        for c in r["calls"]:
            obs.append(vmcases.coq_obs(c, []))
            if "fail" in c:
                break
        calls = [{"fn": c["fn"], "args": {n: v for n, v in c["args"].items()}} for c in j["calls"]]
        cs = coq_list([vmcases.coq_call(c) for c in calls])
        defs = "Definition P_%d : program := %s.\n" % (k, prog)
        # atoms are numbered left to right; map them to the parameter they name
        ats = atoms_of(items)
        nm = coq_list(['"%s"%%string' % a["name"] for a in ats])
        blocks.append((defs, "vchk %s %s P_%d %s %s" % (nm, coq_toks(items), k, cs, coq_list(obs)))); vmeta.append((kind, j, r))
    vfiles = []
    for i in range(0, len(blocks), 40):
        f = os.path.join(ctx.dyn, "cases_C08v_%d.v" % (i // 40))
        chunk = blocks[i:i + 40]
        open(f, "w").write(VHEADER + "".join(d for d, _ in chunk) + "Definition cases : list Z := [\n  " + ";\n  ".join(e for _, e in chunk) + "].\nEval vm_compute in cases.\n")
        vfiles.append(f)

    outs = ctx.eval_cases(files + vfiles + lfiles, timeout=900)
    lcodes = []
    for f in lfiles:
        ok, out, err = outs[f]
        vals = parse_coq_values(out) if ok else []
        if not ok or not vals or not isinstance(vals[0], list):
            ctx.broken.append("correspondence: %s did not evaluate: %s" % (os.path.basename(f), err[-300:]))
            lcodes.extend([None] * min(500, len(llines) - len(lcodes)))
        else:
            lcodes.extend(vals[0])
    lbad = [m for m, c in zip(lmeta2, lcodes) if c not in (None, 0)]
    codes = []
    for f in files:
        ok, out, err = outs[f]
        vals = parse_coq_values(out) if ok else []
        if not ok or not vals or not isinstance(vals[0], list):
            ctx.broken.append("correspondence: %s did not evaluate: %s" % (os.path.basename(f), err[-300:]))
            codes.extend([None] * min(per, len(lines) - len(codes)))
        else:
            codes.extend(vals[0])
    vcodes = vmcases.collect_codes(ctx, vfiles, outs, len(blocks), per=40)
    bad_spec = [m for m, c in zip(lmeta, codes) if c is not None and c & 2]
    bad_model = [m for m, c in zip(lmeta, codes) if c is not None and (c & 1) and not (c & 2)]
    vbad_spec = [m for m, c in zip(vmeta, vcodes) if c is not None and c & 2]
    vbad_model = [m for m, c in zip(vmeta, vcodes) if c is not None and (c & 1) and not (c & 2)]
    ctx.cov["evaluations"] = len(jobs) + len(vjobs)
    ctx.cov["distinct_nontrivial"] = len({j["text"] for j in jobs}) + len({j["src"] for j in vjobs})
    ctx.cov["rule"] = ("trees: all 169 ordered operator pairs (plain, parenthesised left/right, under an assignment, with an assignment as right operand), %s operator triples (plain and one "
                       "parenthesisation), every parenthesisation of random chains of 2-%d operators, rejected shapes, and random expressions of up to 12 operators whose operands are identifiers, "
                       "literals, calls, element accesses, swizzles and constructors with nested expressions (each nested expression is a case of its own); each rendered in %s layouts (single "
                       "spaces, no whitespace where tokens cannot merge, one token per line, tabs, random mixtures) inside a function body, parsed by the real parser, tree compared "
                       "inside Coq with the machine run on the regenerated table and on the precedence table. values: pairs/triples over int parameters compiled and run on the real VM with 3 "
                       "argument vectors each, compared inside Coq with the reference semantics evaluated on the prescribed grouping (and with the VM model on the real IR); %d of them rejected "
                       "by typing." % ("400 sampled" if quick else "all 2197", 3 if quick else 5, "2-5" if quick else "5", rejected))
    ctx.cov["samples"] = [{"kind": k, "layout": l, "source": t} for k, l, t, _ in (lmeta[:1] + lmeta[len(lmeta) // 2:len(lmeta) // 2 + 1] + lmeta[-2:])]
    ctx.extra["input_distribution"] = dict(sorted(dist.items()))
    ctx.extra["disagreements_checked"] = len(codes) + len(vcodes)
    from collections import Counter
    ctx.extra["value_skip_ops"] = dict(Counter(tuple(sorted(set(re.findall(r"[|&=!<>+*/%-]+", j["src"].split("return")[1])))) .__str__() for (k, j, r), c in zip(vmeta, vcodes) if c is not None and c & 8).most_common(12))
    ctx.extra["lexer_cases"] = {"texts": len(llines), "layout": sum(1 for m in lmeta2 if m[0] == "layout"), "adjacent": sum(1 for m in lmeta2 if m[0] == "adjacent"), "differ": len(lbad)}
    ctx.extra["value_cases"] = {"run": len(blocks), "rejected_by_typing": rejected, "spec_skipped": sum(1 for c in vcodes if c is not None and c & 8)}
    ctx.extra["tight_minus_cases"] = tight
    # tree printer: the printed return expression, parsed again by the real parser, must be the same tree
    rp = [(j["text"], r["reprint"]) for j, r in zip(jobs, res) if isinstance(r, dict) and r.get("reprint")]
    rp_bad = [(t, x) for t, x in rp if x.get("same") is False]
    ctx.extra["printer_roundtrip"] = {"trees_printed_and_reparsed": sum(1 for t, x in rp if x.get("same") is True), "differ": len(rp_bad),
                                      "printed_text_not_reparsed": sum(1 for t, x in rp if x.get("same") is None)}
    if rp_bad:
        t, x = min(rp_bad, key=lambda y: len(y[0]))
        ctx.violation("failing-input", {"what": "the tree printer (BinaryExpression.__str__) prints a grouping that parses to a different tree", "source": t,
                                        "printed": x["printed"], "count": len(rp_bad)})
    ctx.extra["compound_assignment_cases"] = compound
    if compound_bad:
        j, ra, rb, why = compound_bad[0]
        ctx.violation("failing-input", {"what": "a compound assignment does not group its right-hand side as one operand", "source": j["src"], "calls": j["calls"],
                                        "observed": ra.get("calls"), "expanded_form_gives": rb.get("calls"), "why": why, "count": len(compound_bad)})
    elif tight_bad:
        t, which, j, r, why = tight_bad[0]
        ctx.violation("failing-input", {"what": "an accepted expression with a minus written tight against a literal does not group like the same tokens spaced out", "source": j["src"],
                                        "reference_layout": which, "calls": j["calls"], "observed": r.get("calls"), "why": why, "count": len(tight_bad)})
    elif bad_spec:
        k, l, t, lx = min(bad_spec, key=lambda x: len(x[2]))
        ctx.violation("failing-input", {"what": "the tree built by the parser is not the grouping prescribed by the precedence levels", "case_kind": k, "layout": l, "source": t,
                                        "expression_tokens": lx, "count": len(bad_spec)})
    elif vbad_spec:
        k, j, r = min(vbad_spec, key=lambda x: len(x[1]["src"]))
        ctx.violation("failing-input", {"what": "the value computed by the VM differs from the value of the prescribed grouping", "case_kind": k, "source": j["src"], "calls": j["calls"],
                                        "observed": r["calls"], "count": len(vbad_spec)})
    else:
        if bad_model:
            k, l, t, lx = bad_model[0]
            ctx.broken.append("correspondence: parser differs from the shift-reduce machine on the regenerated table on %d case(s), e.g. %s" % (len(bad_model), t[:200]))
        if lbad:
            ctx.broken.append("correspondence: the real lexer differs from the lexer model on %d text(s), e.g. %r -> %s" % (len(lbad), lbad[0][1], lbad[0][2]))
        if vbad_model:
            k, j, r = vbad_model[0]
            ctx.broken.append("correspondence: VM differs from the VM model on %d value case(s), e.g. %s" % (len(vbad_model), j["src"][:200]))
