"""C04 -- Vectors and matrices are values: component ops, swizzles, copies."""
import os, itertools, random
import shapes, nslgen, genvec, vmcases, ircoq
from nslgen import *
from translate import t_vm
from common import TranslatorAbort

STATIC = ["Model/Swizzle.v", "Proofs/VecProofs.v", "Proofs/VecSetProofs.v", "Proofs/CallProofs.v", "Proofs/OpsAgree.v", "Spec/RefSem.v"]


def targeted(rng):
    """(kind, module, calls): the grids the property names"""
    out = []
    letters = "xyzw"
    def fn(params, ret, body):
        return Module([Func("f", [Arg(t, n) for n, t in params], ret, Block(body), export=True)])
    vals = {2: [1.5, -2.0], 3: [1.5, -2.0, 4.25], 4: [1.5, -2.0, 4.25, 8.0]}
    ivals = {2: [3, -5], 3: [3, -5, 7], 4: [3, -5, 7, 11]}
    # swizzle reads: every mask of every length over float2/3/4 (sampled for lengths 3-4 in quick) and int vectors
    for n in (2, 3, 4):
        for ln in (1, 2, 3, 4):
            masks = ["".join(m) for m in itertools.product(letters[:n], repeat=ln)]
            for m in masks:
                out.append(("read-%d-%d" % (n, ln), (n, m)))
    return out


def read_program(c, n, masks):
    """one function per mask is too slow; one program returns several swizzles packed into an array of results"""
    items = []
    for k, m in enumerate(masks):
        t = genvec.vec(c, len(m))
        items.append(Func("r%d" % k, [Arg(genvec.vec(c, n), "v")], t, Block([Ret(Mem(V("v"), m))]), export=True))
    return Module(items)


def write_program(c, n, masks):
    items = []
    for k, m in enumerate(masks):
        t = genvec.vec(c, n)
        items.append(Func("w%d" % k, [Arg(t, "v"), Arg(genvec.vec(c, len(m)), "s"), Arg(t, "other")], t,
                          Block([Decl(t, "keep", V("v")), ES(A(Mem(V("v"), m), V("s"))),
                                 # the copy taken before the write and an unrelated variable must be unaffected
                                 Ret(B("+", V("v"), B("-", V("keep"), V("keep"))))]), export=True))
    return Module(items)


def run(ctx):
    ctx.static_obligations(STATIC)
    repo = ctx.sync_repo(1)[0]
    shapes.write(ctx, repo, ["lower_member", "lower_index", "lower_ctor", "lower_binary", "compiler", "pass", "visitor"])
    try:
        open(os.path.join(ctx.dyn, "Gen_VM.v"), "w").write(t_vm.generate(repo))
        ctx.obligations.append({"name": "T3-5.vm-tables", "ok": True})
    except TranslatorAbort as e:
        ctx.broken.append("translator T3-5 (VM tables) aborted: %s" % e)
        ctx.obligations.append({"name": "T3-5.vm-tables", "ok": False})
    ctx.compile_dyn(["Gen_VM", "Agree_VM", "Gen_Shapes", "Props_C04"])
    rng = ctx.rng
    quick = ctx.tier == "quick"
    progs = []          # (kind, module, calls)
    letters = "xyzw"
    # ---- swizzle reads: all masks, any length, order, repetition
    for c in ("float", "int"):
        for n in (2, 3, 4):
            masks = ["".join(m) for ln in (1, 2, 3, 4) for m in itertools.product(letters[:n], repeat=ln)]
            masks = [m if rng.random() < 0.5 else m.translate(str.maketrans("xyzw", "rgba")) for m in masks]
            if quick and len(masks) > 60:
                masks = masks[:n + n * n] + rng.sample(masks[n + n * n:], 60 - n - n * n)
            for i in range(0, len(masks), 12):
                chunk = masks[i:i + 12]
                m = read_program(c, n, chunk)
                v = [rng.randrange(-20, 21) / 4.0 if c == "float" else rng.randrange(-9, 10) for _ in range(n)]
                # distinct components so that a wrong index shows
                v = [x + 0.125 * k if c == "float" else x * 10 + k for k, x in enumerate(v)]
                progs.append(("swizzle-read", m, [{"fn": "r%d" % k, "args": {"v": v}} for k in range(len(chunk))]))
    # ---- swizzle writes: every non-repeating mask
    for c in ("float", "int"):
        for n in (2, 3, 4):
            masks = ["".join(p) for ln in range(1, n + 1) for p in itertools.permutations(letters[:n], ln)]
            masks = [m if rng.random() < 0.5 else m.translate(str.maketrans("xyzw", "rgba")) for m in masks]
            if quick and len(masks) > 30:
                masks = rng.sample(masks, 30)
            for i in range(0, len(masks), 10):
                chunk = masks[i:i + 10]
                m = write_program(c, n, chunk)
                mk = (lambda k: [100.0 + j + 0.5 * k for j in range(n)]) if c == "float" else (lambda k: [100 + 10 * k + j for j in range(n)])
                calls = []
                for k, msk in enumerate(chunk):
                    s = [(-1.0 - j if c == "float" else -1 - j) for j in range(len(msk))]
                    calls.append({"fn": "w%d" % k, "args": {"v": mk(k), "s": s if len(msk) > 1 else s[0], "other": mk(k + 1)}})
                progs.append(("swizzle-write", m, calls))
    # ---- matrices as storage: every row of a matrix is storage of its own, however the matrix came about (declared without initialiser, built from one
    # vector used for every row, copied): write one element or one row, return the whole matrix (or the copy taken before)
    for n in (3, 4):         # float3x3 and float4x4 are the matrix types the language has
        vt, mt = "float%d" % n, "float%dx%d" % (n, n)
        rowv = [1.5 + k for k in range(n)]; qv = [-10.0 - k for k in range(n)]
        shapes_ = []
        for origin in ("default", "same-row", "copy"):
            decl = {"default": [Decl(mt, "m")], "same-row": [Decl(mt, "m", Ctor(mt, [V("r")] * n))],
                    "copy": [Decl(mt, "m0", Ctor(mt, [V("r")] * n)), Decl(mt, "m", V("m0"))]}[origin]
            keep = V("m0") if origin == "copy" else None
            for wk, write in (("element", [ES(A(Idx(Idx(V("m"), I(n - 1)), I(0)), V("s")))]),
                              ("row", [ES(A(Idx(V("m"), I(0)), V("q")))]),
                              ("row-then-element", [ES(A(Idx(V("m"), I(1)), V("q"))), ES(A(Idx(Idx(V("m"), I(1)), I(n - 1)), V("s")))]),
                              ("dynamic-element", [ES(A(Idx(Idx(V("m"), V("i")), V("i")), V("s")))])):
                shapes_.append(("%s-%s" % (origin, wk), decl + write + [Ret(V("m"))]))
                if keep is not None:
                    shapes_.append(("%s-%s-original" % (origin, wk), decl + write + [Ret(keep)]))
        for k, (nm, body) in enumerate(shapes_):
            m = Module([Func("f", [Arg(vt, "r"), Arg(vt, "q"), Arg("float", "s"), Arg("int", "i")], mt, Block(body), export=True)])
            progs.append(("matrix-storage", m, [{"fn": "f", "args": {"r": rowv, "q": qv, "s": 77.0, "i": i_}} for i_ in (0, n - 1)]))
    # ---- random programs over vectors, matrices, arrays of vectors, structs with vector members
    g = genvec.VGen(rng)
    for k in range(120 if quick else 3000):
        g.o["mats"] = k % 3 != 0
        m, params, globs, ret = g.program()
        progs.append(("random", m, g.calls(params, globs, 3)))
    jobs, meta = [], []
    for k, (kind, m, calls) in enumerate(progs):
        text, _ = nslgen.render(m, ["canonical", "dense"][k % 2], rng)
        for opt in (False, True):
            jobs.append(vmcases.job(text, calls, optimize=opt)); meta.append((kind, m, calls))
    res = ctx.run_impl("compile_impl.py", jobs, nworkers=16)
    blocks, bmeta, rejected = [], [], []
    dist = {}
    for k, ((kind, m, calls), j, r) in enumerate(zip(meta, jobs, res)):
        dist[kind] = dist.get(kind, 0) + 1
        if not r["accept"] or "ir" not in r or "link_error" in r:
            rejected.append((kind, j, r)); continue
        defs, e = vmcases.case_block(k, m, r, calls, with_spec=True, with_ir=False)
        blocks.append((defs, e)); bmeta.append((kind, j, r))
    files = vmcases.write_case_files(ctx, "C04", blocks, per=10)
    outs = ctx.eval_cases(files, timeout=900)
    codes = vmcases.collect_codes(ctx, files, outs, len(blocks), per=10)
    bad_spec = [x for x, c in zip(bmeta, codes) if c is not None and c & 2]
    bad_model = [x for x, c in zip(bmeta, codes) if c is not None and (c & 1) and not (c & 2)]
    skipped = sum(1 for c in codes if c is not None and c & 8)
    mskipped = sum(1 for c in codes if c is not None and c & 4)
    ncalls = sum(len(j["calls"]) for _, j, _ in bmeta)
    ctx.cov["evaluations"] = len(jobs)
    ctx.cov["distinct_nontrivial"] = len({j["src"] + str(j["opts"]) for _, j, _ in bmeta})
    ctx.cov["programs"] = len(progs)
    ctx.cov["rule"] = ("swizzle reads: %s masks of length 1-4 (any order and repetition, xyzw and rgba spellings) on float and int vectors of 2-4 components; swizzle writes: %s non-repeating "
                       "masks, with a copy taken before the write and returned alongside; random typed programs over float/int vectors, float3x3/float4x4, arrays of vectors and structs with vector "
                       "members: constructors from scalars and smaller vectors, + - on vectors and matrices, comparisons and && || %% per component, vector/matrix times and divided by scalar "
                       "(either side), matrix product, matrix * vector, row and element reads with constant and dynamic in-range indices, swizzle reads, assignments to whole variables, elements, "
                       "rows, swizzles, copies modified after copying, loops over components; 3 input vectors each, both optimisation settings, canonical and dense layouts. Results and globals "
                       "compared inside Coq with the reference semantics (vectors/matrices as values) and with the heap VM model run on the real IR." % (("a sample of the", "a sample of the") if quick else ("all", "all")))
    ctx.cov["samples"] = [{"kind": k, "source": j["src"][:500], "call": j["calls"][0]} for k, j, _ in (bmeta[:1] + bmeta[len(bmeta) // 2:len(bmeta) // 2 + 1] + bmeta[-1:])]
    ctx.extra["input_distribution"] = dict(dist, calls=ncalls, spec_skipped_cases=skipped, model_skipped_cases=mskipped, not_accepted=len(rejected))
    ctx.extra["disagreements_checked"] = len(codes)
    if rejected:
        kind, j, r = min(rejected, key=lambda x: len(x[1]["src"]))
        ctx.violation("failing-input", {"what": "a well-typed vector/matrix program was rejected by the compiler or could not be linked", "case_kind": kind, "source": j["src"], "options": j["opts"],
                                        "observed": {k: v for k, v in r.items() if k != "ir"}, "count": len(rejected)})
    elif bad_spec:
        kind, j, r = min(bad_spec, key=lambda x: len(x[1]["src"]))
        ctx.violation("failing-input", {"what": "the VM result differs from the component-wise reference semantics", "case_kind": kind, "source": j["src"], "options": j["opts"],
                                        "calls": j["calls"], "observed": r.get("calls"), "count": len(bad_spec)})
    elif bad_model:
        kind, j, r = bad_model[0]
        ctx.broken.append("correspondence: VM differs from the VM model on %d case(s), e.g. %s" % (len(bad_model), j["src"][:300]))
