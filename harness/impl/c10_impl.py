"""Implementation side of C10: Scope.RegisterFunction / FindFunction on overload sets, and end-to-end programs."""
import sys, json, io, contextlib, collections, traceback
from nsl import types, ast, Errors, Compiler, LinearIR, VM

STRUCTS = {}
def struct(name):
    if name not in STRUCTS:
        STRUCTS[name] = types.StructType(name, collections.OrderedDict([("x", types.Float())]))
    return STRUCTS[name]

COMP = {"f": types.Float, "i": types.Integer, "u": types.UnsignedInteger}
def mk(t):
    if t[0] == "S": return COMP[t[1]]()
    if t[0] == "V": return types.VectorType(COMP[t[1]](), t[2])
    if t[0] == "M": return types.MatrixType(COMP[t[1]](), t[2], t[3])
    if t[0] == "T": return struct(t[1])
    raise ValueError(t)

def resolve(decls, name, args):
    scope = types.Scope()
    fs = []
    for (n, params) in decls:
        f = types.Function(n, types.Integer(), [ast.Argument(mk(p), "p%d" % k) for k, p in enumerate(params)])
        f.Resolve(scope)
        scope.RegisterFunction(n, f)
        fs.append(f)
    try:
        r = scope.FindFunction(name, [mk(a) for a in args])
        for k, f in enumerate(fs):
            if f is r:
                return ["found", k]
        return ["found", -1]
    except Errors.CompileException as e:
        return [{2101: "ambiguous", 2102: "unknown", 2103: "nomatch"}.get(e.message.code, "compile-other")]
    except BaseException as e:
        return ["other", type(e).__name__]

def e2e(src, args):
    out = io.StringIO()
    try:
        with contextlib.redirect_stdout(out), contextlib.redirect_stderr(out):
            r = Compiler.Compiler().Compile(src, {})
        if r is None:
            return ["reject", "none"]
    except Errors.CompileException as e:
        return ["reject", "compile", e.message.code]
    except BaseException as e:
        tb = traceback.extract_tb(e.__traceback__)
        return ["reject", type(e).__name__, tb[-1].name if tb else "?"]
    try:
        l = LinearIR.Linker(); l.AddModule(r.IRModule); p = l.Link()
        vm = VM.VirtualMachine(p)
        return ["ran", vm.Invoke("f", **args)]
    except BaseException as e:
        return ["runfail", type(e).__name__, str(e)[:100]]

def run(job):
    if job["k"] == "resolve":
        return [resolve(*c) for c in job["cases"]]
    if job["k"] == "e2e":
        return [e2e(*c) for c in job["cases"]]

jobs = json.load(open(sys.argv[1]))
json.dump([run(j) for j in jobs], open(sys.argv[2], "w"))
