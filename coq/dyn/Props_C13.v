(** * C13 -- Static checks on element selection: constant bounds, index type, swizzle mask. *)
From Coq Require Import String Ascii ZArith List Bool Arith.
From NSL Require Import Base.Types Spec.Select Model.Validate Proofs.SelectProofs.
From NSLDyn Require Gen_Shapes.
Import ListNotations.

(** For every declared type (all array shapes, vector sizes, matrix shapes), every access chain (any depth, index
    expressions that are themselves selections included), every integer constant and every mask string: typing followed by the three validators accepts the chain exactly when
    every constant index lies inside the dimension it selects, every index expression is int/uint, and every mask
    uses one letter set, unmixed, naming only existing components -- and then with the specified result type. *)
Theorem C13_select_exact : forall chain t, accepts (model_select t chain) = spec_select t chain.
Proof. exact select_exact. Qed.

Theorem C13_mask_exact : forall m n, validate_mask m n = mask_ok n m.
Proof. exact validate_mask_ok. Qed.

(** the reported reason is the specified one *)
Theorem C13_bounds_reason : forall t k d e, index_dim t = Some (d, e) ->
  (model_select t [IdxConst k] = VBounds <-> (k < 0 \/ Z.of_nat d <= k)%Z).
Proof. exact bounds_reason. Qed.
Theorem C13_index_type_reason : forall t c d e, index_dim t = Some (d, e) ->
  (model_select t [IdxExpr (TPrim (PScalar c))] = VIndexType <-> c = CFloat).
Proof. exact index_type_reason. Qed.
Theorem C13_swizzle_reason : forall t c n m, swizzle_base t = Some (c, n) ->
  (model_select t [Swizzle m] = VSwizzle <-> mask_ok n m = false).
Proof. exact swizzle_reason. Qed.

Theorem C13_validator_shapes :
  Gen_Shapes.shape_bounds_checked = true /\ Gen_Shapes.shape_indextype_checked = true /\
  Gen_Shapes.shape_swizzle_checked = true /\ Gen_Shapes.shape_utility_checked = true.
Proof. repeat split. Qed.

Example C13_examples :
  spec_select (TArr (TPrim (PScalar CInt)) [2; 3]) [IdxConst 2; IdxConst 0] = None /\
  spec_select (TArr (TPrim (PScalar CInt)) [2; 3]) [IdxConst 1; IdxConst 2] = Some (TPrim (PScalar CInt)) /\
  spec_select (TPrim (PMat CFloat 3 3)) [IdxConst 2; IdxConst 3] = None /\
  spec_select (TPrim (PVec CFloat 3)) [Swizzle "xyr"] = None /\
  spec_select (TPrim (PVec CFloat 3)) [Swizzle "bgr"] = Some (TPrim (PVec CFloat 3)) /\
  spec_select (TPrim (PVec CFloat 3)) [Swizzle "w"] = None /\
  spec_select (TPrim (PVec CFloat 4)) [Swizzle "xg"; Swizzle "y"] = None /\
  spec_select (TArr (TPrim (PScalar CInt)) [3]) [IdxSel (TPrim (PVec CInt 2)) [Swizzle "z"]] = None /\
  spec_select (TArr (TPrim (PScalar CInt)) [3]) [IdxSel (TPrim (PVec CInt 2)) [Swizzle "y"]] = Some (TPrim (PScalar CInt)).
Proof. vm_compute. repeat split. Qed.

Eval compute in "ASSUMPTIONS C13_select_exact"%string. Print Assumptions C13_select_exact.
Eval compute in "ASSUMPTIONS C13_mask_exact"%string. Print Assumptions C13_mask_exact.
Eval compute in "ASSUMPTIONS C13_bounds_reason"%string. Print Assumptions C13_bounds_reason.
Eval compute in "END"%string.
