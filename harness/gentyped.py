"""Typed random program generator for the scalar core (and, by options, its extensions).

Every program is well typed by construction exactly as nsl/passes/ComputeTypes.py types it, assignments,
initialisers and returned values have exactly the target type (the language inserts no conversion there), loops
terminate (counters are read-only for the rest of the body), integer magnitudes stay small.  Expressions are
rendered with the parentheses the declared precedence requires (nslgen.canon_bin)."""
import random
from nslgen import *

INT, FLOAT = "int", "float"


class Env:
    def __init__(self, parent=None):
        self.vars = {}      # name -> type descriptor: "int" | "float" | ("arr", elem, dims) | ("struct", name)
        self.parent = parent
        self.readonly = set()

    def all(self):
        d = dict(self.parent.all()) if self.parent else {}
        d.update(self.vars)
        return d

    def ro(self):
        s = set(self.parent.ro()) if self.parent else set()
        return s | self.readonly


class TGen:
    def __init__(self, rng, floats=True, arrays=True, structs=True, globals_=True, calls=True, side_effects=True, max_depth=3):
        self.rng = rng
        self.o = dict(floats=floats, arrays=arrays, structs=structs, globals=globals_, calls=calls, side=side_effects)
        self.max_depth = max_depth
        self.counter = 0
        self.funcs = []       # helper signatures: (name, [param types], ret type)
        self.structs = {}     # name -> [(type, field)]

    def fresh(self, p="v"):
        self.counter += 1
        return "%s%d" % (p, self.counter)

    # ---------------------------------------------------------------- expressions
    def scalars(self, env, t, writable=False):
        ro = env.ro() if writable else set()
        return [n for n, ty in env.all().items() if ty == t and n not in ro]

    def lvalues(self, env, t):
        """assignable places of scalar type t: variables, array elements (literal indices), struct fields"""
        out = [V(n) for n in self.scalars(env, t, writable=True)]
        for n, ty in env.all().items():
            if isinstance(ty, tuple) and ty[0] == "arr" and ty[1] == t:
                e = V(n)
                for d in ty[2]:
                    e = Idx(e, I(self.rng.randrange(d)))
                out.append(e)
            if isinstance(ty, tuple) and ty[0] == "struct":
                for ft, fn in self.structs[ty[1]]:
                    if ft == t:
                        out.append(Mem(V(n), fn))
        return out

    def leaf(self, env, t):
        r = self.rng
        cands = self.lvalues_read(env, t)
        if cands and r.random() < 0.7:
            return r.choice(cands)
        if t == INT:
            v = r.choice([0, 1, 2, 3, 4, 5, 7, 9, -1, -2, -3])
            return I(v)
        return F(r.choice(["0.5", "1.0", "1.5", "2.0", "0.25", "3.0", "10.0", "0.125"]))

    def lvalues_read(self, env, t):
        out = [V(n) for n, ty in env.all().items() if ty == t]
        for n, ty in env.all().items():
            if isinstance(ty, tuple) and ty[0] == "arr" and ty[1] == t:
                e = V(n)
                for d in ty[2]:
                    e = Idx(e, self.index_expr(env, d))
                out.append(e)
            if isinstance(ty, tuple) and ty[0] == "struct":
                for ft, fn in self.structs[ty[1]]:
                    if ft == t:
                        out.append(Mem(V(n), fn))
        return out

    def index_expr(self, env, dim):
        """an int expression guaranteed to lie in [0, dim)"""
        r = self.rng
        loopvars = [n for n, b in getattr(env, "bounds", {}).items() if b <= dim]
        if loopvars and r.random() < 0.5:
            return V(r.choice(loopvars))
        return I(r.randrange(dim))

    def expr(self, env, t, depth, pure=False):
        r = self.rng
        if depth <= 0 or r.random() < 0.3:
            return self.leaf(env, t)
        c = r.random()
        if t == INT:
            if c < 0.45:
                op = r.choice(["+", "-", "*", "+", "-"])
                if op == "*":      # one factor is a small literal: magnitudes grow at most geometrically
                    return canon_bin(op, self.expr(env, INT, depth - 1, pure), I(r.choice([0, 1, 2, 3, -1, -2])))
                return canon_bin(op, self.expr(env, INT, depth - 1, pure), self.expr(env, INT, depth - 1, pure))
            if c < 0.55:
                return canon_bin("/", self.expr(env, INT, depth - 1, pure), I(r.choice([1, 2, 3, -2, 7])))
            if c < 0.6:
                lv = [n for n, b in getattr(env, "bounds", {}).items()]
                if lv:
                    return canon_bin("%", V(r.choice(lv)), I(r.choice([2, 3])))
                return self.leaf(env, t)
            if c < 0.8:
                ot = FLOAT if (self.o["floats"] and r.random() < 0.4) else INT
                l = self.expr(env, ot, depth - 1, pure)
                rr = self.expr(env, INT if (ot == FLOAT and r.random() < 0.3) else ot, depth - 1, pure)
                return canon_bin(r.choice(["<", "<=", ">", ">=", "==", "!="]), l, rr)
            if c < 0.88:
                return canon_bin(r.choice(["&&", "||"]), self.expr(env, INT, depth - 1, pure), self.expr(env, INT, depth - 1, pure))
            if c < 0.94 and self.o["side"] and not pure:
                ws = self.scalars(env, INT, writable=True)
                if ws:
                    x = r.choice(ws)
                    return r.choice([Pre("++", x), Pre("--", x), Post("++", x), Post("--", x)])
            if self.o["calls"] and not pure:
                call = self.call(env, INT, depth - 1)
                if call:
                    return call
            return self.leaf(env, t)
        else:
            if c < 0.6:
                op = r.choice(["+", "-", "*"])
                lt, rt = r.choice([(FLOAT, FLOAT), (FLOAT, INT), (INT, FLOAT)])
                if op == "*":
                    lit = F(r.choice(["2.0", "0.5", "1.5", "0.25"])) if rt == FLOAT else I(r.choice([2, 3, -1]))
                    return canon_bin(op, self.expr(env, lt, depth - 1, pure), lit)
                return canon_bin(op, self.expr(env, lt, depth - 1, pure), self.expr(env, rt, depth - 1, pure))
            if c < 0.75:
                lt = r.choice([FLOAT, FLOAT, INT])
                return canon_bin("/", self.expr(env, lt, depth - 1, pure), F(r.choice(["2.0", "4.0", "0.5", "8.0"])))
            if c < 0.85 and self.o["calls"] and not pure:
                call = self.call(env, FLOAT, depth - 1)
                if call:
                    return call
            return self.leaf(env, t)

    def call(self, env, t, depth):
        cands = [f for f in self.funcs if f[2] == t]
        if not cands:
            return None
        name, params, _ = self.rng.choice(cands)
        # an int argument may be passed for a float parameter (converted); never float -> int
        ats = [p if (p == INT or self.rng.random() < 0.7) else INT for p in params]

        def cost(sig):
            return sum(1 for a, q in zip(ats, sig) if a != q) if len(sig) == len(ats) else None
        # every declared signature counts for ambiguity, including the function whose body is being generated (not yet callable)
        others = [cost(sig) for (n2, sig) in getattr(self, 'sigs', []) + [(f[0], f[1]) for f in self.funcs] if n2 == name and sig != params]
        if any(c is not None and c <= cost(params) for c in others):
            ats = list(params)          # keep the resolution unambiguous: exact match
        args = [self.expr(env, at, min(depth, 1), pure=True) for at in ats]
        if (name, tuple(params)) in getattr(self, 'recursive_sigs', set()):
            # the recursion counter of a recursive function: a small constant, so that run time stays bounded whatever
            # the globals hold (a deep, slow but terminating recursion is indistinguishable from a hang within the time limit)
            args[0] = I(self.rng.randrange(0, 5))
        return Call(name, args)

    # ---------------------------------------------------------------- statements
    def assign(self, env):
        r = self.rng
        t = FLOAT if (self.o["floats"] and r.random() < 0.4) else INT
        lvs = self.lvalues(env, t)
        if not lvs:
            return None
        lv = r.choice(lvs)
        op = r.choice(["=", "=", "=", "+=", "-=", "*="] + (["/="] if t == FLOAT else []))
        rhs = self.expr(env, t, 2) if op != "*=" else (I(r.choice([2, 3, -1])) if t == INT else F(r.choice(["2.0", "0.5", "1.5"])))
        if op == "/=":
            rhs = F(r.choice(["2.0", "4.0"]))
        return ES(A(lv, rhs, op))

    def block(self, env, depth, in_loop, n=None):
        inner = Env(env)
        inner.bounds = dict(getattr(env, "bounds", {}))
        out = []
        for _ in range(n if n is not None else self.rng.choice([1, 2, 2, 3])):
            s = self.stmt(inner, depth, in_loop)
            if s is not None:
                out.extend(s if isinstance(s, list) else [s])
        return Block(out)

    def stmt(self, env, depth, in_loop):
        r = self.rng
        c = r.random()
        if depth <= 0 or c < 0.35:
            c2 = r.random()
            if c2 < 0.3:
                t = FLOAT if (self.o["floats"] and r.random() < 0.4) else INT
                x = self.fresh()
                init = self.expr(env, t, 2) if r.random() < 0.7 else None
                env.vars[x] = t
                return Decl(t, x, init)
            if c2 < 0.38 and self.o["arrays"]:
                t = r.choice([INT, FLOAT]) if self.o["floats"] else INT
                dims = r.choice([[2], [3], [4], [2, 3], [2, 2]])
                x = self.fresh("a")
                env.vars[x] = ("arr", t, dims)
                return Decl(t, x, None, dims=dims)
            if c2 < 0.44 and self.o["structs"] and self.structs:
                sn = r.choice(sorted(self.structs))
                x = self.fresh("s")
                env.vars[x] = ("struct", sn)
                return Decl(sn, x, None)
            if c2 < 0.8:
                return self.assign(env)
            if c2 < 0.85 and self.o["calls"] and self.funcs:
                call = self.call(env, r.choice([f[2] for f in self.funcs]), 1)
                if call:
                    return ES(call)
            if c2 < 0.92 and self.o["side"]:
                ws = self.scalars(env, INT, writable=True) + (self.scalars(env, FLOAT, writable=True) if self.o["floats"] else [])
                if ws:
                    x = r.choice(ws)
                    return ES(r.choice([Pre("++", x), Post("++", x), Pre("--", x), Post("--", x)]))
            if in_loop and c2 < 0.97:
                return If(self.expr(env, INT, 1, pure=True), r.choice([Break(), Continue()]) if r.random() < 0.5 else Block([r.choice([Break(), Continue()])]))
            return self.assign(env)
        if c < 0.45:
            return self.block(env, depth - 1, in_loop)
        if c < 0.62:
            cond = self.expr(env, INT, 2, pure=r.random() < 0.8)
            t = self.block(env, depth - 1, in_loop)
            f = self.block(env, depth - 1, in_loop) if r.random() < 0.5 else None
            return If(cond, t, f)
        k = r.choice([0, 1, 2, 3, 3, 4])
        if c < 0.78:
            i = self.fresh("i")
            inner = Env(env); inner.bounds = dict(getattr(env, "bounds", {})); inner.bounds[i] = k
            inner.vars[i] = INT; inner.readonly.add(i)
            body = self.block(inner, depth - 1, True)
            nxt = r.choice([Pre("++", i), Post("++", i), A(V(i), B("+", V(i), I(1))), A(V(i), I(1), "+=")])
            return For(Decl(INT, i, I(0)), B("<", V(i), I(k)), nxt, body)
        w = self.fresh("w")
        env.vars[w] = INT
        inner = Env(env); inner.bounds = dict(getattr(env, "bounds", {})); inner.readonly.add(w)
        if c < 0.9:
            body = self.block(inner, depth - 1, True)
            body["b"].insert(0, ES(A(V(w), B("+", V(w), I(1)))))
            return [Decl(INT, w, I(0)), While(B("<", V(w), I(k)), body)]
        body = self.block(inner, depth - 1, True)
        body["b"].insert(0, ES(A(V(w), B("+", V(w), I(1)))))
        return [Decl(INT, w, I(0)), Do(body, B("<", V(w), I(k)))]

    # ---------------------------------------------------------------- functions / module
    def function(self, name, params, ret, genv, export, recursive=False):
        env = Env(genv)
        env.bounds = {}
        for t, n in params:
            env.vars[n] = t
        if recursive:
            env.readonly.add(params[0][1])      # the recursion counter: statements before the call must not reset it
        body = []
        stmts = []
        for _ in range(self.rng.choice([1, 2, 3, 4])):
            s = self.stmt(env, self.max_depth, False)
            if s is not None:
                stmts.extend(s if isinstance(s, list) else [s])
        if recursive:
            # bounded recursion on the first (int) parameter; the recursive call sits between statements that
            # declare locals before it and read them (and the parameters) after it
            p0 = params[0][1]
            guard = If(B("<=", V(p0), I(0)), Block([Ret(self.expr(Env(genv), ret, 0, pure=True))]))
            cut = self.rng.randrange(len(stmts) + 1)
            before = [x for x in stmts[:cut]]
            penv = Env(genv)        # only parameters and globals: locals of the later statements are not declared yet at the call
            penv.bounds = {}
            for t, n in params:
                penv.vars[n] = t
            rec = Call(name, [B("-", V(p0), I(1))] + [self.expr(penv, t, 1, pure=True) for t, _ in params[1:]])
            x = self.fresh()
            after_env_decl = Decl(ret, x, rec)
            env.vars[x] = ret
            body = [guard] + before + [after_env_decl] + stmts[cut:]
            # make sure something computed before the call is read after it
            pre = [n for n, ty in env.all().items() if ty in (INT, FLOAT) and n != x]
            if pre:
                y = self.rng.choice(pre)
                body.append(ES(A(V(x), canon_bin("+", V(x), V(y)) if env.all()[y] == ret or ret == FLOAT else V(x))))
        else:
            body = stmts
        body.append(Ret(self.expr(env, ret, 2)))
        return Func(name, [Arg(t, n) for t, n in params], ret, Block(body), export=export)

    def module(self):
        r = self.rng
        self.counter = 0
        self.funcs, self.structs = [], {}
        self.sigs = []
        self.recursive_sigs = set()
        items = []
        genv = Env()
        types = [INT, FLOAT] if self.o["floats"] else [INT]
        if self.o["structs"] and r.random() < 0.5:
            fields = [(r.choice(types), "m%d" % k) for k in range(r.choice([1, 2, 3]))]
            self.structs["S0"] = fields
            items.append(Struct("S0", [{"t": t, "n": n} for t, n in fields]))
        globs = []
        if self.o["globals"]:
            for k in range(r.choice([0, 1, 2, 3])):
                t = r.choice(types)
                if self.o["arrays"] and r.random() < 0.25:
                    dims = r.choice([[2], [3]])
                    genv.vars["g%d" % k] = ("arr", t, dims); items.append(Global(t, "g%d" % k, dims)); globs.append(("g%d" % k, t, dims))
                else:
                    genv.vars["g%d" % k] = t; items.append(Global(t, "g%d" % k)); globs.append(("g%d" % k, t, None))
        helpers = []
        if self.o["calls"]:
            # all signatures are fixed first (a later overload must not make an earlier call ambiguous); bodies are generated
            # afterwards and may only call functions generated before them
            planned = []
            for k in range(r.choice([0, 1, 2, 3])):
                nparams = r.choice([1, 1, 2])
                ret = r.choice(types)
                name = r.choice(["h", "h", "k"])      # repeated names give overload sets
                pts = [r.choice(types) for _ in range(nparams)]
                if any(f[0] == name and f[1] == pts for f in planned):
                    continue
                if any(f[0] == name and len(f[1]) == len(pts) for f in planned) and INT in pts and FLOAT in pts:
                    continue    # keep overload sets unambiguous for int->float argument conversion
                recursive = pts[0] == INT and r.random() < 0.3
                planned.append((name, pts, ret, recursive))
                if recursive:
                    self.recursive_sigs.add((name, tuple(pts)))
                self.sigs.append((name, pts))
            for name, pts, ret, recursive in planned:
                # a helper whose name is not overloaded may be exported too: calls from NSL code to exported functions (recursive ones included)
                exp = sum(1 for f in planned if f[0] == name) == 1 and r.random() < 0.3
                fn = self.function(name, [(t, "p%d" % j) for j, t in enumerate(pts)], ret, genv, exp, recursive)
                self.funcs.append((name, pts, ret))
                helpers.append(fn)
        # avoid ambiguous calls: drop overloads that differ only by int/float when an int argument could match both
        items += helpers
        nexp = r.choice([1, 1, 2])
        exported = []
        for k in range(nexp):
            pts = [r.choice(types) for _ in range(r.choice([0, 1, 2, 3]))]
            ret = r.choice(types)
            fn = self.function("f%d" % k, [(t, "x%d" % j) for j, t in enumerate(pts)], ret, genv, True)
            items.append(fn)
            exported.append(("f%d" % k, [(t, "x%d" % j) for j, t in enumerate(pts)]))
            if self.o["calls"] and pts:
                self.funcs.append(("f%d" % k, pts, ret)); self.sigs.append(("f%d" % k, pts))     # a later exported function may call this one
        return Module(items), exported, globs

    def value(self, t, dims=None):
        r = self.rng
        if dims:
            return [self.value(t, dims[1:]) for _ in range(dims[0])]
        if t == INT:
            return r.choice([-9, -3, -1, 0, 0, 1, 2, 3, 4, 7, 20])
        return r.choice([-2.5, -1.0, 0.0, 0.5, 1.0, 1.5, 3.0, 0.25])

    def calls(self, exported, globs, n):
        out = []
        for k in range(n):
            fn, params = self.rng.choice(exported)
            out.append({"fn": fn, "args": {x: self.value(t) for t, x in params},
                        "globals": {g: self.value(t, d) for g, t, d in globs} if k == 0 or self.rng.random() < 0.3 else {},
                        "read_globals": [g for g, _, _ in globs]})
        return out
