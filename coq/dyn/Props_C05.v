(** * C05 -- Accepted programs do not go wrong. *)
From Coq Require Import String ZArith List Bool Arith.
From NSL Require Import Model.PyNum Model.IR Model.VM Model.WfIR Proofs.WfIRProofs Proofs.ScalarSafeProofs.
From NSLDyn Require Gen_Shapes.
Import ListNotations.

(** PARTIAL.  Proved: one class of internal errors is excluded for every execution of every IR program that passes
    the well-formedness check of C14 (applied to every compiled module there): an operand that no executed
    instruction defined, a branch to a missing block, a call of a missing function.  The remaining classes (an
    instruction applied to a value of the wrong shape, an opcode without an arm, a failing lowering) are explored,
    not proved: the check enumerates the type-level families of the language through the real compiler and VM. *)
Theorem C05_no_undefined_operand : forall fuel P fn named st, wf_program_b P = true ->
    find_func P fn <> None -> ~ bad (invoke fuel P fn named st).
Proof. exact wf_invoke_sound. Qed.

(** PARTIAL (the scalar fragment, every error class).  For IR programs whose functions consist of scalar loads and stores of
    globals / arguments / locals, scalar arithmetic, comparisons and logic, casts to scalar types, declarations of scalar
    locals, two-way branches, calls and value returns, and end in a return (the boolean checker [fn_safe_b], evaluated by
    the check on the real compiler's IR of every generated scalar program): started on numeric arguments with numeric
    globals, no execution of the VM model, at any call depth and for any number of steps, fails with TypeError,
    AssertionError, an internal compiler error, AttributeError or an unhandled opcode; what can still be raised is
    ZeroDivisionError, the lookup errors excluded by C05_no_undefined_operand, and ValueError / OverflowError of
    int(nan) / int(inf).  Missing for the full statement: vectors, matrices, arrays, structures (heap values). *)
Theorem C05_scalar_fragment_safe_partial : forall P fuel fn named st,
    (forall f G, find_func P f = Some G -> fn_safe_b G = true) -> numeric_globals st ->
    (forall F a, find_func P fn = Some F -> In a (fn_args F) -> exists v, slookup (fst a) named = Some v /\ numeric v) ->
    match invoke fuel P fn named st with
    | Fail e => e <> EType /\ e <> EAssert /\ e <> EICE /\ e <> EAttr /\ e <> EUnhandledOpcode
    | Done v st' => numeric v /\ numeric_globals st'
    | _ => True
    end.
Proof.
  intros P fuel fn named st HP Hg Ha. pose proof (invoke_scalar_safe P fuel fn named st HP Hg Ha) as H.
  destruct (invoke fuel P fn named st); try exact H; try exact I. cbn in H. unfold terr in H. tauto.
Qed.

Theorem C05_gate_shapes : Gen_Shapes.shape_compiler_checked = true /\ Gen_Shapes.shape_pass_checked = true.
Proof. split; reflexivity. Qed.

Eval compute in "ASSUMPTIONS C05_no_undefined_operand"%string. Print Assumptions C05_no_undefined_operand.
Eval compute in "ASSUMPTIONS C05_scalar_fragment_safe_partial"%string. Print Assumptions C05_scalar_fragment_safe_partial.
Eval compute in "END"%string.
