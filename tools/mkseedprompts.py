#!/usr/bin/env python3
"""usage: tools/mkseedprompts.py <round tag, e.g. 4> <prop ids...>
Creates /tmp/seedwt<tag>/<id> (scratch worktree of /repo HEAD), /tmp/seedout<tag>/<id> and the task text /tmp/seedprompts<tag>/<id>.txt for an
independent sub-agent: the text holds the property and what earlier seeded changes did -- nothing from /verif's machinery."""
import json, os, subprocess, sys
tag, ids = sys.argv[1], sys.argv[2:]
WT, OUT, PR = "/tmp/seedwt" + tag, "/tmp/seedout" + tag, "/tmp/seedprompts" + tag
for d in (WT, OUT, PR):
    os.makedirs(d, exist_ok=True)
prev = {}
for d in sorted(os.listdir('/verif/seeded')):
    m = json.load(open('/verif/seeded/%s/meta.json' % d)); prev.setdefault(d.split('-')[0], []).append(m['summary'][:220].replace('\n', ' '))
props = {}
for l in open('/verif/properties.jsonl'):
    d = json.loads(l); props[d['id']] = d
for p in ids:
    subprocess.run(["git", "-C", "/repo", "worktree", "add", "-q", "--detach", "%s/%s" % (WT, p), "HEAD"], check=True)
    os.makedirs("%s/%s" % (OUT, p), exist_ok=True)
    d = props[p]
    h = " ; ".join("(%d) %s" % (i + 1, x) for i, x in enumerate(prev.get(p, [])))
    w, o = "%s/%s" % (WT, p), "%s/%s" % (OUT, p)
    text = f"""You are helping to evaluate how sensitive a project's quality checks are. You work ONLY inside the git worktree {w} (a checkout of a small Python project: NSL, a toy shading-language compiler: PLY parser, AST passes, lowering to a linear IR, IR optimisations, a Python VM, a WebAssembly emitter). Do not read or write anything outside {w} and {o}. Never use `git stash` (the stash is shared with other worktrees); to compare with the original code use `git diff > {o}/patch.diff` and `git apply -R {o}/patch.diff` / `git apply {o}/patch.diff`. Do not commit.

The project is supposed to satisfy this semantic property:

ID: {p}
TITLE: {d['title']}
STATEMENT: {d['statement']}
QUANTIFIER: {d['quantifier']['text']}
WHY TESTS CANNOT SETTLE IT: {d['why_tests_cant']}
CODE ANCHORS: {json.dumps(d['anchors']['mechanism'])}

Your task: make ONE small, realistic change to the source under {w}/nsl (the kind of change a maintainer might make in good faith: a refactoring, a micro-optimisation, a 'simplification', a bug fix that goes slightly wrong) such that
  (a) the package still imports and the existing test suite still passes completely: `cd {w} && /venv/bin/python -m pytest -q -p no:cacheprovider` must report 82 passed;
  (b) the property above is now VIOLATED for some inputs (not for all inputs: ordinary programs should still work) - prefer a SUBTLE violation that needs a specific combination of features or values to show;
  (c) the change is not a syntax error, not dead code, not a comment, and does not touch the tests.
Earlier experiments already tried the following changes - do something clearly different, in another function or about another aspect of the property: {h}
The files use CRLF line endings and some start with a BOM: preserve both (check `git diff --stat` shows only the lines you meant to change).

Deliverables, all in {o}/ :
  1. patch.diff  = `git diff` of your change against HEAD (the worktree must still contain the change when you finish).
  2. demo.py     = a standalone script that, when run as `PYTHONPATH={w} /venv/bin/python {o}/demo.py`, exercises the property on concrete inputs through the project's public API (nsl.Compiler.Compiler().Compile(source, options), nsl.LinearIR.Linker, nsl.VM.VirtualMachine(program).Invoke(name, **args), SetGlobal/GetGlobal, result.WasmModule.WriteTo(buffer), nsl.parser.NslParser().Parse, nsl.ast.SourceMapping ...) and exits with status 0 and prints PASS on the ORIGINAL code but exits with status 1 and prints FAIL (with the concrete failing input) on the CHANGED code. It must only import from the `nsl` package and the standard library, and must not hard-code the worktree path (use the PYTHONPATH).
  3. meta.json   = {{"property": "{p}", "summary": "<what you changed and why it violates the property>", "needs": "<what kind of input exposes it, and what still works>", "files_changed": [...], "ran": ["<commands you ran and their outcome>"]}}
Verify all three claims yourself before finishing (tests with the change: 82 passed; demo on original: exit 0; demo on changed code: exit 1). Finish with a two-line report: what you changed, and the verification results."""
    open('%s/%s.txt' % (PR, p), 'w').write(text)
print('ok', ids)
