"""C16 -- Separately compiled, imported and linked modules behave like one program."""
import os, itertools, json
import shapes, nslgen, vmcases, ircoq
from nslgen import *
from common import parse_coq_values, coq_list

STATIC = ["Model/Linker.v", "Proofs/LinkerProofs.v", "Model/VM.v"]

HEADER = vmcases.HEADER + """From NSL Require Import Model.Linker.
Definition mk (fs gs : list string) (imports : list string) (tag : nat) : lmodule :=
  {| lm_funcs := map (fun k => (k, tag)) fs; lm_globals := map (fun k => (k, tag)) gs; lm_imports := imports |}.
Fixpoint lookup (l : list (string * lmodule)) (x : string) : option lmodule :=
  match l with [] => None | (k, m) :: r => if String.eqb k x then Some m else lookup r x end.
Fixpoint insert_sorted (x : string) (l : list string) : list string :=
  match l with [] => [x] | y :: r => if String.leb x y then x :: l else y :: insert_sorted x r end.
Definition sort_str (l : list string) : list string := fold_right insert_sorted [] l.
Definition str_list_eqb (a b : list string) : bool := if list_eq_dec string_dec a b then true else false.
(* outcome of the real linker: ok?, function keys, global keys, loader trace (in call order) *)
Definition link_chk (mods : list (string * lmodule)) (adds : list string) (ok : bool) (fnkeys gkeys trace : list string) : Z :=
  match link_modules 200 (lookup mods) (flat_map (fun a => match lookup mods a with Some m => [m] | None => [] end) adds) with
  | LinkOk st =>
      if ok && str_list_eqb (sort_str (map fst (ls_funcs st))) (sort_str fnkeys) && str_list_eqb (map fst (ls_funcs st)) fnkeys
            && str_list_eqb (map fst (ls_globals st)) gkeys && str_list_eqb (rev (ls_loaded st)) trace then 0 else 100
  | LinkFail => if ok then 100 else 0
  | LinkFuel => 400
  end.
"""


class Gen:
    def __init__(self, rng):
        self.rng = rng

    def program(self):
        """functions F0..Fn-1 (a function calls lower-numbered ones only, or itself recursively), globals owned by single
        functions' modules; returns (funcs, partition, ...)"""
        r = self.rng
        n = r.choice([3, 4, 5, 6])
        k = r.choice([2, 3, 4]) if n > 2 else 2
        k = min(k, n)
        # module of each function; every module gets at least one function
        owner = list(range(k)) + [r.randrange(k) for _ in range(n - k)]
        owner.sort()      # calls go to lower-numbered functions, so imports go to lower-numbered modules: a DAG
        globs = {m: ["g%d" % m] if r.random() < 0.6 else [] for m in range(k)}
        funcs = []
        self.ov_mods = [m for m in range(k - 1) if r.random() < 0.4]     # modules that define a non-exported overload pair ov<m>(int) / ov<m>(float)
        self.ov_uses = []
        self.st_mods = [m for m in range(k - 1) if r.random() < 0.35]     # modules that define a structure S<m> and functions taking / returning it (and a float2)
        for i in range(n):
            callees = [j for j in range(i) if r.random() < 0.5]
            body = [Decl("int", "t", B("+", B("*", V("a"), I(r.choice([2, 3, 5]))), V("b")))]
            for j in callees:
                body.append(ES(A(V("t"), B("+", V("t"), Call("F%d" % j, [V("a"), V("t") if r.random() < 0.5 else B("-", V("b"), I(1))])))))
            if r.random() < 0.3:
                # bounded self recursion
                body.insert(0, If(B("<=", V("a"), I(0)), Block([Ret(V("b"))])))
                body.append(ES(A(V("t"), B("+", V("t"), Call("F%d" % i, [B("-", V("a"), I(1)), V("b")])))))
            for g in globs[owner[i]]:
                if r.random() < 0.7:
                    body.append(ES(A(V(g), B("+", V(g), V("t")))))
                    body.append(ES(A(V("t"), B("-", V("t"), V(g)))))
            # calls into an overload set that lives in a lower module: the int and the float version differ
            for om in self.ov_mods:
                if om <= owner[i] and r.random() < 0.6:
                    body.append(ES(A(V("t"), B("+", V("t"), Call("ov%d" % om, [V("b")])))))
                    body.append(ES(A(V("t"), B("+", V("t"), B(">", Call("ov%d" % om, [F("1.5")]), F("1.0"))))))
                    self.ov_uses.append((i, om))
            # structure- and vector-typed signatures across modules: the value is built here, passed to / returned by functions of a lower module
            for sm in self.st_mods:
                if sm <= owner[i] and r.random() < 0.6:
                    body.append(Decl("S%d" % sm, "s%d" % sm))
                    body.append(ES(A(Mem(V("s%d" % sm), "a"), V("b"))))
                    body.append(ES(A(Mem(V("s%d" % sm), "b"), F("1.5"))))
                    body.append(ES(A(V("t"), B("+", V("t"), Call("use%d" % sm, [V("s%d" % sm)])))))
                    body.append(ES(A(V("t"), B("+", V("t"), Call("use%d" % sm, [Call("mk%d" % sm, [V("a")])])))))
                    body.append(ES(A(V("t"), B("+", V("t"), Call("vs%d" % sm, [Ctor("float2", [V("a"), F("0.5")])])))))
                    self.ov_uses.append((i, sm))
            body.append(Ret(V("t")))
            funcs.append((i, callees, Func("F%d" % i, [Arg("int", "a"), Arg("int", "b")], "int", Block(body), export=True)))
        return funcs, owner, globs, k

    def shaped(self, edges, k):
        """one function per module, calling the functions of the modules it imports: the given import graph exactly"""
        r = self.rng
        owner = list(range(k))
        globs = {m: ["g%d" % m] if r.random() < 0.5 else [] for m in range(k)}
        funcs = []
        self.ov_mods, self.ov_uses, self.st_mods = [], [], []
        for i in range(k):
            callees = sorted(j for (a, j) in edges if a == i)
            body = [Decl("int", "t", B("+", B("*", V("a"), I(r.choice([2, 3, 5]))), V("b")))]
            for j in callees:
                body.append(ES(A(V("t"), B("+", V("t"), Call("F%d" % j, [V("a"), V("t") if r.random() < 0.5 else B("-", V("b"), I(1))])))))
            for g in globs[i]:
                body.append(ES(A(V(g), B("+", V(g), V("t")))))
                body.append(ES(A(V("t"), B("-", V("t"), V(g)))))
            body.append(Ret(V("t")))
            funcs.append((i, callees, Func("F%d" % i, [Arg("int", "a"), Arg("int", "b")], "int", Block(body), export=True)))
        return funcs, owner, globs, k

    def split(self, funcs, owner, globs, k):
        mods, imports, single = self.split0(funcs, owner, globs, k)
        # module names: flat, or path-like names whose last components coincide (different directories)
        scheme = self.rng.choice(["flat", "flat", "dirs"])
        if scheme == "flat":
            return mods, imports, single, {m: "m%d" % m for m in range(k)}
        dirs = ["core", "gfx", "math", "app", "io"]
        names = {m: "%s/%s" % (dirs[m % len(dirs)], self.rng.choice(["util", "util", "m%d" % m])) for m in range(k)}
        out = {}
        for m in range(k):
            text = mods["m%d" % m]
            for j in range(k):
                text = text.replace('import "m%d";' % j, 'import "%s";' % names[j])
            out[names[m]] = text
        return out, imports, single, names

    def split0(self, funcs, owner, globs, k):
        mods = {}
        imports = {m: set() for m in range(k)}
        for i, callees, f in funcs:
            for j in callees:
                if owner[j] != owner[i]:
                    imports[owner[i]].add(owner[j])
        for (i, om) in getattr(self, "ov_uses", []):
            if owner[i] != om:
                imports[owner[i]].add(om)
        def overloads(m):
            if m not in getattr(self, "ov_mods", []):
                return []
            return [Func("ov%d" % m, [Arg("int", "a")], "int", Block([Ret(B("+", B("*", V("a"), I(2)), I(m + 1)))])),
                    Func("ov%d" % m, [Arg("float", "a")], "float", Block([Ret(B("*", V("a"), F("0.5")))]))]
        def structs(m):
            if m not in getattr(self, "st_mods", []):
                return [], []
            S = "S%d" % m
            return ([Struct(S, [{"t": "int", "n": "a"}, {"t": "float", "n": "b"}])],
                    [Func("mk%d" % m, [Arg("int", "a")], S, Block([Decl(S, "r"), ES(A(Mem(V("r"), "a"), B("+", V("a"), I(m + 2)))), ES(A(Mem(V("r"), "b"), F("2.5"))), Ret(V("r"))])),
                     Func("use%d" % m, [Arg(S, "s")], "int", Block([Ret(B("+", B("*", Mem(V("s"), "a"), I(3)), B(">", Mem(V("s"), "b"), F("2.0"))))])),
                     Func("vs%d" % m, [Arg("float2", "v")], "int", Block([Ret(B(">", B("+", Idx(V("v"), I(0)), Idx(V("v"), I(1))), F("2.0")))]))])
        for m in range(k):
            items = structs(m)[0] + [Global("int", g) for g in globs[m]] + overloads(m) + structs(m)[1] + [f for i, c, f in funcs if owner[i] == m]
            text, _ = nslgen.render(Module(items), "canonical", self.rng)
            mods["m%d" % m] = "".join('import "m%d";\n' % j for j in sorted(imports[m])) + text
        single_items = [x for m in range(k) for x in structs(m)[0]] + [Global("int", g) for m in range(k) for g in globs[m]] + [f for m in range(k) for f in overloads(m)] + \
                       [f for m in range(k) for f in structs(m)[1]] + [f for _, _, f in funcs]
        single, _ = nslgen.render(Module(single_items), "canonical", self.rng)
        return mods, imports, single


def topo(imports, k):
    done, order = set(), []
    def visit(m):
        if m in done:
            return
        done.add(m)
        for j in sorted(imports[m]):
            visit(j)
        order.append(m)
    for m in range(k):
        visit(m)
    return order


def reach(imports, roots):
    seen, todo = set(), list(roots)
    while todo:
        x = todo.pop()
        for j in imports[x]:
            if j not in seen:
                seen.add(j); todo.append(j)
    return seen


def run(ctx):
    ctx.static_obligations(STATIC)
    repo = ctx.sync_repo(1)[0]
    shapes.write(ctx, repo, ["linker", "compiler", "pass", "visitor"])
    ctx.compile_dyn(["Gen_Shapes", "Props_C16"])
    rng = ctx.rng
    quick = ctx.tier == "quick"
    g = Gen(rng)
    jobs, meta = [], []
    SHAPES = [("chain4", [(3, 2), (2, 1), (1, 0)], 4), ("diamond", [(3, 1), (3, 2), (1, 0), (2, 0)], 4), ("two-roots-shared", [(1, 0), (2, 0)], 3),
              ("three-roots-shared", [(1, 0), (2, 0), (3, 0)], 4), ("two-roots-diamond", [(3, 1), (3, 2), (4, 1), (4, 2), (1, 0), (2, 0)], 5),
              ("independent", [], 3), ("chain-plus-root", [(2, 1), (1, 0), (3, 0)], 4), ("transitive-and-direct", [(2, 1), (2, 0), (1, 0)], 3)]
    ncases = 40 if quick else 600
    for case in range(ncases + len(SHAPES) * (2 if quick else 20)):
        if case < ncases:
            funcs, owner, globs, k = g.program()
        else:
            nm, edges, kk = SHAPES[(case - ncases) % len(SHAPES)]
            funcs, owner, globs, k = g.shaped(edges, kk)
        mods, imports, single, names = g.split(funcs, owner, globs, k)
        # the modules nobody imports must be added; any other module may be added too only if nothing added reaches it
        sources = [m for m in range(k) if not any(m in imports[j] for j in range(k))]
        adds = []
        perms = list(itertools.permutations(sources))
        if len(perms) > 6:
            perms = rng.sample(perms, 6)
        for p in perms:
            adds.append([names[m] for m in p])
        kind = "split"
        extra = [m for m in range(k) if m not in sources]
        if extra and rng.random() < 0.3:
            # a module that is both added and imported: its definitions arrive twice
            adds.append([names[m] for m in sources] + [names[rng.choice(extra)]])
            adds.append([names[rng.choice(extra)]] + [names[m] for m in sources])
            kind = "split+added-and-imported"
        gl = [x for m in range(k) for x in globs[m]]
        calls = [{"fn": "F%d" % rng.randrange(len(funcs)), "args": {"a": rng.randrange(0, 4), "b": rng.randrange(-3, 6)},
                  "globals": {x: rng.randrange(-5, 6) for x in gl} if c == 0 else {}, "read_globals": gl} for c in range(4)]
        jobs.append({"modules": mods, "order": [names[m] for m in topo(imports, k)], "adds": adds, "calls": calls, "single": single, "opts": {"optimize": case % 2 == 1}})
        meta.append((kind, mods, imports, k))
    # duplicate definitions: the same function / the same global in two modules that are both linked
    for dup in ("function", "global", "function-via-import"):
        for case in range(4 if quick else 30):
            a = 'int ga; export function F0(int a, int b) -> int { return a + b; }'
            b = ('export function F0(int a, int b) -> int { return a - b; }' if dup != "global" else 'int ga; export function F1(int a, int b) -> int { return a - b; }')
            c = 'import "m0"; export function F2(int a, int b) -> int { return F0(a, b); }'
            if dup == "function-via-import":
                mods = {"m0": a, "m1": b, "m2": c}
                adds = [["m1", "m2"], ["m2", "m1"]]
                order = ["m0", "m1", "m2"]
            else:
                mods = {"m0": a, "m1": b}
                adds = [["m0", "m1"], ["m1", "m0"]]
                order = ["m0", "m1"]
            jobs.append({"modules": mods, "order": order, "adds": adds, "calls": [{"fn": "F0", "args": {"a": 5, "b": 2}}], "single": a, "opts": {}})
            meta.append(("duplicate-" + dup, mods, None, len(mods)))
    res = ctx.run_impl("c16_impl.py", jobs, nworkers=16)
    blocks, bmeta, direct_bad = [], [], []
    dist = {}
    for ci, ((kind, mods, imports, k), j, r) in enumerate(zip(meta, jobs, res)):
        bad_mod = [n for n, m in r["modules"].items() if "error" in m]
        if bad_mod:
            direct_bad.append((kind, j, {"what": "a module of a well-formed split did not compile", "module": bad_mod[0], "error": r["modules"][bad_mod[0]]["error"]})); continue
        if not r["single"]["ok"]:
            direct_bad.append((kind, j, {"what": "the single-module program did not compile", "error": r["single"]["error"]})); continue
        mods_coq = coq_list(['(%s, mk %s %s %s %d%%nat)' % (ircoq.s(n), coq_list([ircoq.s(x) for x in m["fnkeys"]]), coq_list([ircoq.s(x) for x in m["globals"]]),
                                                                    coq_list([ircoq.s(x) for x in m["imports"]]), i) for i, (n, m) in enumerate(sorted(r["modules"].items()))])
        defs = "Definition mods_%d := %s.\n" % (ci, mods_coq)
        exprs = []
        first_ok = None
        for li, l in enumerate(r["links"]):
            dist["%s:%s" % (kind, "linked" if l["ok"] else "rejected")] = dist.get("%s:%s" % (kind, "linked" if l["ok"] else "rejected"), 0) + 1
            exprs.append("link_chk mods_%d %s %s %s %s %s" % (ci, coq_list([ircoq.s(a) for a in l["adds"]]), "true" if l["ok"] else "false",
                                                            coq_list([ircoq.s(x) for x in l.get("fnkeys", [])]), coq_list([ircoq.s(x) for x in l.get("globals", [])]),
                                                            coq_list([ircoq.s(x) for x in l.get("trace", [])])))
            imported_somewhere = {x for mm in r["modules"].values() for x in mm["imports"]}
            if l["ok"] and (kind.startswith("duplicate-") or (kind == "split+added-and-imported" and any(a in imported_somewhere for a in l["adds"]))):
                # the property itself: two definitions of the same function or global are rejected
                direct_bad.append((kind, j, {"what": "a link in which the same function or global is defined twice was accepted instead of rejected", "order_of_AddModule": l["adds"],
                                             "linked_functions": l.get("fnkeys"), "linked_globals": l.get("globals")}))
            if not l["ok"] and kind in ("split", "shaped") or (not l["ok"] and kind == "split+added-and-imported" and not any(a in imported_somewhere for a in l["adds"])):
                # a well-formed split (no definition arrives twice) whose single-module form compiles must link
                direct_bad.append((kind, j, {"what": "the linker rejected a well-formed split of a program that compiles as one module", "order_of_AddModule": l["adds"], "error": l.get("error")}))
            if l["ok"]:
                # behaviour: the linked program against the single-module program, and against the VM model on the linked IR
                prog = ircoq.program({"functions": l["ir"]["functions"], "globals": l["ir"]["globals"]})
                defs += "Definition P_%d_%d : program := %s.\n" % (ci, li, prog)
                calls = j["calls"]
                obs, exp = [], []
                for c, rr in zip(calls, l["calls"]):
                    obs.append(vmcases.coq_obs(rr, c.get("read_globals", [])))
                    if "fail" in rr:
                        break
                for c, rr in zip(calls, r["single"]["calls"]):
                    exp.append(vmcases.coq_obs(rr, c.get("read_globals", [])))
                    if "fail" in rr:
                        break
                cs = coq_list([vmcases.coq_call(c) for c in calls])
                exprs.append("run_case_expect fuel P_%d_%d %s %s %s" % (ci, li, cs, coq_list(obs), coq_list(exp)))
                if first_ok is None:
                    first_ok = l
                elif sorted(l["fnkeys"]) != sorted(first_ok["fnkeys"]):
                    direct_bad.append((kind, j, {"what": "two orders of AddModule give different function tables", "a": first_ok["fnkeys"], "b": l["fnkeys"]}))
        blocks.append((defs, "[" + "; ".join(exprs) + "]")); bmeta.append((kind, j, r))
    files = []
    per = 6
    for i in range(0, len(blocks), per):
        f = os.path.join(ctx.dyn, "cases_C16_%d.v" % (i // per))
        chunk = blocks[i:i + per]
        open(f, "w").write(HEADER + "".join(d for d, _ in chunk) + "Definition cases : list (list Z) := [\n  " + ";\n  ".join(e for _, e in chunk) + "].\nEval vm_compute in cases.\n")
        files.append(f)
    outs = ctx.eval_cases(files, timeout=900)
    codes = []
    for f in files:
        ok, out, err = outs[f]
        vals = parse_coq_values(out) if ok else []
        if not ok or not vals or not isinstance(vals[0], list):
            ctx.broken.append("correspondence: %s did not evaluate: %s" % (os.path.basename(f), err[-300:]))
            codes.extend([None] * min(per, len(blocks) - len(codes)))
        else:
            codes.extend(vals[0])
    bad_spec, bad_model = [], []
    for (kind, j, r), cl in zip(bmeta, codes):
        if cl is None:
            continue
        # link_chk gives 0 / 100 (differs) / 400 (fuel); run_case_expect gives bits 1 (VM model differs), 2 (differs from the single-module program), 4 (model skipped)
        if any(c < 100 and (c & 2) for c in cl):
            bad_spec.append((kind, j, r))
        elif any(c >= 100 or (c & 1) for c in cl):
            bad_model.append((kind, j, r, cl))
    nlinks = sum(len(r["links"]) for _, _, r in bmeta)
    ctx.cov["evaluations"] = nlinks
    ctx.cov["distinct_nontrivial"] = len({json.dumps(j["modules"], sort_keys=True) + str(a) for _, j, r in bmeta for a in j["adds"]})
    ctx.cov["programs"] = len(jobs)
    ctx.cov["rule"] = ("random call graphs of 3-6 int functions (calls to lower-numbered functions, bounded self recursion, module-private globals) partitioned over 2-4 modules; the import DAG is "
                       "the one the calls induce (chains, diamonds); every module is compiled separately by the real compiler in dependency order, stored as <name>.nslir and linked by import "
                       "with a counting loader, for every order (up to 6) of adding the modules nobody imports; some cases also add a module that is imported (its definitions arrive twice: "
                       "rejected); duplicate function / global definitions directly and via an import. Compared inside Coq: accept/reject, function and global key order, loader call trace with "
                       "NSL.Model.Linker; VM results and globals of the linked program with the single-module program (the specification) and with the VM model on the linked IR.")
    ctx.cov["samples"] = [{"kind": k, "modules": j["modules"], "adds": j["adds"][:2]} for k, j, r in (bmeta[:1] + bmeta[-1:])]
    ctx.extra["input_distribution"] = dict(sorted(dist.items()))
    ctx.extra["disagreements_checked"] = sum(len(c) for c in codes if c)
    if direct_bad:
        kind, j, what = direct_bad[0]
        ctx.violation("failing-input", dict(what, case_kind=kind, modules=j["modules"], single=j["single"], adds=j["adds"], count=len(direct_bad)))
    elif bad_spec:
        kind, j, r = bad_spec[0]
        ctx.violation("failing-input", {"what": "the linked multi-module program does not behave like the single-module program", "case_kind": kind, "modules": j["modules"], "single": j["single"],
                                        "adds": j["adds"], "calls": j["calls"], "linked": [l.get("calls") for l in r["links"]], "single_results": r["single"]["calls"], "count": len(bad_spec)})
    elif bad_model:
        kind, j, r, cl = bad_model[0]
        ctx.broken.append("correspondence: linker / VM differ from their models on %d case(s), e.g. modules %s adds %s codes %s" % (len(bad_model), json.dumps(j["modules"])[:300], j["adds"], cl))
