(** Non-vacuity of [flow_function_simulation]: a function with nested conditionals, a block and a compound assignment. *)
From Coq Require Import String ZArith List Bool PrimFloat.
From NSL Require Import Base.Types Base.Syntax Model.PyNum Model.IR Model.VM Model.Elab Model.Lower Spec.RefSem Proofs.OpsAgree
                        Proofs.LowerExprProofs Proofs.ElabExprProofs Proofs.ReturnExprProofs Proofs.CallAgreeProofs
                        Proofs.LowerStmtProofs Proofs.ElabStmtProofs Proofs.StraightLineProofs Proofs.FlowLowerProofs Proofs.FlowFuncProofs
                        Proofs.FlowElabProofs Proofs.FlowTableProofs Proofs.FlowSimProofs
                        Harness.FragLib Harness.FragLib2 Harness.FlowLib Harness.FlowLib2.
Import ListNotations.
Local Open Scope string_scope.

(** int g;
    export function f(int a, float b) -> float {
      float y = b * 0.5;
      if (a > 1) { y += a; if (g) { g = g - 1; } } else { a = a + 3; }
      { y = y - 0.5; }
      return y + a + g; } *)
Definition fs_body : list stmt :=
  [ SDecl tfloat "y" (Some (EBin OMul (EVar "b") (EFloat 0.5)));
    SIf (EBin OGt (EVar "a") (EInt 1))
        (SBlock [ SExpr (EAssign AAddEq (EVar "y") (EVar "a"));
                  SIf (EVar "g") (SBlock [SExpr (EAssign AAssign (EVar "g") (EBin OSub (EVar "g") (EInt 1)))]) None ])
        (Some (SBlock [ SExpr (EAssign AAssign (EVar "a") (EBin OAdd (EVar "a") (EInt 3))) ]));
    SBlock [ SExpr (EAssign AAssign (EVar "y") (EBin OSub (EVar "y") (EFloat 0.5))) ] ].
Definition fs_e : expr := EBin OAdd (EBin OAdd (EVar "y") (EVar "a")) (EVar "g").
Definition fs_fn : func := {| f_name := "f"; f_export := true; f_args := [(tint, "a"); (tfloat, "b")]; f_ret := tfloat; f_body := fs_body ++ [SRet (Some fs_e)] |}.
Definition fs_M : module := {| m_structs := []; m_globals := [(tint, "g")]; m_funcs := [fs_fn] |}.

Example fs_in_fragment : flowsrc_in_fragment fs_M fs_fn = true.
Proof. vm_compute. reflexivity. Qed.

Definition fs_static := Eval vm_compute in straight_static fs_M fs_fn.
Definition fs_F : ifunc := match fs_static with Some (_, _, _, F, _, _) => F | None => {| fn_name := ""; fn_args := []; fn_ret := ITVoid; fn_consts := []; fn_blocks := [] |} end.
Definition fs_tl : list tstmt := match fs_static with Some (_, _, _, _, tl, _) => tl | None => [] end.
Definition fs_te : texpr := match fs_static with Some (_, _, _, _, _, te) => te | None => XInt 0 end.
Definition fs_tf : tfunc := match fs_static with Some (_, _, tf, _, _, _) => tf | None => {| tf_name := ""; tf_args := []; tf_ret := TVoid; tf_body := [] |} end.

Example fs_lits_exact : lits_exact (flat_map tflits (flat_map (topexprs flow_depth) fs_tl ++ [fs_te])).
Proof. intros f f' Hf Hf' _. vm_compute in Hf, Hf'. destruct Hf as [<-|[<-|[]]]; destruct Hf' as [<-|[<-|[]]]; reflexivity. Qed.

Definition fs_ws : list rval := [RInt 3; RFloat 2.5%float].
Definition fs_g : RefSem.frame := [("g", SV (RInt 8))].
Definition fs_vs : vmstate := {| globals := [("g", VInt 8)]; hp := [] |}.

Example fs_conclusion : forall P,
  exists v vs', fst (match exec_list fs_M 14 (f_body fs_fn) (call_state fs_fn fs_ws fs_g) with RefSem.ROk p => p | _ => (ONormal, call_state fs_fn fs_ws fs_g) end) = OReturn (SV v) /\
                exists n, forall fuel', n <= fuel' -> run fuel' P fs_F 0 (call_frame fs_ws (init_regs fs_F)) fs_vs = Done (v_of v) vs'.
Proof.
  intros P.
  destruct (exec_list fs_M 14 (f_body fs_fn) (call_state fs_fn fs_ws fs_g)) as [[fl st']| | |] eqn:E; try (vm_compute in E; discriminate).
  assert (Hnan : forall q, In q (flat_map tflits (flat_map (topexprs flow_depth) fs_tl ++ [fs_te])) -> PrimFloat.eqb q q = true).
  { apply forallb_forall. vm_compute. reflexivity. }
  destruct (flow_function_simulation fs_M fs_fn flow_depth fs_body fs_e fs_tf fs_F eq_refl eq_refl eq_refl eq_refl eq_refl fs_tl fs_te eq_refl eq_refl eq_refl fs_lits_exact Hnan)
    with (P := P) (ws := fs_ws) (g := fs_g) (vs := fs_vs) (fuel := 14) (fl := fl) (st' := st') as (v & vs' & -> & Hrun & _).
  - repeat constructor; cbn; auto.
  - repeat constructor.
  - intros x Hx Hg. cbn in Hx, Hg. destruct Hg as [Hg|[]]. subst x. destruct Hx as [Hx|[Hx|[]]]; inversion Hx.
  - intros x p H. unfold genvl in H. cbn [fs_M m_globals map find fst snd] in H. destruct (String.eqb_spec "g" x) as [<-|Hne]; [|discriminate]. inversion H; subst p. cbn.
    split; [left; reflexivity|]. exists (RInt 8). repeat split; reflexivity.
  - exact E.
  - exists v, vs'. split; [reflexivity|exact Hrun].
Qed.

(** both sides evaluated *)
Example fs_values :
  (match exec_list fs_M 14 (f_body fs_fn) (call_state fs_fn fs_ws fs_g) with RefSem.ROk (OReturn (SV (RFloat x)), _) => Some x | _ => None end) = Some 13.75%float /\
  run 80 {| p_funcs := [fs_F]; p_globals := ["g"] |} fs_F 0 (call_frame fs_ws (init_regs fs_F)) fs_vs = Done (VFloat 13.75%float) {| globals := [("g", VInt 7)]; hp := [] |}.
Proof. repeat split; vm_compute; reflexivity. Qed.
