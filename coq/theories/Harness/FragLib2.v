(** Boolean membership test for the fragment of [straight_line_function_simulation] (C01), with its soundness lemma, and the
    composition with the forwarding theorem of C02. *)
From Coq Require Import String ZArith List Bool PrimFloat Arith.
From NSL Require Import Base.Types Base.Syntax Model.PyNum Model.IR Model.VM Model.Elab Model.Lower Model.Opt Spec.RefSem
                        Proofs.LowerExprProofs Proofs.ElabExprProofs Proofs.ReturnExprProofs Proofs.CallAgreeProofs
                        Proofs.LowerStmtProofs Proofs.ElabStmtProofs Proofs.StraightLineProofs Proofs.ForwardProofs Harness.FragLib Harness.FwdLib.
Import ListNotations.

Definition split_last_s {A} (l : list A) : option (list A * A) := match rev l with [] => None | x :: r => Some (rev r, x) end.
Lemma split_last_s_spec {A} (l : list A) pre x : split_last_s l = Some (pre, x) -> l = pre ++ [x].
Proof. unfold split_last_s. destruct (rev l) as [|y r] eqn:E; [discriminate|]. intros H. inversion H; subst. rewrite <- (rev_involutive l), E. reflexivity. Qed.

Definition fresh_decl_b (gl args : list string) (s : stmt) : bool :=
  match s with SDecl _ x _ => negb (existsb (String.eqb x) gl) && negb (existsb (String.eqb x) args) | _ => true end.

Definition straight_static (M : module) (fn : func) : option (list stmt * expr * tfunc * ifunc * list tstmt * texpr) :=
  match split_last_s (f_body fn) with
  | Some (l, SRet (Some e)) =>
      match elab_func (genv_of M) (genvl M) fn with
      | EOk tf =>
          match split_last_s (tf_body tf), lower_func (m_structs M) (glnames M) tf with
          | Some (tl, TRet (Some te)), LOk F => Some (l, e, tf, F, tl, te)
          | _, _ => None
          end
      | _ => None
      end
  | _ => None
  end.

Definition straight_in_fragment (M : module) (fn : func) : bool :=
  match straight_static M fn with
  | Some (l, e, tf, F, tl, te) =>
      forallb ssimple l && spure e && Nat.eqb (length tl) (length l) && forallb stok tl && tok te &&
      forallb (fun q => PrimFloat.eqb q q) (flat_map tflits (body_exprs tl ++ [te])) &&
      forallb (fresh_decl_b (glnames M) (argnames fn)) l &&
      forallb (fun p => negb (existsb (String.eqb (snd p)) (glnames M))) (f_args fn)
  | None => false
  end.

Lemma straight_in_fragment_sound M fn : straight_in_fragment M fn = true ->
  exists l e tf F tl te,
    f_body fn = l ++ [SRet (Some e)] /\ forallb ssimple l = true /\ spure e = true /\
    elab_func (genv_of M) (genvl M) fn = EOk tf /\ lower_func (m_structs M) (glnames M) tf = LOk F /\
    tf_body tf = tl ++ [TRet (Some te)] /\ length tl = length l /\ forallb stok tl = true /\ tok te = true /\
    (forall q, In q (flat_map tflits (body_exprs tl ++ [te])) -> PrimFloat.eqb q q = true) /\
    Forall (fresh_decl (glnames M) (argnames fn)) l /\ (forall x, In x (map snd (f_args fn)) -> ~ In x (glnames M)).
Proof.
  unfold straight_in_fragment, straight_static. intros H.
  destruct (split_last_s (f_body fn)) as [[l [| | |[e|]| | | | | |]]|] eqn:Eb; try discriminate. apply split_last_s_spec in Eb.
  destruct (elab_func (genv_of M) (genvl M) fn) as [tf| |] eqn:Ef; try discriminate.
  destruct (split_last_s (tf_body tf)) as [[tl [| | |[te|]| | | | | |]]|] eqn:Et; try discriminate. apply split_last_s_spec in Et.
  destruct (lower_func (m_structs M) (glnames M) tf) as [F| |] eqn:El; try discriminate.
  apply andb_prop in H as [H Hargs]. apply andb_prop in H as [H Hfresh]. apply andb_prop in H as [H Hnan]. apply andb_prop in H as [H Hkt].
  apply andb_prop in H as [H Hk]. apply andb_prop in H as [H Hlen]. apply andb_prop in H as [Hs Hp].
  exists l, e, tf, F, tl, te. split; [exact Eb|]. split; [exact Hs|]. split; [exact Hp|]. split; [reflexivity|]. split; [exact El|]. split; [exact Et|].
  split; [apply Nat.eqb_eq; exact Hlen|]. split; [exact Hk|]. split; [exact Hkt|]. split; [|split].
  - intros q Hq. rewrite forallb_forall in Hnan. apply Hnan. exact Hq.
  - rewrite forallb_forall in Hfresh. apply Forall_forall. intros s Hs'. specialize (Hfresh s Hs').
    destruct s; cbn in *; try exact I. apply andb_prop in Hfresh as [H1 H2]. apply negb_true_iff in H1, H2. auto.
  - intros x Hx Hg. rewrite forallb_forall in Hargs. apply in_map_iff in Hx as (p & <- & Hp'). specialize (Hargs p Hp').
    apply negb_true_iff in Hargs. rewrite (existsb_true_in _ _ Hg) in Hargs. discriminate.
Qed.

(** counts for the evidence: functions, inside the fragment, literal test passed, and those whose lowered IR is also in the
    fragment of the forwarding theorem (so that the optimised function provably returns the source value) *)
Definition straight_case (M : module) : Z :=
  let inside := filter (straight_in_fragment M) (m_funcs M) in
  let exact := filter (fun fn => match straight_static M fn with Some (_, _, _, _, tl, te) => lits_exact_b (flat_map tflits (body_exprs tl ++ [te])) | None => false end) inside in
  let fwd := filter (fun fn => match straight_static M fn with Some (_, _, _, F, _, _) => fwd_fragment_b F | None => false end) exact in
  (Z.of_nat (length (m_funcs M)) * 1000000 + Z.of_nat (length inside) * 10000 + Z.of_nat (length exact) * 100 + Z.of_nat (length fwd))%Z.
