"""C13 -- Static checks on element selection: constant bounds, index type, swizzle mask."""
import os, itertools
from common import parse_coq_values
import shapes, nslgen
from nslgen import *

STATIC = ["Base/Types.v", "Spec/Select.v", "Model/Validate.v", "Proofs/SelectProofs.v"]

HEADER = """From Coq Require Import String Ascii ZArith List Bool Arith.
From NSL Require Import Base.Util Base.Types Spec.Select Model.Validate.
Import ListNotations.
Open Scope Z_scope.
(* implementation outcome: 0 accepted, 1 rejected while typing, 2 by validate-array-access-type,
   3 by validate-array-out-of-bounds-access, 4 by validate-swizzle-mask, 9 anything else *)
Definition model_code (v : vres) : Z :=
  match v with VAccept _ => 0 | VTypeError => 1 | VIndexType => 2 | VBounds => 3 | VSwizzle => 4 end.
Definition chk (t : ty) (c : list sel_step) (i : Z) : Z :=
  verdict (model_code (model_select t c) =? i)
          (Bool.eqb (match spec_select t c with Some _ => true | None => false end) (i =? 0)).
"""

VARS = {"i": "int", "u": "uint", "x": "float", "iv": "int2", "uv": "uint3", "fv": "float2"}
NESTED = [("iv", [("m", "y")]), ("iv", [("m", "z")]), ("iv", [("c", 1)]), ("iv", [("c", 2)]), ("fv", [("m", "x")]), ("iv", [("m", "xy")]),
          ("uv", [("m", "b")]), ("uv", [("m", "bx")]), ("uv", [("m", "rgb"), ("c", 2)]), ("uv", [("m", "rg"), ("c", 2)]), ("uv", [("v", "i")]),
          ("uv", [("v", "x")]), ("iv", [("s", "iv", [("m", "x")])]), ("iv", [("s", "iv", [("m", "w")])])]
FOREIGN = "qsu"


def py_index(t):
    """(dimension, element type) of an index on t = (name, dims), generator-side only (to build valid prefixes)"""
    name, dims = t
    if dims:
        return dims[0], (name, dims[1:])
    import re
    m = re.fullmatch(r"(float|int|uint)(\d)x(\d)", name)
    if m:
        return int(m.group(2)), (m.group(1) + m.group(3), ())
    m = re.fullmatch(r"(float|int|uint)(\d)", name)
    if m:
        return int(m.group(2)), (m.group(1), ())
    return None


def py_vec(t):
    name, dims = t
    if dims:
        return None
    import re
    m = re.fullmatch(r"(float|int|uint)(\d?)", name)
    return (m.group(1), int(m.group(2) or 1)) if m else None


def step_coq(s):
    k = s[0]
    if k == "c":
        return "IdxConst (%d)" % s[1]
    if k == "v":
        return "IdxExpr %s" % nslgen.coq_ty(VARS[s[1]])
    if k == "f":
        return "IdxExpr %s" % nslgen.coq_ty("float")
    if k == "s":
        return "IdxSel %s [%s]" % (nslgen.coq_ty(VARS[s[1]]), "; ".join(step_coq(x) for x in s[2]))
    return 'Swizzle "%s"%%string' % s[1]


def step_expr(e, s):
    k = s[0]
    if k == "c":
        return Idx(e, I(s[1]))
    if k == "v":
        return Idx(e, V(s[1]))
    if k == "f":
        return Idx(e, F("1.0"))
    if k == "s":
        inner = V(s[1])
        for x in s[2]:
            inner = step_expr(inner, x)
        return Idx(e, inner)
    return Mem(e, s[1])


def masks(quick, rng):
    out = []
    for n in (1, 2):
        out += ["".join(p) for p in itertools.product("xyzwrgba", repeat=n)]
    long = ["".join(p) for n in (3, 4) for p in itertools.product("xyzwrgba", repeat=n)]
    out += rng.sample(long, 150) if quick else long
    out += [c for c in FOREIGN] + ["x" + c for c in FOREIGN] + [c + "r" for c in FOREIGN] + ["xy" + FOREIGN[0] + "w", "xyzwx", "rgbar", "xyzwr"]
    return out


def test_steps(t, quick, rng, mask_budget):
    """the steps tried at one position of a chain whose value there has type t"""
    out = []
    ix = py_index(t)
    d = ix[0] if ix else 2
    out += [("c", k) for k in range(-2, d + 2)] + [("c", d + 7), ("c", -9)]
    out += [("v", n) for n in VARS] + [("f",)] + [("s", b, c) for b, c in NESTED]
    vec = py_vec(t)
    if vec or ix is None:
        ms = masks(quick, rng)
        if len(ms) > mask_budget:
            ms = ms[:72] + rng.sample(ms[72:], mask_budget - 72)
        out += [("m", m) for m in ms]
    else:
        out += [("m", m) for m in ("x", "xy", "r", "q")]
    return out


def valid_step(t, rng):
    ix = py_index(t)
    if ix is None:
        return None
    c = rng.random()
    s = ("c", rng.randrange(ix[0])) if c < 0.6 else ("v", "i" if c < 0.8 else "u")
    return s, ix[1]


def bases(quick, rng):
    shp = [s for n in (1, 2, 3) for s in itertools.product((1, 2, 3, 4), repeat=n)]
    if quick:
        shp = [(1,), (3,), (4,), (2, 3), (3, 2), (1, 4), (4, 4), (2, 3, 4), (4, 1, 2), (3, 3, 3)] + rng.sample(shp, 6)
    out = []
    for k, s in enumerate(shp):
        out.append((["float", "int", "float3", "uint2", "float3x3", "int4"][k % 6] if len(s) < 3 or quick else "float", tuple(s)))
    for c in ("float", "int", "uint"):
        for n in (2, 3, 4):
            out.append((c + str(n), ()))
    out += [("float3x3", ()), ("float4x4", ()), ("matrix4x4", ()), ("float", ()), ("int", ())]
    return out


def cases(quick, rng):
    out = []
    for b in bases(quick, rng):
        # walk a full valid chain; at every position try every test step, with and without a valid continuation
        prefix, t = [], b
        full_masks = not quick and not b[1]
        while True:
            budget = (5000 if full_masks else 400) if not quick else (260 if not b[1] and py_vec(t) else 90)
            for s in test_steps(t, quick, rng, budget):
                out.append((b, prefix + [s]))
                if s[0] in ("c", "v", "f", "s"):
                    ix = py_index(t)
                    if ix:
                        nxt = valid_step(ix[1], rng)
                        if nxt:
                            out.append((b, prefix + [s, nxt[0]]))
                        elif py_vec(ix[1]) and rng.random() < 0.3:
                            out.append((b, prefix + [s, ("m", "x")]))
                elif rng.random() < 0.25:
                    # a (possibly illegal) swizzle below a further selection: v.xg.y, v.xyw[0]
                    out.append((b, prefix + [s, rng.choice([("m", "x"), ("c", 0), ("m", "r"), ("c", 1), ("v", "i")])]))
            nxt = valid_step(t, rng)
            if nxt is None:
                break
            prefix, t = prefix + [nxt[0]], nxt[1]
        # a swizzle result is itself a vector: one more level
        v = py_vec(t)
        if v and rng.random() < 0.7:
            m = "".join(rng.choice("xyzw"[: v[1]]) for _ in range(rng.choice([2, 3, 4])))
            for s in [("c", k) for k in range(-1, len(m) + 1)] + [("m", "x"), ("m", "w"), ("m", "xyzw"[: len(m)]), ("m", "b")]:
                out.append((b, prefix + [("m", m), s]))
    return out


def program(b, chain, store, place=0):
    """place: 0 the function alone; 1 followed by another function; 2 between two functions that contain valid selections of their own
    (the verdict on a module must not depend on which function holds the selection)"""
    name, dims = b
    e = V("a")
    for s in chain:
        e = step_expr(e, s)
    body = [Decl(name, "a", None, dims=list(dims))]
    body.append(ES(A(e, V("x"))) if store else Ret(e))
    if store:
        body.append(Ret(V("x")))
    f = Func("f", [Arg(t, n) for n, t in VARS.items()], "float", Block(body), export=True)
    tail = Func("tail", [Arg("int", "q")], "int", Block([Ret(V("q"))]), export=True)
    lead = Func("lead", [Arg("float4", "p"), Arg("int", "q")], "float", Block([Decl("int", "z", None, dims=[2]), ES(A(Idx(V("z"), I(1)), V("q"))), Ret(B("+", Mem(V("p"), "x"), Idx(V("p"), I(3))))]), export=True)
    valid2 = Func("after", [Arg("float2", "p")], "float", Block([Decl("float", "w", None, dims=[3]), Ret(B("+", Idx(V("w"), I(2)), Mem(V("p"), "y")))]), export=True)
    return Module([f] if place == 0 else ([f, tail] if place == 1 else [lead, f, valid2]))


def impl_code(r):
    if r["accept"]:
        return 0
    h = r["how"]
    if h.get("stage") == "types":
        return 1
    p = h.get("pass")
    return {"validate-array-access-type": 2, "validate-array-out-of-bounds-access": 3, "validate-swizzle-mask": 4}.get(p, 9)


def run(ctx):
    ctx.static_obligations(STATIC)
    repo = ctx.sync_repo(1)[0]
    shapes.write(ctx, repo, ["bounds", "indextype", "swizzle", "utility", "compiler", "pass", "visitor"])
    ctx.compile_dyn(["Gen_Shapes", "Props_C13"])
    rng = ctx.rng
    quick = ctx.tier == "quick"
    cs = cases(quick, rng)
    jobs, meta = [], []
    for k, (b, chain) in enumerate(cs):
        # stores only where the selected element is a float scalar reached by indexing (assignment typing is not this property)
        t = b
        for st in chain:
            ix = py_index(t) if st[0] != "m" else None
            t = ix[1] if ix else None
            if t is None:
                break
        store = (k % 5 == 3) and t == ("float", ())
        text, _ = nslgen.render(program(b, chain, store, (k // 2) % 3), ["canonical", "dense"][k % 2], rng)
        jobs.append({"src": text, "opts": {}})
        meta.append((b, chain, store))
    res = ctx.run_impl("compile_impl.py", jobs, nworkers=16)
    lines, dist = [], {}
    for (b, chain, store), r in zip(meta, res):
        c = impl_code(r)
        # a store through an accepted chain may be rejected later for reasons outside this property (assignment typing)
        key = "%s:%s:%d" % ("array%d" % len(b[1]) if b[1] else b[0], chain[-1][0] if len(chain) < 2 or chain[-2][0] == "m" or True else "", c)
        dist[key] = dist.get(key, 0) + 1
        lines.append("chk %s [%s] %d" % (nslgen.coq_ty(b[0], b[1]), "; ".join(step_coq(s) for s in chain), c))
    files, per = [], 400
    for k in range(0, len(lines), per):
        f = os.path.join(ctx.dyn, "cases_C13_%d.v" % (k // per))
        open(f, "w").write(HEADER + "Definition cases : list Z := [\n  " + ";\n  ".join(lines[k:k + per]) + "].\nEval vm_compute in cases.\n")
        files.append(f)
    outs = ctx.eval_cases(files)
    codes = []
    for f in files:
        ok, out, err = outs[f]
        vals = parse_coq_values(out) if ok else []
        if not ok or not vals or not isinstance(vals[0], list):
            ctx.broken.append("correspondence: %s did not evaluate: %s" % (os.path.basename(f), err[-300:]))
            codes.extend([None] * min(per, len(lines) - len(codes)))
        else:
            codes.extend(vals[0])
    bad_model, bad_spec = [], []
    for x, j, r, c in zip(meta, jobs, res, codes):
        if c is None:
            continue
        if c & 2:
            bad_spec.append((x, j, r))
        elif c & 1:
            bad_model.append((x, j, r))
    ctx.cov["evaluations"] = len(jobs)
    ctx.cov["distinct_nontrivial"] = len({j["src"] for j in jobs})
    ctx.cov["rule"] = ("for every base type (array shapes of 1-3 dimensions with sizes 1-4 over scalar/vector/matrix elements; float/int/uint vectors of 2-4; float3x3/float4x4; scalars) a valid "
                       "access chain is walked to its end and at every position every test step is tried: constants from -2 to size+1 (and far outside), index expressions of type int, uint, "
                       "float, int2 and a float literal, masks (all of length 1-2 over xyzwrgba, %s of length 3-4, masks with foreign letters, over-long masks), each with and without a valid "
                       "continuation, read and store positions; swizzle results are indexed and swizzled again. Outcome (accepted / which pass rejected) of the real compiler compared inside "
                       "Coq with NSL.Model.Validate and with the specification NSL.Spec.Select." % ("a sample" if quick else "all"))
    ctx.cov["samples"] = [{"source": j["src"], "impl": impl_code(r)} for j, r in list(zip(jobs, res))[:: max(1, len(jobs) // 4)][:4]]
    ctx.extra["input_distribution"] = dict(sorted(dist.items()))
    ctx.extra["disagreements_checked"] = len(codes)
    if bad_spec:
        x, j, r = min(bad_spec, key=lambda y: len(y[1]["src"]))
        ctx.violation("failing-input", {"what": "accept/reject of an element selection differs from the specified rule (constant inside its dimension, integer index type, "
                                                "unmixed in-range mask)", "base_type": x[0], "chain": x[1], "source": j["src"], "observed": r, "count": len(bad_spec)})
    elif bad_model:
        x, j, r = bad_model[0]
        ctx.broken.append("correspondence: compiler differs from NSL.Model.Validate on %d program(s), e.g. %s -> %s" % (len(bad_model), j["src"][:200], impl_code(r)))
