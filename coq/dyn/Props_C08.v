(** * C08 -- Binary operators group by the declared precedence, left to right. *)
From Coq Require Import String ZArith List Bool Arith.
From NSL Require Import Base.Types Spec.Prec Model.ParserSR Proofs.SRParser Model.Lexer Proofs.LexerProofs.
From NSLDyn Require Gen_ParserTables.
Import ListNotations.

(** the finite part, re-proved on every run against the tables PLY builds from the current grammar: the automaton
    reduces the operator on its stack exactly when the lookahead operator does not bind tighter, and always shifts
    after an assignment's right-hand side *)
Lemma C08_generated_rows_are_precedence : forall o1 o2, Gen_ParserTables.decide o1 o2 = (lvl o2 <=? lvl o1).
Proof. intros o1 o2; destruct o1, o2; reflexivity. Qed.
Lemma C08_assignment_state_shifts : forall o, Gen_ParserTables.asg_shifts o = true.
Proof. intros o; destruct o; reflexivity. Qed.

Notation parse := (ParserSR.parse Gen_ParserTables.decide).

(** the unbounded part: for every token string (any length, any nesting of parentheses, assignments anywhere) the
    parser returns t exactly when t is the prescribed grouping of that string *)
Theorem C08_grouping_exact : forall toks t, parse toks = Some t <-> canonical t /\ flatten t = toks.
Proof. exact (sr_parser_exact _ C08_generated_rows_are_precedence). Qed.

Theorem C08_grouping : forall t, canonical t -> parse (flatten t) = Some t.
Proof. exact (sr_parser_correct _ C08_generated_rows_are_precedence). Qed.

Theorem C08_grouping_unique : forall t1 t2, canonical t1 -> canonical t2 -> flatten t1 = flatten t2 -> t1 = t2.
Proof. exact (canonical_unique _ C08_generated_rows_are_precedence). Qed.

(** `a op1 b op2 c`: all ordered pairs of operators, any operands *)
Theorem C08_pairs : forall o1 o2 a b c,
  parse [KAtom a; KOp o1; KAtom b; KOp o2; KAtom c] =
  Some (if lvl o1 <? lvl o2 then PNode o1 (PLeaf a) (PNode o2 (PLeaf b) (PLeaf c))
        else PNode o2 (PNode o1 (PLeaf a) (PLeaf b)) (PLeaf c)).
Proof.
  intros o1 o2 a b c. destruct (Nat.ltb_spec (lvl o1) (lvl o2)).
  - apply (C08_grouping (PNode o1 (PLeaf a) (PNode o2 (PLeaf b) (PLeaf c)))). simpl. auto 10.
  - apply (C08_grouping (PNode o2 (PNode o1 (PLeaf a) (PLeaf b)) (PLeaf c))). simpl. auto 10.
Qed.

(** an assignment's right-hand side extends over the whole following expression *)
Theorem C08_assignment_rhs_extends : forall x t, canonical t -> parse (KAtom x :: KAsg :: flatten t) = Some (PAsg x t).
Proof. intros x t H. apply (C08_grouping (PAsg x t)). exact H. Qed.

(** parentheses override the default grouping: a parenthesised binary expression is an operand on either side of
    any operator *)
Theorem C08_parentheses_override : forall o l r, canonical l -> canonical r -> par_ok l -> par_ok r ->
  parse (flatten (PNode o (PPar l) (PPar r))) = Some (PNode o (PPar l) (PPar r)).
Proof. intros o l r Hl Hr Pl Pr. apply C08_grouping. simpl. auto 10. Qed.

(** The grouping does not depend on whitespace or line breaks between tokens.  On the model of the lexer
    (Model.Lexer: first matching rule in PLY's rule order on the characters expressions are made of; compared with
    the real lexer's token stream on every run, including strings where neighbours merge): for EVERY list of
    well-formed tokens and EVERY two choices of separators -- arbitrary strings of blanks, tabs and line breaks, empty
    wherever the token before tolerates the next character -- both texts lex to that same token list; the parser
    therefore receives the same tokens and (C08_grouping_exact) builds the same tree. *)
Theorem C08_layout_independent : forall toks seps1 seps2, forallb wf_tok toks = true ->
  seps_ok None toks seps1 = true -> seps_ok None toks seps2 = true ->
  exists f1 f2, lex f1 (render toks seps1) = Some toks /\ lex f2 (render toks seps2) = Some toks.
Proof. exact lex_layout_independent. Qed.

Theorem C08_lex_render : forall toks seps, forallb wf_tok toks = true -> seps_ok None toks seps = true ->
  exists fuel, forall k, lex (k + fuel) (render toks seps) = Some toks.
Proof. exact lex_render. Qed.

Example C08_examples :
  let a := KAtom 0 in let b := KAtom 1 in let c := KAtom 2 in
  option_map erase (parse [a; KOp OSub; b; KOp OSub; c]) = Some (ENode OSub (ENode OSub (ELeaf 0) (ELeaf 1)) (ELeaf 2)) /\
  option_map erase (parse [a; KOp OAdd; b; KOp OMul; c]) = Some (ENode OAdd (ELeaf 0) (ENode OMul (ELeaf 1) (ELeaf 2))) /\
  option_map erase (parse [KL; a; KOp OAdd; b; KR; KOp OMul; c]) = Some (ENode OMul (ENode OAdd (ELeaf 0) (ELeaf 1)) (ELeaf 2)) /\
  option_map erase (parse [a; KAsg; b; KOp OLor; c]) = Some (EAsgn 0 (ENode OLor (ELeaf 1) (ELeaf 2))) /\
  parse [KL; a; KR] = None.
Proof. vm_compute. repeat split. Qed.

Eval compute in "ASSUMPTIONS C08_grouping_exact"%string. Print Assumptions C08_grouping_exact.
Eval compute in "ASSUMPTIONS C08_layout_independent"%string. Print Assumptions C08_layout_independent.
Eval compute in "ASSUMPTIONS C08_pairs"%string. Print Assumptions C08_pairs.
Eval compute in "ASSUMPTIONS C08_assignment_rhs_extends"%string. Print Assumptions C08_assignment_rhs_extends.
Eval compute in "END"%string.
