#!/usr/bin/env python3
"""Patch scripts used to produce the `fix:` commits in /repo (kept for the record; CRLF/BOM preserving)."""
import sys, os
def patch(path, pairs):
    raw = open(path, 'rb').read()
    crlf = b'\r\n' in raw
    s = raw.decode('utf-8')
    if crlf: s = s.replace('\r\n', '\n')
    for old, new in pairs:
        assert s.count(old) == 1, (path, s.count(old), old[:60])
        s = s.replace(old, new)
    if crlf: s = s.replace('\n', '\r\n')
    open(path, 'wb').write(s.encode('utf-8'))

FIXES = {}
def fix(name, msg):
    def deco(f):
        FIXES[name] = (msg, f); return f
    return deco

@fix('D1', "fix: binary operators group by the declared precedence\n\nThe rule `expression bin_op expression` contains no terminal, so PLY's\nprecedence table never applied and every chain grouped to the right\n(`10 - 3 - 2` evaluated to 9, `2 * 3 + 4` to 14). Spell the operators out in\nthe production so the declared precedence and left associativity apply, and\naccept parentheses around any binary expression.")
def d1():
    patch('nsl/parser.py', [(
'''    def p_binary_expression(self, p):
        """binary_expression : expression bin_op expression
        | '(' expression bin_op expression ')'"""
        if len(p) == 4:
            p[0] = ast.BinaryExpression(op.StrToOp(p[2]), p[1], p[3])
        else:
            p[0] = ast.BinaryExpression(op.StrToOp(p[3]), p[2], p[4])

    def p_bin_op(self, p):
        """bin_op : LT
        | GT
        | PLUS
        | MINUS
        | TIMES
        | DIVIDE
        | MOD
        | GE
        | LE
        | EQ
        | NE
        | LAND
        | LOR"""
        p[0] = p[1]
''',
'''    def p_binary_expression(self, p):
        """binary_expression : expression LT expression
        | expression GT expression
        | expression PLUS expression
        | expression MINUS expression
        | expression TIMES expression
        | expression DIVIDE expression
        | expression MOD expression
        | expression GE expression
        | expression LE expression
        | expression EQ expression
        | expression NE expression
        | expression LAND expression
        | expression LOR expression"""
        p[0] = ast.BinaryExpression(op.StrToOp(p[2]), p[1], p[3])

    def p_binary_expression_parenthesized(self, p):
        """binary_expression : '(' binary_expression ')'"""
        p[0] = p[2]
''')])

@fix('D2', "fix: a call no longer overwrites the caller's argument list\n\nThe CALL arm of the VM assigned the callee's argument list to `args`, the\nvariable holding the *caller's* arguments, so after any call the caller read\nthe callee's (possibly modified) parameters: `int r = g(a + 1); return a;`\nreturned a + 1.")
def d2():
    patch('nsl/VM.py', [(
"""                    args = [
                        localScope[arg.Reference]
                        for arg in instruction.Arguments
                    ]
                    localScope[instruction.Reference] = self._Invoke(
                        instruction.Function, args
                    )""",
"""                    callArgs = [
                        localScope[arg.Reference]
                        for arg in instruction.Arguments
                    ]
                    localScope[instruction.Reference] = self._Invoke(
                        instruction.Function, callArgs
                    )""")])

@fix('D3', "fix: integer division truncates toward zero\n\nDIV used Python's true division for every operand type, so `7 / 2` on ints\nreturned 3.5.")
def d3():
    patch('nsl/VM.py', [(
"""                        case LinearIR.OpCode.DIV:
                            localScope[ref] = op1 / op2""",
"""                        case LinearIR.OpCode.DIV:
                            if isinstance(instruction.Type, LinearIR.IntegerType):
                                # Integer division truncates toward zero
                                quotient = abs(op1) // abs(op2)
                                if (op1 < 0) != (op2 < 0):
                                    quotient = -quotient
                                localScope[ref] = quotient
                            else:
                                localScope[ref] = op1 / op2""")])

@fix('D4', "fix: BranchInstruction reports and rewires its operands by reference\n\n`Uses` yielded the block/value objects instead of their references and\n`ReplaceUses` stored the integer `ref` instead of the new value, so forwarding\na load that feeds a branch predicate raised KeyError when optimising\n(`int x = a; if (x) ...`).")
def d4():
    patch('nsl/LinearIR.py', [(
"""        if self.__falseBlock and self.__falseBlock.Reference == ref:
            self.__falseBlock = ref

        if self.__predicate and self.__predicate.Reference == ref:
            self.__predicate = ref

    @property
    def Uses(self):
        yield self.__trueBlock

        if self.__falseBlock:
            yield self.__falseBlock

        if self.__predicate:
            yield self.__predicate""",
"""        if self.__falseBlock and self.__falseBlock.Reference == ref:
            self.__falseBlock = newValue

        if self.__predicate and self.__predicate.Reference == ref:
            self.__predicate = newValue

    @property
    def Uses(self):
        yield self.__trueBlock.Reference

        if self.__falseBlock:
            yield self.__falseBlock.Reference

        if self.__predicate:
            yield self.__predicate.Reference""")])

@fix('D5', "fix: MemberAccessInstruction.ReplaceUses rewires its own operands\n\nIt touched a non-existent `__parent` attribute and compared the stored value's\nreference with the new value object, so optimising a forwarded load that feeds\na member access raised AttributeError.")
def d5():
    patch('nsl/LinearIR.py', [(
"""        if self.__parent.Reference == ref:
            self.__parent = newValue

        if self.__store and self.__store.Reference == newValue:
            self.__store = newValue""",
"""        if self.__variable.Reference == ref:
            self.__variable = newValue

        if self.__store and self.__store.Reference == ref:
            self.__store = newValue""")])

@fix('D6', "fix: a forwarded value that is itself scheduled for replacement is resolved\n\nWith `x = a; y = x; return y;` the load of `x` is forwarded to the load of `a`\nand the load of `y` to the (removed) load of `x`, leaving `ret` with a dangling\noperand: the optimised function returned None.")
def d6():
    patch('nsl/LinearIR.py', [(
"""    def ReplaceUses(self, old: Union[int, Value], new: Optional[Value]):
        if isinstance(old, Value):
            self.__replaceUses[old.Reference] = new
        else:
            self.__replaceUses[old] = new""",
"""    def ReplaceUses(self, old: Union[int, Value], new: Optional[Value]):
        # The new value may itself be scheduled for replacement
        while new is not None and new.Reference in self.__replaceUses:
            new = self.__replaceUses[new.Reference]

        if isinstance(old, Value):
            self.__replaceUses[old.Reference] = new
        else:
            self.__replaceUses[old] = new""")])

@fix('D7', "fix: function constants are keyed by type and value\n\nConstants were looked up by value only and `1 == 1.0 == True` in Python, so an\nint literal 1 after a float literal 1.0 reused the float constant (a float\nended up as an array index).")
def d7():
    patch('nsl/LinearIR.py', [(
"""        result = self.__constants.get(value, None)
        if result:
            return result

        cv = ConstantValue(constantType, value)
        self.RegisterValue(cv)
        self.__constants[value] = cv""",
"""        key = (str(constantType), value)
        result = self.__constants.get(key, None)
        if result:
            return result

        cv = ConstantValue(constantType, value)
        self.RegisterValue(cv)
        self.__constants[key] = cv""")])

@fix('D8', "fix: default instances of arrays have the declared shape and no shared elements\n\nMulti-dimensional arrays were built innermost-dimension-first from one shared\nrow (`int[2][3] a; a[1][2] = 5;` raised IndexError, and writes to one row\nshowed up in every row); arrays of aggregates shared a single element.")
def d8():
    patch('nsl/VM.py', [(
"""            result = [
                self.__CreateInstance(varType.ElementType)
            ] * varType.Size[0]
            for dimSize in varType.Size[1:]:
                result = [result] * dimSize
            return result""",
"""            def CreateDimension(sizes):
                if not sizes:
                    return self.__CreateInstance(varType.ElementType)
                return [CreateDimension(sizes[1:]) for _ in range(sizes[0])]

            return CreateDimension(list(varType.Size))""")])

@fix('D9', "fix: an overload with an incompatible argument is not viable\n\nFunction.Match summed the per-argument scores, so an incompatible argument\n(-1) and a converting one (+1) cancelled to 0 = exact match: `g(float4, int)`\nwas chosen for `g(1.0, 2.0)`.")
def d9():
    patch('nsl/types.py', [(
"""        return sum(
            [
                Match(e[0], e[1])
                for e in zip(parameterList, matchingArgumentTypes)
            ]
        )""",
"""        scores = [
            Match(e[0], e[1])
            for e in zip(parameterList, matchingArgumentTypes)
        ]

        if any([score < 0 for score in scores]):
            return -1

        return sum(scores)""")])

@fix('D10', "fix: IsCompatible uses the accessors matrix and array types have\n\n`GetRows`/`GetColumns`/`GetType` do not exist, so any call with a matrix or\narray argument died with AttributeError during overload resolution.")
def d10():
    patch('nsl/types.py', [
("""            return IsCompatible(left.GetType(), right.GetType())""", """            return IsCompatible(
                left.GetComponentType(), right.GetComponentType()
            )"""),
("""            return (left.GetRows() == right.GetRows()) and (
                left.GetColumns() == right.GetColumns()
            )""", """            return (left.GetRowCount() == right.GetRowCount()) and (
                left.GetColumnCount() == right.GetColumnCount()
            )""")])

@fix('D11', "fix: a second import statement records the imported name\n\n`module : module import_statement` added p[1] (the module itself) to the import\nset instead of p[2], so any import that is not the first item of a file made\ncompilation die in pathlib.")
def d11():
    patch('nsl/parser.py', [("""        p[0] = p[1]
        p[0].AddImport(p[1])""", """        p[0] = p[1]
        p[0].AddImport(p[2])""")])

@fix('D16', "fix: a one-component swizzle read yields a scalar\n\nSHUFFLE always produced a list, so `v.x + 1.0` raised TypeError although the\nfront end types `v.x` as a scalar. The swizzle *write* shuffle is typed with\nthe parent vector's type (it produces the whole updated vector).")
def d16():
    patch('nsl/VM.py', [(
"""                    result = [combined[i] for i in indices]
                    localScope[ref] = result""",
"""                    result = [combined[i] for i in indices]
                    if instruction.Type.IsScalar():
                        result = result[0]
                    localScope[ref] = result""")])
    patch('nsl/passes/LowerToIR.py', [(
"""                si = LinearIR.ShuffleInstruction(
                    ctx.AdaptType(expr.GetType()),
                    value,
                    ctx.AssignmentValue,
                    indices,
                )""",
"""                si = LinearIR.ShuffleInstruction(
                    value.Type,
                    value,
                    ctx.AssignmentValue,
                    indices,
                )""")])

@fix('D18', "fix: an assignment expression has a value\n\nSTORE did not define its own reference, so `c = b = a;` raised KeyError in the\nVM. The value of an assignment is the value that was stored.")
def d18():
    patch('nsl/VM.py', [(
"""                case LinearIR.OpCode.STORE:
                    match instruction.Scope:""",
"""                case LinearIR.OpCode.STORE:
                    # The value of an assignment is the value that was stored
                    localScope[instruction.Reference] = localScope[
                        instruction.Store.Reference
                    ]
                    match instruction.Scope:""")])

@fix('D28', "fix: ++x / x-- take the identifier's location from the identifier token\n\nThe location was computed from the operator token (after p[n] had been\nreplaced by the AST node), so `++abc` reported columns 1-3.")
def d28():
    patch('nsl/parser.py', [
("""        p[2] = ast.PrimaryExpression(p[2])
        p[2].SetLocation(self.__GetLocation(p, 1))""", """        location = self.__GetLocation(p, 2)
        p[2] = ast.PrimaryExpression(p[2])
        p[2].SetLocation(location)"""),
("""        p[1] = ast.PrimaryExpression(p[1])
        p[1].SetLocation(self.__GetLocation(p, 2))""", """        location = self.__GetLocation(p, 1)
        p[1] = ast.PrimaryExpression(p[1])
        p[1].SetLocation(location)""")])

@fix('D29', "fix: `>` is a comparison\n\nIsComparison tested `200 < value < 210` but CMP_GT is 200, so `a > b` was typed\nlike `a + b` (float for two floats) and `g(a > b)` selected the float overload.")
def d29():
    patch('nsl/op.py', [("    return 200 < op.value < 210", "    return 200 <= op.value < 210")])

@fix('D30', "fix: continue in a do-while loop re-tests the condition\n\nThe continue target was the start of the body, so `continue` skipped the\ncondition test: `do { i = i + 1; if (i == 3) continue; n = n + 1; } while (i < 3)`\nran a fourth iteration.")
def d30():
    patch('nsl/passes/LowerToIR.py', [(
"""        # Conditional jump back to start or to end
        condition = self.v_Visit(expr.GetCondition(), ctx)
        branch = LinearIR.BranchInstruction(startBB, None, condition)
        ctx.BasicBlock.AddInstruction(branch)
        endBB = ctx.CreateBasicBlock()

        branch.SetFalseBlock(endBB)

        breakContinueInstructions.SetBreakTarget(endBB)
        breakContinueInstructions.SetContinueTarget(startBB)""",
"""        # Conditional jump back to start or to end
        conditionBB = ctx.CreateBasicBlock()
        condition = self.v_Visit(expr.GetCondition(), ctx)
        branch = LinearIR.BranchInstruction(startBB, None, condition)
        ctx.BasicBlock.AddInstruction(branch)
        endBB = ctx.CreateBasicBlock()

        branch.SetFalseBlock(endBB)

        breakContinueInstructions.SetBreakTarget(endBB)
        breakContinueInstructions.SetContinueTarget(conditionBB)""")])

@fix('D31', "fix: refresh the use map after rewriting argument accesses\n\nRewriteFunctionArgAccess replaces instructions by copies; the recorded uses\nstill pointed to the old objects, so a later optimisation rewired a stale\ninstruction and the live one got a None operand (`b = b - 1.0; b = b;`).")
def d31():
    patch('nsl/passes/RewriteFunctionArgAccess.py', [(
"""        function.AcceptVisitor(self, mapping)
""", """        function.AcceptVisitor(self, mapping)

        # Instructions have been replaced by copies, the recorded uses still
        # point to the old ones
        function.UpdateUses()
""")])


@fix('D27', "fix: i32.const immediates are signed LEB128, f32.const immediates are IEEE bytes\n\nEvery immediate went through the unsigned-style packer, which has no notion of\na sign bit: `i32.const 64` was written as 0x40, which a WebAssembly decoder\nreads as -64 (and -65 as 63). `f32.const` had no opcode and its float immediate\nwas handed to the integer packer.")
def d27():
    patch('nsl/WebAssembly.py', [
("""def WriteInteger(output: BinaryIO, i: int):
    output.write(PackInteger(i))
""",
"""def WriteInteger(output: BinaryIO, i: int):
    output.write(PackInteger(i))


def PackSignedInteger(v):
    # Signed LEB128: stop once the remaining value is all sign bits and the
    # sign bit of the last group matches
    output = []
    while True:
        b = v & 0x7F
        v >>= 7
        if (v == 0 and (b & 0x40) == 0) or (v == -1 and (b & 0x40) != 0):
            output.append(b)
            break
        output.append(b | 0b1000_0000)
    return bytes(output)


def WriteSignedInteger(output: BinaryIO, i: int):
    output.write(PackSignedInteger(i))
"""),
("""        WriteByte(output, self.__opcode)
        # TODO Handle non-integer arguments
        if self.__args:
            for arg in self.__args:
                WriteInteger(output, arg)""",
"""        WriteByte(output, self.__opcode)
        if self.__args:
            for arg in self.__args:
                if self.__opcode == opcodes["f32.const"]:
                    WriteFloat(output, arg)
                elif self.__opcode == opcodes["i32.const"]:
                    WriteSignedInteger(output, arg)
                else:
                    WriteInteger(output, arg)"""),
("""    "i32.const": 0x41,""", """    "i32.const": 0x41,
    "f32.const": 0x43,"""),
])

@fix('D26', "fix: locals of a second type are declared\n\nCode.AddLocal only ever kept the first local group: a local whose type differed\nfrom the previous one was counted but never declared, so bodies mixing int and\nfloat values referenced undeclared locals.")
def d26():
    patch('nsl/WebAssembly.py', [
("""        if self.__lastLocal:
            if self.__lastLocal.Type == local.Type:
                self.__lastLocal.SetCount(self.__lastLocal.Count + local.Count)
        else:
            self.__locals.append(local)
            self.__lastLocal = local""",
"""        if self.__lastLocal and self.__lastLocal.Type == local.Type:
            self.__lastLocal.SetCount(self.__lastLocal.Count + local.Count)
        else:
            self.__locals.append(local)
            self.__lastLocal = local"""),
])

@fix('D25a', "fix: wasm functions are registered in the type and function sections\n\nGenerateWasm never called AddFunctionType/AddFunction, so every emitted module\nexported function index 0 of an empty function index space and was rejected by\nany engine; a void result was written as value type 0x71 instead of an empty\nresult list.")
def d25a():
    patch('nsl/passes/GenerateWasm.py', [
("""    resultTypes.append(_ConvertType(ft.ReturnType))
""", """    if not ft.ReturnType.IsVoid():
        resultTypes.append(_ConvertType(ft.ReturnType))
"""),
("""        functionType = _ConvertFunctionType(
            cast(LinearIR.FunctionType, function.Type)
        )
""", """        functionType = _ConvertFunctionType(
            cast(LinearIR.FunctionType, function.Type)
        )
        ctx.Module.AddFunction(ctx.Module.AddFunctionType(functionType))
"""),
])

@fix('D25b', "fix: the wasm backend refuses instructions it cannot translate\n\nInstructions without a handler (casts, branches, calls, locals, stores, ...)\nfell through the default visitor and were silently dropped from the emitted\ncode; loads of anything but a function argument were ignored the same way.")
def d25b():
    patch('nsl/passes/GenerateWasm.py', [
("""    def v_VariableAccessInstruction(
        self, vai: LinearIR.VariableAccessInstruction, ctx: Context
    ):
        assert ctx.Code
        if vai.Scope == LinearIR.VariableAccessScope.FUNCTION_ARGUMENT:""",
"""    def v_Instruction(self, instruction: LinearIR.Instruction, ctx: Context):
        raise RuntimeError(
            f"Unsupported instruction for WebAssembly: {instruction.OpCode}"
        )

    def v_VariableAccessInstruction(
        self, vai: LinearIR.VariableAccessInstruction, ctx: Context
    ):
        assert ctx.Code
        if vai.Store is not None or (
            vai.Scope != LinearIR.VariableAccessScope.FUNCTION_ARGUMENT
        ):
            raise RuntimeError(
                "Only loads of function arguments are supported for WebAssembly"
            )
        if vai.Scope == LinearIR.VariableAccessScope.FUNCTION_ARGUMENT:"""),
])

@fix('D25c', "fix: wasm comparison opcodes follow the operand type\n\nThe opcode family was chosen from the instruction's result type, which is int\nfor every comparison: comparing two floats emitted i32.lt_s on f32 operands.")
def d25c():
    patch('nsl/passes/GenerateWasm.py', [
("""        if isinstance(bi.Type, LinearIR.IntegerType):
            operationType = "i32"
            unsigned = bi.Type.Unsigned
        elif isinstance(bi.Type, LinearIR.FloatType):
            operationType = "f32"
        else:""",
"""        operandType = bi.Values[0].Type
        if isinstance(operandType, LinearIR.IntegerType):
            operationType = "i32"
            unsigned = operandType.Unsigned
        elif isinstance(operandType, LinearIR.FloatType):
            operationType = "f32"
        else:"""),
])


@fix('D12', "fix: the linker loads transitive imports, each module once\n\nLink iterated the pending-import set while AddModule added the imports of the\nloaded module to it (RuntimeError: set changed size during iteration for any\nimport chain a -> b -> c), and a module imported by two modules was loaded and\nadded twice.")
def d12():
    patch('nsl/LinearIR.py', [
("""        self.__pendingImports = set()

    def AddModule(self, module: Module):""",
"""        self.__pendingImports = set()
        self.__loadedImports = set()

    def AddModule(self, module: Module):"""),
("""        # add all imported modules
        for importedModule in self.__pendingImports:
            self.AddModule(self.__loader.Load(importedModule))
""",
"""        # add all imported modules, including the imports of imported
        # modules. Every module is loaded exactly once
        while self.__pendingImports:
            importedModule = min(self.__pendingImports)
            self.__pendingImports.remove(importedModule)
            if importedModule in self.__loadedImports:
                continue
            self.__loadedImports.add(importedModule)
            self.AddModule(self.__loader.Load(importedModule))
"""),
])

@fix('D14', "fix: swizzle masks are validated\n\nThe visitor handed the AST node (not the mask string) to ValidateSwizzleMask,\nwhich therefore checked nothing, never marked the module invalid, and no check\ncompared the selected components with the vector size: `v.xg` and `float2.w`\nwere accepted.")
def d14():
    patch('nsl/passes/ValidateSwizzle.py', [
("""def ValidateSwizzleMask(mask):
    from .. import Utility, Errors

    if any([m not in "xyzwrgba" for m in mask]):
        Errors.ERROR_INVALID_SWIZZLE_MASK.Raise()
""",
"""def ValidateSwizzleMask(mask, componentCount=4):
    from .. import Utility, Errors

    if any([m not in "xyzwrgba" for m in mask]):
        Errors.ERROR_INVALID_SWIZZLE_MASK.Raise()

    # Every selected component must exist in the swizzled type
    if any(["xyzwrgba".index(m) % 4 >= componentCount for m in mask]):
        Errors.ERROR_INVALID_SWIZZLE_MASK.Raise()
"""),
("""        t = expr.GetParent().GetType()

        with nsl.Errors.CompileExceptionToErrorHandler(self.errorHandler):
            if t.IsPrimitive() and (t.IsVector() or t.IsScalar()):
                ValidateSwizzleMask(expr.GetMember())
""",
"""        t = expr.GetParent().GetType()

        def OnError():
            self.valid = False

        with nsl.Errors.CompileExceptionToErrorHandler(
            self.errorHandler, OnError
        ):
            if t.IsPrimitive() and (t.IsVector() or t.IsScalar()):
                componentCount = t.GetComponentCount() if t.IsVector() else 1
                ValidateSwizzleMask(expr.GetMember().GetName(), componentCount)

        expr.AcceptVisitor(self, ctx)
"""),
])

@fix('D15', "fix: constant indices are checked against the dimension they select\n\nThe literal was compared with the *last* dimension of the accessed type and\nonly from above: `a[-1]` was accepted, for `int[2][3] a` the access `a[2][0]`\nwas accepted and the valid `int[2][1] a; a[1][0]` rejected.")
def d15():
    patch('nsl/passes/ValidateArrayOutOfBoundsAccess.py', [
("""            lastDimensionSize = arrayType.GetSize()[-1]
            accessValue = rhs.GetValue()

            if lastDimensionSize <= accessValue:
                self.valid = False
                Errors.ERROR_ARRAY_ACCESS_OUT_OF_BOUNDS.Raise(
                    lastDimensionSize, accessValue
                )""",
"""            # An index selects the first (remaining) dimension
            dimensionSize = arrayType.GetSize()[0]
            accessValue = rhs.GetValue()

            if accessValue < 0 or dimensionSize <= accessValue:
                self.valid = False
                Errors.ERROR_ARRAY_ACCESS_OUT_OF_BOUNDS.Raise(
                    dimensionSize, accessValue
                )"""),
])

@fix('D24', "fix: typing rejects comparisons of different shapes and products with a vector on the left\n\nA scalar compared with a vector (or any two operands of different kind) was\ntyped `int` with operand types None, and `vector * matrix(1,k)` /\n`vector * vector1` passed the inner-dimension test although only a matrix can\nbe the left factor of a matrix product.")
def d24():
    patch('nsl/types.py', [
("""    if op.IsComparison(operation):
        # Cast may be still necessary if we compare integers with floats
        baseType = _GetCommonPrimitiveType(left, right)
""",
"""    if op.IsComparison(operation):
        if left.GetKind() != right.GetKind():
            Errors.ERROR_INCOMPATIBLE_TYPES.Raise(left, right)

        # Cast may be still necessary if we compare integers with floats
        baseType = _GetCommonPrimitiveType(left, right)
"""),
("""        if leftShape[1] != rightShape[0]:
            Errors.ERROR_INVALID_BINARY_EXPRESSION_OPERATION.Raise(""",
"""        if not left.IsMatrix() or leftShape[1] != rightShape[0]:
            Errors.ERROR_INVALID_BINARY_EXPRESSION_OPERATION.Raise("""),
])

@fix('D23', "fix: constant casts to integer types are folded like the VM computes them\n\nOptimizeConstantCasts raised an internal error for a constant cast to int or\nuint, so `g(1.5)` with `g(int)` compiled without optimisation and was rejected\nwith it.")
def d23():
    patch('nsl/passes/OptimizeConstantCasts.py', [
("""            if isinstance(ci.Type, LinearIR.FloatType):
                constant = float(constant)
            else:""",
"""            if isinstance(ci.Type, LinearIR.FloatType):
                constant = float(constant)
            elif isinstance(ci.Type, LinearIR.IntegerType):
                # Same conversion as the CAST instruction in the VM
                constant = math.floor(constant)
                if ci.Type.Unsigned:
                    constant = abs(constant)
            else:"""),
("""from nsl import Errors, Visitor
""", """from nsl import Errors, Visitor
import math
"""),
])

@fix('D20', "fix: CAST converts vectors and matrices component-wise\n\nThe VM asserted a scalar target type, so the implicit conversion inserted for\n`int4 + float4` or `float4(int2, ...)` raised AssertionError at run time.")
def d20():
    patch('nsl/VM.py', [
("""                    assert instruction.Type.IsScalar()

                    if isinstance(instruction.Type, LinearIR.IntegerType):
                        if not instruction.Type.Unsigned:
                            var = math.floor(var)
                        else:
                            var = abs(math.floor(var))
                    else:
                        # Must be float
                        assert isinstance(instruction.Type, LinearIR.FloatType)

                        var = float(var)

                    localScope[ref] = var""",
"""                    assert instruction.Type.IsPrimitive()

                    if instruction.Type.IsScalar():
                        elementType = instruction.Type
                    else:
                        elementType = instruction.Type.ElementType

                    def Convert(value):
                        # Vectors and matrices are converted per component
                        if isinstance(value, list):
                            return [Convert(v) for v in value]

                        if isinstance(elementType, LinearIR.IntegerType):
                            if not elementType.Unsigned:
                                return math.floor(value)
                            else:
                                return abs(math.floor(value))
                        else:
                            # Must be float
                            assert isinstance(elementType, LinearIR.FloatType)

                            return float(value)

                    localScope[ref] = Convert(var)"""),
])

@fix('D19', "fix: scalar * vector is lowered to a vector-scalar multiply\n\nOnly `vector * scalar` selected VECTOR_MUL_SCALAR; with the scalar on the left\nthe component-wise VECTOR_MUL was emitted and the VM raised TypeError.")
def d19():
    patch('nsl/LinearIR.py', [
("""        elif (
            operation == op.Operation.DIV
            and v1.Type.IsVector()
            and v2.Type.IsScalar()
        ):""",
"""        elif (
            operation == op.Operation.MUL
            and v1.Type.IsScalar()
            and v2.Type.IsVector()
        ):
            return BinaryInstruction(
                OpCode.VECTOR_MUL_SCALAR, returnType, v2, v1
            )
        elif (
            operation == op.Operation.DIV
            and v1.Type.IsVector()
            and v2.Type.IsScalar()
        ):"""),
])


@fix('D37', "fix: dividing an integer vector by an integer scalar truncates toward zero\n\nVECTOR_DIV_SCALAR used Python's true division for every element type, so\n`int3(7, 8, 9) / 2` returned [3.5, 4.0, 4.5] in a value typed int3; the scalar\nDIV arm already divides integers like C.")
def d37():
    patch('nsl/VM.py', [(
"""                        case LinearIR.OpCode.VECTOR_DIV_SCALAR:
                            localScope[ref] = [v / op2 for v in op1]""",
"""                        case LinearIR.OpCode.VECTOR_DIV_SCALAR:
                            if isinstance(
                                instruction.Type.ElementType, LinearIR.IntegerType
                            ):
                                # Integer division truncates toward zero
                                localScope[ref] = [
                                    -(abs(v) // abs(op2))
                                    if (v < 0) != (op2 < 0)
                                    else abs(v) // abs(op2)
                                    for v in op1
                                ]
                            else:
                                localScope[ref] = [v / op2 for v in op1]""")])

@fix('D38', "fix: scalar * matrix is lowered row by row like matrix * scalar\n\nTyping accepts a product with the scalar on the left, but v_BinaryExpression\nonly handled the matrix on the left, so `s * m` fell through to\nFromOperation, which has no matrix case, and compilation died with an\ninternal compiler error.")
def d38():
    patch('nsl/passes/LowerToIR.py', [(
"""        assert isinstance(left, LinearIR.Value)
        assert isinstance(right, LinearIR.Value)

        if left.Type.IsMatrix() and right.Type.IsMatrix():""",
"""        assert isinstance(left, LinearIR.Value)
        assert isinstance(right, LinearIR.Value)

        if (
            left.Type.IsScalar()
            and right.Type.IsMatrix()
            and be.GetOperation() == op.Operation.MUL
        ):
            # S * M is lowered row by row like M * S (both operands have
            # been evaluated already, in source order)
            left, right = right, left

        if left.Type.IsMatrix() and right.Type.IsMatrix():""")])

@fix('D39', "fix: matrix * vector is lowered to one dot product per row\n\nThe branch for a matrix times a vector was an empty `pass`, so the product fell\nthrough to a component-wise VECTOR_MUL of a matrix and a vector and the VM\nraised TypeError on a program the front end accepts.")
def d39():
    patch('nsl/passes/LowerToIR.py', [(
"""        elif left.Type.IsMatrix() and right.Type.IsVector():
            # M <op> V, needs to get lowered to matrix-vector multiply
            pass
""",
"""        elif left.Type.IsMatrix() and right.Type.IsVector():
            # M * V: one dot product of a matrix row and the vector per
            # component of the result
            leftRowType = left.Type.RowType
            resultType = ctx.AdaptType(be.GetType())
            components = []
            for row in range(left.Type.RowCount):
                leftRow = LinearIR.MatrixAccessInstruction(
                    leftRowType,
                    left,
                    ctx.Function.CreateConstant(LinearIR.IntegerType(), row),
                )
                ctx.BasicBlock.AddInstruction(leftRow)

                products = LinearIR.BinaryInstruction(
                    LinearIR.OpCode.VECTOR_MUL, leftRowType, leftRow, right
                )
                ctx.BasicBlock.AddInstruction(products)

                total = None
                for column in range(leftRowType.Size):
                    product = LinearIR.VectorAccessInstruction(
                        resultType.ElementType,
                        products,
                        ctx.Function.CreateConstant(
                            LinearIR.IntegerType(), column
                        ),
                    )
                    ctx.BasicBlock.AddInstruction(product)
                    if total is None:
                        total = product
                    else:
                        total = LinearIR.BinaryInstruction(
                            LinearIR.OpCode.ADD,
                            resultType.ElementType,
                            total,
                            product,
                        )
                        ctx.BasicBlock.AddInstruction(total)
                components.append(total)

            result = LinearIR.ConstructPrimitiveInstruction(
                resultType, components
            )
            ctx.BasicBlock.AddInstruction(result)
            return result
""")])

@fix('D40', "fix: comparing two matrices yields a matrix of 0/1 like comparing two vectors\n\nThe comparison branch of ResolveBinaryExpressionType only knew vectors, so two\nmatrices were typed as a scalar int, while v_BinaryExpression lowers a matrix\ncomparison row by row into a matrix: `a > b` on float3x3 passed the front end\nand died in lowering with AttributeError ('IntegerType' has no 'RowType').")
def d40():
    patch('nsl/types.py', [(
"""                VectorType(Integer(), left.GetComponentCount()),
                [baseType, baseType],
            )
        return ExpressionType(Integer(), [baseType, baseType])""",
"""                VectorType(Integer(), left.GetComponentCount()),
                [baseType, baseType],
            )
        if left.IsMatrix() and right.IsMatrix():
            assert isinstance(left, MatrixType)
            return ExpressionType(
                left.WithComponentType(Integer()), [baseType, baseType]
            )
        return ExpressionType(Integer(), [baseType, baseType])""")])

@fix('D41', "fix: assigning through a swizzle of a scalar merges like a one-component vector\n\nThe store path of a swizzle read `value.Type.Size`, which scalar types do not\nhave, so `float a; a.x = s;` passed the front end and died in lowering with\nAttributeError.")
def d41():
    patch('nsl/passes/LowerToIR.py', [(
"""                leftComponentCount = value.Type.Size
""",
"""                leftComponentCount = (
                    value.Type.Size if value.Type.IsVector() else 1
                )
""")])

@fix('D42', "fix: constructor arguments must fill the constructed type\n\nNothing checked the arguments of float3(...) / float4x4(...): too few or too\nmany components, or scalars where a matrix needs rows, passed the front end and\nfailed in the VM (AssertionError in CONSTRUCT_PRIMITIVE, IndexError on a\ncomponent the type promises).")
def d42():
    patch('nsl/passes/ComputeTypes.py', [(
"""            elif isinstance(expr, ast.AffixExpression):
                expr.SetType(expr.children[0].GetType())
""",
"""            elif isinstance(expr, ast.AffixExpression):
                expr.SetType(expr.children[0].GetType())
            elif isinstance(expr, ast.ConstructPrimitiveExpression):
                self._CheckConstructorArguments(expr)
"""), (
"""    def v_VariableDeclaration(self, decl, ctx):""",
"""    def _CheckConstructorArguments(self, expr):
        targetType = expr.GetType()
        argumentTypes = [a.GetType() for a in expr.GetArguments()]
        if targetType.IsMatrix():
            # A matrix is built from its rows
            valid = len(argumentTypes) == targetType.GetRowCount() and all(
                t.IsPrimitive()
                and t.IsVector()
                and t.GetComponentCount() == targetType.GetColumnCount()
                for t in argumentTypes
            )
        elif targetType.IsVector():
            # A vector is built from scalars and vectors, flattened in order
            valid = all(
                t.IsPrimitive() and (t.IsScalar() or t.IsVector())
                for t in argumentTypes
            ) and targetType.GetComponentCount() == sum(
                t.GetComponentCount() if t.IsVector() else 1
                for t in argumentTypes
            )
        else:
            # A scalar is converted from one scalar
            valid = len(argumentTypes) == 1 and (
                argumentTypes[0].IsPrimitive() and argumentTypes[0].IsScalar()
            )

        if not valid:
            Errors.ERROR_INCOMPATIBLE_TYPES.Raise(
                targetType, ", ".join(str(t) for t in argumentTypes)
            )

    def v_VariableDeclaration(self, decl, ctx):""")])

@fix('D43', "fix: an initialiser must be compatible with the declared type\n\n`float3 v = 1.0;` or `int x = m;` (a matrix) passed the front end because a\ndeclaration's initialiser was typed but never compared with the declared type;\nthe first use of the variable then failed in the VM with TypeError.")
def d43():
    patch('nsl/passes/ComputeTypes.py', [(
"""        scope.RegisterVariable(decl.GetName(), decl.ResolveType(scope))
        if decl.HasInitializerExpression():
            self._ProcessExpression(decl.GetInitializerExpression(), scope)
""",
"""        declaredType = decl.ResolveType(scope)
        scope.RegisterVariable(decl.GetName(), declaredType)
        if decl.HasInitializerExpression():
            initializerType = self._ProcessExpression(
                decl.GetInitializerExpression(), scope
            )
            if not types.IsCompatible(declaredType, initializerType):
                Errors.ERROR_INCOMPATIBLE_TYPES.Raise(
                    declaredType, initializerType
                )
""")])

# D44 (return type compatibility) was tried and dropped: tests/test_vm.py::testAssignToVectorCopy itself returns a float from a
# function declared float4, so the unedited suite cannot pass with the check; recorded as known finding KF-02 instead.

@fix('D45', "fix: the VM constructs scalars\n\n`float(a)` is accepted and lowered to CONSTRUCT_PRIMITIVE of a scalar type, for\nwhich the VM had no case and raised an internal compiler error; the (already\nconverted) argument is the value.")
def d45():
    patch('nsl/VM.py', [(
"""                            var.append(value)
                        localScope[ref] = var
                    else:
                        Errors.ERROR_INTERNAL_COMPILER_ERROR.Raise(""",
"""                            var.append(value)
                        localScope[ref] = var
                    elif (
                        instruction.Type.IsScalar()
                        and len(instruction.Values) == 1
                    ):
                        localScope[ref] = localScope[
                            instruction.Values[0].Reference
                        ]
                    else:
                        Errors.ERROR_INTERNAL_COMPILER_ERROR.Raise(""")])

@fix('D46', "fix: a while statement's condition is visited before its body\n\nWhileStatement._Traverse visited the body first, so every pass saw an unbraced\ndeclaration in the body before the condition: `while (x < 3) int x;` was typed\nwith x already declared, passed the front end and died in lowering with\nKeyError.")
def d46():
    patch('nsl/ast/__init__.py', [(
"""        self.__body = function(self.__body)
        self.__condition = function(self.__condition)

    def GetCondition(self):
        return self.__condition

    def GetBody(self):
        return self.__body


class Annotation(Node):""",
"""        self.__condition = function(self.__condition)
        self.__body = function(self.__body)

    def GetCondition(self):
        return self.__condition

    def GetBody(self):
        return self.__body


class Annotation(Node):""")])

@fix('D47', "fix: the value of an assignment is the assigned value\n\nv_AssignmentExpression returned whatever lowering the left-hand side produced.\nFor an element of a vector or matrix and for a swizzle that is the store of the\nwhole updated parent, so `c = v.y = p;` or `c = m[1][2] = p;` gave c the\nvector/matrix and `c + v.y` failed in the VM with TypeError.")
def d47():
    patch('nsl/passes/LowerToIR.py', [(
"""        ctx.BeginAssignment(value)
        destination = self.v_Visit(expr.GetLeft(), ctx)
        ctx.EndAssignment()

        return destination
""",
"""        ctx.BeginAssignment(value)
        self.v_Visit(expr.GetLeft(), ctx)
        ctx.EndAssignment()

        return value
""")])

@fix('D13', "fix: a module exports its structure types, not its global variables, as types\n\nv_Module stored a dict {global name: type of the global} under\nMetadata['types'], while ComputeTypes iterates that entry and registers each\nelement as a named type: importing any module that declares a global variable\nfailed with AssertionError, and structure types were never exported.")
def d13():
    patch('nsl/passes/LowerToIR.py', [(
"""        ctx.Module.Metadata["types"] = {
            d.GetName(): d.GetType()
            for d in itertools.chain(
                *[gd.GetDeclarations() for gd in module.GetDeclarations()]
            )
        }
""",
"""        ctx.Module.Metadata["types"] = [t.GetType() for t in module.GetTypes()]
""")])

@fix('D48', "fix: the wasm backend refuses signatures with non-scalar types\n\n_ConvertType turned arrays, vectors, matrices and structures into struct types\n(0x5F ...), which are not WebAssembly 1.0 value types: a function with such a\nparameter produced a module no engine accepts. Function signatures now refuse\nthem like every other construct the backend cannot translate.")
def d48():
    patch('nsl/passes/GenerateWasm.py', [(
"""    for argType in ft.Arguments.values():
        argTypes.append(_ConvertType(argType))

    if not ft.ReturnType.IsVoid():
        resultTypes.append(_ConvertType(ft.ReturnType))
""",
"""    for argType in ft.Arguments.values():
        if not argType.IsScalar():
            raise RuntimeError(
                f"Unsupported parameter type for WebAssembly: {argType}"
            )
        argTypes.append(_ConvertType(argType))

    if not ft.ReturnType.IsVoid():
        if not ft.ReturnType.IsScalar():
            raise RuntimeError(
                f"Unsupported return type for WebAssembly: {ft.ReturnType}"
            )
        resultTypes.append(_ConvertType(ft.ReturnType))
""")])

@fix('D49', "fix: the wasm backend refuses a function whose body can end without a return value\n\nA function with a return type but no return statement was emitted as a body\nthat falls off its end with an empty stack, which does not type-check against\nthe signature.")
def d49():
    patch('nsl/passes/GenerateWasm.py', [(
"""        for basicBlock in function.BasicBlocks:
            for instruction in basicBlock.Instructions:
                self.v_Visit(instruction, ctx)

        ctx.OnLeaveFunction()
""",
"""        lastInstruction = None
        for basicBlock in function.BasicBlocks:
            for instruction in basicBlock.Instructions:
                self.v_Visit(instruction, ctx)
                lastInstruction = instruction

        if functionType.Results and (
            lastInstruction is None
            or lastInstruction.OpCode != LinearIR.OpCode.RETURN
        ):
            raise RuntimeError(
                "Unsupported for WebAssembly: function can end without "
                "returning a value"
            )

        ctx.OnLeaveFunction()
"""), ])
    patch('nsl/WebAssembly.py', [(
"""    @property
    def Arguments(self):
        return self.__argumentTypes

    def WriteTo(self, output: BinaryIO):
        WriteByte(output, ValueType.function.value)""",
"""    @property
    def Arguments(self):
        return self.__argumentTypes

    @property
    def Results(self):
        return self.__returnTypes

    def WriteTo(self, output: BinaryIO):
        WriteByte(output, ValueType.function.value)""")])

@fix('D50', "fix: i32.const immediates must fit in 32 bits\n\nAn integer literal outside the 32-bit range was written as a longer LEB128\nimmediate, which is malformed; unsigned values above 2^31 - 1 are written as the\nsigned value with the same bits, anything wider is refused.")
def d50():
    patch('nsl/passes/GenerateWasm.py', [(
"""        if isinstance(t, LinearIR.IntegerType):
            return WebAssembly.Instruction(
                WebAssembly.opcodes["i32.const"], (cv.Value,)
            )""",
"""        if isinstance(t, LinearIR.IntegerType):
            value = cv.Value
            if not -(2**31) <= value < 2**32:
                raise Exception("Unsupported constant: does not fit in 32 bits")
            if value >= 2**31:
                # same 32 bits, as the signed immediate i32.const takes
                value -= 2**32
            return WebAssembly.Instruction(
                WebAssembly.opcodes["i32.const"], (value,)
            )""")])

@fix('D51', "fix: the wasm backend refuses a return value whose type differs from the signature\n\nThe returned value was pushed as it is; when its type differs from the declared\nreturn type (the front end does not check that) the body does not type-check\nagainst its signature.")
def d51():
    patch('nsl/passes/GenerateWasm.py', [(
"""    def v_ReturnInstruction(self, ri: LinearIR.ReturnInstruction, ctx: Context):
        if ri.Value:
            self.__PushValueOntoStack(ri.Value, ctx)
""",
"""    def v_ReturnInstruction(self, ri: LinearIR.ReturnInstruction, ctx: Context):
        expected = [_ConvertType(ri.Value.Type)] if ri.Value else []
        if expected != ctx.ResultTypes:
            raise RuntimeError(
                "Unsupported for WebAssembly: returned value does not have "
                "the function's return type"
            )
        if ri.Value:
            self.__PushValueOntoStack(ri.Value, ctx)
"""), (
"""        def OnEnterFunction(self, functionName: str):
            self.__code = WebAssembly.Code()
""",
"""        @property
        def ResultTypes(self):
            return self.__resultTypes

        def SetResultTypes(self, resultTypes):
            self.__resultTypes = resultTypes

        def OnEnterFunction(self, functionName: str):
            self.__code = WebAssembly.Code()
"""), (
"""        ctx.Module.AddFunction(ctx.Module.AddFunctionType(functionType))
""",
"""        ctx.Module.AddFunction(ctx.Module.AddFunctionType(functionType))
        ctx.SetResultTypes(functionType.Results)
""")])

@fix('D52', "fix: the two branches of an if are separate scopes\n\nBoth passes that track names opened one scope per if statement and visited the\ncondition and both branches in it, so an unbraced declaration in the then\nbranch was visible in the else branch: `if (c) int t = 1; else int u = t;`\npassed the front end and failed in the VM with KeyError when the else branch\nran (t was never declared), and `if (c) int x; else int x;` was rejected\nalthough the branches are disjoint.")
def d52():
    patch('nsl/passes/ComputeTypes.py', [(
"""    def v_IfStatement(self, stmt, ctx):
        ctx.append(types.Scope(ctx[-1]))
        stmt.AcceptVisitor(self, ctx)
        ctx.pop()
""",
"""    def v_IfStatement(self, stmt, ctx):
        # The condition belongs to the enclosing scope, each branch is a
        # scope of its own
        self.v_Visit(stmt.GetCondition(), ctx)
        for branch in (stmt.GetTruePath(), stmt.GetElsePath()):
            if branch is not None:
                ctx.append(types.Scope(ctx[-1]))
                self.v_Visit(branch, ctx)
                ctx.pop()
""")])
    patch('nsl/passes/ValidateVariableNames.py', [(
"""    def v_IfStatement(self, ifStatement, ctx=None):
        ctx = self.Context(ctx)

        with Errors.CompileExceptionToErrorHandler(
            self.errorHandler, self.__onError
        ):
            ifStatement.AcceptVisitor(self, ctx)
""",
"""    def v_IfStatement(self, ifStatement, ctx=None):
        with Errors.CompileExceptionToErrorHandler(
            self.errorHandler, self.__onError
        ):
            # Each branch is a scope of its own
            for branch in (
                ifStatement.GetTruePath(),
                ifStatement.GetElsePath(),
            ):
                if branch is not None:
                    self.v_Visit(branch, self.Context(ctx))
""")])

@fix('D21', "fix: %, && and || on vectors and matrices are lowered and executed component-wise\n\nTyping accepts `a % b`, `a && b`, `a || b` for two vectors or two matrices of the\nsame shape, but FromOperation had no vector opcode for them (VECTOR_MOD was declared\nbut unused), so lowering died with KeyError.")
def d21():
    patch('nsl/LinearIR.py', [
("""    VECTOR_CMP_EQ = 0x1_1105
""", """    VECTOR_CMP_EQ = 0x1_1105

    VECTOR_LG_OR = 0x1_1300
    VECTOR_LG_AND = 0x1_1301
"""),
("""                op.Operation.DIV: OpCode.VECTOR_DIV,
                op.Operation.CMP_GT: OpCode.VECTOR_CMP_GT,""",
"""                op.Operation.DIV: OpCode.VECTOR_DIV,
                op.Operation.MOD: OpCode.VECTOR_MOD,
                op.Operation.LG_AND: OpCode.VECTOR_LG_AND,
                op.Operation.LG_OR: OpCode.VECTOR_LG_OR,
                op.Operation.CMP_GT: OpCode.VECTOR_CMP_GT,"""),
])
    patch('nsl/VM.py', [
("""                        case LinearIR.OpCode.VECTOR_CMP_GT:
                            localScope[ref] = [
                                1 if x > y else 0 for x, y in zip(op1, op2)
                            ]""",
"""                        case LinearIR.OpCode.VECTOR_MOD:
                            localScope[ref] = [x % y for x, y in zip(op1, op2)]
                        case LinearIR.OpCode.VECTOR_LG_AND:
                            localScope[ref] = [
                                1 if x and y else 0 for x, y in zip(op1, op2)
                            ]
                        case LinearIR.OpCode.VECTOR_LG_OR:
                            localScope[ref] = [
                                1 if x or y else 0 for x, y in zip(op1, op2)
                            ]
                        case LinearIR.OpCode.VECTOR_CMP_GT:
                            localScope[ref] = [
                                1 if x > y else 0 for x, y in zip(op1, op2)
                            ]"""),
])


@fix('D36', "fix: float variables hold floats\n\nA default-initialised float scalar (and float vector/matrix components) was the int 0 and\n`x++` on a float added the int 1, so a float variable could hold a Python int; repeated\nmultiplication then computed exact big integers instead of floats\n(`float x; x++; x++; x++; x = x * x` six times returned 3**64 exactly, not 3.43e30).")
def d36():
    patch('nsl/VM.py', [
("""        match primitiveType.Kind:
            case LinearIR.TypeKind.Vector:
                return [0] * primitiveType.Size
            case LinearIR.TypeKind.Matrix:
                return [
                    [0] * primitiveType.ColumnCount
                ] * primitiveType.RowCount
            case LinearIR.TypeKind.Scalar:
                return 0
""",
"""        def Zero(scalarType):
            return 0.0 if isinstance(scalarType, LinearIR.FloatType) else 0

        match primitiveType.Kind:
            case LinearIR.TypeKind.Vector:
                return [Zero(primitiveType.ElementType)] * primitiveType.Size
            case LinearIR.TypeKind.Matrix:
                return [
                    [Zero(primitiveType.ElementType)]
                    * primitiveType.ColumnCount
                ] * primitiveType.RowCount
            case LinearIR.TypeKind.Scalar:
                return Zero(primitiveType)
"""),
])
    patch('nsl/passes/LowerToIR.py', [
("""        constOne = ctx.Function.CreateConstant(ctx.AdaptType(expr.GetType()), 1)
""",
"""        constOneType = ctx.AdaptType(expr.GetType())
        constOne = ctx.Function.CreateConstant(
            constOneType,
            1.0 if isinstance(constOneType, LinearIR.FloatType) else 1,
        )
"""),
])


@fix('D18b', "fix: assignments to array elements and structure members have a value\n\nSTORE_ARRAY and STORE_MEMBER did not define their own reference, so using such an\nassignment as a value (`c = a[0] = 1;`, `x = s.f = 2;`) raised KeyError in the VM.")
def d18b():
    patch('nsl/VM.py', [
("""                    localScope[instruction.Variable.Reference][
                        instruction.Member
                    ] = localScope[instruction.Store.Reference]""",
"""                    localScope[instruction.Variable.Reference][
                        instruction.Member
                    ] = localScope[instruction.Store.Reference]
                    # The value of an assignment is the value that was stored
                    localScope[ref] = localScope[instruction.Store.Reference]"""),
("""                    localScope[array][
                        localScope[instruction.Index.Reference]
                    ] = var""",
"""                    localScope[array][
                        localScope[instruction.Index.Reference]
                    ] = var
                    # The value of an assignment is the value that was stored
                    localScope[ref] = var"""),
])

@fix('D53', "fix: a value stored through a swizzle must have as many components as the mask\n\n`v.xy = s;` or `v.xyz = w2;` passed the front end because an assignment took the\ntype of its target without looking at the assigned expression. The shuffle that\nimplements a swizzle store picks one component of the value per mask letter, so\nthe store failed in the VM with IndexError.")
def d53():
    patch('nsl/passes/ComputeTypes.py', [(
"""            elif isinstance(expr, ast.BinaryExpression):
                expr.ResolveType(
                    expr.GetLeft().GetType(), expr.GetRight().GetType()
                )
""",
"""            elif isinstance(expr, ast.BinaryExpression):
                if (
                    isinstance(expr, ast.AssignmentExpression)
                    and isinstance(expr.GetLeft(), ast.MemberAccessExpression)
                    and expr.GetLeft().isSwizzle
                    and not types.IsCompatible(
                        expr.GetLeft().GetType(), expr.GetRight().GetType()
                    )
                ):
                    # A swizzle store takes one component per mask letter
                    Errors.ERROR_INCOMPATIBLE_TYPES.Raise(
                        expr.GetLeft().GetType(), expr.GetRight().GetType()
                    )
                expr.ResolveType(
                    expr.GetLeft().GetType(), expr.GetRight().GetType()
                )
""")])

@fix('D54', "fix: the fields of a structure are not variables of the module\n\nv_StructureDefinition typed each field by visiting it as a variable declaration in\nthe scope of the module, so every field name became a global variable of the type\nscope: two structures with a field of the same name (or a field named like a\nglobal) stopped the compiler with an AssertionError in Scope.RegisterVariable, and\na function could read a field name as if it were a variable. Type the fields in a\nscope of their own.")
def d54():
    patch('nsl/passes/ComputeTypes.py', [(
"""        scope = ctx[-1]
        fields = OrderedDict()
        for field in decl.GetFields():
            self.v_Visit(field, ctx)
            fields[field.GetName()] = field.GetType()
""",
"""        scope = ctx[-1]
        fields = OrderedDict()
        # The fields live in the structure, not in the enclosing scope
        ctx.append(types.Scope(scope))
        for field in decl.GetFields():
            self.v_Visit(field, ctx)
            fields[field.GetName()] = field.GetType()
        ctx.pop()
""")])

if __name__ == '__main__':
    name = sys.argv[1]
    msg, f = FIXES[name]
    os.chdir(sys.argv[2] if len(sys.argv) > 2 else '/repo')
    f()
    open('/tmp/fixmsg.txt', 'w').write(msg + '\n')
    print('patched', name)

# ---- appended: wasm backend
