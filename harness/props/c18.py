"""C18 -- Compilation is deterministic and independent of earlier compilations."""
import os, json
import shapes, nslgen, genvec, gentyped, vmcases, ircoq
from nslgen import *
from props import c01

STATIC = ["Model/Elab.v", "Model/Lower.v", "Model/IREq.v"]


FORMS = [
    ("export function f(int a, int) -> int { return a * 2 + 1; }", {}),
    ("export function f(int a, int) -> int { return a * 2 + 1; }", {"optimize": True}),
    ("export function f(int a, int) -> int { return a * 2 + 1; }", {"wasm": True}),
    ("function pick(int, int b) -> int { return b; }\nfunction pick(float a, float) -> float { return a; }\nexport function f(int a, int b) -> int { return pick(a, b) + pick(b, a); }", {}),
    ("function k(float, float b, float c) -> float { return c; }\nexport function m(uint a, uint) -> uint { return a / a; }", {"optimize": True}),
    ("export function m(uint a, uint) -> uint { return a / a; }", {"wasm": True}),
    ("function h(int, int, int) -> int { return 3; }\nexport function f(int x) -> int { return h(x, x, x) + 0x10 + 017; }", {}),
    ("function later(int a) -> int;\nexport function f(int a) -> int { return later(a) + 1; }\nfunction later(int a) -> int { return a * 2; }", {}),
    ("export function f(__optional int a, int b) -> int { return a + b; }", {}),
    ("[packed] [aligned] struct S { int a; float b; }\nexport function f(int a) -> int { S s; s.a = a; return s.a; }", {"optimize": True}),
    ("import \"std\";\nexport function f(float a) -> float { return a; }", {}),
    ("int g;\nexport function w(int v, float) -> void { g = v; }", {"optimize": True}),
    # overloads of different arity: which one a call reaches must not depend on argument modifiers seen in earlier sources
    ("function g(float a) -> float { return a; }\nfunction g(int a, int b) -> int { return a + b; }\nexport function f(int x) -> float { return g(x); }", {}),
    ("function g(int a, int b, int c) -> int { return c; }\nfunction g(float a, float b) -> float { return b; }\nexport function f(int x, int y) -> float { return g(x, y); }", {"optimize": True}),
]


COLLIDE = [
    "struct S { float q; float r; float a; }\nstruct S0 { int zz; float m0; int m7; }\nstruct S1 { float x; float y; }\nstruct T { float cnt; }\n"
    "export function pre(S s, S0 t, S1 u) -> float { return s.q + t.m0 + u.y; }",
    "float a; float b; float c; float d; float x0; float x1; float x2; float p0; float p1; float t; float i; float j; float v; float w; float n; float s; float total; float calls;\n"
    "int counter; int scale; float x; float y;\nexport function pre2() -> float { return a + x0 + p0; }",
    "function h(float q) -> float { return q; }\nfunction k(int a, int b, int c) -> int { return a; }\nfunction pick(float a) -> float { return a; }\n"
    "export function f(float z) -> float { return h(z) + pick(z); }\nexport function m(float z) -> float { return z; }\nexport function w(int z) -> int { return k(z, z, z); }",
    "int[4] g0; float3 g1; int[2][2] g2; float4x4 g3;\nexport function f0(int q) -> int { g0[1] = q; return g0[1]; }",
    "export function f(__optional int a, int b) -> int { return a + b; }",
    "export function f([packed] int a, __optional float b) -> float { return b; }",
]


def wasm_programs(rng, n):
    import genwasm
    g = genwasm.WGen(rng)
    return [g.module(outside=(k % 5 == 4)) for k in range(n)]


REJECTED = ["export function r1(int a) -> int { break; return a; }",
            "export function r2(float4 v) -> float { return v.q; }",
            "export function r3(int a) -> int { int t[3]; return t[5]; }".replace("int t[3]", "int[3] t"),
            "export function r4(float x) -> int { int[3] t; return t[x]; }",
            "export function r5(int a) -> int { int a; return a; }",
            "export function r6(int a) -> int { while (a > 0) { a = a - 1; } continue; return a; }"]


def run(ctx):
    ctx.static_obligations(STATIC)
    repo = ctx.sync_repo(1)[0]
    shapes.write(ctx, repo, ["compiler", "pass", "visitor"])
    ctx.compile_dyn(["Gen_Shapes", "Props_C18"])
    rng = ctx.rng
    quick = ctx.tier == "quick"
    targets = []          # (kind, module or None, text, opts)
    for (m, calls, text) in c01.gen_programs(ctx, 30 if quick else 400):
        targets.append(("core", m, text, {"optimize": False}))
        targets.append(("core", m, text, {"optimize": True}))
    g = genvec.VGen(rng)
    for k in range(20 if quick else 300):
        m, params, globs, ret = g.program()
        text, _ = nslgen.render(m, "canonical", rng)
        targets.append(("vector", None, text, {"optimize": bool(k % 2)}))
    for m in wasm_programs(rng, 30 if quick else 400):
        text, _ = nslgen.render(m, "canonical", rng)
        targets.append(("wasm", None, text, {"wasm": True}))
    # syntax the generators never produce: unnamed and __optional arguments, prototypes, annotated structures, octal / hexadecimal literals,
    # overloads that differ only in an unnamed argument, import lines
    for text, opts in FORMS:
        targets.append(("forms", None, text, opts))
    # programs with several imports would need stored modules; the import *set* is covered by sources with two import lines that fail to load identically
    seeds = ["0", "1", "12345", "4294967295"] if quick else ["0", "1", "2", "3", "7", "12345", "99999", "4294967295"]
    # histories: none; the target itself; other targets (some rejected programs included); a long mixed history; the same Compiler object reused
    def history(k, i):
        if k == 0:
            return [], False
        if k == 1:
            return [{"src": targets[i][2], "opts": targets[i][3]}], False
        if k == 2:
            return [{"src": targets[(i + j * 7 + 1) % len(targets)][2], "opts": targets[(i + j * 7 + 1) % len(targets)][3]} for j in range(3)] + [{"src": "export function broken( { ", "opts": {}}], False
        if k == 3:
            return [{"src": targets[(i + j * 3 + 2) % len(targets)][2], "opts": targets[(i + j * 3 + 2) % len(targets)][3]} for j in range(8)], False
        if k == 4:
            # the same source earlier with the other optimisation / wasm setting, then a rejected program
            o2 = dict(targets[i][3]); o2["optimize"] = not o2.get("optimize", False)
            # ... and one source for each validator that rejects: break outside a loop, an unknown swizzle letter, a constant index out of bounds, a float
            # index, a redeclared name -- a verdict of an earlier compilation must not reach a later one
            return [{"src": targets[i][2], "opts": o2}, {"src": "export function f(int a) -> int { return b; }", "opts": {}}] + [{"src": t, "opts": {}} for t in REJECTED], False
        # sources that use the NAMES the targets use with another meaning: structures S / S0 / S1 with other members, globals named like the
        # targets' parameters and locals, functions f / h / k with other signatures -- nothing of an earlier compilation may leak into a later one
        return [{"src": COLLIDE[j], "opts": {"optimize": bool(j % 2)}} for j in range(len(COLLIDE))], False
    # ... and sources compiled AFTER the target, before its result is listed: the target again and a program with break / continue in loops
    LATER_LOOPS = ("export function lp(int n) -> int { int s = 0; while (s < n) { if (s == 3) { break; } s = s + 1; } "
                   "int i = 0; while (i < n) { i = i + 1; if (i == 2) { continue; } s = s + i; } return s; }")
    NH = 7
    runs = {}     # (target index) -> list of (seed, hist kind, result)
    for seed in seeds:
        jobs = []
        for i, (kind, m, text, opts) in enumerate(targets):
            for k in range(NH):
                if k == 6:
                    jobs.append({"history": [], "target": text, "opts": opts, "reuse_compiler": False,
                                 "later": [{"src": text, "opts": opts}, {"src": LATER_LOOPS, "opts": {}}, {"src": LATER_LOOPS, "opts": {"optimize": True}}]})
                    continue
                h, reuse = history(k, i)
                jobs.append({"history": h, "target": text, "opts": opts, "reuse_compiler": reuse})
        res = ctx.run_impl("c18_impl.py", jobs, nworkers=16, hashseed=seed)
        for n, r in enumerate(res):
            runs.setdefault(n // NH, []).append((seed, n % NH, r))
    diffs, dist = [], {}
    blocks = []
    for i, (kind, m, text, opts) in enumerate(targets):
        rs = runs[i]
        def key(r):
            return json.dumps({k: v for k, v in r.items() if k in ("accept", "listing", "wasm", "imports", "globals")} if r["accept"] else {"accept": False, "exc": r["how"].get("exc"), "stage": r["how"].get("stage")}, sort_keys=True)
        base = key(rs[0][2])
        variants = {}
        for seed, hk, r in rs:
            variants.setdefault(key(r), []).append((seed, hk))
        dist["%s:%s" % (kind, "accepted" if rs[0][2]["accept"] else "rejected")] = dist.get("%s:%s" % (kind, "accepted" if rs[0][2]["accept"] else "rejected"), 0) + 1
        if len(variants) > 1:
            diffs.append((kind, text, opts, {k[:2000]: v[:4] for k, v in variants.items()}))
        elif m is not None and rs[0][2]["accept"] and "ir" in rs[0][2] and not opts.get("optimize"):
            r = rs[0][2]
            prog = ircoq.program({"functions": r["ir"]["functions"], "globals": r["ir"]["globals"]})
            blocks.append(("Definition P_%d : program := %s.\nDefinition M_%d : module := %s.\n" % (i, prog, i, nslgen.coq_module(m)), "ir_case M_%d P_%d" % (i, i)))
    files = vmcases.write_case_files(ctx, "C18", blocks, per=12)
    outs = ctx.eval_cases(files, timeout=900)
    codes = vmcases.collect_codes(ctx, files, outs, len(blocks), per=12)
    ir_diff = sum(1 for c in codes if c is not None and c == 1)
    outside = sum(1 for c in codes if c is not None and c >= 4)
    ctx.cov["evaluations"] = len(targets) * NH * len(seeds)
    ctx.cov["distinct_nontrivial"] = len({t[2] + str(t[3]) for t in targets})
    ctx.cov["programs"] = len(targets)
    ctx.cov["rule"] = ("targets: programs of the C01 generator at both optimisation settings, of the C04 vector generator, scalar straight-line modules compiled with the WebAssembly "
                       "option, and hand-written sources using the syntax the generators never produce (unnamed and __optional arguments, overloads differing in an unnamed argument, prototypes, "
                       "annotated structures, octal / hexadecimal literals, an import line); each compiled in %d processes with different PYTHONHASHSEED values x 7 histories (fresh process; the target compiled FIRST and its result read only after the same source and two loop programs with break/continue were compiled;  the same source compiled just before; four sources that use the targets' names for structures, globals and functions with another meaning compiled before; three other sources and a "
                       "syntax error before; eight other sources before; the same source with the other optimisation setting and a rejected program before), always with a fresh Compiler object as the property states (a Compiler object is not reusable: its visitors keep state). Compared: InstructionPrinter listing, import list, global "
                       "list, WebAssembly bytes (text equality across all %d combinations per target); for unoptimised core targets the structural IR is also compared inside Coq with the "
                       "lowering model's output for the source. Distinct = distinct (source, options)." % (len(seeds), NH * len(seeds)))
    ctx.cov["samples"] = [{"kind": t[0], "options": t[3], "source": t[2][:300]} for t in (targets[:1] + targets[len(targets) // 2:len(targets) // 2 + 1] + targets[-1:])]
    ctx.extra["input_distribution"] = dict(dist, hash_seeds=seeds, histories=NH, ir_compared_with_model=len(codes), ir_outside_model_fragment=outside)
    ctx.extra["disagreements_checked"] = len(targets) * NH * len(seeds) + len(codes)
    if diffs:
        kind, text, opts, variants = min(diffs, key=lambda d: len(d[1]))
        ctx.violation("failing-input", {"what": "the same source and options compiled to different outputs depending on hash seed or compilation history", "case_kind": kind, "source": text,
                                        "options": opts, "variants": variants, "count": len(diffs)})
    elif ir_diff:
        ctx.broken.append("correspondence (lowering model): IR differs on %d target(s)" % ir_diff)
