(** * Specification for C08: grouping of binary operators by precedence level, left to right. *)
From Coq Require Import List Arith Bool.
From NSL Require Import Base.Types.
Import ListNotations.

(** the six levels of the language, from loosest *)
Definition lvl (o : binop) : nat :=
  match o with
  | OLor => 1 | OLand => 2 | OEq | ONe => 3 | OLt | OLe | OGt | OGe => 4 | OAdd | OSub => 5 | OMul | ODiv | OMod => 6
  end.

(** expression trees over opaque operands (identifiers, literals, calls, element accesses ...), as written:
    parentheses are kept, [PAsg a r] is [a = r] *)
Inductive ptree := PLeaf (a : nat) | PNode (o : binop) (l r : ptree) | PAsg (a : nat) (r : ptree) | PPar (t : ptree).
Inductive token := KAtom (a : nat) | KOp (o : binop) | KAsg | KL | KR.

Fixpoint flatten (t : ptree) : list token :=
  match t with
  | PLeaf a => [KAtom a]
  | PNode o l r => flatten l ++ KOp o :: flatten r
  | PAsg a r => KAtom a :: KAsg :: flatten r
  | PPar t => KL :: flatten t ++ [KR]
  end.

Definition root_ge (n : nat) (t : ptree) : Prop := match t with PNode o _ _ => n <= lvl o | _ => True end.
Definition root_gt (n : nat) (t : ptree) : Prop := match t with PNode o _ _ => n < lvl o | _ => True end.
(** no assignment on the right spine: nothing in the tree would swallow what follows it *)
Fixpoint closed (t : ptree) : Prop := match t with PNode _ _ r => closed r | PAsg _ _ => False | _ => True end.
(** the grammar parenthesises binary expressions only *)
Definition par_ok (t : ptree) : Prop := match t with PNode _ _ _ | PPar _ => True | _ => False end.

(** THE grouping the property prescribes: an unparenthesised right operand binds strictly tighter than its parent,
    an unparenthesised left operand at least as tight (same level groups to the left); an assignment's right-hand
    side is everything that follows it (so an assignment is never a left operand without parentheses); a
    parenthesised sub-expression is an operand whatever it contains. *)
Fixpoint canonical (t : ptree) : Prop :=
  match t with
  | PLeaf _ => True
  | PPar t => canonical t /\ par_ok t
  | PNode o l r => canonical l /\ canonical r /\ root_ge (lvl o) l /\ root_gt (lvl o) r /\ closed l
  | PAsg _ r => canonical r
  end.

(** the tree the parser hands on: parentheses leave no node *)
Inductive etree := ELeaf (a : nat) | ENode (o : binop) (l r : etree) | EAsgn (a : nat) (r : etree).
Fixpoint erase (t : ptree) : etree :=
  match t with
  | PLeaf a => ELeaf a
  | PNode o l r => ENode o (erase l) (erase r)
  | PAsg a r => EAsgn a (erase r)
  | PPar t => erase t
  end.
