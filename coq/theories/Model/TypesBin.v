(** * Model of nsl/types.py: ResolveBinaryExpressionType and its helpers, branch by branch.
    Outcomes distinguish how a combination is rejected (CompileException vs. a failed assertion /
    AttributeError), because the correspondence compares that too. *)
From Coq Require Import String ZArith List Bool Arith.
From NSL Require Import Base.Types.
Import ListNotations.

Inductive reject_kind := RCompile | RAssert.
Inductive resolved := ROk (result left right : pty) | RFail (k : reject_kind).

(** _GetCommonScalarType *)
Definition common_scalar (a b : comp) : comp :=
  if comp_eqb a CFloat || comp_eqb b CFloat then CFloat
  else if comp_eqb a CInt || comp_eqb b CInt then CInt
  else CUInt.

Inductive common_res := CSome (p : pty) | CNone | CAssert.
Definition kind_nat (p : pty) : nat := match p with PScalar _ => 1 | PVec _ _ => 2 | PMat _ _ _ => 3 end.
Definition is_scalar (p : pty) : bool := match p with PScalar _ => true | _ => false end.
Definition is_matrix (p : pty) : bool := match p with PMat _ _ _ => true | _ => false end.

(** _GetRowsColumns *)
Definition rows_cols (p : pty) : nat * nat :=
  match p with PMat _ r k => (r, k) | PVec _ n => (n, 1) | PScalar _ => (1, 1) end.

Section Resolve.
  (** the two pieces regenerated from source on every run: op.IsComparison and _GetCommonScalarType *)
  Variable is_cmp : binop -> bool.
  Variable cscalar : comp -> comp -> comp.

  (** _GetCommonPrimitiveType: None when the kinds differ (falls off the end), assertion when sizes differ *)
  Definition common_prim_with (l r : pty) : common_res :=
    match l, r with
    | PScalar a, PScalar b => CSome (PScalar (cscalar a b))
    | PVec a n, PVec b m => if Nat.eqb n m then CSome (PVec (cscalar a b) n) else CAssert
    | PMat a r1 k1, PMat b r2 k2 => if Nat.eqb r1 r2 && Nat.eqb k1 k2 then CSome (PMat (cscalar a b) r1 k1) else CAssert
    | _, _ => CNone
    end.

  Definition resolve_binop_with (o : binop) (l r : pty) : resolved :=
    if is_cmp o then
      if negb (Nat.eqb (kind_nat l) (kind_nat r)) then RFail RCompile
      else match common_prim_with l r with
           | CAssert | CNone => RFail RAssert
           | CSome base =>
               match l, r with
               | PVec _ n, PVec _ _ => ROk (PVec CInt n) base base
               | PMat _ rows cols, PMat _ _ _ => ROk (PMat CInt rows cols) base base
               | _, _ => ROk (PScalar CInt) base base
               end
           end
    else
    if (match o with OMul | ODiv => true | _ => false end) && negb (is_scalar l && is_scalar r) then
      let base := cscalar (comp_of l) (comp_of r) in
      match o with
      | ODiv =>
          if negb (is_scalar r) then RFail RCompile
          else ROk (with_comp l base) (with_comp l base) (PScalar base)
      | _ =>
          if is_scalar l then ROk (with_comp r base) (PScalar base) (with_comp r base)
          else if is_scalar r then ROk (with_comp l base) (with_comp l base) (PScalar base)
          else
            let ls := rows_cols l in let rs := rows_cols r in
            if negb (is_matrix l) || negb (Nat.eqb (snd ls) (fst rs)) then RFail RCompile
            else if Nat.eqb (snd rs) 1 then ROk (PVec base (fst ls)) (with_comp l base) (with_comp r base)
            else if Nat.ltb 1 (snd rs) then ROk (PMat base (fst ls) (snd rs)) (with_comp l base) (with_comp r base)
            else RFail RCompile
      end
    else
    if pty_eqb l r then ROk l l r
    else if negb (Nat.eqb (kind_nat l) (kind_nat r)) then RFail RCompile
    else match common_prim_with l r with
         | CSome base => ROk base base base
         | _ => RFail RAssert
         end.
End Resolve.

Definition common_prim := common_prim_with common_scalar.
Definition resolve_binop := resolve_binop_with is_comparison common_scalar.
