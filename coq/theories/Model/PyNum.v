(** * Python values and arithmetic as the VM uses them (nsl/VM.py).
    Integers are unbounded [Z]; floats are IEEE binary64 ([PrimFloat], round to nearest even = CPython).
    Lists and dicts are heap objects referred to by address (Python object identity matters: the VM mutates
    lists in place). *)
From Coq Require Import String ZArith List Bool PrimFloat Uint63.
Import ListNotations.
Local Open Scope Z_scope.

Inductive val := VInt (z : Z) | VFloat (f : float) | VNone | VRef (a : nat).
Inductive obj := OList (l : list val) | ODict (d : list (string * val)).
Definition heap := list obj.

(** what a KeyError was about (Python only says KeyError; the model keeps the cause for the theorems) *)
Inductive keykind := KReg | KVar | KGlobal | KBlock | KFunc | KMember.
Inductive errkind :=
  | EZeroDiv | EIndex | EKey (k : keykind) | EType | EAssert | EICE | EAttr | EValue | EOverflow | EUnhandledOpcode.

(** outcome of a partial operation: a value, a Python exception, or a case this model does not describe *)
Inductive res (A : Type) := Ok (a : A) | Err (e : errkind) | Unmodelled.
Arguments Ok {A}. Arguments Err {A}. Arguments Unmodelled {A}.

Definition bind {A B} (r : res A) (f : A -> res B) : res B :=
  match r with Ok a => f a | Err e => Err e | Unmodelled => Unmodelled end.
Notation "'do' x <- r ; k" := (bind r (fun x => k)) (at level 200, x pattern, r at level 100, k at level 200).

(** ** conversions *)
Definition two63 : Z := 9223372036854775808.
(** float(int): exact below 2^53, correctly rounded below 2^63; larger magnitudes are outside the model *)
Definition float_of_Z (z : Z) : res float :=
  if (0 <=? z) && (z <? two63) then Ok (of_uint63 (Uint63.of_Z z))
  else if (- two63 <? z) && (z <? 0) then Ok (PrimFloat.opp (of_uint63 (Uint63.of_Z (- z))))
  else Unmodelled.

Definition is_finite (f : float) : bool := PrimFloat.ltb (PrimFloat.abs f) infinity.

(** math.floor on a float: ValueError for nan, OverflowError for infinities *)
Definition floor_float (f : float) : res Z :=
  if negb (PrimFloat.eqb f f) then Err EValue
  else if negb (is_finite f) then Err EOverflow
  else if PrimFloat.eqb f zero then Ok 0
  else
    let a := PrimFloat.abs f in
    let '(m, e) := frshiftexp a in
    let mant := Uint63.to_Z (normfr_mantissa m) in          (* a = mant * 2^(ex - 53) *)
    let ex := Uint63.to_Z e - 2101 in
    let k := ex - 53 in
    let neg := PrimFloat.ltb f zero in
    if 0 <=? k then Ok (if neg then - (mant * 2 ^ k) else mant * 2 ^ k)
    else let d := 2 ^ (- k) in
         let q := mant / d in
         let exact := (mant mod d =? 0) in
         Ok (if neg then (if exact then - q else - q - 1) else q).

(** ** scalar operations: Python's int/float tower *)
Inductive num := NI (z : Z) | NF (f : float).
Definition as_num (v : val) : option num := match v with VInt z => Some (NI z) | VFloat f => Some (NF f) | _ => None end.
Definition of_num (n : num) : val := match n with NI z => VInt z | NF f => VFloat f end.

Definition to_float (n : num) : res float := match n with NI z => float_of_Z z | NF f => Ok f end.

Definition arith (fi : Z -> Z -> Z) (ff : float -> float -> float) (a b : num) : res val :=
  match a, b with
  | NI x, NI y => Ok (VInt (fi x y))
  | _, _ => do x <- to_float a; do y <- to_float b; Ok (VFloat (ff x y))
  end.

Definition py_add := arith Z.add PrimFloat.add.
Definition py_sub := arith Z.sub PrimFloat.sub.
Definition py_mul := arith Z.mul PrimFloat.mul.

(** true division: always a float; ZeroDivisionError for a zero divisor of either type *)
Definition py_truediv (a b : num) : res val :=
  do x <- to_float a; do y <- to_float b;
  if PrimFloat.eqb y zero then Err EZeroDiv else Ok (VFloat (PrimFloat.div x y)).

(** the VM's integer division (abs // abs with the sign restored) = truncation toward zero, on ints *)
Definition py_intdiv (a b : num) : res val :=
  match a, b with
  | NI x, NI y => if y =? 0 then Err EZeroDiv else Ok (VInt (Z.quot x y))
  | _, _ => Unmodelled
  end.

(** % : floor modulo on ints (sign of the divisor); float modulo is not modelled *)
Definition py_mod (a b : num) : res val :=
  match a, b with
  | NI x, NI y => if y =? 0 then Err EZeroDiv else Ok (VInt (Z.modulo x y))
  | _, _ => Unmodelled
  end.

Inductive cmp := CLt | CLe | CGt | CGe | CEq | CNe.
Definition cmp_Z (c : cmp) (x y : Z) : bool :=
  match c with CLt => x <? y | CLe => x <=? y | CGt => y <? x | CGe => y <=? x | CEq => x =? y | CNe => negb (x =? y) end.
Definition cmp_float (c : cmp) (x y : float) : bool :=
  match c with
  | CLt => PrimFloat.ltb x y | CLe => PrimFloat.leb x y | CGt => PrimFloat.ltb y x | CGe => PrimFloat.leb y x
  | CEq => PrimFloat.eqb x y | CNe => negb (PrimFloat.eqb x y)
  end.
(** mixed comparisons convert the int (exact within the modelled magnitude) *)
Definition py_cmp (c : cmp) (a b : num) : res bool :=
  match a, b with
  | NI x, NI y => Ok (cmp_Z c x y)
  | _, _ => do x <- to_float a; do y <- to_float b; Ok (cmp_float c x y)
  end.

Definition truthy_num (n : num) : bool :=
  match n with NI z => negb (z =? 0) | NF f => negb (PrimFloat.eqb f zero) end.

Definition b2v (b : bool) : val := VInt (if b then 1 else 0).
