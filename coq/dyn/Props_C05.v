(** * C05 -- Accepted programs do not go wrong. *)
From Coq Require Import String ZArith List Bool Arith.
From NSL Require Import Model.PyNum Model.IR Model.VM Model.WfIR Proofs.WfIRProofs.
From NSLDyn Require Gen_Shapes.
Import ListNotations.

(** PARTIAL.  Proved: one class of internal errors is excluded for every execution of every IR program that passes
    the well-formedness check of C14 (applied to every compiled module there): an operand that no executed
    instruction defined, a branch to a missing block, a call of a missing function.  The remaining classes (an
    instruction applied to a value of the wrong shape, an opcode without an arm, a failing lowering) are explored,
    not proved: the check enumerates the type-level families of the language through the real compiler and VM. *)
Theorem C05_no_undefined_operand : forall fuel P fn named st, wf_program_b P = true ->
    find_func P fn <> None -> ~ bad (invoke fuel P fn named st).
Proof. exact wf_invoke_sound. Qed.

Theorem C05_gate_shapes : Gen_Shapes.shape_compiler_checked = true /\ Gen_Shapes.shape_pass_checked = true.
Proof. split; reflexivity. Qed.

Eval compute in "ASSUMPTIONS C05_no_undefined_operand"%string. Print Assumptions C05_no_undefined_operand.
Eval compute in "END"%string.
