(** * C07: every function the generator model emits for a typed IR function is a valid WebAssembly function body. *)
From Coq Require Import String ZArith List Bool Arith Lia PrimFloat.
From NSL Require Import Model.PyNum Model.IR Model.VM Spec.Wasm Model.WasmGen Proofs.WasmProofs Model.IREq.
Import ListNotations.

(** ** lists of options *)
Lemma all_some_length {A} : forall (l : list (option A)) r, all_some l = Some r -> length r = length l.
Proof.
  induction l as [|[x|] l IH]; intros r H; cbn in H; try discriminate.
  - inversion H; reflexivity.
  - destruct (all_some l) as [r'|] eqn:E; cbn in H; [|discriminate]. inversion H; subst. cbn. f_equal. apply IH. reflexivity.
Qed.
Lemma all_some_nth {A} : forall (l : list (option A)) r n x, all_some l = Some r -> nth_error l n = Some (Some x) -> nth_error r n = Some x.
Proof.
  induction l as [|[y|] l IH]; intros r n x H Hn; cbn in H; try discriminate.
  - destruct n; discriminate.
  - destruct (all_some l) as [r'|] eqn:E; cbn in H; [|discriminate]. inversion H; subst.
    destruct n as [|n]; cbn in *; [congruence|]. eapply IH; eauto.
Qed.

Lemma index_of_nth : forall refs r k, index_of r refs = Some k ->
  exists t, nth_error refs k = Some (r, t) /\ find (fun p => Nat.eqb (fst p) r) refs = Some (r, t).
Proof.
  induction refs as [|[x t] rest IH]; intros r k H; cbn in H; [discriminate|].
  cbn [find fst]. destruct (Nat.eqb_spec x r) as [->|Hne].
  - inversion H; subst. exists t. split; reflexivity.
  - destruct (index_of r rest) as [k'|] eqn:E; cbn in H; [|discriminate]. inversion H; subst.
    destruct (IH r k' E) as (t' & Hn & Hf). exists t'. split; [exact Hn|exact Hf].
Qed.

(** ** stacks with nothing on them (reachable or after a return) *)
Definition bare (p : bool) : vstack := {| vs_types := []; vs_poly := p |}.

Lemma binary_group_bare : forall locals results (pa pb : Wasm.instr) ta r op p,
  push_type locals pa = Some ta -> push_type locals pb = Some ta ->
  op_types op = Some (ta, result_type op ta) -> nth_error locals r = Some (result_type op ta) ->
  check_instrs locals results [pa; pb; op; LocalSet r] (bare p) = Some (bare p).
Proof.
  intros locals results pa pb ta r op p Ha Hb Hop Hr. cbn [check_instrs].
  rewrite (push_type_check _ _ _ _ _ Ha), (push_type_check _ _ _ _ _ Hb).
  destruct op; cbn in Hop; try discriminate; inversion Hop; subst; cbn; rewrite Hr; cbn; reflexivity.
Qed.
Lemma load_group_bare : forall locals results i r t p,
  nth_error locals i = Some t -> nth_error locals r = Some t ->
  check_instrs locals results [LocalGet i; LocalSet r] (bare p) = Some (bare p).
Proof. intros locals results i r t p Hi Hr. cbn. rewrite Hi, Hr. cbn. rewrite valtype_eqb_refl. reflexivity. Qed.
Lemma return_group_bare : forall locals t pv p,
  push_type locals pv = Some t -> check_instrs locals [t] [pv; Return] (bare p) = Some (bare true).
Proof. intros locals t pv p H. cbn [check_instrs]. rewrite (push_type_check _ _ _ _ _ H). cbn. rewrite valtype_eqb_refl. reflexivity. Qed.

(** ** the IR typing facts the generator relies on (checked on the real IR in the correspondence) *)
Section Typed.
  Variable F : ifunc.

  Definition has_ref_type (r : nat) (t : irty) : bool :=
    match find (fun p => Nat.eqb (fst p) r) (refs F) with Some (_, t') => irty_eqb t t' | None => false end.
  Definition vt_eqb (a b : option valtype) : bool :=
    match a, b with Some x, Some y => valtype_eqb x y | _, _ => false end.

  Definition instr_typed (i : IR.instr) : bool :=
    match i_body i with
    | ILoad SArg (VIndex n) =>
        has_ref_type (i_ref i) (i_ty i) && match nth_error (fn_args F) n with Some (_, t) => vt_eqb (vt_of t) (vt_of (i_ty i)) | None => false end
    | IBin o a b =>
        has_ref_type (i_ref i) (i_ty i) &&
        match operand_type F a, operand_type F b with
        | Some ta, Some tb => vt_eqb (vt_of ta) (vt_of tb) &&
                              (match o with BCmp _ => vt_eqb (vt_of (i_ty i)) (Some I32) | _ => vt_eqb (vt_of (i_ty i)) (vt_of ta) end)
        | _, _ => false
        end
    | _ => true
    end.
  Definition ir_typed_b : bool := forallb instr_typed (code F).
End Typed.

Lemma valtype_eqb_eq a b : valtype_eqb a b = true -> a = b.
Proof. destruct a, b; cbn; congruence. Qed.
Lemma vt_eqb_eq a b : vt_eqb a b = true -> exists x, a = Some x /\ b = Some x.
Proof. destruct a as [x|], b as [y|]; cbn; intros H; try discriminate. apply valtype_eqb_eq in H. subst. eauto. Qed.

Section Valid.
  Variable F : ifunc.
  Variables (ps ls : list valtype) (rs : list valtype).
  Hypothesis Hps : all_some (map (fun a => vt_of (snd a)) (fn_args F)) = Some ps.
  Hypothesis Hls : all_some (map (fun p => vt_of (snd p)) (refs F)) = Some ls.
  Hypothesis Hrs : results F = Some rs.
  Let locals := ps ++ ls.

  Lemma length_ps : length ps = argc F.
  Proof. unfold argc. rewrite (all_some_length _ _ Hps), map_length. reflexivity. Qed.

  Lemma loc_type r l : loc F r = Some l -> exists t w, find (fun p => Nat.eqb (fst p) r) (refs F) = Some (r, t) /\ vt_of t = Some w /\ nth_error locals l = Some w.
  Proof.
    unfold loc. destruct (index_of r (refs F)) as [k|] eqn:E; cbn; [|discriminate]. intros H; inversion H; subst.
    destruct (index_of_nth _ _ _ E) as (t & Hn & Hf). exists t.
    assert (Hm : nth_error (map (fun p => vt_of (snd p)) (refs F)) k = Some (vt_of t)) by (rewrite nth_error_map, Hn; reflexivity).
    destruct (vt_of t) as [w|] eqn:Ew.
    - exists w. split; [exact Hf|]. split; [reflexivity|]. unfold locals. rewrite nth_error_app2 by (rewrite length_ps; lia).
      rewrite length_ps. replace (argc F + k - argc F) with k by lia. eapply all_some_nth; eauto.
    - exfalso. clear -Hls Hm. revert ls Hls k Hm. generalize (map (fun p => vt_of (snd p)) (refs F)).
      induction l as [|[y|] l IH]; intros ls0 H k Hm; destruct k; cbn in *; try discriminate.
      + destruct (all_some l) eqn:E; cbn in H; [|discriminate]. eapply IH; eauto.
  Qed.

  Lemma push_value_type v pv t : push_value F v = Some pv -> operand_type F v = Some t ->
    exists w, vt_of t = Some w /\ push_type locals pv = Some w.
  Proof.
    unfold push_value, operand_type. destruct (const_of F v) as [[ct c]|] eqn:Ec.
    - intros Hp Ht. inversion Ht; subst. destruct t as [u| | | | | |], c as [z|f]; try discriminate.
      + destruct (_ && _); [|discriminate]. inversion Hp; subst. exists I32. split; reflexivity.
      + exists F32. split; [reflexivity|]. destruct (_ && _); [inversion Hp; reflexivity|]. destruct (_ || _); [inversion Hp; reflexivity|discriminate].
    - destruct (loc F v) as [l|] eqn:El; cbn; [|discriminate]. intros Hp Ht. inversion Hp; subst.
      destruct (loc_type v l El) as (t' & w & Hf & Hw & Hn). rewrite Hf in Ht. inversion Ht; subst. exists w. split; [exact Hw|]. cbn. exact Hn.
  Qed.

  Lemma binary_opcode_types o t op w : binary_opcode o t = Some op -> vt_of t = Some w ->
    op_types op = Some (w, result_type op w) /\ result_type op w = (match o with BCmp _ => I32 | _ => w end).
  Proof.
    destruct t as [u| | | | | |]; cbn; intros H Hw; try discriminate; inversion Hw; subst;
      destruct o as [| | | | |c| | | | | | | |c| | | | | |z]; try discriminate; try (destruct c; try discriminate); inversion H; subst; cbn; split; reflexivity.
  Qed.

  Lemma gen_instr_valid i g p : instr_typed F i = true -> gen_instr F i = Some g ->
    exists p', check_instrs locals rs g (bare p) = Some (bare p').
  Proof.
    unfold gen_instr, instr_typed. destruct (i_body i) as [sc vn| | | | | | | |o a b| |rv| | | | |] eqn:Eb; try discriminate.
    - (* load of an argument *)
      destruct sc, vn as [x|n]; try discriminate. intros Ht Hg.
      destruct (loc F (i_ref i)) as [l|] eqn:El; [|discriminate]. inversion Hg; subst.
      apply andb_prop in Ht as [Hr Ha]. destruct (nth_error (fn_args F) n) as [[an at_]|] eqn:En; [|discriminate].
      apply vt_eqb_eq in Ha as (w & Ha1 & Ha2).
      destruct (loc_type _ _ El) as (t' & w' & Hf & Hw & Hn). unfold has_ref_type in Hr. rewrite Hf in Hr.
      assert (Et : vt_of t' = vt_of (i_ty i)).
      { clear -Hr. revert Hr. generalize (i_ty i). intros t Hr. destruct t, t'; cbn in *; try discriminate; reflexivity. }
      exists p. eapply load_group_bare with (t := w).
      + unfold locals. rewrite nth_error_app1.
        * eapply all_some_nth; [exact Hps|]. rewrite nth_error_map, En. cbn. rewrite Ha1. reflexivity.
        * rewrite length_ps. unfold argc. apply nth_error_Some. congruence.
      + rewrite Hn. congruence.
    - (* binary instruction *)
      intros Ht Hg. destruct (operand_type F a) as [ta|] eqn:Ea; [|discriminate].
      destruct (push_value F a) as [pa|] eqn:Epa; [|discriminate]. destruct (push_value F b) as [pb|] eqn:Epb; [|discriminate].
      destruct (binary_opcode o ta) as [op|] eqn:Eop; [|discriminate]. destruct (loc F (i_ref i)) as [l|] eqn:El; [|discriminate].
      inversion Hg; subst. apply andb_prop in Ht as [Hr Ht]. destruct (operand_type F b) as [tb|] eqn:Etb; [|discriminate].
      apply andb_prop in Ht as [Hab Hres]. apply vt_eqb_eq in Hab as (w & Hwa & Hwb).
      destruct (push_value_type a pa ta Epa Ea) as (wa & Hwa' & Hpa). destruct (push_value_type b pb tb Epb Etb) as (wb & Hwb' & Hpb).
      assert (wa = w) by congruence. assert (wb = w) by congruence. subst wa wb.
      destruct (binary_opcode_types o ta op w Eop Hwa) as [Hop Hrt].
      destruct (loc_type _ _ El) as (t' & w' & Hf & Hw & Hn). unfold has_ref_type in Hr. rewrite Hf in Hr.
      assert (Et : vt_of t' = vt_of (i_ty i)).
      { clear -Hr. revert Hr. generalize (i_ty i). intros t Hr. destruct t, t'; cbn in *; try discriminate; reflexivity. }
      exists p. eapply binary_group_bare; eauto. rewrite Hn. f_equal. rewrite Hrt.
      destruct o; try (apply vt_eqb_eq in Hres as (x & H1 & H2); congruence).
    - (* return *)
      intros _ Hg. rewrite Hrs in Hg. destruct rv as [v|].
      + destruct (operand_type F v) as [t|] eqn:Et; [|discriminate]. destruct (vt_of t) as [w|] eqn:Ew; [|discriminate].
        destruct rs as [|x [|y r']]; try discriminate. destruct (valtype_eqb x w) eqn:Ex; [|discriminate]. apply valtype_eqb_eq in Ex. subst x.
        destruct (push_value F v) as [pv|] eqn:Ep; [|discriminate]. inversion Hg; subst.
        destruct (push_value_type v pv t Ep Et) as (w' & Hw' & Hpv). assert (w' = w) by congruence. subst w'.
        exists true. apply return_group_bare. exact Hpv.
      + destruct rs; [|discriminate]. inversion Hg; subst. exists true. reflexivity.
  Qed.

  Lemma gen_code_valid : forall c groups p, forallb (instr_typed F) c = true -> gen_code F c = Some groups ->
    exists p', check_instrs locals rs (concat groups) (bare p) = Some (bare p').
  Proof.
    induction c as [|i r IH]; intros groups p Ht Hg; cbn in Hg.
    - inversion Hg; subst. exists p. reflexivity.
    - destruct (gen_instr F i) as [g|] eqn:Eg; [|discriminate]. destruct (gen_code F r) as [gs|] eqn:Egs; [|discriminate]. inversion Hg; subst.
      cbn in Ht. apply andb_prop in Ht as [Hi Hr]. destruct (gen_instr_valid i g p Hi Eg) as (p1 & H1).
      destruct (IH gs p1 Hr eq_refl) as (p2 & H2). exists p2. cbn [concat]. rewrite check_instrs_app, H1. exact H2.
  Qed.
End Valid.

(** the last group of a function that must return a value is a return group: the final stack is polymorphic *)
Lemma gen_code_last_return F : forall c groups, gen_code F c = Some groups ->
  (match rev c with i :: _ => is_ret i | [] => false end) = true ->
  exists front g, groups = front ++ [g] /\ exists pre, g = pre ++ [Return].
Proof.
  intros c groups Hg Hlast. destruct (rev c) as [|i rc] eqn:Er; [discriminate|].
  assert (Hc : c = rev rc ++ [i]) by (rewrite <- (rev_involutive c), Er; reflexivity). subst c. clear Er.
  revert groups Hg. generalize (rev rc). induction l as [|x l IH]; intros groups Hg; cbn in Hg.
  - destruct (gen_instr F i) as [g|] eqn:Eg; [|discriminate]. inversion Hg; subst. exists [], g. split; [reflexivity|].
    unfold gen_instr in Eg. unfold is_ret in Hlast. destruct (i_body i); try discriminate.
    destruct v as [v|].
    + destruct (operand_type F v); [|discriminate]. destruct (results F); [|discriminate]. destruct (vt_of i0); [|discriminate].
      destruct (match l with [x] => valtype_eqb x v0 | _ => false end); [|discriminate]. destruct (push_value F v); [|discriminate].
      inversion Eg; subst. exists [i1]. reflexivity.
    + destruct (results F) as [[|? ?]|]; try discriminate. inversion Eg; subst. exists []. reflexivity.
  - destruct (gen_instr F x) as [g|]; [|discriminate]. destruct (gen_code F (l ++ [i])) as [gs|] eqn:E; [|discriminate]. inversion Hg; subst.
    destruct (IH gs eq_refl) as (front & g' & Hf & Hp). exists (g :: front), g'. split; [cbn; rewrite Hf; reflexivity|exact Hp].
Qed.

(** C07 for the generator model: whatever it emits for a typed IR function is a valid body for the emitted signature *)
Theorem gen_function_valid : forall F ft ls body,
  gen_function F = Some (ft, ls, body) -> ir_typed_b F = true -> check_body ft ls body = true.
Proof.
  intros F ft ls body Hg Ht. unfold gen_function in Hg.
  destruct (all_some (map (fun a => vt_of (snd a)) (fn_args F))) as [ps|] eqn:Hps; [|discriminate].
  destruct (results F) as [rs|] eqn:Hrs; [|discriminate].
  destruct (all_some (map (fun p => vt_of (snd p)) (refs F))) as [ls'|] eqn:Hls; [|discriminate].
  destruct (gen_code F (code F)) as [groups|] eqn:Hgc; [|discriminate].
  destruct (match rs with [] => true | _ => ends_with_return F end) eqn:Hend; [|discriminate].
  inversion Hg; subst. clear Hg. unfold check_body. cbn [ft_params ft_results].
  destruct (gen_code_valid F ps ls rs Hps Hls Hrs (code F) groups false Ht Hgc) as (p' & Hc).
  fold (bare false). rewrite Hc.
  destruct rs as [|t [|t2 r2]].
  - cbn. reflexivity.
  - (* one result: the code ends with a return, so the final stack is polymorphic *)
    unfold ends_with_return in Hend.
    destruct (gen_code_last_return F (code F) groups Hgc Hend) as (front & g & Hfg & pre & Hpre). subst groups g.
    rewrite concat_app in Hc. cbn [concat] in Hc. rewrite app_nil_r, app_assoc in Hc. rewrite check_instrs_app in Hc.
    destruct (check_instrs (ps ++ ls) [t] (concat front ++ pre) (bare false)) as [s1|]; [|discriminate].
    cbn in Hc. destruct (pop t s1) as [s2|]; [|discriminate]. cbn in Hc. inversion Hc; subst. cbn. reflexivity.
  - exfalso. unfold results in Hrs. destruct (is_void (fn_ret F)); [discriminate|]. destruct (vt_of (fn_ret F)); discriminate.
Qed.
