(** Boolean equality on IR programs (used to compare the lowering model's output with the real compiler's). *)
From Coq Require Import String ZArith List Bool PrimFloat Arith.
From NSL Require Import Model.PyNum Model.IR Model.PyTree.
Import ListNotations.

Fixpoint list_eqb {A} (eq : A -> A -> bool) (a b : list A) : bool :=
  match a, b with [], [] => true | x :: a', y :: b' => eq x y && list_eqb eq a' b' | _, _ => false end.
Definition opt_eqb {A} (eq : A -> A -> bool) (a b : option A) : bool :=
  match a, b with Some x, Some y => eq x y | None, None => true | _, _ => false end.

Fixpoint irty_eqb (a b : irty) : bool :=
  match a, b with
  | ITInt u, ITInt v => Bool.eqb u v
  | ITFloat, ITFloat => true
  | ITVec e n, ITVec f m => irty_eqb e f && Nat.eqb n m
  | ITMat e r k, ITMat f r' k' => irty_eqb e f && Nat.eqb r r' && Nat.eqb k k'
  | ITStruct n fs, ITStruct m gs =>
      String.eqb n m && (fix go (fs gs : list (string * irty)) : bool :=
                           match fs, gs with [], [] => true | (x, t) :: fs', (y, u) :: gs' => String.eqb x y && irty_eqb t u && go fs' gs' | _, _ => false end) fs gs
  | ITArr e d, ITArr f d' => irty_eqb e f && list_eqb Nat.eqb d d'
  | ITVoid, ITVoid => true
  | _, _ => false
  end.

Definition cmp_eqb (a b : cmp) : bool :=
  match a, b with CLt, CLt | CLe, CLe | CGt, CGt | CGe, CGe | CEq, CEq | CNe, CNe => true | _, _ => false end.
Definition binopc_eqb (a b : binopc) : bool :=
  match a, b with
  | BAdd, BAdd | BSub, BSub | BMul, BMul | BDiv, BDiv | BMod, BMod | BLgAnd, BLgAnd | BLgOr, BLgOr
  | BVAdd, BVAdd | BVSub, BVSub | BVMul, BVMul | BVDiv, BVDiv | BVMod, BVMod | BVLgAnd, BVLgAnd | BVLgOr, BVLgOr
  | BVMulS, BVMulS | BVDivS, BVDivS | BMatMul, BMatMul => true
  | BCmp c, BCmp d | BVCmp c, BVCmp d => cmp_eqb c d
  | BOther x, BOther y => Z.eqb x y
  | _, _ => false
  end.
Definition vscope_eqb (a b : vscope) : bool := match a, b with SGlobal, SGlobal | SArg, SArg | SLocal, SLocal => true | _, _ => false end.
Definition varname_eqb (a b : varname) : bool :=
  match a, b with VName x, VName y => String.eqb x y | VIndex i, VIndex j => Nat.eqb i j | _, _ => false end.
Definition idx_kind_eqb (a b : idx_kind) : bool := match a, b with KArray, KArray | KVector, KVector | KMatrix, KMatrix => true | _, _ => false end.

Definition ibody_eqb (a b : ibody) : bool :=
  match a, b with
  | ILoad s v, ILoad s' v' => vscope_eqb s s' && varname_eqb v v'
  | IStore s v x, IStore s' v' x' => vscope_eqb s s' && varname_eqb v v' && Nat.eqb x x'
  | ILoadIdx k x y, ILoadIdx k' x' y' => idx_kind_eqb k k' && Nat.eqb x x' && Nat.eqb y y'
  | IStoreArray x y z, IStoreArray x' y' z' => Nat.eqb x x' && Nat.eqb y y' && Nat.eqb z z'
  | ISetIdx k x y z, ISetIdx k' x' y' z' => idx_kind_eqb k k' && Nat.eqb x x' && Nat.eqb y y' && Nat.eqb z z'
  | ILoadMember o m, ILoadMember o' m' => Nat.eqb o o' && String.eqb m m'
  | IStoreMember o m x, IStoreMember o' m' x' => Nat.eqb o o' && String.eqb m m' && Nat.eqb x x'
  | IShuffle x y l, IShuffle x' y' l' => Nat.eqb x x' && Nat.eqb y y' && list_eqb Nat.eqb l l'
  | IBin o x y, IBin o' x' y' => binopc_eqb o o' && Nat.eqb x x' && Nat.eqb y y'
  | IBranch p t f, IBranch p' t' f' => opt_eqb Nat.eqb p p' && opt_eqb Nat.eqb t t' && opt_eqb Nat.eqb f f'
  | IRet v, IRet v' => opt_eqb Nat.eqb v v'
  | ICall f l, ICall f' l' => String.eqb f f' && list_eqb Nat.eqb l l'
  | INewVar x, INewVar y => String.eqb x y
  | ICast x, ICast y => Nat.eqb x y
  | IConstruct l, IConstruct l' => list_eqb Nat.eqb l l'
  | IUnknown x, IUnknown y => Z.eqb x y
  | _, _ => false
  end.

Definition instr_eqb (a b : instr) : bool := Nat.eqb (i_ref a) (i_ref b) && irty_eqb (i_ty a) (i_ty b) && ibody_eqb (i_body a) (i_body b).
Definition cval_same (a b : cval) : bool :=
  match a, b with KInt x, KInt y => Z.eqb x y | KFloat x, KFloat y => float_same x y | _, _ => false end.
Definition block_eqb (a b : block) : bool := Nat.eqb (b_ref a) (b_ref b) && list_eqb instr_eqb (b_code a) (b_code b).
Definition ifunc_eqb (a b : ifunc) : bool :=
  String.eqb (fn_name a) (fn_name b) &&
  list_eqb (fun x y => String.eqb (fst x) (fst y) && irty_eqb (snd x) (snd y)) (fn_args a) (fn_args b) &&
  irty_eqb (fn_ret a) (fn_ret b) &&
  list_eqb (fun x y => Nat.eqb (fst (fst x)) (fst (fst y)) && irty_eqb (snd (fst x)) (snd (fst y)) && cval_same (snd x) (snd y)) (fn_consts a) (fn_consts b) &&
  list_eqb block_eqb (fn_blocks a) (fn_blocks b).
Definition program_eqb (a b : program) : bool :=
  list_eqb ifunc_eqb (p_funcs a) (p_funcs b) && list_eqb String.eqb (p_globals a) (p_globals b).
