(** * C01, stage 2: elaboration (typing + implicit casts) of pure scalar expressions preserves the reference semantics.
    For every source expression built from int / float literals, int / float variables and the 13 binary operators:
    whenever the reference semantics gives the expression a value, the typed expression the front-end model produces
    (operands converted to the common type, result type from ResolveBinaryExpressionType) evaluates, with the VM's own
    operators ([teval]), to that same value, and the value has the static type. *)
From Coq Require Import String ZArith List Bool PrimFloat Arith Lia.
From NSL Require Import Base.Types Base.Syntax Spec.Overload Model.PyNum Model.IR Model.VM Model.TypesBin Model.Elab Model.Lower Spec.RefSem
                        Proofs.OpsAgree Proofs.LowerExprProofs.
Import ListNotations.

Fixpoint spure (e : expr) : bool :=
  match e with EInt _ | EFloat _ | EVar _ => true | EBin _ l r => spure l && spure r | _ => false end.

Definition tint := TPrim (PScalar CInt).
Definition tfloat := TPrim (PScalar CFloat).
Definition num_ty (t : ty) : Prop := t = tint \/ t = tfloat.
Definition has_ty (v : rval) (t : ty) : Prop := match v with RInt _ => t = tint | RFloat _ => t = tfloat end.

Definition is_logic (o : binop) : bool := match o with OLand | OLor => true | _ => false end.
(** the restriction of the fragment: && and || on int operands (on floats the front end types the 0/1 result as float) *)
Fixpoint tok (e : texpr) : bool :=
  match e with
  | XBin o _ l r => tok l && tok r && (if is_logic o then ty_eqb (type_of l) tint && ty_eqb (type_of r) tint else true)
  | XCast _ a => tok a
  | _ => true
  end.

Lemma resolve_scalar o cl cr : cl <> CUInt -> cr <> CUInt ->
  resolve_binop o (PScalar cl) (PScalar cr) =
  TypesBin.ROk (if is_comparison o then PScalar CInt else PScalar (common_scalar cl cr)) (PScalar (common_scalar cl cr)) (PScalar (common_scalar cl cr)).
Proof. intros Hl Hr. destruct cl, cr; try congruence; destruct o; reflexivity. Qed.

(** conversion of a value to a common component type *)
Definition conv (c : comp) (v : rval) : rres rval :=
  match c, v with CFloat, RInt z => rdo f <- to_f (RInt z); RefSem.ROk (RFloat f) | _, _ => RefSem.ROk v end.
Definition comp_of_val (v : rval) : comp := match v with RInt _ => CInt | RFloat _ => CFloat end.

Lemma eval_binop_conv o a b v : eval_binop o a b = RefSem.ROk v -> is_logic o = false \/ both_int a b = true ->
  let base := common_scalar (comp_of_val a) (comp_of_val b) in
  exists a' b', conv base a = RefSem.ROk a' /\ conv base b = RefSem.ROk b' /\ eval_binop o a' b' = RefSem.ROk v /\
                comp_of_val a' = base /\ comp_of_val b' = base.
Proof.
  intros H Hl. destruct a as [x|f], b as [y|g]; cbn [comp_of_val common_scalar comp_eqb orb conv].
  - exists (RInt x), (RInt y). auto.
  - cbn in Hl. destruct Hl as [Hl|Hl]; [|discriminate].
    assert (Hx : exists fx, to_f (RInt x) = RefSem.ROk fx).
    { cbn [to_f]. destruct (float_of_Z x) eqn:E; [eexists; reflexivity| |]; exfalso; unfold eval_binop in H; destruct o; try discriminate; cbn in H; rewrite E in H; discriminate. }
    destruct Hx as [fx Hx]. exists (RFloat fx), (RFloat g). rewrite Hx. cbn [rbind]. repeat split; auto.
    unfold eval_binop in *. destruct o; try discriminate; cbn [cmp_of] in *; cbn [to_f] in *; rewrite Hx in H; cbn [rbind] in *; exact H.
  - cbn in Hl. destruct Hl as [Hl|Hl]; [|discriminate].
    assert (Hy : exists fy, to_f (RInt y) = RefSem.ROk fy).
    { cbn [to_f]. destruct (float_of_Z y) eqn:E; [eexists; reflexivity| |]; exfalso; unfold eval_binop in H; destruct o; try discriminate; cbn in H; rewrite E in H; discriminate. }
    destruct Hy as [fy Hy]. exists (RFloat f), (RFloat fy). rewrite Hy. cbn [rbind]. repeat split; auto.
    unfold eval_binop in *. destruct o; try discriminate; cbn [cmp_of] in *; cbn [to_f] in *; rewrite Hy in H; cbn [rbind] in *; exact H.
  - exists (RFloat f), (RFloat g). auto.
Qed.

Lemma eval_binop_ty o a b v : eval_binop o a b = RefSem.ROk v -> comp_of_val a = comp_of_val b ->
  comp_of_val v = if is_comparison o || is_logic o then CInt else comp_of_val a.
Proof.
  intros H Hc. destruct a as [x|f], b as [y|g]; try discriminate; unfold eval_binop in H; destruct o; cbn in *;
    repeat match type of H with
           | context [if ?c then _ else _] => destruct c; try discriminate
           | context [ri ?z] => let E := fresh in destruct (ri z) eqn:E; try discriminate; apply ri_ok in E; subst
           end; inversion H; subst; reflexivity.
Qed.

Lemma scalar_op_flag o b1 b2 x y : (scalar_opc o = BDiv -> b1 = b2) -> scalar_op (scalar_opc o) b1 x y = scalar_op (scalar_opc o) b2 x y.
Proof. intros H. destruct o; try reflexivity. rewrite (H eq_refl). reflexivity. Qed.

Section Elab2.
  Variable M : module.
  Variable G : genv.
  Variable structs : list sdef.
  Variable gl args : list string.
  Variable cs : list (nat * irty * cval).
  Variable locals : list string.
  Variable fr : VM.frame.
  Variable vs : vmstate.
  Notation tev := (teval structs gl args cs locals fr vs).
  Variable env : tenv.
  Variable st : RefSem.state.
  Hypothesis Henv : forall x t, tlookup env x = Some t ->
    num_ty t /\ exists w, var_get st x = RefSem.ROk (SV w) /\ has_ty w t /\ var_val gl args locals fr vs x = Ok (v_of w).

  Lemma has_ty_comp v t : has_ty v t -> t = TPrim (PScalar (comp_of_val v)).
  Proof. destruct v; cbn; intros ->; reflexivity. Qed.

  Lemma cast_to_eval te va base a' : tev te = Ok (v_of va) -> has_ty va (type_of te) -> tpure te = true -> tok te = true ->
    (base = CInt \/ base = CFloat) -> (comp_of_val va = CFloat -> base = CFloat) -> conv base va = RefSem.ROk a' ->
    tev (cast_to (PScalar base) te) = Ok (v_of a') /\ type_of (cast_to (PScalar base) te) = TPrim (PScalar base) /\
    tpure (cast_to (PScalar base) te) = true /\ tok (cast_to (PScalar base) te) = true /\ comp_of_val a' = base.
  Proof.
    intros He Ht Hp Hk Hb Hn Hc. unfold cast_to. rewrite (has_ty_comp _ _ Ht). cbn [pty_eqb].
    destruct va as [z|f]; cbn [comp_of_val] in *.
    - destruct Hb as [->| ->]; cbn [comp_eqb].
      + cbn in Hc. inversion Hc; subst. repeat split; auto.
      + cbn [conv] in Hc. cbn [to_f] in Hc. destruct (float_of_Z z) as [f| |] eqn:Ef; try discriminate. cbn in Hc. inversion Hc; subst.
        repeat split; auto. cbn [teval]. rewrite He. cbn [bind v_of adapt]. cbn. rewrite Ef. reflexivity.
    - rewrite (Hn eq_refl) in *. cbn [comp_eqb]. cbn in Hc. inversion Hc; subst. repeat split; auto.
  Qed.

  Lemma num_ty_cases t : num_ty t -> exists c, t = TPrim (PScalar c) /\ c <> CUInt.
  Proof. intros [-> | ->]; eexists; (split; [reflexivity|discriminate]). Qed.
  Lemma common_num cl cr : cl <> CUInt -> cr <> CUInt -> (common_scalar cl cr = CInt \/ common_scalar cl cr = CFloat) /\ common_scalar cl cr <> CUInt.
  Proof. destruct cl, cr; try congruence; cbn; (split; [auto|discriminate]). Qed.
  Lemma type_of_cast_to p x : (exists q, type_of x = TPrim q) -> type_of (cast_to p x) = TPrim p.
  Proof. intros [q Hq]. unfold cast_to. rewrite Hq. destruct (pty_eqb q p) eqn:E; [apply pty_eqb_eq in E; congruence|reflexivity]. Qed.
  Lemma tok_cast_to p x : tok (cast_to p x) = tok x.
  Proof. unfold cast_to. destruct (type_of x); try reflexivity. destruct (pty_eqb p0 p); reflexivity. Qed.

  Lemma tilits_cast_to p x : tilits (cast_to p x) = tilits x.
  Proof. unfold cast_to. destruct (type_of x); try reflexivity. destruct (pty_eqb p0 p); reflexivity. Qed.
  Lemma tflits_cast_to p x : tflits (cast_to p x) = tflits x.
  Proof. unfold cast_to. destruct (type_of x); try reflexivity. destruct (pty_eqb p0 p); reflexivity. Qed.
  Lemma tpure_cast_to c x : tpure x = true -> tpure (cast_to (PScalar c) x) = true.
  Proof. intros H. unfold cast_to. destruct (type_of x); try exact H. destruct (pty_eqb p (PScalar c)); [exact H|exact H]. Qed.

  Lemma elab_pure_numty : forall e te, spure e = true -> elab G COn env e = EOk te -> num_ty (type_of te).
  Proof.
    induction e as [z|f|x|o l IHl r IHr| | | | | | | ]; intros te Hs He; try discriminate.
    - cbn in He. inversion He; subst. left; reflexivity.
    - cbn in He. inversion He; subst. right; reflexivity.
    - cbn in He. destruct (tlookup env x) as [t|] eqn:Et; [|discriminate]. inversion He; subst. apply (Henv x t Et).
    - cbn [spure] in Hs. apply andb_prop in Hs as [Hsl Hsr]. cbn [elab kids ebind] in He.
      destruct (elab G COn env l) as [l'| |] eqn:El; cbn [ebind] in He; try discriminate.
      destruct (elab G COn env r) as [r'| |] eqn:Er; cbn [ebind] in He; try discriminate.
      destruct (num_ty_cases _ (IHl _ Hsl eq_refl)) as (cl & Hl & Hcl). destruct (num_ty_cases _ (IHr _ Hsr eq_refl)) as (cr & Hr & Hcr).
      rewrite Hl, Hr in He. rewrite (resolve_scalar o cl cr Hcl Hcr) in He. cbn [is_scalar andb self_on] in He. inversion He; subst. cbn [type_of].
      destruct (common_num cl cr Hcl Hcr) as [[E|E] _]; destruct (is_comparison o); rewrite ?E; unfold num_ty, tint, tfloat; auto.
  Qed.

  Lemma elab_pure_tpure : forall e te, spure e = true -> elab G COn env e = EOk te ->
    (forall f, In f (tflits te) -> PrimFloat.eqb f f = true) -> tpure te = true.
  Proof.
    induction e as [z|f|x|o l IHl r IHr| | | | | | | ]; intros te Hs He Hnan; try discriminate.
    - cbn in He. inversion He; reflexivity.
    - cbn in He. inversion He; subst. cbn. apply Hnan. left. reflexivity.
    - cbn in He. destruct (tlookup env x) as [t|] eqn:Et; [|discriminate]. inversion He; subst. destruct (Henv x t Et) as ([-> | ->] & _); reflexivity.
    - cbn [spure] in Hs. apply andb_prop in Hs as [Hsl Hsr]. cbn [elab kids ebind] in He.
      destruct (elab G COn env l) as [l'| |] eqn:El; cbn [ebind] in He; try discriminate.
      destruct (elab G COn env r) as [r'| |] eqn:Er; cbn [ebind] in He; try discriminate.
      destruct (num_ty_cases _ (elab_pure_numty l l' Hsl El)) as (cl & Hl & Hcl). destruct (num_ty_cases _ (elab_pure_numty r r' Hsr Er)) as (cr & Hr & Hcr).
      rewrite Hl, Hr in He. rewrite (resolve_scalar o cl cr Hcl Hcr) in He. cbn [is_scalar andb self_on] in He. inversion He; subst te; clear He.
      cbn [tflits] in Hnan. rewrite !tflits_cast_to in Hnan.
      assert (Hpl : tpure l' = true) by (apply (IHl l' Hsl eq_refl); intros f Hf; apply Hnan; apply in_or_app; left; exact Hf).
      assert (Hpr : tpure r' = true) by (apply (IHr r' Hsr eq_refl); intros f Hf; apply Hnan; apply in_or_app; right; exact Hf).
      destruct (is_comparison o); cbn [tpure]; rewrite !tpure_cast_to by assumption; reflexivity.
  Qed.

  Lemma elab_pure_correct : forall e te, spure e = true -> elab G COn env e = EOk te -> tok te = true ->
    (forall z, In z (tilits te) -> tev (XInt z) = Ok (VInt z)) ->
    (forall f, In f (tflits te) -> tev (XFloat f) = Ok (VFloat f) /\ PrimFloat.eqb f f = true) ->
    tpure te = true /\
    forall fuel s st', eval M fuel e st = RefSem.ROk (s, st') -> st' = st /\ exists v, s = SV v /\ has_ty v (type_of te) /\ tev te = Ok (v_of v).
  Proof.
    induction e as [z|f|x|o l IHl r IHr| | | | | | | ]; intros te Hs He Hk Hil Hfl; try discriminate.
    - cbn in He. inversion He; subst. split; [reflexivity|].
      intros [|fu] s st' H; [discriminate|]. cbn in H. destruct (ri z) as [v| | |] eqn:Er; try discriminate. cbn in H. inversion H; subst.
      apply ri_ok in Er. subst. split; [reflexivity|]. exists (RInt z). split; [reflexivity|]. split; [reflexivity|]. apply Hil. left. reflexivity.
    - cbn in He. inversion He; subst. destruct (Hfl f (or_introl eq_refl)) as [Hf Hn]. split; [exact Hn|].
      intros [|fu] s st' H; [discriminate|]. cbn in H. inversion H; subst.
      split; [reflexivity|]. exists (RFloat f). split; [reflexivity|]. split; [reflexivity|]. exact Hf.
    - cbn in He. destruct (tlookup env x) as [t|] eqn:Et; [|discriminate]. inversion He; subst.
      destruct (Henv x t Et) as (Hnt & w & Hg & Hw & Hv). split; [destruct Hnt as [-> | ->]; reflexivity|].
      intros [|fu] s st' H; [discriminate|]. cbn in H. rewrite Hg in H. cbn in H. inversion H; subst.
      split; [reflexivity|]. exists w. split; [reflexivity|]. split; [exact Hw|]. exact Hv.
    - cbn [spure] in Hs. apply andb_prop in Hs as [Hsl Hsr]. cbn [elab kids ebind] in He.
      destruct (elab G COn env l) as [l'| |] eqn:El; cbn [ebind] in He; try discriminate.
      destruct (elab G COn env r) as [r'| |] eqn:Er; cbn [ebind] in He; try discriminate.
      destruct (num_ty_cases _ (elab_pure_numty l l' Hsl El)) as (cl & Hl & Hcl). destruct (num_ty_cases _ (elab_pure_numty r r' Hsr Er)) as (cr & Hr & Hcr).
      rewrite Hl, Hr in He. rewrite (resolve_scalar o cl cr Hcl Hcr) in He. cbn [is_scalar andb self_on] in He. inversion He; subst te; clear He.
      set (base := common_scalar cl cr) in *.
      cbn [tok] in Hk. rewrite !tok_cast_to in Hk. apply andb_prop in Hk as [Hk Hlg]. apply andb_prop in Hk as [Hkl Hkr].
      destruct (IHl l' Hsl eq_refl Hkl) as (Hpl & Hsem_l).
      { intros q Hq; apply Hil; cbn [tilits]; rewrite !tilits_cast_to; apply in_or_app; left; exact Hq. }
      { intros q Hq; apply Hfl; cbn [tflits]; rewrite !tflits_cast_to; apply in_or_app; left; exact Hq. }
      destruct (IHr r' Hsr eq_refl Hkr) as (Hpr & Hsem_r).
      { intros q Hq; apply Hil; cbn [tilits]; rewrite !tilits_cast_to; apply in_or_app; right; exact Hq. }
      { intros q Hq; apply Hfl; cbn [tflits]; rewrite !tflits_cast_to; apply in_or_app; right; exact Hq. }
      split.
      { destruct (is_comparison o); cbn [tpure]; rewrite !tpure_cast_to by assumption; reflexivity. }
      intros [|fu] s st' H; [discriminate|]. cbn [eval] in H.
      destruct (eval M fu l st) as [[sa st1]| | |] eqn:Ea; cbn [rbind] in H; try discriminate.
      destruct (Hsem_l _ _ _ Ea) as (-> & va & -> & Hta & Hva).
      destruct (eval M fu r st) as [[sb st2]| | |] eqn:Eb; cbn [rbind] in H; try discriminate.
      destruct (Hsem_r _ _ _ Eb) as (-> & vb & -> & Htb & Hvb).
      cbn [eval_binop_sto] in H. destruct (eval_binop o va vb) as [v| | |] eqn:Eo; cbn [rbind] in H; try discriminate. inversion H; subst s st'; clear H.
      split; [reflexivity|]. exists v. split; [reflexivity|].
      pose proof (has_ty_comp _ _ Hta) as Hca. pose proof (has_ty_comp _ _ Htb) as Hcb. rewrite Hl in Hca. rewrite Hr in Hcb. inversion Hca; inversion Hcb; subst cl cr.
      assert (Hlog : is_logic o = false \/ both_int va vb = true).
      { destruct (is_logic o) eqn:Elg; [right|left; reflexivity]. apply andb_prop in Hlg as [H1 _].
        rewrite (type_of_cast_to _ l' (ex_intro _ _ Hl)) in H1. unfold base in H1. destruct va, vb; cbn in H1; try discriminate; reflexivity. }
      destruct (eval_binop_conv o va vb v Eo Hlog) as (a' & b' & Hca' & Hcb' & Eo' & Ha' & Hb'). fold base in Hca', Hcb', Ha', Hb'.
      destruct (common_num _ _ Hcl Hcr) as [Hbase _]. fold base in Hbase.
      assert (Hna : comp_of_val va = CFloat -> base = CFloat) by (intros E; unfold base; rewrite E; reflexivity).
      assert (Hnb : comp_of_val vb = CFloat -> base = CFloat) by (intros E; unfold base; rewrite E; destruct (comp_of_val va); reflexivity).
      destruct (cast_to_eval l' va base a' Hva Hta Hpl Hkl Hbase Hna Hca') as (Hea & _).
      destruct (cast_to_eval r' vb base b' Hvb Htb Hpr Hkr Hbase Hnb Hcb') as (Heb & _).
      pose proof (eval_binop_ty o a' b' v Eo' (eq_trans Ha' (eq_sym Hb'))) as Hvt. rewrite Ha' in Hvt.
      split.
      { cbn [type_of]. destruct v; cbn [comp_of_val has_ty] in *; destruct (is_comparison o) eqn:Ecmp; cbn [orb] in Hvt; unfold tint, tfloat; try reflexivity; try discriminate.
        - destruct (is_logic o) eqn:Elg; [|rewrite <- Hvt; reflexivity]. destruct Hlog as [?|Hbi]; [discriminate|]. destruct va, vb; try discriminate. reflexivity.
        - destruct (is_logic o); [discriminate|]. rewrite <- Hvt. reflexivity. }
      cbn [teval]. rewrite Hea, Heb. cbn [bind].
      rewrite (scalar_op_flag o _ (both_int a' b')).
      { apply scalar_op_agrees. exact Eo'. }
      intros Hdiv. assert (Ho : o = ODiv) by (destruct o; try discriminate; reflexivity). subst o. cbn [is_comparison].
      destruct a', b'; cbn [comp_of_val] in *; rewrite <- ?Ha' in *; try discriminate; cbn; try reflexivity; rewrite <- Ha'; reflexivity.
  Qed.
End Elab2.
